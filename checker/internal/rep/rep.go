// Package rep is the obligation / verdict / known-finding / evidence model.
package rep

import (
	"encoding/json"
	"fmt"
	"os"
	"path/filepath"
	"sort"
	"strings"
)

type Verdict string

const (
	Holds     Verdict = "HOLDS"
	Violated  Verdict = "VIOLATED"
	Undecided Verdict = "UNDECIDED"
)

// Obligation is one rule instance evaluated on one construct.
type Obligation struct {
	Rule    string  `json:"rule"`           // e.g. R07.G
	Key     string  `json:"key"`            // stable: property/rule/construct (never a line number)
	Verdict Verdict `json:"verdict"`        //
	Site    string  `json:"site,omitempty"` // file:line (informational)
	Detail  string  `json:"detail,omitempty"`
	Known   bool    `json:"known_finding,omitempty"`
	// Trivial marks obligations that matched no real construct (bookkeeping, floors).
	Trivial bool `json:"-"`
}

// RuleInfo documents a rule in the evidence.
type RuleInfo struct {
	ID    string `json:"id"`
	Text  string `json:"text"`
	Floor int    `json:"floor,omitempty"`
	Count int    `json:"instances"`
}

// Report collects the obligations of one property run.
type Report struct {
	Property    string
	Obls        []Obligation
	Rules       []*RuleInfo
	ruleIdx     map[string]*RuleInfo
	Assumptions []string
	NotDecided  []string
	Extra       map[string]any
	Explanation string
	Level       string
}

func NewReport(prop string) *Report {
	return &Report{Property: prop, ruleIdx: map[string]*RuleInfo{}, Extra: map[string]any{}, Level: "other"}
}

// Rule registers a rule text and floor (minimum number of obligations confirmed by hand).
func (r *Report) Rule(id, text string, floor int) {
	if _, ok := r.ruleIdx[id]; ok {
		return
	}
	ri := &RuleInfo{ID: id, Text: text, Floor: floor}
	r.ruleIdx[id] = ri
	r.Rules = append(r.Rules, ri)
}

func (r *Report) add(rule, construct string, v Verdict, site, detail string) {
	key := r.Property + "/" + rule + "/" + construct
	r.Obls = append(r.Obls, Obligation{Rule: rule, Key: key, Verdict: v, Site: site, Detail: detail})
	if ri, ok := r.ruleIdx[rule]; ok {
		ri.Count++
	} else {
		r.Rule(rule, "", 0)
		r.ruleIdx[rule].Count++
	}
}

func (r *Report) Hold(rule, construct, site, detail string) {
	r.add(rule, construct, Holds, site, detail)
}
func (r *Report) Violate(rule, construct, site, detail string) {
	r.add(rule, construct, Violated, site, detail)
}
func (r *Report) Undecide(rule, construct, site, detail string) {
	r.add(rule, construct, Undecided, site, detail)
}

// Check is Hold when ok, else Violate.
func (r *Report) Check(ok bool, rule, construct, site, detail string) {
	if ok {
		r.Hold(rule, construct, site, detail)
	} else {
		r.Violate(rule, construct, site, detail)
	}
}

// KnownFindings is the committed file /verif/known_findings.json.
type KnownFindings struct {
	Findings []KnownFinding `json:"findings"`
	Fixed    []string       `json:"fixed"`
}

type KnownFinding struct {
	Property string `json:"property"`
	Key      string `json:"key"` // exact obligation key
	What     string `json:"what"`
	Repro    string `json:"reproduced,omitempty"`
}

func LoadKnown(path string) (*KnownFindings, error) {
	b, err := os.ReadFile(path)
	if err != nil {
		if os.IsNotExist(err) {
			return &KnownFindings{}, nil
		}
		return nil, err
	}
	k := &KnownFindings{}
	if err := json.Unmarshal(b, k); err != nil {
		return nil, fmt.Errorf("%s: %w", path, err)
	}
	return k, nil
}

// Outcome of finishing a report.
type Outcome struct {
	Violations []Obligation
	Known      []Obligation
	KnownWhat  map[string]string
}

// Finish applies floors and known findings.
func (r *Report) Finish(k *KnownFindings) Outcome {
	for _, ri := range r.Rules {
		if ri.Floor > 0 && ri.Count < ri.Floor {
			r.Obls = append(r.Obls, Obligation{Rule: ri.ID, Key: r.Property + "/" + ri.ID + "/floor", Verdict: Undecided,
				Detail: fmt.Sprintf("rule matched %d instances, floor confirmed by hand is %d: the rule would pass vacuously", ri.Count, ri.Floor), Trivial: true})
		}
	}
	known := map[string]string{}
	for _, f := range k.Findings {
		if f.Property == r.Property {
			known[f.Key] = f.What
		}
	}
	out := Outcome{KnownWhat: map[string]string{}}
	for i := range r.Obls {
		o := &r.Obls[i]
		if o.Verdict == Holds {
			continue
		}
		if what, ok := known[o.Key]; ok && o.Verdict == Violated {
			o.Known = true
			out.Known = append(out.Known, *o)
			out.KnownWhat[o.Key] = what
			continue
		}
		out.Violations = append(out.Violations, *o)
	}
	return out
}

// Evidence file per EVIDENCE.schema.json.
type Evidence struct {
	PropertyID  string         `json:"property_id"`
	Tier        string         `json:"tier"`
	Seed        int            `json:"seed"`
	Level       string         `json:"level"`
	Coverage    map[string]any `json:"coverage"`
	Assumptions []string       `json:"assumptions"`
	WallS       float64        `json:"wall_s"`
	Violations  int            `json:"violations"`
}

func (r *Report) Evidence(tier string, seed int, wall float64, out Outcome, extra map[string]any) *Evidence {
	distinct := map[string]bool{}
	discharged := 0
	for _, o := range r.Obls {
		if o.Trivial {
			continue
		}
		distinct[o.Key] = true
		if o.Verdict == Holds {
			discharged++
		}
	}
	// samples: up to 3 per rule, violated/known first
	perRule := map[string]int{}
	var samples []any
	obls := append([]Obligation(nil), r.Obls...)
	sort.SliceStable(obls, func(i, j int) bool {
		ri, rj := obls[i].Verdict != Holds, obls[j].Verdict != Holds
		if ri != rj {
			return ri
		}
		return false
	})
	for _, o := range obls {
		lim := 3
		if o.Verdict != Holds {
			lim = 40
		}
		if perRule[o.Rule+string(o.Verdict)] >= lim {
			continue
		}
		perRule[o.Rule+string(o.Verdict)]++
		samples = append(samples, o)
	}
	cov := map[string]any{
		"explanation":         r.Explanation,
		"rules":               r.Rules,
		"obligations":         len(r.Obls),
		"discharged":          discharged,
		"evaluations":         len(r.Obls),
		"distinct_nontrivial": len(distinct),
		"rule":                "one obligation per (rule, construct) pair found in /repo's current source; distinct = distinct keys; non-trivial = the obligation matched a real construct (floor/bookkeeping entries excluded)",
		"samples":             samples,
		"known_findings":      len(out.Known),
		"not_decided":         r.NotDecided,
		"exhaustive":          true,
		"trusted_base": []string{"go/packages, go/types, go/ssa and the CHA/VTA call graphs of golang.org/x/tools v0.29.0",
			"the spec tables in checker/internal/props (transcribed from the MTProto 1.0 / TL documents)",
			"hand-written summaries of library functions (bytes.Equal, big.Int.Cmp/Bytes, binary.*, crypto/rand, math/rand, io.ReadFull, strings.Index*)"},
	}
	for k, v := range r.Extra {
		cov[k] = v
	}
	for k, v := range extra {
		cov[k] = v
	}
	if r.Assumptions == nil {
		r.Assumptions = []string{}
	}
	r.Assumptions = append(r.Assumptions, "64-bit int (the library does not type-check with GOARCH=386)",
		"the go-dry / std sources found in the module cache and GOROOT are the ones the build uses")
	if r.NotDecided == nil {
		cov["not_decided"] = []string{}
	}
	return &Evidence{PropertyID: r.Property, Tier: tier, Seed: seed, Level: r.Level, Coverage: cov,
		Assumptions: r.Assumptions, WallS: wall, Violations: len(out.Violations)}
}

func WriteJSON(path string, v any) error {
	if err := os.MkdirAll(filepath.Dir(path), 0o755); err != nil {
		return err
	}
	b, err := json.MarshalIndent(v, "", " ")
	if err != nil {
		return err
	}
	return os.WriteFile(path, append(b, '\n'), 0o644)
}

// WriteReplay writes the replay file for a failed check.
func WriteReplay(path, prop, tier string, viols []Obligation, rules []*RuleInfo) error {
	text := map[string]string{}
	for _, ri := range rules {
		text[ri.ID] = ri.Text
	}
	type item struct {
		Obligation
		RuleText string `json:"rule_text"`
	}
	var items []item
	for _, v := range viols {
		items = append(items, item{v, text[v.Rule]})
	}
	return WriteJSON(path, map[string]any{
		"property": prop, "tier": tier,
		"rerun":      fmt.Sprintf("./run.sh %s %s", prop, tier),
		"violations": items,
	})
}

func Short(s string, n int) string {
	s = strings.ReplaceAll(s, "\n", " ")
	if len(s) > n {
		return s[:n] + "…"
	}
	return s
}
