package props

import (
	"go/types"

	"golang.org/x/tools/go/ssa"
)

func arrayLenOfType(a *ssa.Alloc) int64 {
	p, ok := a.Type().Underlying().(*types.Pointer)
	if !ok {
		return -1
	}
	if arr, ok := p.Elem().Underlying().(*types.Array); ok {
		return arr.Len()
	}
	return -1
}
