package props

import (
	"go/ast"
	"go/constant"
	"go/token"
	"go/types"

	"golang.org/x/tools/go/packages"

	"golang.org/x/tools/go/ssa"
)

func arrayLenOfType(a *ssa.Alloc) int64 {
	p, ok := a.Type().Underlying().(*types.Pointer)
	if !ok {
		return -1
	}
	if arr, ok := p.Elem().Underlying().(*types.Array); ok {
		return arr.Len()
	}
	return -1
}

func globalByteArrayAST(pk *packages.Package, name string) []int64 {
	for _, f := range pk.Syntax {
		for _, d := range f.Decls {
			gd, ok := d.(*ast.GenDecl)
			if !ok || gd.Tok != token.VAR {
				continue
			}
			for _, sp := range gd.Specs {
				vs := sp.(*ast.ValueSpec)
				for i, n := range vs.Names {
					if n.Name != name || i >= len(vs.Values) {
						continue
					}
					cl, ok := vs.Values[i].(*ast.CompositeLit)
					if !ok {
						return nil
					}
					var out []int64
					for _, e := range cl.Elts {
						tv := pk.TypesInfo.Types[e]
						if tv.Value == nil {
							return nil
						}
						v, _ := constant.Int64Val(constant.ToInt(tv.Value))
						out = append(out, v)
					}
					return out
				}
			}
		}
	}
	return nil
}
