package props

import (
	"go/types"
	"reflect"
	"sort"
	"strings"

	"verif/checker/internal/an"
	"verif/checker/internal/load"
	"verif/checker/internal/pop"

	"golang.org/x/tools/go/ssa"
)

func init() { register("C01", c01) }

// frozen pairing table: reflect.Kind -> (encoder arm must call, decoder arm must call)
var kindPairs = []struct {
	kind     string
	enc, dec []string
}{
	{"Uint32", []string{"PutUint"}, []string{"PopUint"}},
	{"Int32", []string{"PutUint"}, []string{"PopUint"}},
	{"Int64", []string{"PutLong"}, []string{"PopLong"}},
	{"Float64", []string{"PutDouble"}, []string{"PopDouble"}},
	{"Bool", []string{"PutBool"}, []string{"PopBool"}},
	{"String", []string{"PutString"}, []string{"PopMessage"}},
	{"Slice", []string{"PutMessage", "encodeVector"}, []string{"PopMessage", "PopVector"}},
	{"Ptr", []string{"encodeValue"}, []string{"decodeObject", "decodeValue"}},
	{"Interface", []string{"encodeValue"}, []string{"decodeRegisteredObject"}},
}

type popFacts struct {
	conds      map[string]bool
	fieldKinds map[string]int // kind -> number of fields (transitively)
	problems   map[string][]string
}

// fieldKindClosure lists the kinds the walks meet for a field type.
func fieldKindClosure(t types.Type, out map[string]int, depth int) {
	if depth > 6 {
		return
	}
	k := kindOfType(t)
	out[k]++
	switch u := t.Underlying().(type) {
	case *types.Slice:
		if b, ok := u.Elem().Underlying().(*types.Basic); ok && b.Kind() == types.Uint8 {
			return // []byte is one primitive
		}
		fieldKindClosure(u.Elem(), out, depth+1)
	}
}

// computePopFacts evaluates the population conditions P1–P4, T used by the census triage and by R01.T.
func (c *Ctx) computePopFacts() (*popFacts, *pop.Population, error) {
	pp, err := c.Pop()
	if err != nil {
		return nil, nil, err
	}
	pf := &popFacts{conds: map[string]bool{"P1": true, "P2": true, "P3": true, "P4": true, "T": true}, fieldKinds: map[string]int{}, problems: map[string][]string{}}
	bad := func(cond, msg string) {
		pf.conds[cond] = false
		pf.problems[cond] = append(pf.problems[cond], msg)
	}
	for _, m := range pp.Members {
		if m.IsEnum {
			continue
		}
		if m.ByValue || m.Named == nil || !pp.IsObject(types.NewPointer(m.Named)) {
			bad("P1", m.Name+" is not registered as a pointer to a named tl.Object")
			continue
		}
		if m.Struct == nil {
			if !m.Unmarshaler {
				bad("P2", m.Name+" is not a struct and has no UnmarshalTL")
			}
			continue
		}
		nFlag := 0
		for _, f := range m.Fields {
			if !f.Exported {
				bad("P4", m.Name+"."+f.Name+" is unexported (reflect.Value.Set panics)")
			}
			if f.Tag.Err != "" {
				bad("T", m.Name+"."+f.Name+": "+f.Tag.Err)
			}
			if f.Tag.Ignore {
				continue
			}
			if f.Tag.HasFlag {
				nFlag++
				if f.Tag.Bit < 0 || f.Tag.Bit > 31 {
					bad("T", sprintf("%s.%s: flag bit %d out of range", m.Name, f.Name, f.Tag.Bit))
				}
			}
			if f.Tag.InBitflag && kindOfType(f.Type) != "Bool" {
				bad("T", m.Name+"."+f.Name+": encoded_in_bitflags on a non-bool field")
			}
			fieldKindClosure(f.Type, pf.fieldKinds, 0)
			if p, ok := f.Type.Underlying().(*types.Pointer); ok {
				okPtr := false
				if n, ok := p.Elem().(*types.Named); ok {
					if pp.ByType[n.Obj()] != nil || pp.IsUnmarshaler(f.Type) && pp.IsMarshaler(f.Type) {
						okPtr = true
					}
				}
				if !okPtr {
					bad("P3", m.Name+"."+f.Name+" points to "+typeString(p.Elem())+", which is neither a registered constructor nor a (Un)Marshaler")
				}
			}
			if s, ok := f.Type.Underlying().(*types.Slice); ok {
				if p, ok := s.Elem().Underlying().(*types.Pointer); ok {
					if n, ok := p.Elem().(*types.Named); !ok || pp.ByType[n.Obj()] == nil {
						bad("P3", m.Name+"."+f.Name+" is a vector of pointers to a type that is not a registered constructor")
					}
				}
			}
		}
		if nFlag > 0 {
			if !m.HasFlagIx || !m.FlagIxOK || m.FlagIndex < 0 || m.FlagIndex > len(m.Fields) {
				bad("T", m.Name+" has flag tags but no constant FlagIndex() in [0,#fields]")
			}
		}
	}
	return pf, pp, nil
}

func (c *Ctx) popFactsCached() *popFacts {
	k := c.cache()
	if k.pf == nil {
		pf, pp, err := c.computePopFacts()
		if err != nil {
			pf = &popFacts{conds: map[string]bool{}}
		} else {
			c.extraConditions(pf, pp)
		}
		k.pf = pf
	}
	return k.pf
}

// extraConditions: K (kind tables cover the population), unregistered:<type>, hints-are-slices,
// iface-convert-guarded, haveFlag-callers-struct-checked.
func (c *Ctx) extraConditions(pf *popFacts, pp *pop.Population) {
	// K
	tlpk := c.P.Pkg(load.TLPkg)
	encD, _ := c.declOf(load.TLPkg, "*Encoder", "encodeValue")
	decD, _ := c.declOf(load.TLPkg, "*Decoder", "decodeValue")
	decG, _ := c.declOf(load.TLPkg, "*Decoder", "decodeValueGeneral")
	encT := kindSwitches(tlpk, encD)
	decT := append(kindSwitches(tlpk, decG), kindSwitches(tlpk, decD)...)
	kOK := len(encT) == 1 && len(decT) == 2
	if kOK {
		for k := range pf.fieldKinds {
			da, ok := decT[0][k]
			if !ok || da.class == "none" {
				da, ok = decT[1][k]
			}
			ea, eok := encT[0][k]
			if !ok || !eok || da.class != "codec" || ea.class != "codec" {
				kOK = false
			}
		}
	}
	pf.conds["K"] = kOK
	// K2: K, and a kind whose arm of decodeValueGeneral only records an error (struct, map, array) does not go on
	// into decodeValue's own kind switch: the panic of its default arm is reachable only through the nil edge of a
	// d.err test that follows the decodeValueGeneral call
	k2 := false
	if dv := c.P.Func(load.TLPkg, "*Decoder", "decodeValue"); dv != nil && kOK {
		trK := an.NewTracer()
		var gen ssa.Instruction
		for _, cs := range an.CallsNamed(dv, "(*"+load.TLPkg+".Decoder).decodeValueGeneral") {
			gen = cs.Instr
		}
		var panics []ssa.Instruction
		for _, b := range dv.Blocks {
			for _, in := range b.Instrs {
				if p, ok := in.(*ssa.Panic); ok {
					panics = append(panics, p)
				}
			}
		}
		if gen != nil && len(panics) > 0 {
			for _, i := range an.Ifs(dv) {
				cd, ok := an.Classify(i)
				if !ok || cd.Kind != "nil" || !strings.HasSuffix(trK.OriginString(cd.X), "tl.Decoder.err") {
					continue
				}
				if !an.InstrDominates(gen, i) {
					continue
				}
				if len(an.Guarded(dv, []an.Edge{cd.EdgeWhen(true)}, panics)) == 0 {
					k2 = true
				}
			}
		}
	}
	pf.conds["K2"] = k2
	for _, m := range pp.Unregistered {
		pf.conds["unregistered:"+shortPkg(m.Pkg)+"."+m.Name] = true
	}
	// hints-are-slices
	hints, allSlices := 0, true
	for f := range c.P.AllFunctions() {
		if !c.P.InRepo(f) || f.Synthetic != "" {
			continue
		}
		for _, cs := range an.Calls(f) {
			if !strings.HasSuffix(cs.Name, "MakeRequestWithHintToDecoder") || strings.Contains(an.ShortName(f), "MakeRequestWithHintToDecoder") {
				continue
			}
			args := cs.Common.Args
			if len(args) < 3 {
				continue
			}
			for _, el := range variadicElems(args[len(args)-1]) {
				hints++
				call, ok := el.(*ssa.Call)
				if !ok || an.CalleeName(call.Common()) != "reflect.TypeOf" {
					allSlices = false
					continue
				}
				mi, ok := call.Call.Args[0].(*ssa.MakeInterface)
				if !ok {
					allSlices = false
					continue
				}
				if _, ok := mi.X.Type().Underlying().(*types.Slice); !ok {
					allSlices = false
				}
			}
		}
	}
	pf.conds["hints-are-slices"] = hints > 0 && allSlices
	// iface-convert-guarded: in decodeValue, with the kind switch forced to the Interface arm, the final Convert is
	// unreachable once the true edge of the ConvertibleTo test is removed
	if dv := c.P.Func(load.TLPkg, "*Decoder", "decodeValue"); dv != nil {
		ok := false
		var converts []ssa.Instruction
		for _, cs := range an.CallsNamed(dv, "(reflect.Value).Convert") {
			converts = append(converts, cs.Instr)
		}
		for _, i := range an.Ifs(dv) {
			cd, okc := an.Classify(i)
			if !okc || cd.Kind != "call:invoke:(reflect.Type).ConvertibleTo" {
				continue
			}
			cut := map[an.Edge]bool{cd.EdgeWhen(true): true}
			reach := an.ReachWith(dv, cut, func(j *ssa.If) (int, bool) {
				// kind dispatch: value.Kind() == k → only k == Interface (20) is taken
				c2, ok2 := an.Classify(j)
				if !ok2 || c2.Kind != "eq" {
					return 0, false
				}
				call, okk := c2.X.(*ssa.Call)
				if !okk || an.CalleeName(call.Common()) != "(reflect.Value).Kind" {
					return 0, false
				}
				k, okk := an.ConstInt(c2.Y)
				if !okk {
					return 0, false
				}
				return c2.EdgeWhen(k == 20).Succ, true
			})
			ok = len(converts) > 0
			for _, cv := range converts {
				// the Convert of the basic-kind fast path precedes the switch and is not concerned
				if reach[cv.Block()] && cv.Block().Index > i.Block().Index {
					ok = false
				}
			}
		}
		pf.conds["iface-convert-guarded"] = ok
	}
	// haveFlag-callers-struct-checked
	if hf := c.P.Func(load.TLPkg, "", "haveFlag"); hf != nil {
		n, ok := 0, true
		for f := range c.P.AllFunctions() {
			if !c.P.InRepo(f) {
				continue
			}
			for _, cs := range an.Calls(f) {
				if an.StaticCallee(cs.Common) != hf {
					continue
				}
				n++
				guarded := an.DominatingGuard(f, cs.Instr, func(cd *an.Cond) int {
					if cd.Kind != "eq" {
						return -1
					}
					call, okk := cd.X.(*ssa.Call)
					if !okk || an.CalleeName(call.Common()) != "(reflect.Value).Kind" {
						return -1
					}
					if k, okk := an.ConstInt(cd.Y); okk && k == 25 { // reflect.Struct
						return cd.EdgeWhen(true).Succ
					}
					return -1
				})
				if !guarded {
					ok = false
				}
			}
		}
		pf.conds["haveFlag-callers-struct-checked"] = n > 0 && ok
	}
}

func c01(c *Ctx) {
	r := c.R
	r.Explanation = "Round-trip equality over all values is not a static fact; what is decided is that the two reflection walks make the same decision at " +
		"every field of every registered type, for the whole finite population (~1230 types): the kind tables of encoder and decoder pair up (and every " +
		"kind occurring in any registered field has a codec arm on both sides), the primitive writers/readers pair up (width, byte order, Bool ids), the " +
		"presence predicate of conditional fields agrees (per-field vs per-group, with every shared flag bit of the population enumerated), tags and " +
		"FlagIndex satisfy the conditions under which the walks neither error nor panic, 128/256-bit integers are written and read at the same fixed width, " +
		"nothing reachable from Marshal is order- or time-dependent, hand-written codecs are siblings, and constructor ids are unique."
	r.NotDecided = []string{"equality of decoded and original values", "nested depth", "253/254 and 2^24 length behaviour as values (the boundary guards are C02's rules)",
		"the expectedTypes hint mechanism for bare vectors"}
	r.Rule("R01.K", "kind tables agree: each kind's encoder and decoder arms call the paired primitives, and every kind occurring in a registered field has a non-error, non-panic arm on both sides", 12)
	r.Rule("R01.P", "primitive pairs agree: buffer width, byte order, Float64bits/Float64frombits, Bool ids, vector id + count", 7)
	r.Rule("R01.F", "presence predicates agree: decoder reads a tagged field iff its bit is set; encoder must emit it iff the bit is set — per-field emission is wrong for every flag bit shared by two fields", 3)
	r.Rule("R01.T", "tag population: every tag parses, encoded_in_bitflags only on bool, flag-tagged structs have a constant FlagIndex in range, fields exported, pointer fields point to registered constructors", 1100)
	r.Rule("R01.W", "Int128/Int256 are written and read at the same fixed width", 2)
	r.Rule("R01.D", "nothing reachable from tl.Marshal ranges over a map or reads a clock / random source", 1)
	r.Rule("R01.H", "hand-written codecs are siblings: both methods exist, neither unconditionally panics, writer and reader sequences agree", 2)
	r.Rule("R01.U", "no two registered constructors share an id", 1)
	// every constructor of the API package can be chosen by id (R01.U): a tl.Object with a constant id that nobody
	// registers cannot be decoded by DecodeUnknownObject
	if pp0, err := c.Pop(); err == nil {
		for _, m := range pp0.Unregistered {
			if m.Pkg == load.TgPkg && m.CRCKnown {
				r.Violate("R01.U", "registered:telegram."+m.Name, c.pos(m.Pos), sprintf("%s has the constant id %08x but is not passed to tl.RegisterObjects: the decoder cannot choose it from its id", m.Name, m.CRC))
			}
		}
	}
	r.Rule("R01.E", "an enum is decoded by naming its type: decodeObject sets a pointed-to uint32 value from the constructor id read from the wire, under a test that the id is a registered member of that type (comparing the id with the CRC() of the zero value refuses every member)", 1)
	c01EnumByName(c)
	r.Rule("R01.Q", "the hint queue is advanced before the hinted vector is read: decodeRegisteredObject removes the hint it takes from Decoder.expectedTypes before it calls popVector, whose elements may be hinted vectors themselves and must find their own hint at the head", 1)
	c01HintQueue(c)
	// what the encoder emits the decoder reads without panicking: the reflect / assertion sites of the decode region
	// are the ones of the C15 census (same side conditions, same acceptances) - an interface-fit test that calls
	// IsNil on whatever kind was decoded panics on an enum member sitting in an interface field
	r.Rule("R01.C", "every reflect call and unchecked assertion reachable from Decode / DecodeUnknownObject is discharged by a side condition or accepted with a reason (= the reflect / assert part of R15.C, filed under C01)", 10)
	{
		var entries []*ssa.Function
		for _, n := range []string{"Decode", "DecodeUnknownObject"} {
			if f := c.P.Func(load.TLPkg, "", n); f != nil {
				entries = append(entries, f)
			}
		}
		conds := c.populationConditions()
		if okEnum, _ := enumLeavesBeforeWalk(c); !okEnum {
			conds["P2"] = false
		}
		c.runCensus("R01.C", c.censusRegion(entries, nil), map[string]bool{"reflect": true, "assert": true}, conds, "C15/R15.C")
	}
	r.Rule("R01.B", "no function of package tl writes through a []byte parameter: decoding leaves the input bytes alone, encoding leaves the value's byte strings alone", 4)
	c.paramsUntouched("R01.B", load.TLPkg, func(g *ssa.Function, idx int) bool {
		// (*Decoder).read(buf) is the one function whose argument is the buffer to fill
		return g.Name() == "read" && load.FuncPkgPath(g) == load.TLPkg
	})
	r.Rule("R01.R", "the decoder walks nested values recursively: no list kept in a field of the Decoder and filled by one activation is read after a call that may re-enter it", 1)
	c.noScratchAcrossReentry("R01.R", "Decoder")
	r.Rule("R01.V", "the decoder admits what the encoder emits: the count / length sanity bounds of popVector and PopRawBytes pass for every honest (size, bytes left) pair of the grid, and depend on nothing else", 2)
	c01Admission(c)
	tr := an.NewTracer()

	pf, pp, err := c.computePopFacts()
	if err != nil {
		r.Undecide("R01.T", "population", "", err.Error())
		return
	}
	// ---- R01.T ----------------------------------------------------------------------------------
	perMember := map[string][]string{}
	for cond, msgs := range pf.problems {
		for _, m := range msgs {
			name := strings.SplitN(strings.SplitN(m, " ", 2)[0], ".", 2)[0]
			name = strings.TrimSuffix(name, ":")
			perMember[name] = append(perMember[name], cond+": "+m)
		}
	}
	nStruct := 0
	for _, m := range pp.Members {
		if m.IsEnum {
			continue
		}
		nStruct++
		if ps := perMember[m.Name]; len(ps) > 0 {
			r.Violate("R01.T", "member:"+shortPkg(m.Pkg)+"."+m.Name, c.pos(m.Pos), strings.Join(ps, "; "))
		} else {
			r.Hold("R01.T", "member:"+shortPkg(m.Pkg)+"."+m.Name, c.pos(m.Pos), sprintf("%d fields", len(m.Fields)))
		}
	}
	r.Extra["population_structs"] = nStruct
	r.Extra["population_enum_values"] = len(pp.Members) - nStruct
	r.Extra["population_conditions"] = pf.conds
	r.Extra["field_kinds"] = pf.fieldKinds

	// ---- R01.K ----------------------------------------------------------------------------------
	tlpk := c.P.Pkg(load.TLPkg)
	encD, _ := c.declOf(load.TLPkg, "*Encoder", "encodeValue")
	decD, _ := c.declOf(load.TLPkg, "*Decoder", "decodeValue")
	decG, _ := c.declOf(load.TLPkg, "*Decoder", "decodeValueGeneral")
	encT := kindSwitches(tlpk, encD)
	decT := append(kindSwitches(tlpk, decG), kindSwitches(tlpk, decD)...)
	if len(encT) != 1 || len(decT) != 2 {
		r.Undecide("R01.K", "kind-switches", "", sprintf("expected one switch over reflect.Kind in encodeValue and one each in decodeValueGeneral/decodeValue, found %d/%d", len(encT), len(decT)))
	} else {
		enc := encT[0]
		decArm := func(kind string) kindArm {
			// the general switch decides first; a kind it does not mention falls to its default (nil) and then to decodeValue's switch
			if a, ok := decT[0][kind]; ok && a.class != "none" {
				return a
			}
			if a, ok := decT[1][kind]; ok {
				return a
			}
			if a, ok := decT[0][kind]; ok {
				return a
			}
			return decT[1]["default"]
		}
		encArm := func(kind string) kindArm {
			if a, ok := enc[kind]; ok {
				return a
			}
			return enc["default"]
		}
		has := func(arm kindArm, want []string) bool {
			for _, w := range want {
				found := false
				for _, cl := range arm.calls {
					if cl == w {
						found = true
					}
				}
				if !found {
					return false
				}
			}
			return true
		}
		for _, kp := range kindPairs {
			ea, da := encArm(kp.kind), decArm(kp.kind)
			ok := has(ea, kp.enc) && has(da, kp.dec)
			r.Check(ok, "R01.K", "pair:"+kp.kind, "", sprintf("encoder arm calls %v (need %v), decoder arm calls %v (need %v)", ea.calls, kp.enc, da.calls, kp.dec))
		}
		// (ii) every kind in the population has codec arms
		var kinds []string
		for k := range pf.fieldKinds {
			kinds = append(kinds, k)
		}
		sort.Strings(kinds)
		for _, k := range kinds {
			ea, da := encArm(k), decArm(k)
			ok := ea.class == "codec" && da.class == "codec"
			r.Check(ok, "R01.K", "population-kind:"+k, "", sprintf("%d registered fields (transitively) have kind %s: encoder arm is %s %v, decoder arm is %s %v", pf.fieldKinds[k], k, ea.class, ea.calls, da.class, da.calls))
		}
		// the Int32 arm converts through uint32 / int32 (sign-preserving pair)
	}

	// ---- R01.P ----------------------------------------------------------------------------------
	c01Primitives(c, tr)

	// byte strings: the writer's header/size/alignment and the reader's expectations (same tabulation as C02 R02.S)
	c02Strings(c, tr, "R01.P", "", "string:")
	c02FlagsPosition(c, tr, "R01.F")

	// ---- R01.F ----------------------------------------------------------------------------------
	c01Presence(c, pp, tr, "R01.F")
	// the presence patterns a value may have are the schema's: two fields the schema puts on different bits and the
	// Go tags on one form a group the encoder writes together - a value with one of them set (legal by the schema)
	// cannot be serialised (= the tag part of R02.L, filed under C01)
	r.Rule("R01.L", "per registered struct with conditional fields: every field's flag bit, its encoded_in_bitflags mark and its conditionality are the ones of its schema line, so the presence patterns the codec can carry are exactly the schema's", 100)
	if api, mt, err := c.Schemas(); err != nil {
		r.Undecide("R01.L", "schema", "", err.Error())
	} else {
		for _, sch := range []struct {
			si  *schemaInfo
			pkg string
			tag string
		}{{api, load.TgPkg, "api"}, {mt, load.ObjPkg, "mtproto"}} {
			tm := &typeMatcher{c: c, pp: pp, sch: sch.si}
			for _, d := range sch.si.S.Defs {
				if !d.HasID {
					continue
				}
				for _, m := range pp.ByCRC[d.ID] {
					if m.Pkg != sch.pkg || m.IsEnum || m.Struct == nil || m.Marshaler || m.Unmarshaler {
						continue
					}
					cond := false
					for _, f := range m.Fields {
						if f.Tag.HasFlag || f.Tag.Err != "" {
							cond = true
						}
					}
					for _, q := range d.Params {
						if q.Cond {
							cond = true
						}
					}
					if !cond {
						continue
					}
					diffs, _ := tm.compareFields(d, m)
					var td []string
					for _, x := range diffs {
						if strings.Contains(x, "Go tag") || strings.Contains(x, "tag error") || strings.Contains(x, "encoded_in_bitflags") || strings.Contains(x, "conditional") {
							td = append(td, x)
						}
					}
					r.Check(len(td) == 0, "R01.L", "presence:"+sch.tag+"."+d.Name, c.pos(m.Pos), m.Name+": "+strings.Join(td, "; "))
				}
			}
		}
	}

	// ---- R01.W ----------------------------------------------------------------------------------
	for _, t := range []struct {
		name string
		len  int64
	}{{"Int128", 16}, {"Int256", 32}} {
		m := c.fn("R01.W", load.TLPkg, "*"+t.name, "MarshalTL")
		u := c.fn("R01.W", load.TLPkg, "*"+t.name, "UnmarshalTL")
		if m == nil || u == nil {
			continue
		}
		wOK, rOK := false, false
		detail := ""
		for _, cs := range an.CallsNamed(m, "(*"+load.TLPkg+".Encoder).PutRawBytes") {
			arg := cs.Common.Args[1]
			if call, ok := arg.(*ssa.Call); ok {
				switch an.CalleeName(call.Common()) {
				case load.DryPkg + ".BigIntBytes":
					bits, _ := an.ConstInt(call.Call.Args[1])
					wOK = bits == t.len*8
					detail = sprintf("dry.BigIntBytes(_, %d)", bits)
				case load.MathPkg + ".BigIntFixedBytes":
					n, _ := an.ConstInt(call.Call.Args[1])
					wOK = n == t.len
					detail = sprintf("BigIntFixedBytes(_, %d)", n)
				case "(*math/big.Int).FillBytes":
					wOK = bufLen(call.Call.Args[1]) == t.len
					detail = "FillBytes"
				default:
					detail = an.CalleeName(call.Common()) + " (a bare Int.Bytes() drops leading zero bytes)"
				}
			}
		}
		for _, cs := range an.CallsNamed(u, "(*"+load.TLPkg+".Decoder).PopRawBytes") {
			n, _ := an.ConstInt(cs.Common.Args[1])
			rOK = n == t.len
		}
		r.Check(wOK && rOK, "R01.W", "fixed-width:"+t.name, c.pos(m.Pos()), sprintf("writer: %s; reader pops %d bytes: %v", detail, t.len, rOK))
	}

	// the container reader builds one object per item (shared with C09 R09.G)
	c.containerItemsDistinct("R01.H")
	// ---- R01.D (ownership): the bytes Marshal returns belong to the caller ------------------------------
	c.marshalOwnsResult("R01.D")
	// ---- R01.D ----------------------------------------------------------------------------------
	if mf := c.fn("R01.D", load.TLPkg, "", "Marshal"); mf != nil {
		var bad []string
		n := 0
		for _, f := range c.censusRegion([]*ssa.Function{mf}, nil) {
			n++
			for _, b := range f.Blocks {
				for _, in := range b.Instrs {
					switch x := in.(type) {
					case *ssa.Range:
						if _, ok := x.X.Type().Underlying().(*types.Map); ok {
							bad = append(bad, "map range in "+an.ShortName(f)+" at "+c.pos(x.Pos()))
						}
					case ssa.CallInstruction:
						nm := an.CalleeName(x.Common())
						if nm == "time.Now" || strings.HasPrefix(nm, "math/rand.") || strings.HasPrefix(nm, "crypto/rand.") {
							bad = append(bad, nm+" in "+an.ShortName(f)+" at "+c.pos(x.Pos()))
						}
					}
				}
			}
		}
		r.Check(len(bad) == 0 && n > 10, "R01.D", "deterministic-bytes", c.pos(mf.Pos()), sprintf("%d repository functions reachable from tl.Marshal: %s", n, strings.Join(bad, "; ")))
	}

	// ---- R01.H ----------------------------------------------------------------------------------
	c01HandWritten(c, pp, tr)

	// ---- R01.U ----------------------------------------------------------------------------------
	dups := 0
	var crcs []uint32
	for crc := range pp.ByCRC {
		crcs = append(crcs, crc)
	}
	sort.Slice(crcs, func(i, j int) bool { return crcs[i] < crcs[j] })
	for _, crc := range crcs {
		ms := pp.ByCRC[crc]
		if len(ms) > 1 {
			dups++
			var names []string
			for _, m := range ms {
				names = append(names, m.Name)
			}
			r.Violate("R01.U", sprintf("duplicate-id:%08x", crc), c.pos(ms[1].Pos), "id shared by "+strings.Join(names, ", "))
		}
	}
	if dups == 0 {
		r.Hold("R01.U", "unique-ids", "", sprintf("%d distinct ids for %d registered constructors", len(pp.ByCRC), len(pp.Members)))
	}
}

// isBitMask: v is exactly 1 << tag.index (the shift amount is the parsed tag's index itself, not an expression of it).
func isBitMask(v ssa.Value, tr *an.Tracer) bool {
	for {
		if cv, ok := v.(*ssa.Convert); ok {
			v = cv.X
			continue
		}
		break
	}
	sh, ok := v.(*ssa.BinOp)
	if !ok || sh.Op.String() != "<<" {
		return false
	}
	if k, ok := an.ConstInt(sh.X); !ok || k != 1 {
		return false
	}
	amt := sh.Y
	for {
		if cv, ok := amt.(*ssa.Convert); ok {
			amt = cv.X
			continue
		}
		break
	}
	ld, ok := amt.(*ssa.UnOp)
	if !ok {
		return false
	}
	fa, ok := ld.X.(*ssa.FieldAddr)
	return ok && an.FieldName(fa.X.Type(), fa.Field) == "tl.fieldTag.index"
}

// c01Presence: R01.F.
func c01Presence(c *Ctx, pp *pop.Population, tr *an.Tracer, rule string) {
	r := c.R
	enc := c.fn(rule, load.TLPkg, "*Encoder", "encodeStruct")
	dec := c.fn(rule, load.TLPkg, "*Decoder", "decodeObject")
	if enc == nil || dec == nil {
		return
	}
	// decoder: a branch on optionalBitSet & (1 << info.index)
	decOK := false
	for _, i := range an.Ifs(dec) {
		cd, ok := an.Classify(i)
		if !ok || cd.Kind != "eq" {
			continue
		}
		if b, ok := cd.X.(*ssa.BinOp); ok && b.Op.String() == "&" {
			o := tr.OriginString(b.Y) + tr.OriginString(b.X)
			if (isBitMask(b.X, tr) || isBitMask(b.Y, tr)) && strings.Contains(o, "PopUint") {
				decOK = true
			}
		}
	}
	r.Check(decOK, rule, "decoder:bit-test", c.pos(dec.Pos()), "the decoder skips a tagged field iff flags & (1 << tag.index) == 0")
	// ... and an absent field is left as it was: nothing writes the field (reflect.Value.Set, decodeValue) on a path
	// that then takes the bit-clear edge - a pointer allocated before the presence test turns "absent" into "present
	// and empty", which re-encodes with the bit set
	{
		var tests []*ssa.If
		for _, i := range an.Ifs(dec) {
			cd, ok := an.Classify(i)
			if !ok || cd.Kind != "eq" {
				continue
			}
			if b, ok := cd.X.(*ssa.BinOp); ok && b.Op.String() == "&" && (isBitMask(b.X, tr) || isBitMask(b.Y, tr)) {
				tests = append(tests, i)
			}
		}
		var bad []string
		for _, t := range tests {
			for _, cs := range an.Calls(dec) {
				if cs.Name != "(reflect.Value).Set" && !strings.HasSuffix(cs.Name, "Decoder).decodeValue") {
					continue
				}
				// written before the test in the same iteration: the test is reachable from the writer without
				// passing the head of the field loop (the innermost loop header that dominates the test)
				var head *ssa.BasicBlock
				for _, d := range dec.Blocks {
					isHeader := false
					for _, p := range d.Preds {
						if d.Dominates(p) {
							isHeader = true // a back edge ends here
						}
					}
					if isHeader && d != t.Block() && d.Dominates(t.Block()) && reachesBlockStrict(t.Block(), d) && (head == nil || head.Dominates(d)) {
						head = d
					}
				}
				if cs.Block == t.Block() {
					bad = append(bad, shortCallee(cs.Name)+" at "+c.pos(cs.Pos())+" runs in the block of the presence test")
					continue
				}
				seen := map[*ssa.BasicBlock]bool{}
				var walk func(b *ssa.BasicBlock) bool
				walk = func(b *ssa.BasicBlock) bool {
					for _, sc := range b.Succs {
						if sc == head || seen[sc] {
							continue
						}
						if sc == t.Block() {
							return true
						}
						seen[sc] = true
						if walk(sc) {
							return true
						}
					}
					return false
				}
				if head != nil && walk(cs.Block) {
					bad = append(bad, shortCallee(cs.Name)+" at "+c.pos(cs.Pos())+" runs before the presence test at "+c.pos(t.Pos())+" in the same pass over the field")
				}
			}
		}
		r.Check(len(tests) > 0 && len(bad) == 0, rule, "decoder:absent-field-untouched", c.pos(dec.Pos()), strings.Join(bad, "; "))
	}
	// encoder: mask and emission shape
	maskOK := false
	for _, b := range enc.Blocks {
		for _, in := range b.Instrs {
			if bo, ok := in.(*ssa.BinOp); ok && bo.Op.String() == "|" {
				if isBitMask(bo.X, tr) || isBitMask(bo.Y, tr) {
					maskOK = true
				}
			}
		}
	}
	r.Check(maskOK, rule, "encoder:mask", c.pos(enc.Pos()), "the encoder sets flags |= 1 << tag.index (same field of the parsed tag as the decoder)")
	// ... and sets it exactly when the field is not the zero value of its type: the decoder hands back a non-nil
	// empty slice for a present empty vector, and that value must set the bit again (a home-made "is empty" test
	// that counts elements turns present-and-empty into absent)
	{
		n := 0
		var bad []string
		for _, b := range enc.Blocks {
			for _, in := range b.Instrs {
				bo, ok := in.(*ssa.BinOp)
				if !ok || bo.Op.String() != "|" || !(isBitMask(bo.X, tr) || isBitMask(bo.Y, tr)) {
					continue
				}
				n++
				// the not-zero edge of an IsZero test leads straight to the OR (no second condition in between),
				// and nothing else leads there
				ok2 := false
				for _, i := range an.Ifs(enc) {
					cd, okc := an.Classify(i)
					if okc && strings.HasSuffix(cd.Kind, "(reflect.Value).IsZero") && cd.EdgeWhen(false).To() == bo.Block() && len(bo.Block().Preds) == 1 {
						ok2 = true
					}
				}
				if !ok2 {
					bad = append(bad, "the bit set at "+c.pos(bo.Pos())+" is not decided by reflect.Value.IsZero of the field alone (the not-zero edge of that test must lead straight to it)")
				}
			}
		}
		r.Check(n > 0 && len(bad) == 0, rule, "encoder:bit-iff-not-zero", c.pos(enc.Pos()), strings.Join(bad, "; "))
	}
	// shape: is the emission of a tagged field decided by IsZero of that field (per field) or by the accumulated flags word (per group)?
	shape := "unrecognised"
	var shapeSite ssa.Instruction
	for _, i := range an.Ifs(enc) {
		cd, ok := an.Classify(i)
		if !ok {
			continue
		}
		if strings.HasSuffix(cd.Kind, "(reflect.Value).IsZero") {
			// does this branch control an append to the emission list?
			zeroEdge := cd.EdgeWhen(true)
			var emits []ssa.Instruction
			for _, cs := range an.CallsNamed(enc, "builtin:append") {
				emits = append(emits, cs.Instr)
			}
			for _, e := range emits {
				// emission unreachable on the zero edge only → per-field decision
				if e.Block() != i.Block() && !zeroEdge.To().Dominates(e.Block()) && cd.EdgeWhen(false).To().Dominates(e.Block()) {
					shape, shapeSite = "per-field", i
				}
			}
		}
		if cd.Kind == "eq" {
			if b, ok := cd.X.(*ssa.BinOp); ok && b.Op.String() == "&" && strings.Contains(tr.OriginString(b.Y)+tr.OriginString(b.X), "tl.fieldTag.index") {
				shape, shapeSite = "per-group", i
			}
		}
	}
	site := c.pos(enc.Pos())
	if shapeSite != nil {
		site = c.pos(shapeSite.Pos())
	}
	switch shape {
	case "per-group":
		r.Hold(rule, "encoder:presence-shape", site, "emission of a conditional field is decided by the accumulated flags word (per group): agrees with the decoder for every type")
		// … and by nothing else: with the bit set (and the field neither ignored nor a bare flag) every way round the
		// loop passes the emission; a second condition (nil member, zero value) would omit a field the decoder reads
		shapeIf := shapeSite.(*ssa.If)
		scd, _ := an.Classify(shapeIf)
		appendBlk := map[*ssa.BasicBlock]bool{}
		for _, cs := range an.CallsNamed(enc, "builtin:append") {
			if shapeIf.Block().Dominates(cs.Block) {
				appendBlk[cs.Block] = true
			}
		}
		decide := func(i *ssa.If) (int, bool) {
			if i == shapeIf {
				return scd.EdgeWhen(false).Succ, true // bit set
			}
			cd, ok := an.Classify(i)
			if !ok {
				return 0, false
			}
			o := ""
			if cd.X != nil {
				o = tr.OriginString(cd.X)
			}
			if strings.Contains(o, " | ") {
				return 0, false // a join of several values: the engine evaluates it from its parts
			}
			switch {
			case cd.Kind == "bool" && (strings.Contains(o, "tl.fieldTag.encodedInBitflag") || strings.Contains(o, "tl.fieldTag.ignore")):
				return cd.EdgeWhen(false).Succ, true
			case cd.Kind == "nil" && strings.Contains(o, "tl.parseTag"):
				return cd.EdgeWhen(false).Succ, true // tagged field
			}
			return 0, false
		}
		_, exec := an.ReachExec(enc, nil, decide)
		seen := map[*ssa.BasicBlock]bool{}
		var skips func(b *ssa.BasicBlock) *ssa.BasicBlock
		skips = func(b *ssa.BasicBlock) *ssa.BasicBlock {
			for si, s := range b.Succs {
				if !exec[an.Edge{From: b, Succ: si}] || appendBlk[s] {
					continue
				}
				if s == shapeIf.Block() {
					return b
				}
				if !seen[s] && shapeIf.Block().Dominates(s) || (!seen[s] && reachesBlock(s, shapeIf.Block(), map[*ssa.BasicBlock]bool{})) {
					seen[s] = true
					if via := skips(s); via != nil {
						return via
					}
				}
			}
			return nil
		}
		if len(appendBlk) == 0 {
			r.Undecide(rule, "encoder:presence-only-by-flag", site, "no emission (append) found behind the flags test")
		} else if via := skips(shapeIf.Block()); via != nil {
			pos := site
			if len(via.Instrs) > 0 {
				pos = c.pos(via.Instrs[len(via.Instrs)-1].Pos())
				for _, in := range via.Instrs {
					if in.Pos().IsValid() {
						pos = c.pos(in.Pos())
					}
				}
			}
			r.Violate(rule, "encoder:presence-only-by-flag", pos, "with the group's bit set the loop can go on to the next field without emitting this one (a further condition on the field's value): the decoder reads every field of a present group, so the rest of the object is read from the wrong offset")
		} else {
			r.Hold(rule, "encoder:presence-only-by-flag", site, "with the bit set every path round the loop emits the field (or aborts with an error)")
		}
	case "per-field":
		// agreement holds exactly for types in which no flag bit carries two fields
		n := 0
		for _, m := range pp.Members {
			if m.Struct == nil {
				continue
			}
			byBit := map[int][]pop.Field{}
			for _, f := range m.Fields {
				if f.Tag.HasFlag && !f.Tag.Ignore {
					byBit[f.Tag.Bit] = append(byBit[f.Tag.Bit], f)
				}
			}
			var bits []int
			for b := range byBit {
				bits = append(bits, b)
			}
			sort.Ints(bits)
			for _, b := range bits {
				fs := byBit[b]
				nonFlag := 0
				var names []string
				for _, f := range fs {
					names = append(names, f.Name)
					if !f.Tag.InBitflag {
						nonFlag++
					}
				}
				if len(fs) >= 2 && nonFlag >= 1 {
					n++
					r.Violate(rule, sprintf("shared-bit:%s.%s/bit%d", shortPkg(m.Pkg), m.Name, b), c.pos(m.Pos),
						sprintf("fields %s share flag bit %d; the encoder decides presence per field (IsZero), so a zero-valued field of a present group is omitted while the decoder expects it", strings.Join(names, ","), b))
				}
			}
		}
		if n == 0 {
			r.Hold(rule, "encoder:presence-shape", site, "per-field emission, and no registered type shares a flag bit between two fields")
		}
		r.Extra["shared_flag_groups"] = n
	default:
		r.Undecide(rule, "encoder:presence-shape", site, "neither the per-field (IsZero) nor the per-group (flags & mask) emission idiom was recognised in encodeStruct")
	}
	// bitflag-bool arm: writes nothing, decoder sets true without reading
}

func c01Primitives(c *Ctx, tr *an.Tracer) {
	r := c.R
	type prim struct {
		put, pop   string
		width      int64
		putE, popE string
		extra      string
	}
	for _, p := range []prim{
		{"PutUint", "PopUint", 4, "littleEndian).PutUint32", "littleEndian).Uint32", ""},
		{"PutLong", "PopLong", 8, "littleEndian).PutUint64", "littleEndian).Uint64", ""},
		{"PutDouble", "PopDouble", 8, "littleEndian).PutUint64", "littleEndian).Uint64", "math.Float64bits|math.Float64frombits"},
	} {
		w := c.fn("R01.P", load.TLPkg, "*Encoder", p.put)
		rd := c.fn("R01.P", load.TLPkg, "*Decoder", p.pop)
		if w == nil || rd == nil {
			continue
		}
		var diffs []string
		okW, okR := false, false
		for _, cs := range an.Calls(w) {
			if strings.HasSuffix(cs.Name, p.putE) && bufLen(cs.Common.Args[1]) == p.width {
				okW = true
			}
		}
		for _, cs := range an.Calls(rd) {
			if strings.HasSuffix(cs.Name, p.popE) && bufLen(cs.Common.Args[1]) == p.width {
				okR = true
			}
		}
		if !okW {
			diffs = append(diffs, sprintf("%s does not write %d little-endian bytes", p.put, p.width))
		}
		if !okR {
			diffs = append(diffs, sprintf("%s does not read %d little-endian bytes", p.pop, p.width))
		}
		if p.extra != "" {
			parts := strings.Split(p.extra, "|")
			if len(an.CallsNamed(w, parts[0])) == 0 || len(an.CallsNamed(rd, parts[1])) == 0 {
				diffs = append(diffs, "IEEE-754 bit conversion missing on one side")
			}
		}
		// the bytes written / read are the ones handed to write / read
		r.Check(len(diffs) == 0, "R01.P", "pair:"+p.put+"/"+p.pop, c.pos(w.Pos()), strings.Join(diffs, "; "))
	}
	// Int32 passes through PutUint / PopUint by sign-preserving conversions
	// a Go string is a byte string: what PutString frames is the conversion of its argument and nothing else (a
	// "repaired" UTF-8 sequence comes back as another string)
	if w := c.fn("R01.P", load.TLPkg, "*Encoder", "PutString"); w != nil {
		n := 0
		for _, cs := range an.Calls(w) {
			if !strings.HasSuffix(cs.Name, "Encoder).PutMessage") {
				continue
			}
			n++
			args := an.CallArgs(cs.Common)
			cv, isCv := args[len(args)-1].(*ssa.Convert)
			r.Check(isCv && len(w.Params) == 2 && cv.X == ssa.Value(w.Params[1]), "R01.P", "string:writer:bytes-as-given", c.pos(cs.Pos()), "PutString frames []byte(msg) of its own argument (no trimming, case folding or UTF-8 repair in between)")
		}
		if n == 0 {
			r.Undecide("R01.P", "string:writer:bytes-as-given", c.pos(w.Pos()), "no PutMessage call in PutString")
		}
	}
	if w := c.fn("R01.P", load.TLPkg, "*Encoder", "PutInt"); w != nil {
		rd := c.fn("R01.P", load.TLPkg, "*Decoder", "PopInt")
		ok := len(an.CallsNamed(w, "(*"+load.TLPkg+".Encoder).PutUint")) == 1 && rd != nil && len(an.CallsNamed(rd, "(*"+load.TLPkg+".Decoder).PopUint")) == 1
		r.Check(ok, "R01.P", "pair:PutInt/PopInt", c.pos(w.Pos()), "int32 travels as its uint32 bit pattern on both sides")
	}
	// Bool ids
	const crcTrue, crcFalse = 0x997275b5, 0xbc799737
	if w := c.fn("R01.P", load.TLPkg, "*Encoder", "PutBool"); w != nil {
		var bad []string
		for _, v := range []bool{true, false} {
			want := int64(crcFalse)
			if v {
				want = crcTrue
			}
			_, exec := an.ReachExec(w, nil, func(i *ssa.If) (int, bool) {
				cd, ok := an.Classify(i)
				if ok && cd.Kind == "bool" && isParam(cd.X, w, 1) {
					return cd.EdgeWhen(v).Succ, true
				}
				return 0, false
			})
			got := int64(-1)
			for _, cs := range an.CallsNamed(w, "(*"+load.TLPkg+".Encoder).PutUint") {
				arg := an.Unconv(cs.Common.Args[1])
				if cv, ok := arg.(*ssa.Convert); ok {
					arg = cv.X
				}
				if phi, ok := arg.(*ssa.Phi); ok {
					vals := an.PhiValues(phi, exec)
					if len(vals) == 1 {
						got, _ = an.ConstInt(vals[0])
					}
				} else if k, ok := an.ConstInt(arg); ok {
					got = k
				}
			}
			if got != want {
				bad = append(bad, sprintf("PutBool(%v) writes %#x, TL says %#x", v, got, want))
			}
		}
		r.Check(len(bad) == 0, "R01.P", "bool:writer-ids", c.pos(w.Pos()), strings.Join(bad, "; "))
	}
	if rd := c.fn("R01.P", load.TLPkg, "*Decoder", "PopBool"); rd != nil {
		var bad []string
		var crcCall ssa.Value
		for _, cs := range an.CallsNamed(rd, "(*"+load.TLPkg+".Decoder).PopUint") {
			crcCall = cs.Value()
		}
		for _, tc := range []struct {
			id   int64
			want string
		}{{crcTrue, "true"}, {crcFalse, "false"}, {0x12345678, "error"}} {
			reach := an.ReachWith(rd, nil, func(i *ssa.If) (int, bool) {
				v, ok := an.EvalCond(i.Cond, func(x ssa.Value) (int64, bool) {
					if x == crcCall {
						return tc.id, true
					}
					return 0, false
				})
				if !ok {
					// d.err != nil after PopUint: assume no read error
					if cd, okc := an.Classify(i); okc && cd.Kind == "nil" {
						return cd.EdgeWhen(true).Succ, true
					}
					return 0, false
				}
				if v {
					return 0, true
				}
				return 1, true
			})
			got := map[string]bool{}
			// with the id fixed the branches on it are decided and what stays reachable is the way this id takes:
			// the error is recorded somewhere on it (in the returning block, or in a block before a shared return)
			setsErr := false
			for _, b := range rd.Blocks {
				if !reach[b] {
					continue
				}
				for _, in := range b.Instrs {
					if st, ok := in.(*ssa.Store); ok {
						if fa, ok := st.Addr.(*ssa.FieldAddr); ok && an.FieldName(fa.X.Type(), fa.Field) == "tl.Decoder.err" {
							setsErr = true
						}
					}
				}
			}
			for _, b := range rd.Blocks {
				if !reach[b] {
					continue
				}
				for _, in := range b.Instrs {
					if ret, ok := an.AsReturn(in); ok && len(ret.Results) == 1 {
						if k, ok := an.RetVal(ret, 0).(*ssa.Const); ok {
							if setsErr {
								got["error"] = true
							} else {
								got[k.Value.String()] = true
							}
						}
					}
				}
			}
			if len(got) != 1 || !got[tc.want] {
				bad = append(bad, sprintf("id %#x is read as %v, want %s", tc.id, got, tc.want))
			}
		}
		r.Check(len(bad) == 0 && crcCall != nil, "R01.P", "bool:reader-ids", c.pos(rd.Pos()), strings.Join(bad, "; "))
	}
	// vector: id then count on both sides
	if w := c.fn("R01.P", load.TLPkg, "*Encoder", "encodeVector"); w != nil {
		ok := false
		var seq []string
		for _, cs := range an.Calls(w) {
			if m := an.CodecMethod(cs.Name, load.TLPkg); m != "" {
				lab := m
				if k, okk := an.ConstInt(cs.Common.Args[1]); okk {
					lab += sprintf("(%#x)", k)
				} else {
					lab += "(" + c.valueLabel(tr, cs.Common.Args[1]) + ")"
				}
				seq = append(seq, lab)
			}
		}
		ok = len(seq) >= 2 && seq[0] == "PutCRC(0x1cb5c415)" && strings.HasPrefix(seq[1], "PutUint(len(")
		r.Check(ok, "R01.P", "vector:writer", c.pos(w.Pos()), strings.Join(seq, ", "))
	}
	if rd := c.fn("R01.P", load.TLPkg, "*Decoder", "popVector"); rd != nil {
		okID, okCount := false, false
		for _, i := range an.Ifs(rd) {
			cd, ok := an.Classify(i)
			if ok && cd.Kind == "eq" {
				if k, okk := an.ConstInt(cd.Y); okk && k == 0x1cb5c415 && strings.Contains(tr.OriginString(cd.X), "PopCRC") {
					okID = true
				}
			}
		}
		for _, cs := range an.CallsNamed(rd, "reflect.MakeSlice") {
			if strings.Contains(tr.OriginString(cs.Common.Args[1]), "PopUint") {
				okCount = true
			}
		}
		r.Check(okID && okCount, "R01.P", "vector:reader", c.pos(rd.Pos()), "id compared with 0x1cb5c415, count read with PopUint")
	}
}

func c01HandWritten(c *Ctx, pp *pop.Population, tr *an.Tracer) {
	r := c.R
	for _, m := range pp.Members {
		if !m.Marshaler && !m.Unmarshaler {
			continue
		}
		key := "codec:" + shortPkg(m.Pkg) + "." + m.Name
		if !(m.Marshaler && m.Unmarshaler) {
			r.Violate("R01.H", key+"/both-methods", c.pos(m.Pos), sprintf("MarshalTL: %v, UnmarshalTL: %v — one side of the codec is missing", m.Marshaler, m.Unmarshaler))
			continue
		}
		w := c.P.Func(m.Pkg, "*"+m.Name, "MarshalTL")
		rd := c.P.Func(m.Pkg, "*"+m.Name, "UnmarshalTL")
		if w == nil || rd == nil {
			r.Undecide("R01.H", key, c.pos(m.Pos), "codec methods not found in SSA")
			continue
		}
		// unconditional panic?
		for _, f := range []*ssa.Function{w, rd} {
			uncond := false
			if len(f.Blocks) > 0 {
				for _, in := range f.Blocks[0].Instrs {
					if _, ok := in.(*ssa.Panic); ok {
						uncond = true
					}
				}
			}
			if uncond {
				r.Violate("R01.H", key+"/"+f.Name()+"-not-implemented", c.pos(f.Pos()), f.Name()+" panics unconditionally: a value of this registered type cannot be serialised")
			}
		}
		// sequence comparison for MessageContainer: loop body ops
		if m.Name == "MessageContainer" {
			c01Container(c, w, rd, tr, key)
		}
		// who consumes the constructor id?  The by-id path reads it before UnmarshalTL; when the type is named,
		// tl.Decode has to - unless UnmarshalTL reads it itself
		readsID := false
		if len(rd.Blocks) > 0 {
			for _, cs := range an.Calls(rd) {
				if strings.HasSuffix(cs.Name, "Decoder).PopCRC") && cs.Block == rd.Blocks[0] {
					readsID = true
				}
			}
		}
		if !readsID {
			ok, why := decodeConsumesIDForUnmarshalers(c)
			r.Check(ok, "R01.H", key+"/by-name:id-consumed", c.pos(rd.Pos()), "UnmarshalTL starts after the constructor id (the registry path has read it); tl.Decode(data, &v) reads and checks the id before it hands a value that is both an Object and an Unmarshaler to its UnmarshalTL: "+why)
		}
	}
}

// decodeConsumesIDForUnmarshalers: tl.Decode calls PopCRC behind comma-ok assertions of its destination to
// tl.Object and tl.Unmarshaler, compares the id with the destination's CRC() and does not go on when they differ.
func decodeConsumesIDForUnmarshalers(c *Ctx) (bool, string) {
	f := c.P.Func(load.TLPkg, "", "Decode")
	if f == nil {
		return false, "tl.Decode not found"
	}
	var pop ssa.Instruction
	var popVal ssa.Value
	for _, cs := range an.Calls(f) {
		if strings.HasSuffix(cs.Name, "Decoder).PopCRC") {
			pop = cs.Instr
			popVal = cs.Value()
		}
	}
	if pop == nil {
		return false, "tl.Decode does not read the id"
	}
	guards := map[string]bool{}
	var cmp *an.Cond
	for _, i := range an.Ifs(f) {
		cd, ok := an.Classify(i)
		if !ok {
			continue
		}
		if cd.Kind == "assert" && cd.Assert != nil {
			name := cd.Assert.AssertedType.String()
			if len(an.Guarded(f, []an.Edge{cd.EdgeWhen(true)}, []ssa.Instruction{pop})) == 0 {
				guards[name[strings.LastIndex(name, ".")+1:]] = true
			}
		}
		if cd.Kind == "eq" && (cd.X == popVal || cd.Y == popVal) {
			cmp = cd
		}
	}
	if !guards["Object"] || !guards["Unmarshaler"] {
		return false, "the read of the id is not confined to values that are both tl.Object and tl.Unmarshaler"
	}
	if cmp == nil {
		return false, "the id read is not compared with the destination's CRC()"
	}
	var next []ssa.Instruction
	for _, cs := range an.Calls(f) {
		if strings.HasSuffix(cs.Name, "Decoder).decodeValue") {
			next = append(next, cs.Instr)
		}
	}
	reach := an.ReachFrom(f, cmp.EdgeWhen(false), nil)
	for _, n := range next {
		if reach[n.Block()] {
			// reachable after a mismatch only if the error set on that edge is ignored
			errSet := false
			for _, in := range cmp.EdgeWhen(false).To().Instrs {
				if st, ok := in.(*ssa.Store); ok {
					if fa, ok := st.Addr.(*ssa.FieldAddr); ok && strings.HasSuffix(an.FieldName(fa.X.Type(), fa.Field), "Decoder.err") {
						errSet = true
					}
				}
			}
			if !errSet {
				return false, "after a mismatching id Decode goes on to decode the value"
			}
		}
	}
	return true, ""
}

// c01Container compares the per-message layout written and read by MessageContainer's codec with
// `message msg_id:long seqno:int bytes:int body:Object`.
func c01Container(c *Ctx, w, rd *ssa.Function, tr *an.Tracer, key string) {
	r := c.R
	loopOps := func(f *ssa.Function) []codecOp {
		// the blocks that lie on a cycle
		var ops []codecOp
		for _, b := range f.Blocks {
			onCycle := false
			for _, s := range b.Succs {
				if reachesBlock(s, b, map[*ssa.BasicBlock]bool{}) {
					onCycle = true
				}
			}
			if !onCycle {
				continue
			}
			ops = append(ops, c.codecOps(tr, an.Path{Blocks: []*ssa.BasicBlock{b}})...)
		}
		return ops
	}
	wo, ro := loopOps(w), loopOps(rd)
	var diffs []string
	if len(wo) != 4 || len(ro) != 4 {
		diffs = append(diffs, sprintf("expected 4 fields per message on both sides, writer %d reader %d", len(wo), len(ro)))
	} else {
		for i := 0; i < 3; i++ {
			if wo[i].width != ro[i].width {
				diffs = append(diffs, sprintf("field %d: writer width %s, reader width %s", i, wo[i].width, ro[i].width))
			}
		}
		// bytes field: the writer's value must be the length of the body it writes next; the reader reads `bytes` bytes as the body
		if len(wo[2].cs.Common.Args) < 2 || len(ro[3].cs.Common.Args) < 2 {
			diffs = append(diffs, "the third operation of the writer is not a Put with a value, or the fourth of the reader is not a read of `bytes` bytes: the four fields are not written / read in the order msg_id, seq_no, bytes, body")
		} else if v, ok := an.EvalInt(wo[2].cs.Common.Args[1], func(x ssa.Value) (int64, bool) {
			if call, ok := x.(*ssa.Call); ok && an.CalleeName(call.Common()) == "builtin:len" && strings.Contains(tr.OriginString(call.Call.Args[0]), "messages.Encrypted.Msg") {
				return 100, true
			}
			return 0, false
		}); !ok || v != 100 {
			diffs = append(diffs, sprintf("the writer puts bytes = %d for a 100-byte body; the reader (and the schema: bytes:int body:Object) take it as the body length", v))
		}
		if len(ro[3].cs.Common.Args) >= 2 && !valueIs(ro[3].cs.Common.Args[1], ro[2].cs.Value()) {
			diffs = append(diffs, "the reader does not read `bytes` bytes as the body")
		}
		for i, want := range []string{"messages.Encrypted.MsgID", "messages.Encrypted.SeqNo", "", "messages.Encrypted.Msg"} {
			if want != "" && (!strings.Contains(wo[i].label, want) || !strings.Contains(ro[i].label, want)) {
				diffs = append(diffs, sprintf("field %d should carry %s: writer %s, reader %s", i, want, wo[i].label, ro[i].label))
			}
		}
	}
	r.Check(len(diffs) == 0, "R01.H", key+"/layout", c.pos(w.Pos()), "writer: "+opsString(wo)+" ; reader: "+opsString(ro)+" :: "+strings.Join(diffs, "; "))
}

func reachesBlock(from, to *ssa.BasicBlock, seen map[*ssa.BasicBlock]bool) bool {
	if from == to {
		return true
	}
	if seen[from] {
		return false
	}
	seen[from] = true
	for _, s := range from.Succs {
		if reachesBlock(s, to, seen) {
			return true
		}
	}
	return false
}

// c01Admission: R01.V.  The size bounds that protect the decoder from hostile counts (C15) must not refuse honest
// input: a vector of n int-sized elements occupies exactly 4n bytes, a byte string of n bytes exactly n.  The guards
// on the way to the allocation are evaluated for (size, bytes left) pairs with nothing to spare; a guard that mentions
// the size and cannot be evaluated from the size and the bytes left alone is reported as undecided.
func c01Admission(c *Ctx) {
	r := c.R
	// the depth bound that protects the decoder (C15 R15.D) must not refuse honest input either: a level is given
	// back on every exit, so the count follows the nesting and not the number of values decoded
	c.depthBalanced("R01.V")
	// an empty read is no read: bytes.Reader.Read answers io.EOF at the end of the input even for an empty
	// buffer, so a zero-length field that happens to be the last thing in a message (the empty body of the last
	// message of a container) would set the sticky error on input the encoder itself produced
	var readers []*ssa.Function
	for f := range c.P.AllFunctions() {
		if load.FuncPkgPath(f) == load.TLPkg && len(f.Blocks) > 0 && f.Signature.Recv() != nil && strings.HasSuffix(f.Signature.Recv().Type().String(), "tl.Decoder") {
			readers = append(readers, f)
		}
	}
	sort.Slice(readers, func(i, j int) bool { return readers[i].String() < readers[j].String() })
	nReads := 0
	for _, rf := range readers {
		n := 0
		for _, cs := range an.Calls(rf) {
			if cs.Name != "(*bytes.Reader).Read" {
				continue
			}
			n++
			nReads++
			args := an.CallArgs(cs.Common)
			if len(args) < 2 {
				continue
			}
			buf := args[1]
			if ms, isMS := buf.(*ssa.MakeSlice); isMS {
				if k, isK := an.ConstInt(ms.Len); isK && k > 0 {
					r.Hold("R01.V", sprintf("admission:%s/zero-length-is-no-read#%d", rf.Name(), n), c.pos(cs.Pos()), "buffer of constant non-zero length")
					continue
				}
			}
			var sizeOf ssa.Value
			if ms, isMS := buf.(*ssa.MakeSlice); isMS {
				sizeOf = an.Unconv(ms.Len)
			}
			guarded := an.DominatingGuard(rf, cs.Instr, func(cd *an.Cond) int {
				isLen := func(v ssa.Value) bool {
					if sizeOf != nil && an.Unconv(v) == sizeOf {
						return true // the size the buffer was made with
					}
					call, ok := v.(*ssa.Call)
					return ok && an.CalleeName(call.Common()) == "builtin:len" && len(call.Call.Args) == 1 && call.Call.Args[0] == ssa.Value(buf)
				}
				zero := func(v ssa.Value) bool { k, ok := an.ConstInt(v); return ok && k == 0 }
				switch {
				case cd.Kind == "eq" && (isLen(cd.X) && zero(cd.Y) || isLen(cd.Y) && zero(cd.X)):
					return cd.EdgeWhen(false).Succ
				case cd.Kind == "ord" && isLen(cd.X) && zero(cd.Y) && cd.Rel == ">":
					return 0
				case cd.Kind == "ord" && isLen(cd.X) && zero(cd.Y) && cd.Rel == "<=":
					return 1
				}
				return -1
			})
			r.Check(guarded, "R01.V", sprintf("admission:%s/zero-length-is-no-read#%d", rf.Name(), n), c.pos(cs.Pos()), "the Read of the underlying reader is issued only for a non-empty buffer (len(buf) != 0 on every path to it): a zero-length Read at the end of the input answers io.EOF")
		}
	}
	if nReads == 0 {
		r.Undecide("R01.V", "admission:read/zero-length-is-no-read", "", "no (*bytes.Reader).Read call found in the methods of tl.Decoder")
	}
	type site struct {
		recv, fn, key string
		unit          int64 // bytes per element for the honest grid
	}
	for _, st := range []site{{"*Decoder", "popVector", "admission:popVector", 4}, {"*Decoder", "PopRawBytes", "admission:PopRawBytes", 1}} {
		f := c.fn("R01.V", load.TLPkg, st.recv, st.fn)
		if f == nil {
			continue
		}
		// the allocation and the size value
		var alloc ssa.Instruction
		var size ssa.Value
		for _, b := range f.Blocks {
			for _, in := range b.Instrs {
				switch x := in.(type) {
				case *ssa.MakeSlice:
					alloc, size = x, x.Len
				case *ssa.Call:
					if an.CalleeName(x.Common()) == "reflect.MakeSlice" && len(x.Call.Args) == 3 {
						alloc, size = x, x.Call.Args[1]
					}
				}
			}
		}
		for {
			cv, ok := size.(*ssa.Convert)
			if !ok {
				break
			}
			size = cv.X
		}
		if alloc == nil || size == nil {
			r.Undecide("R01.V", st.key, c.pos(f.Pos()), "allocation sized by the wire value not found")
			continue
		}
		var bad []string
		undecidable := ""
		n := 0
		for _, cnt := range c.grid([]int64{0, 1, 2, 3, 7, 255, 65536}, 0, 600, 1) {
			for _, spare := range []int64{0, 4} {
				left := cnt*st.unit + spare
				atom := func(v ssa.Value) (int64, bool) {
					if v == size {
						return cnt, true
					}
					if call, ok := v.(*ssa.Call); ok && (an.CalleeName(call.Common()) == "(*bytes.Reader).Len" || an.CalleeName(call.Common()) == "(*bytes.Buffer).Len") {
						return left, true
					}
					return 0, false
				}
				decide := func(i *ssa.If) (int, bool) {
					if !i.Block().Dominates(alloc.Block()) {
						return 0, false
					}
					res, ok := an.EvalCond(i.Cond, atom)
					if !ok {
						if an.Mentions(i.Cond, size) {
							undecidable = c.pos(i.Cond.Pos())
						}
						return 0, false
					}
					if res {
						return 0, true
					}
					return 1, true
				}
				n++
				reach := an.ReachWith(f, nil, decide)
				if !reach[alloc.Block()] {
					bad = append(bad, sprintf("size=%d with %d bytes left is refused", cnt, left))
				}
			}
		}
		if undecidable != "" && len(bad) == 0 {
			r.Undecide("R01.V", st.key, undecidable, "the bound on the wire size depends on something other than the size and the bytes left: cannot show that it admits every honest input (a bound scaled by the element's in-memory size rejects short elements)")
			continue
		}
		r.Check(len(bad) == 0, "R01.V", st.key, c.pos(alloc.Pos()), sprintf("%d honest (size, bytes left) pairs evaluated: %s", n, strings.Join(bad, "; ")))
	}
}

// marshalOwnsResult: the slice tl.Marshal returns is the content of a buffer created by this call and kept by nobody
// else: a buffer taken from (or put back into) a pool, a package variable or the encoder's retained state is
// overwritten by the next Marshal while the caller still holds the bytes (sendPacket marshals before it takes the
// send lock).
func (c *Ctx) marshalOwnsResult(rule string) {
	r := c.R
	mf := c.fn(rule, load.TLPkg, "", "Marshal")
	if mf == nil {
		return
	}
	tr := an.NewTracer()
	n := 0
	for _, b := range mf.Blocks {
		ret, ok := an.AsReturn(b.Instrs[len(b.Instrs)-1])
		if !ok || len(ret.Results) != 2 || an.MayReturnNil(ret, 0) {
			continue
		}
		n++
		src := an.RetVal(ret, 0)
		if call, isCall := src.(*ssa.Call); isCall && an.CalleeName(call.Common()) == "(*bytes.Buffer).Bytes" {
			src = call.Call.Args[0] // the buffer whose content is returned
		}
		os := tr.Origins(src)
		fresh := len(os) > 0
		for _, o := range os {
			// bytes of a bytes.Buffer made here, or a fresh copy
			okO := (strings.HasPrefix(o, "call:bytes.NewBuffer") || strings.HasPrefix(o, "alloc:bytes.Buffer") || strings.HasPrefix(o, "make:") || strings.HasPrefix(o, "call:builtin:append")) &&
				!strings.Contains(o, "sync.Pool") && !strings.Contains(o, "global:")
			if !okO {
				fresh = false
			}
		}
		// the buffer must not be handed to anything that keeps it (pool Put, store to a package variable)
		kept := ""
		for _, cs := range an.Calls(mf) {
			if strings.Contains(cs.Name, "sync.Pool).Put") {
				kept = "handed to " + shortCallee(cs.Name) + " at " + c.pos(cs.Pos())
			}
		}
		for _, bb := range mf.Blocks {
			for _, in := range bb.Instrs {
				if st, isSt := in.(*ssa.Store); isSt {
					if _, isG := st.Addr.(*ssa.Global); isG {
						kept = "stored in a package variable at " + c.pos(st.Pos())
					}
				}
			}
		}
		r.Check(fresh && kept == "", rule, sprintf("marshal:result-owned-by-caller#%d", n), c.pos(ret.Pos()),
			"the returned bytes come from "+simplifyOrigin(strings.Join(os, " | "))+" "+kept+": they must belong to a buffer made by this call and kept by nobody else")
	}
	if n == 0 {
		r.Undecide(rule, "marshal:result-owned-by-caller", c.pos(mf.Pos()), "no value-returning exit of tl.Marshal")
	}
}

// c01EnumByName: R01.E.
func c01EnumByName(c *Ctx) {
	r := c.R
	f := c.fn("R01.E", load.TLPkg, "*Decoder", "decodeObject")
	if f == nil {
		return
	}
	tr := an.NewTracer()
	var sets []an.CallSite
	for _, cs := range an.CallsNamed(f, "(reflect.Value).SetUint") {
		if len(cs.Common.Args) == 2 && tr.HasOrigin(cs.Common.Args[1], "tl.Decoder).PopCRC") {
			sets = append(sets, cs)
		}
	}
	if len(sets) == 0 {
		r.Violate("R01.E", "enum-by-name", c.pos(f.Pos()), "decodeObject never assigns the constructor id it read to the value: tl.Decode(data, &enumValue) compares the id with the CRC() of the zero value and refuses every member of every enum type")
		return
	}
	// the assignment is guarded by a membership test that involves the registry
	guarded := false
	for _, i := range an.Ifs(f) {
		cd, ok := an.Classify(i)
		if !ok {
			continue
		}
		o := ""
		if cd.X != nil {
			o += tr.OriginString(cd.X)
		}
		if cd.Y != nil {
			o += tr.OriginString(cd.Y)
		}
		if !strings.Contains(o, "global:objectByCrc") && !strings.Contains(o, "global:enumCrcs") {
			continue
		}
		for _, pass := range []bool{true, false} {
			if len(an.Guarded(f, []an.Edge{cd.EdgeWhen(pass)}, []ssa.Instruction{sets[0].Instr})) == 0 {
				guarded = true
			}
		}
	}
	r.Check(guarded, "R01.E", "enum-by-name", c.pos(sets[0].Pos()), "the value is set from the id read from the wire, behind a test against the registry of enum members")
	ok, why := enumLeavesBeforeWalk(c)
	r.Check(ok, "R01.E", "enum-by-name:leaves-before-the-struct-walk", c.pos(f.Pos()), "once the destination is known to be a uint32 (an enum), decodeObject returns - member or not - before the code that walks struct fields: "+why)
}

// enumLeavesBeforeWalk: in decodeObject, behind the true edge of the test `e.Kind() == reflect.Uint32`, neither a
// panic nor the struct walk (NumField) is reachable.
func enumLeavesBeforeWalk(c *Ctx) (bool, string) {
	f := c.P.Func(load.TLPkg, "*Decoder", "decodeObject")
	if f == nil {
		return false, "decodeObject not found"
	}
	var edge *an.Edge
	for _, i := range an.Ifs(f) {
		cd, ok := an.Classify(i)
		if !ok || cd.Kind != "eq" {
			continue
		}
		x, y := cd.X, cd.Y
		if _, isConst := x.(*ssa.Const); isConst {
			x, y = y, x
		}
		call, isCall := x.(*ssa.Call)
		k, isK := an.ConstInt(y)
		if isCall && isK && an.CalleeName(call.Common()) == "(reflect.Value).Kind" && k == int64(reflect.Uint32) {
			e := cd.EdgeWhen(true)
			edge = &e
		}
	}
	if edge == nil {
		return false, "no test of the destination's kind against Uint32"
	}
	reach := an.ReachFrom(f, *edge, nil)
	for _, b := range f.Blocks {
		if !reach[b] {
			continue
		}
		for _, in := range b.Instrs {
			switch x := in.(type) {
			case *ssa.Panic:
				return false, "the panic at " + c.pos(x.Pos()) + " is reachable for an enum destination (an id that is not a member falls through to the struct code)"
			case *ssa.Call:
				if n := an.CalleeName(x.Common()); n == "(reflect.Value).NumField" || n == "invoke:(reflect.Type).NumField" {
					return false, "the struct walk at " + c.pos(x.Pos()) + " is reachable for an enum destination"
				}
			}
		}
	}
	return true, ""
}

// c01HintQueue (R01.Q): nested bare vectors take their hints in pre-order; the outer hint has to be gone from the
// queue when the elements of the outer vector are decoded.
func c01HintQueue(c *Ctx) {
	r := c.R
	f := c.fn("R01.Q", load.TLPkg, "*Decoder", "decodeRegisteredObject")
	if f == nil {
		return
	}
	var pops []ssa.Instruction
	for _, cs := range an.Calls(f) {
		if strings.HasSuffix(cs.Name, "Decoder).popVector") {
			pops = append(pops, cs.Instr)
		}
	}
	var advances []ssa.Instruction
	for _, b := range f.Blocks {
		for _, in := range b.Instrs {
			st, ok := in.(*ssa.Store)
			if !ok {
				continue
			}
			fa, ok := st.Addr.(*ssa.FieldAddr)
			if !ok || !strings.HasSuffix(an.FieldName(fa.X.Type(), fa.Field), "Decoder.expectedTypes") {
				continue
			}
			if sl, ok := st.Val.(*ssa.Slice); ok && sl.Low != nil {
				advances = append(advances, in)
			}
		}
	}
	if len(pops) == 0 || len(advances) == 0 {
		r.Undecide("R01.Q", "hints:advanced-before-elements", c.pos(f.Pos()), sprintf("expected the popVector call and the expectedTypes = expectedTypes[1:] store in decodeRegisteredObject, found %d and %d", len(pops), len(advances)))
		return
	}
	ok := true
	why := ""
	for _, p := range pops {
		before := false
		for _, a := range advances {
			if an.InstrDominates(a, p) {
				before = true
			}
			if an.InstrDominates(p, a) {
				ok, why = false, "the queue is advanced at "+c.pos(a.Pos())+", after the elements were read at "+c.pos(p.Pos())+": a vector nested in the elements is decoded with the outer hint"
			}
		}
		if !before && ok {
			ok, why = false, "no advance of the queue dominates the read of the elements at "+c.pos(p.Pos())
		}
	}
	r.Check(ok, "R01.Q", "hints:advanced-before-elements", c.pos(f.Pos()), "expectedTypes = expectedTypes[1:] precedes popVector(hint.Elem()); "+why)
}
