package props

import (
	"sort"
	"strings"

	"verif/checker/internal/an"
	"verif/checker/internal/load"

	"golang.org/x/tools/go/ssa"
)

func init() { register("C16", c16) }

func c16(c *Ctx) {
	r := c.R
	r.Explanation = "A server message can kill the client only through a panic in the receive goroutine or an error that reaches the loop's fatal arm: a " +
		"census of explicit panics, panicking helpers and unchecked type assertions in every repository function reachable from the goroutine started by " +
		"startReadingResponses (decode, dispatch, acknowledgement, reconnect and key-exchange code included), each discharged, accepted with a reason, or " +
		"listed as a finding; the dispatch has a non-fatal default arm and the well-formed service arms reach no panic; on end-of-stream the loop reconnects " +
		"and nothing on the reconnect path outside makeAuthKey writes the auth key, its hash or the encrypted flag."
	r.NotDecided = []string{"that the loop never blocks (sends on Warnings / waiter channels) — liveness", "that requests issued afterwards complete",
		"index/slice/reflect sites of the decode path: decided under C15, of the error path: C17"}
	c.errorsKept("R16.E", "the receive path (readMsg, processResponse, writeRPCResponse)", 5, rootMethods("readMsg", "processResponse", "writeRPCResponse", "startReadingResponses"))
	r.Rule("R16.P", "every explicit panic / panicking helper / unchecked assertion reachable from the receive goroutine is discharged, accepted with a reason, or a listed finding", 20)
	r.Rule("R16.I", "every message the transport delivers is handed on and dispatched (as C09 R09.I): requests issued after any server message still complete only if later messages are not filtered away in front of the dispatch", 2)
	c.everyMessageDispatched("R16.I")
	r.Rule("R16.D", "dispatch: unknown objects fall into a default arm that neither returns an error nor panics; pong / msgs_ack / new_session_created arms reach no panic", 4)
	r.Rule("R16.K", "reconnect keeps the key: the EOF arm calls Reconnect; nothing reachable from Reconnect outside makeAuthKey writes authKey / authKeyHash / encrypted", 2)
	tr := an.NewTracer()

	start := c.fn("R16.P", load.RootMod, "*MTProto", "startReadingResponses")
	if start == nil {
		return
	}
	var entries []*ssa.Function
	for _, f := range an.WithAnon(start) {
		if f != start {
			entries = append(entries, f)
		}
	}
	if len(entries) == 0 {
		r.Undecide("R16.P", "entry", c.pos(start.Pos()), "the goroutine literal of startReadingResponses was not found")
		return
	}
	fns := c.censusRegion(entries, nil)
	conds := c.populationConditions()
	// table conditions of C17 are needed for inherited entries
	if pk := c.P.Pkg(load.RootMod); pk != nil {
		if rows, _, ok := errorTables(pk); ok {
			pm, kinds := false, true
			for _, row := range rows {
				if row.prefix == "PHONE_MIGRATE_" && row.kind == "Int" {
					pm = true
				}
				if row.kind != "Int" && row.kind != "String" {
					kinds = false
				}
			}
			conds["phone-migrate-row-int"] = pm
			conds["error-kinds-int-or-string"] = kinds
		}
	}
	conds["native-returns-ErrResponseCode"] = nativeReturnsErrResponseCode(c)
	conds["putmessage-split"] = putMessageSplit(c)
	conds["gzip-never-built"] = neverAllocated(c, "objects.GzipPacked")
	conds["mode-is-intermediate"] = modeIsIntermediate(c)
	c.nilTypes("R16.N", fns, 30)
	r.Rule("R16.T", "no read loop of the receive region can spin: a loop around a Read leaves when the reader keeps returning (0, a non-sentinel error) (= C15 R15.T; a gzip stream with a damaged trailer would otherwise stall the receive goroutine for good)", 1)
	c.readerLoops("R16.T", fns)
	n, d, a := c.runCensus("R16.P", fns, map[string]bool{"panic": true, "helper": true, "assert": true, "errpath": true, "make": true}, conds, "C15/R15.C", "C17/R17.P", "C04/R04.P", "C06/R06.P")
	r.Extra["census_functions"] = len(fns)
	r.Extra["census_sites"] = n
	r.Extra["census_discharged"] = d
	r.Extra["census_accepted"] = a

	// ---- R16.W: the loop must not wait for itself ------------------------------------------------
	r.Rule("R16.O", "a solicited answer finds its waiter: the request's waiter is registered before the request is written (an rpc_result dispatched in between returns 'not found', which the loop's default arm turns into a panic — the listed finding — so the window must not exist)", 2)
	c.registerBeforeWrite("R16.O")
	r.Rule("R16.L", "the waiter and hint tables are written only inside the exclusive Lock section of their mutex and read inside a Lock / RLock section (= R09.L filed under C16): a map written under RLock while the receive loop reads it ends the process with a fatal error no recover() stops", 8)
	c.tableLocks("R16.L")
	c.receiveLoopNeverWaits("R16.Q")
	r.Rule("R16.M", "every mutex the repository's own code locks is given back on every path to a return (deferred Unlock, or an explicit one before the exit) and is not locked again while held: a handler that leaves the switch early with the lock held stops the loop at the next message of that kind", 10)
	c.locksReleased("R16.M", c.repoFunctionsWithLocks())
	r.Rule("R16.X", "no waiter channel is closed by the table or the receive path (a send on a closed channel panics in the receive goroutine)", 1)
	c.noWaiterClose("R16.X")
	r.Rule("R16.B", "the receive goroutine never blocks on a channel nobody reads: every send it performs goes to the channel registered under the id the server echoed for one request", 2)
	c.receiveSendsTargeted("R16.B")
	r.Rule("R16.W", "the receive goroutine is registered in routineswg (Add/Done): nothing reachable from it may Wait on that group", 1)
	{
		tr2 := an.NewTracer()
		registered := false
		for _, g := range entries {
			for _, cs := range an.Calls(g) {
				if cs.Name == "(*sync.WaitGroup).Done" && strings.HasSuffix(tr2.OriginString(cs.Common.Args[0]), "mtproto.MTProto.routineswg") {
					registered = true
				}
			}
		}
		var waits []string
		for _, f := range fns {
			for _, cs := range an.Calls(f) {
				if cs.Name == "(*sync.WaitGroup).Wait" && strings.HasSuffix(tr2.OriginString(cs.Common.Args[0]), "mtproto.MTProto.routineswg") {
					path := c.Graph().PathTo(entries[0], c.inRepo, func(x *ssa.Function) bool { return x == f })
					waits = append(waits, an.ShortName(f)+" at "+c.pos(cs.Pos())+" via "+strings.Join(path, " → "))
				}
			}
		}
		if !registered {
			r.Hold("R16.W", "self-join", c.pos(start.Pos()), "the receive goroutine is not counted in routineswg")
		} else {
			r.Check(len(waits) == 0, "R16.W", "self-join", c.pos(start.Pos()), "routineswg.Wait() reachable from the goroutine that routineswg counts (it would wait for itself: the loop stops for ever on the first reconnect): "+strings.Join(waits, "; "))
		}
	}

	// every goroutine that gives a count back took one: a Done without its Add drives the counter below zero on
	// the second reconnect, and a negative WaitGroup counter is a panic in a goroutine nobody recovers
	{
		tr3 := an.NewTracer()
		isWG := func(cs an.CallSite, name string) bool {
			return cs.Name == "(*sync.WaitGroup)."+name && len(cs.Common.Args) > 0 && strings.HasSuffix(tr3.OriginString(cs.Common.Args[0]), "mtproto.MTProto.routineswg")
		}
		n := 0
		var rootFns []*ssa.Function
		for f := range c.P.AllFunctions() {
			if load.FuncPkgPath(f) == load.RootMod && len(f.Blocks) > 0 && f.Parent() == nil {
				rootFns = append(rootFns, f)
			}
		}
		sort.Slice(rootFns, func(i, j int) bool { return rootFns[i].String() < rootFns[j].String() })
		for _, f := range rootFns {
			for _, b := range f.Blocks {
				for _, in := range b.Instrs {
					g, ok := in.(*ssa.Go)
					if !ok {
						continue
					}
					mc, ok := g.Call.Value.(*ssa.MakeClosure)
					if !ok {
						continue
					}
					body, _ := mc.Fn.(*ssa.Function)
					if body == nil {
						continue
					}
					dones := 0
					for _, cs := range an.Calls(body) {
						if isWG(cs, "Done") {
							dones++
						}
					}
					adds := 0
					for _, cs := range an.Calls(f) {
						if isWG(cs, "Add") && an.InstrDominates(cs.Instr, in) {
							if k, isK := an.ConstInt(cs.Common.Args[1]); isK && k == 1 {
								adds++
							}
						}
					}
					if dones == 0 && adds == 0 {
						continue
					}
					n++
					r.Check(dones == adds, "R16.W", sprintf("counted:add-done-paired:%s#%d", an.ShortName(f), n), c.pos(in.Pos()), sprintf("the goroutine started here calls routineswg.Done() %d time(s); %d routineswg.Add(1) precede its start", dones, adds))
				}
			}
		}
		if n == 0 {
			r.Undecide("R16.W", "counted:add-done-paired", "", "no goroutine of the root package uses routineswg")
		}
	}

	// ---- R16.D ----------------------------------------------------------------------------------
	pr := c.fn("R16.D", load.RootMod, "*MTProto", "processResponse")
	if pr != nil {
		// the type switch: comma-ok assertions on the decoded object
		var arms []*an.Cond
		for _, i := range an.Ifs(pr) {
			cd, ok := an.Classify(i)
			if ok && cd.Kind == "assert" && strings.Contains(tr.OriginString(cd.X), "DecodeUnknownObject#0") {
				arms = append(arms, cd)
			}
		}
		if len(arms) < 6 {
			r.Undecide("R16.D", "dispatch", c.pos(pr.Pos()), sprintf("type switch over the decoded object not recognised (%d arms)", len(arms)))
		} else {
			fatal := func(reach map[*ssa.BasicBlock]bool) []string {
				var bad []string
				for _, b := range pr.Blocks {
					if !reach[b] {
						continue
					}
					for _, in := range b.Instrs {
						switch x := in.(type) {
						case *ssa.Panic:
							bad = append(bad, "panic at "+c.pos(x.Pos()))
						case ssa.CallInstruction:
							if f := an.StaticCallee(x.Common()); f != nil && an.IsPanicHelper(f) {
								bad = append(bad, f.Name()+"() at "+c.pos(x.Pos()))
							}
						case *ssa.Return:
							if len(x.Results) == 1 && !an.MayReturnNil(x, 0) {
								o := tr.OriginString(an.RetVal(x, 0))
								d := an.NewDeps(nil).Of(an.RetVal(x, 0))
								if !d.Has("MTProto).MakeRequest") && !d.Has("MTProto).makeRequest") { // only a failed acknowledgement may be returned
									bad = append(bad, "error return at "+c.pos(x.Pos())+" ("+simplifyOrigin(o)+")")
								}
							}
						}
					}
				}
				return bad
			}
			force := func(sel func(t string) (bool, bool)) map[*ssa.BasicBlock]bool {
				return an.ReachWith(pr, nil, func(i *ssa.If) (int, bool) {
					cd, ok := an.Classify(i)
					if !ok {
						return 0, false
					}
					if cd.Kind == "assert" && strings.Contains(tr.OriginString(cd.X), "DecodeUnknownObject#0") {
						v, decided := sel(typeString(cd.Assert.AssertedType))
						if decided {
							return cd.EdgeWhen(v).Succ, true
						}
						return 0, false
					}
					// decoding succeeded
					if cd.Kind == "nil" && strings.Contains(tr.OriginString(cd.X), "DecodeUnknownObject#1") {
						return cd.EdgeWhen(true).Succ, true
					}
					return 0, false
				})
			}
			bad := fatal(force(func(string) (bool, bool) { return false, true }))
			r.Check(len(bad) == 0, "R16.D", "default-arm:non-fatal", c.pos(pr.Pos()), "with every case of the type switch failing: "+strings.Join(bad, "; "))
			for _, t := range []string{"*objects.Pong", "*objects.MsgsAck", "*objects.NewSessionCreated"} {
				seen := false
				for _, a := range arms {
					if typeString(a.Assert.AssertedType) == t {
						seen = true
					}
				}
				if !seen {
					r.Violate("R16.D", "arm:"+t, c.pos(pr.Pos()), "no case for "+t+" in the dispatch")
					continue
				}
				bad := fatal(force(func(x string) (bool, bool) { return x == t, true }))
				r.Check(len(bad) == 0, "R16.D", "arm:"+t, c.pos(pr.Pos()), "well-formed service traffic is handled without a fatal exit: "+strings.Join(bad, "; "))
			}
		}
	}

	// ---- R16.K ----------------------------------------------------------------------------------
	okEOF := false
	for _, g := range entries {
		for _, i := range an.Ifs(g) {
			cd, ok := an.Classify(i)
			if !ok || cd.Kind != "eq" || !(isGlobalLoad(cd.Y, "EOF") || isGlobalLoad(cd.X, "EOF")) {
				continue
			}
			for _, in := range cd.EdgeWhen(true).To().Instrs {
				if call, ok := in.(ssa.CallInstruction); ok && strings.HasSuffix(an.CalleeName(call.Common()), "MTProto).Reconnect") {
					okEOF = true
				}
			}
		}
	}
	r.Check(okEOF, "R16.K", "eof-arm:reconnects", c.pos(start.Pos()), "on io.EOF the loop calls m.Reconnect()")
	if rc := c.fn("R16.K", load.RootMod, "*MTProto", "Reconnect"); rc != nil {
		isKeyEx := func(f *ssa.Function) bool { return an.ShortName(f) == "(*mtproto.MTProto).makeAuthKey" }
		var bad []string
		nf := 0
		for f := range c.Graph().Reachable([]*ssa.Function{rc}, func(f *ssa.Function) bool { return c.P.InRepo(f) && !isKeyEx(f) && !isRequestBarrier(f) }) {
			if !c.P.InRepo(f) || isKeyEx(f) {
				continue
			}
			nf++
			for _, b := range f.Blocks {
				for _, in := range b.Instrs {
					if st, ok := in.(*ssa.Store); ok {
						if fa, ok := st.Addr.(*ssa.FieldAddr); ok {
							switch an.FieldName(fa.X.Type(), fa.Field) {
							case "mtproto.MTProto.authKey", "mtproto.MTProto.authKeyHash", "mtproto.MTProto.encrypted":
								bad = append(bad, an.FieldName(fa.X.Type(), fa.Field)+" written in "+an.ShortName(f)+" at "+c.pos(st.Pos()))
							}
						}
					}
				}
			}
		}
		r.Check(len(bad) == 0 && nf > 3, "R16.K", "reconnect:key-untouched", c.pos(rc.Pos()), sprintf("%d functions reachable from Reconnect outside makeAuthKey: %s", nf, strings.Join(bad, "; ")))
	}
}

func nativeReturnsErrResponseCode(c *Ctx) bool {
	f := c.P.Func(load.RootMod, "", "RpcErrorToNative")
	if f == nil {
		return false
	}
	tr := an.NewTracer()
	n := 0
	for _, b := range f.Blocks {
		for _, in := range b.Instrs {
			if ret, ok := an.AsReturn(in); ok && len(ret.Results) == 1 {
				n++
				if !strings.HasPrefix(tr.OriginString(an.RetVal(ret, 0)), "alloc:mtproto.ErrResponseCode") {
					return false
				}
			}
		}
	}
	return n > 0
}

// putMessageSplit: putTinyBytes is called only for len < 254 and putLargeBytes only for len >= 254, and only from PutMessage.
func putMessageSplit(c *Ctx) bool {
	pm := c.P.Func(load.TLPkg, "*Encoder", "PutMessage")
	if pm == nil {
		return false
	}
	for f := range c.P.AllFunctions() {
		if !c.P.InRepo(f) || f == pm {
			continue
		}
		for _, cs := range an.Calls(f) {
			if strings.HasSuffix(cs.Name, "Encoder).putTinyBytes") || strings.HasSuffix(cs.Name, "Encoder).putLargeBytes") {
				return false
			}
		}
	}
	for _, n := range []int64{0, 253, 254, 1 << 20} {
		_, _, reach := evalAt(pm, pm.Params[1], func(v ssa.Value) (int64, bool) {
			if an.IsLenOf(v, func(x ssa.Value) bool { return isParam(x, pm, 1) }) {
				return n, true
			}
			return 0, false
		})
		for _, cs := range an.Calls(pm) {
			if !reach[cs.Block] {
				continue
			}
			if strings.HasSuffix(cs.Name, ".putTinyBytes") && n >= 254 || strings.HasSuffix(cs.Name, ".putLargeBytes") && n < 254 {
				return false
			}
		}
	}
	return true
}

// neverAllocated: no repository function allocates a value of the named type (pkg.Type).
func neverAllocated(c *Ctx, typ string) bool {
	for f := range c.P.AllFunctions() {
		if !c.P.InRepo(f) || strings.Contains(load.FuncPkgPath(f), "/examples/") {
			continue
		}
		for _, b := range f.Blocks {
			for _, in := range b.Instrs {
				if al, ok := in.(*ssa.Alloc); ok && strings.HasSuffix(typeString(al.Type()), "*"+typ) {
					return false
				}
			}
		}
	}
	return true
}

// modeIsIntermediate: every call of transport.NewTransport in the repository passes the constant mode.Intermediate (1).
func modeIsIntermediate(c *Ctx) bool {
	n := 0
	for f := range c.P.AllFunctions() {
		if !c.P.InRepo(f) {
			continue
		}
		for _, cs := range an.CallsNamed(f, load.TransPkg+".NewTransport") {
			n++
			if k, ok := an.ConstInt(cs.Common.Args[2]); !ok || (k != 0 && k != 1) {
				return false
			}
		}
	}
	return n > 0
}

// locksReleased: one obligation per Lock / RLock call of the given functions - the mutex is given back on every
// path to a return (deferred Unlock, or an explicit one before the exit) and is not locked again while held.
func (c *Ctx) locksReleased(rule string, fns []*ssa.Function) {
	r := c.R
	n := 0
	sort.Slice(fns, func(i, j int) bool { return fns[i].String() < fns[j].String() })
	for _, f := range fns {
		k := 0
		for _, s := range an.LockSites(f) {
			k++
			n++
			var bad []string
			for _, l := range s.Leaks {
				bad = append(bad, "the return at "+c.pos(l.Pos())+" is reached with the lock still held")
			}
			for _, l := range s.Relocks {
				bad = append(bad, "locked again at "+c.pos(l.Pos())+" while held")
			}
			r.Check(len(bad) == 0, rule, sprintf("lock-released:%s#%d", an.ShortName(f), k), c.pos(s.Lock.Pos()), simplifyOrigin(s.Mutex)+": "+strings.Join(bad, "; "))
		}
	}
	if n == 0 {
		r.Undecide(rule, "lock-released", "", "no mutex acquisition found in the region")
	}
}

// repoFunctionsWithLocks: every function (and closure) of the root package, utils, transport, mode and session.
func (c *Ctx) repoFunctionsWithLocks() []*ssa.Function {
	var fns []*ssa.Function
	for f := range c.P.AllFunctions() {
		if !c.inRepo(f) || len(f.Blocks) == 0 || f.Synthetic != "" {
			continue
		}
		fns = append(fns, f)
	}
	return fns
}
