// Package props holds the rule instances of each property (slots filled from this repository, floors).
package props

import (
	"fmt"
	"go/ast"
	"go/token"
	"go/types"
	"path/filepath"
	"sort"
	"sync"

	"verif/checker/internal/an"
	"verif/checker/internal/load"
	"verif/checker/internal/pop"
	"verif/checker/internal/rep"
	"verif/checker/internal/tlschema"

	"golang.org/x/tools/go/packages"
	"golang.org/x/tools/go/ssa"
)

type Ctx struct {
	P     *load.Program
	R     *rep.Report
	Tier  string
	Verif string // /verif root (triage.json)
}

type propFunc func(*Ctx)

var registry = map[string]propFunc{}

func register(id string, f propFunc) { registry[id] = f }

func Get(id string) propFunc { return registry[id] }

func IDs() []string {
	var ids []string
	for id := range registry {
		ids = append(ids, id)
	}
	sort.Strings(ids)
	return ids
}

// ---- per-program caches -------------------------------------------------------------------------

type cache struct {
	pop     *pop.Population
	popErr  error
	popOnce sync.Once
	api     *schemaInfo
	mt      *schemaInfo
	schOnce sync.Once
	schErr  error
	graph   *an.Graph
	gOnce   sync.Once
	pf      *popFacts
}

var caches sync.Map // *load.Program -> *cache

func (c *Ctx) cache() *cache {
	v, _ := caches.LoadOrStore(c.P, &cache{})
	return v.(*cache)
}

func (c *Ctx) Pop() (*pop.Population, error) {
	k := c.cache()
	k.popOnce.Do(func() { k.pop, k.popErr = pop.Build(c.P) })
	return k.pop, k.popErr
}

// Graph is VTA + CHA edges for the reflection-fed interfaces of package tl.
func (c *Ctx) Graph() *an.Graph {
	k := c.cache()
	k.gOnce.Do(func() { k.graph = an.NewGraph(c.P.VTA(), c.P.CHA(), load.TLPkg) })
	return k.graph
}

// inRepo / inRepoOrDry are the descent filters for reachability.
func (c *Ctx) inRepo(f *ssa.Function) bool      { return c.P.InRepo(f) }
func (c *Ctx) inRepoOrDry(f *ssa.Function) bool { return c.P.InRepoOrDry(f) }

type schemaInfo struct {
	S       *tlschema.Schema
	Skipped []string
	ByID    map[uint32][]*tlschema.Def
	ByName  map[string]*tlschema.Def
	Ctors   map[string][]*tlschema.Def // result type -> constructors (non-functions)
}

func indexSchema(s *tlschema.Schema, skipped []string) *schemaInfo {
	si := &schemaInfo{S: s, Skipped: skipped, ByID: map[uint32][]*tlschema.Def{}, ByName: map[string]*tlschema.Def{}, Ctors: map[string][]*tlschema.Def{}}
	for _, d := range s.Defs {
		if d.HasID {
			si.ByID[d.ID] = append(si.ByID[d.ID], d)
		}
		si.ByName[d.Name] = d
		if !d.IsFunc {
			si.Ctors[d.Result] = append(si.Ctors[d.Result], d)
		}
	}
	return si
}

// Schemas reads schemes/api_latest.tl and schemes/mtproto.tl from the working tree (as data).
func (c *Ctx) Schemas() (api, mt *schemaInfo, err error) {
	k := c.cache()
	k.schOnce.Do(func() {
		s, sk, e := tlschema.Parse(filepath.Join(c.P.Repo, "schemes", "api_latest.tl"))
		if e != nil {
			k.schErr = e
			return
		}
		k.api = indexSchema(s, sk)
		s, sk, e = tlschema.Parse(filepath.Join(c.P.Repo, "schemes", "mtproto.tl"))
		if e != nil {
			k.schErr = e
			return
		}
		k.mt = indexSchema(s, sk)
	})
	return k.api, k.mt, k.schErr
}

// ---- small helpers -------------------------------------------------------------------------------

func (c *Ctx) pos(p token.Pos) string { return c.P.Pos(p) }

// fn finds a function and records an UNDECIDED obligation when the anchor is gone.
func (c *Ctx) fn(rule, pkg, recv, name string) *ssa.Function {
	f := c.P.Func(pkg, recv, name)
	if f == nil {
		c.R.Undecide(rule, "anchor:"+shortPkg(pkg)+"."+recv+"."+name, "", "anchor function not found in the current tree")
	}
	return f
}

func shortPkg(p string) string {
	if p == load.RootMod {
		return "mtproto"
	}
	if len(p) > len(load.RootMod) && p[:len(load.RootMod)] == load.RootMod {
		return p[len(load.RootMod)+1:]
	}
	return p
}

// declOf returns the AST declaration and package of a package-level function or method.
func (c *Ctx) declOf(pkg, recv, name string) (*ast.FuncDecl, *packages.Package) {
	pk := c.P.Pkg(pkg)
	if pk == nil {
		return nil, nil
	}
	for _, f := range pk.Syntax {
		for _, d := range f.Decls {
			fd, ok := d.(*ast.FuncDecl)
			if !ok || fd.Name.Name != name {
				continue
			}
			if recv == "" {
				if fd.Recv == nil {
					return fd, pk
				}
				continue
			}
			if fd.Recv == nil || len(fd.Recv.List) != 1 {
				continue
			}
			if recvString(fd.Recv.List[0].Type) == recv {
				return fd, pk
			}
		}
	}
	return nil, pk
}

func recvString(e ast.Expr) string {
	switch t := e.(type) {
	case *ast.StarExpr:
		return "*" + recvString(t.X)
	case *ast.Ident:
		return t.Name
	case *ast.IndexExpr:
		return recvString(t.X)
	}
	return "?"
}

func typeString(t types.Type) string {
	return types.TypeString(t, func(p *types.Package) string { return p.Name() })
}

func sprintf(f string, a ...any) string { return fmt.Sprintf(f, a...) }

// grid returns the quick grid, and in the thorough tier the quick grid plus every value lo, lo+step, … < hi.
func (c *Ctx) grid(quick []int64, lo, hi, step int64) []int64 {
	if c.Tier != "thorough" {
		return quick
	}
	seen := map[int64]bool{}
	var out []int64
	for _, v := range quick {
		if !seen[v] {
			seen[v] = true
			out = append(out, v)
		}
	}
	for v := lo; v < hi; v += step {
		if !seen[v] {
			seen[v] = true
			out = append(out, v)
		}
	}
	return out
}

// upto is n in the quick tier and big in the thorough tier (exclusive upper bounds of tabulations).
func (c *Ctx) upto(n, big int64) int64 {
	if c.Tier == "thorough" {
		return big
	}
	return n
}
