package props

// Rules added after the fifteenth round of independent seeded changes (letter o).

import (
	"go/types"
	"strings"

	"golang.org/x/tools/go/ssa"
	"verif/checker/internal/an"
	"verif/checker/internal/load"
)

// R03.I seq-no-as-is: what serializePacket writes at the seq_no position is the session's seq_no itself, with
// nothing but the content-related bit or-ed in on the acknowledged path (seed C03-o masked it with `& 1`).
func (c *Ctx) seqNoAsIs(rule string, label string, ack bool, pos string) {
	want := "invoke:(mtproto/messages.MessageInformator).GetSeqNo"
	got := strings.TrimSpace(label)
	ok := got == want
	if ack {
		ok = got == "("+want+" | const:1)" || got == "(const:1 | "+want+")"
	}
	key := "seq-no:as-is/plain"
	if ack {
		key = "seq-no:as-is/acknowledged"
	}
	c.R.Check(ok, rule, key, pos, "written at the seq_no position: "+got+" (must be GetSeqNo() itself"+map[bool]string{true: " with bit 0 set", false: ""}[ack]+")")
}

// R08.W: tcpConn.Write hands every byte slice it is given to the connection at once: one call of the
// connection's Write with the parameter itself, on every path, its results returned, nothing kept in the object
// (seed C08-o held back writes of up to four bytes for the next one - a message of that size never left).
func (c *Ctx) tcpWritePassThrough(rule string) {
	r := c.R
	r.Rule(rule, "tcpConn.Write is a pass-through: on every path the connection's Write is called with the parameter itself and its results are what is returned; no field of the connection object is written (nothing is held back for a later call)", 2)
	f := c.fn(rule, load.TransPkg, "*tcpConn", "Write")
	if f == nil {
		return
	}
	var w *ssa.Call
	n := 0
	for _, cs := range an.Calls(f) {
		if strings.HasSuffix(cs.Name, ".Write") {
			n++
			if call, ok := cs.Instr.(*ssa.Call); ok {
				w = call
			}
		}
	}
	site := c.pos(f.Pos())
	okArg := false
	if w != nil && n == 1 {
		args := an.CallArgs(w.Common())
		okArg = len(args) >= 1 && len(f.Params) == 2 && args[len(args)-1] == ssa.Value(f.Params[1])
		site = c.pos(w.Pos())
	}
	okRet, rets := true, 0
	for _, b := range f.Blocks {
		for _, in := range b.Instrs {
			ret, ok := an.AsReturn(in)
			if !ok {
				continue
			}
			rets++
			if w == nil || !w.Block().Dominates(ret.Block()) {
				okRet = false
				continue
			}
			for _, res := range ret.Results {
				ex, isEx := an.RetVal(ret, 0).(*ssa.Extract)
				_ = res
				if !isEx || ex.Tuple != ssa.Value(w) {
					okRet = false
				}
				break
			}
		}
	}
	r.Check(n == 1 && okArg && okRet && rets > 0, rule, "write:pass-through", site, sprintf("%d Write call(s) in tcpConn.Write; argument is the parameter: %v; every return hands back that call's results: %v", n, okArg, okRet))
	stores := 0
	for _, b := range f.Blocks {
		for _, in := range b.Instrs {
			if st, ok := in.(*ssa.Store); ok {
				if fa, ok := st.Addr.(*ssa.FieldAddr); ok && strings.Contains(an.FieldName(fa.X.Type(), fa.Field), "tcpConn.") {
					stores++
					site = c.pos(st.Pos())
				}
			}
		}
	}
	r.Check(stores == 0, rule, "write:nothing-kept", site, sprintf("%d store(s) to fields of the connection object in Write", stores))
}

// R14.D: the parser refuses a definition for its flag bits only inside parseParam (range of the bit number): in
// parseDefinition no branch that depends on Parameter.BitToTrigger or Parameter.IsOptional leads to an error exit -
// several conditional parameters may hang on one bit (24 definitions of the shipped schema do; seed C14-o refused them).
func (c *Ctx) sharedBitsAccepted(rule string) {
	r := c.R
	r.Rule(rule, "shared flag bits are accepted: in parseDefinition no branch whose condition depends on Parameter.BitToTrigger / Parameter.IsOptional has an error exit on one side only (a uniqueness test of the bit refuses 24 definitions of the shipped schema)", 1)
	pd := c.fn(rule, load.ParsePkg, "", "parseDefinition")
	if pd == nil {
		return
	}
	errExits := func(b *ssa.BasicBlock) bool {
		for _, d := range pd.Blocks {
			if d != b && !b.Dominates(d) {
				continue
			}
			for _, in := range d.Instrs {
				if ret, ok := an.AsReturn(in); ok && len(ret.Results) > 0 && !an.MayReturnNil(ret, len(ret.Results)-1) {
					return true
				}
			}
		}
		return false
	}
	var bad []string
	n := 0
	for _, i := range an.Ifs(pd) {
		d := an.NewDeps(nil).Of(i.Cond)
		if !d.Has("tlparser.Parameter.BitToTrigger") && !d.Has("tlparser.Parameter.IsOptional") {
			continue
		}
		n++
		t, e := i.Block().Succs[0], i.Block().Succs[1]
		if (len(t.Preds) == 1 && errExits(t)) != (len(e.Preds) == 1 && errExits(e)) {
			bad = append(bad, "the branch at "+c.pos(i.Cond.Pos())+" depends on the flag bit of a parameter and refuses the definition on one side")
		}
	}
	r.Check(len(bad) == 0, rule, "shared-bits:no-refusal-in-parseDefinition", c.pos(pd.Pos()), sprintf("%d branch(es) of parseDefinition depend on a parameter's bit; %s", n, strings.Join(bad, "; ")))
}

// R16.Q: the receive goroutine never waits for an answer: every request issued from processResponse (and the
// function literals in it) is of a type for which sendPacket manufactures the answer itself (isNullableResponse) - any
// other request parks the only goroutine that could deliver its answer (seed C16-o answered msgs_state_req that way).
func (c *Ctx) receiveLoopNeverWaits(rule string) {
	r := c.R
	r.Rule(rule, "the receive goroutine issues only requests it does not wait for: every MakeRequest / makeRequest in processResponse sends an object of a type isNullableResponse answers for (msgs_ack, pong); a request that needs a server reply parks the goroutine that would deliver it", 1)
	pr := c.fn(rule, load.RootMod, "*MTProto", "processResponse")
	nul := c.fn(rule, load.RootMod, "", "isNullableResponse")
	if pr == nil || nul == nil {
		return
	}
	// the types isNullableResponse answers true for: type assertions / type-switch tests behind whose ok edge `true` is returned
	nullable := map[string]bool{}
	for _, b := range nul.Blocks {
		for _, in := range b.Instrs {
			if ta, ok := in.(*ssa.TypeAssert); ok {
				nullable[ta.AssertedType.String()] = true
			}
		}
	}
	if len(nullable) == 0 {
		r.Undecide(rule, "receive-loop:requests", c.pos(nul.Pos()), "no type test found in isNullableResponse")
		return
	}
	fns := []*ssa.Function{pr}
	fns = append(fns, pr.AnonFuncs...)
	n := 0
	var bad []string
	for _, f := range fns {
		for _, cs := range an.Calls(f) {
			if !strings.HasSuffix(cs.Name, "MTProto).MakeRequest") && !strings.HasSuffix(cs.Name, "MTProto).makeRequest") {
				continue
			}
			n++
			args := an.CallArgs(cs.Common)
			if len(args) < 2 {
				continue
			}
			v := args[1]
			if mi, ok := v.(*ssa.MakeInterface); ok {
				v = mi.X
			}
			if !nullable[v.Type().String()] {
				bad = append(bad, "the request at "+c.pos(cs.Pos())+" is a "+types.TypeString(v.Type(), nil)+", which needs a reply from the server: the receive goroutine waits for a message only it can read")
			}
		}
	}
	r.Check(n > 0 && len(bad) == 0, rule, "receive-loop:requests-not-waited-for", c.pos(pr.Pos()), sprintf("%d request(s) issued from processResponse; types answered locally: %d; %s", n, len(nullable), strings.Join(bad, "; ")))
}

// R19.E: a failed draw never yields a secret: for every call of crypto/rand.Read / crypto/rand.Int / io.ReadFull in the
// generators, with the call's error assumed not nil (branches on it and on values that carry it decided), no return is
// reachable except one that hands back a certainly non-nil error - the function panics or reports the failure.  (Seed
// C19-o retried the read in a loop and lost the error to a shadowed variable: the zero buffer became the exponent.)
func (c *Ctx) failedDrawIsNoSecret(rule string) {
	r := c.R
	r.Rule(rule, "a failed read of the random source never yields a secret: with the error of the draw assumed not nil, every reachable return of the generator hands back a certainly non-nil error (or none is reachable: the generator panics)", 3)
	gens := []struct{ pkg, recv, name string }{
		{load.TLPkg, "", "cryptoRandomBytes"}, {load.TLPkg, "", "RandomInt128"}, {load.TLPkg, "", "RandomInt256"},
		{load.MathPkg, "", "MakeGAB"}, {load.SrpPkg, "", "GetInputCheckPassword"},
	}
	n := 0
	for _, g := range gens {
		f := c.P.Func(g.pkg, g.recv, g.name)
		if f == nil {
			continue
		}
		for _, cs := range an.Calls(f) {
			switch cs.Name {
			case "crypto/rand.Read", "crypto/rand.Int", "io.ReadFull", "io.ReadAtLeast", "crypto/rand.Prime":
			default:
				continue
			}
			call, ok := cs.Instr.(*ssa.Call)
			if !ok {
				continue
			}
			n++
			key := sprintf("failed-draw:%s/%s#%d", an.ShortName(f), cs.Name, n)
			var errv ssa.Value
			for _, ref := range *call.Referrers() {
				if ex, ok := ref.(*ssa.Extract); ok && ex.Index == 1 {
					errv = ex
				}
			}
			if errv == nil {
				r.Violate(rule, key, c.pos(cs.Pos()), "the error of the draw is discarded: a failed read leaves the buffer as it was")
				continue
			}
			same := func(x ssa.Value) bool { return x == errv }
			bad := an.ReturnsAfterFailureStrict(f, call.Block(), same)
			var where []string
			for _, ret := range bad {
				where = append(where, c.pos(ret.Pos()))
			}
			r.Check(len(bad) == 0, rule, key, c.pos(cs.Pos()), sprintf("with the draw failed, %d return(s) without a certainly non-nil error stay reachable: %s", len(bad), strings.Join(where, ", ")))
		}
	}
	if n == 0 {
		r.Undecide(rule, "failed-draw:sites", "", "no draw from the random source found in the generators")
	}
}

// R06.R (= R12.R filed under C06): the exchange is run whenever the client holds no confirmed key - the makeAuthKey call
// of CreateConnection sits behind the false edge of a test of MTProto.encrypted itself.  A key that was computed and
// never confirmed (dh_gen_retry, a failure in the last round trip) stays in authKey; a test of the key's presence
// instead of the flag makes the reconnect skip the exchange and report success (seed C06-o).
func (c *Ctx) exchangeWheneverNotConfirmed(rule string) {
	r := c.R
	r.Rule(rule, "CreateConnection runs the key exchange exactly when no exchange was confirmed: makeAuthKey is called behind the false edge of a test of MTProto.encrypted (not of the presence of key bytes, which an abandoned exchange leaves behind)", 1)
	f := c.fn(rule, load.RootMod, "*MTProto", "CreateConnection")
	if f == nil {
		return
	}
	tr := an.NewTracer()
	var calls []ssa.Instruction
	for _, cs := range an.CallsNamed(f, "(*"+load.RootMod+".MTProto).makeAuthKey") {
		calls = append(calls, cs.Instr)
	}
	ok := false
	for _, i := range an.Ifs(f) {
		cd, okc := an.Classify(i)
		if okc && cd.Kind == "bool" && strings.HasSuffix(tr.OriginString(cd.X), "mtproto.MTProto.encrypted") {
			if len(calls) > 0 && len(an.Guarded(f, []an.Edge{cd.EdgeWhen(false)}, calls)) == 0 {
				ok = true
			}
		}
	}
	// nothing in CreateConnection itself declares the client encrypted
	stores := 0
	for _, b := range f.Blocks {
		for _, in := range b.Instrs {
			if st, isSt := in.(*ssa.Store); isSt {
				if fa, isFa := st.Addr.(*ssa.FieldAddr); isFa && an.FieldName(fa.X.Type(), fa.Field) == "mtproto.MTProto.encrypted" {
					stores++
				}
			}
		}
	}
	r.Check(ok && len(calls) > 0 && stores == 0, rule, "exchange:whenever-not-confirmed", c.pos(f.Pos()), sprintf("%d call(s) of makeAuthKey behind the !m.encrypted edge: %v; stores to m.encrypted in CreateConnection: %d", len(calls), ok, stores))
}
