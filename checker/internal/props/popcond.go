package props

// populationConditions evaluates the population facts that the triage table may cite (P1–P4, T; see c01.go).
func (c *Ctx) populationConditions() map[string]bool {
	return c.popFactsCached().conds
}
