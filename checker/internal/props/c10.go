package props

import (
	"strings"

	"verif/checker/internal/an"
	"verif/checker/internal/load"

	"golang.org/x/tools/go/ssa"
)

func init() { register("C10", c10) }

func c10(c *Ctx) {
	r := c.R
	r.Explanation = "Write order equals msg_id order (given a monotonic clock) exactly when the id is drawn, the message written and seq_no advanced inside one " +
		"critical section: decided by lock-scope analysis of sendPacket (Lock dominates the three operations, no Unlock in between) and by the lockset of the " +
		"seqNo field over the call graph (every access is in that section or in a function all of whose callers are). The content-related bit is OR-ed " +
		"exactly on requireToAck, which is false exactly for msgs_ack; the increment is even; every successful exit of processResponse is dominated by the " +
		"seq_no parity test whose odd edge acknowledges the message's own id; containers recurse through the same function."
	r.NotDecided = []string{"that two ids drawn at least 4 ns apart differ (clock resolution), clock steps, server acceptance",
		"all interleavings as schedules: the structural fact decided is the one that makes order schedule-independent"}
	r.Rule("R10.I", "every item of a container is a message of its own (= R09.G container-item filed under C10): the element appended per item is created in that iteration, so each content-related item is acknowledged under its own msg_id", 1)
	c.containerItemsDistinct("R10.I")
	r.Rule("R10.M", "the send lock (and every other mutex of the client) is given back on every path to a return (= R16.M filed under C10): a send that leaves seqNoMutex held stops every later request", 10)
	c.locksReleased("R10.M", c.repoFunctionsWithLocks())
	r.Rule("R10.L", "GenerateMessageId, transport.WriteMsg and the seqNo update lie inside one seqNoMutex critical section of sendPacket", 3)
	r.Rule("R10.S", "lockset of seqNo: every read and write is inside that section (directly, or in a function reachable only from it)", 2)
	r.Rule("R10.C", "content-related bit: OR 1 exactly on requireToAck; MessageRequireToAck is false exactly for *objects.MsgsAck; seq_no advances by an even amount; msg_id is a multiple of 4 built from the clock", 4)
	r.Rule("R10.A", "every content-related message is acknowledged: successful exits of processResponse are dominated by the seq_no parity test whose odd edge sends msgs_ack with the message's id", 3)
	tr := an.NewTracer()

	sp := c.fn("R10.L", load.RootMod, "*MTProto", "sendPacket")
	if sp == nil {
		return
	}
	scopes := an.LockScopes(sp, "mtproto.MTProto.seqNoMutex")
	if len(scopes) == 0 {
		r.Violate("R10.L", "section", c.pos(sp.Pos()), "sendPacket takes no lock on seqNoMutex")
		return
	}
	covered := func(in ssa.Instruction) bool {
		for _, s := range scopes {
			if s.Covers(in) {
				return true
			}
		}
		return false
	}
	lockPos := c.pos(scopes[0].Lock.Pos())
	find := func(name string) []ssa.Instruction {
		var out []ssa.Instruction
		for _, cs := range an.Calls(sp) {
			if strings.HasSuffix(cs.Name, name) {
				out = append(out, cs.Instr)
			}
		}
		return out
	}
	for _, op := range []struct{ key, callee, what string }{
		{"msg-id-generated-in-section", "utils.GenerateMessageId", "the msg_id is drawn"},
		{"write-in-section", "transport.Transport).WriteMsg", "the message is written"},
	} {
		ins := find(op.callee)
		if len(ins) == 0 {
			r.Undecide("R10.L", op.key, c.pos(sp.Pos()), "call of "+op.callee+" not found in sendPacket")
			continue
		}
		ok := true
		for _, in := range ins {
			if !covered(in) {
				ok = false
			}
		}
		r.Check(ok, "R10.L", op.key, c.pos(ins[0].Pos()), op.what+" at "+c.pos(ins[0].Pos())+"; seqNoMutex is locked at "+lockPos+" — outside the section two goroutines can draw ids in one order and write in the other")
	}
	var seqStores []ssa.Instruction
	for _, b := range sp.Blocks {
		for _, in := range b.Instrs {
			if st, ok := in.(*ssa.Store); ok {
				if fa, ok := st.Addr.(*ssa.FieldAddr); ok && an.FieldName(fa.X.Type(), fa.Field) == "mtproto.MTProto.seqNo" {
					seqStores = append(seqStores, st)
				}
			}
		}
	}
	okS := len(seqStores) > 0
	for _, s := range seqStores {
		if !covered(s) {
			okS = false
		}
	}
	r.Check(okS, "R10.L", "seqno-update-in-section", c.pos(sp.Pos()), sprintf("%d update(s) of m.seqNo in sendPacket, all inside the section", len(seqStores)))
	// the id written is the id generated in this call
	for _, cs := range an.Calls(sp) {
		if strings.HasSuffix(cs.Name, "transport.Transport).WriteMsg") {
			d := an.NewDeps(nil).Of(cs.Common.Args[0])
			r.Check(d.Has("utils.GenerateMessageId"), "R10.L", "written-id-is-generated-id", c.pos(cs.Pos()), "the message handed to WriteMsg carries the id drawn in this call")
		}
	}

	// ---- R10.S lockset ----------------------------------------------------------------------------
	g := c.Graph()
	callers := map[*ssa.Function][]struct {
		f    *ssa.Function
		site ssa.CallInstruction
	}{}
	for f := range c.P.AllFunctions() {
		if !c.P.InRepo(f) || f.Synthetic != "" || strings.Contains(load.FuncPkgPath(f), "/examples/") {
			continue
		}
		for _, cs := range an.Calls(f) {
			for _, callee := range g.CalleesAt(f, cs.Instr) {
				if c.P.InRepo(callee) {
					callers[callee] = append(callers[callee], struct {
						f    *ssa.Function
						site ssa.CallInstruction
					}{f, cs.Instr})
				}
			}
		}
	}
	var lockedOnly func(f *ssa.Function, seen map[*ssa.Function]bool) (bool, string)
	lockedOnly = func(f *ssa.Function, seen map[*ssa.Function]bool) (bool, string) {
		if seen[f] {
			return true, ""
		}
		seen[f] = true
		cs := callers[f]
		if len(cs) == 0 {
			return false, an.ShortName(f) + " has no caller in the repository (it is an entry point)"
		}
		for _, e := range cs {
			if e.f == sp {
				if !covered(e.site) {
					return false, "called from sendPacket outside the section at " + c.pos(e.site.Pos())
				}
				continue
			}
			if ok, why := lockedOnly(e.f, seen); !ok {
				return false, an.ShortName(e.f) + " ← " + why
			}
		}
		return true, ""
	}
	nAcc := 0
	for f := range c.P.AllFunctions() {
		if !c.P.InRepo(f) || f.Synthetic != "" || strings.Contains(load.FuncPkgPath(f), "/examples/") {
			continue
		}
		for _, b := range f.Blocks {
			for _, in := range b.Instrs {
				fa, ok := in.(*ssa.FieldAddr)
				if !ok || an.FieldName(fa.X.Type(), fa.Field) != "mtproto.MTProto.seqNo" {
					continue
				}
				// composite-literal initialisation in a constructor is not a concurrent access
				if _, isAlloc := fa.X.(*ssa.Alloc); isAlloc {
					continue
				}
				nAcc++
				key := sprintf("access:%s#%d", an.ShortName(f), nAcc)
				if f == sp {
					r.Check(covered(fa), "R10.S", key, c.pos(fa.Pos()), "access to m.seqNo in sendPacket")
					continue
				}
				ok2, why := lockedOnly(f, map[*ssa.Function]bool{})
				r.Check(ok2, "R10.S", key, c.pos(fa.Pos()), "access to m.seqNo in "+an.ShortName(f)+": "+why)
			}
		}
	}
	if nAcc == 0 {
		r.Undecide("R10.S", "accesses", "", "no access to MTProto.seqNo found")
	}

	// ---- R10.C ----------------------------------------------------------------------------------
	if ra := c.fn("R10.C", load.RootMod, "", "MessageRequireToAck"); ra != nil {
		res := map[string]string{}
		for _, t := range []string{"*objects.MsgsAck", "*objects.PingParams", "other"} {
			reach := an.ReachWith(ra, nil, func(i *ssa.If) (int, bool) {
				cd, ok := an.Classify(i)
				if ok && cd.Kind == "assert" {
					return cd.EdgeWhen(typeString(cd.Assert.AssertedType) == t).Succ, true
				}
				return 0, false
			})
			for _, b := range ra.Blocks {
				if !reach[b] {
					continue
				}
				for _, in := range b.Instrs {
					if ret, ok := an.AsReturn(in); ok {
						v := an.RetVal(ret, 0)
						if k, ok := v.(*ssa.Const); ok {
							res[t] += k.Value.String()
							continue
						}
						// `_, isAck := msg.(*objects.MsgsAck); return !isAck`: the outcome of the assertion itself
						if cd, ok := an.ClassifyValue(v); ok && cd.Kind == "assert" {
							holds := typeString(cd.Assert.AssertedType) == t
							if cd.TrueIsEqual == holds {
								res[t] += "true"
							} else {
								res[t] += "false"
							}
						}
					}
				}
			}
		}
		r.Check(res["*objects.MsgsAck"] == "false" && res["*objects.PingParams"] == "true" && res["other"] == "true", "R10.C", "require-ack:false-exactly-for-msgs_ack", c.pos(ra.Pos()), sprintf("%v", res))
	}
	for _, cs := range an.Calls(sp) {
		if strings.HasSuffix(cs.Name, "transport.Transport).WriteMsg") {
			a := cs.Common.Args
			ok := len(a) == 2
			if ok {
				call, isCall := a[1].(*ssa.Call)
				ok = isCall && strings.HasSuffix(an.CalleeName(call.Common()), "MessageRequireToAck") && isParam(call.Call.Args[0], sp, 1)
			}
			r.Check(ok, "R10.C", "require-ack:passed-to-writer", c.pos(cs.Pos()), "WriteMsg(data, MessageRequireToAck(request))")
		}
	}
	for _, s := range seqStores {
		st := s.(*ssa.Store)
		ok := false
		if bo, isBin := st.Val.(*ssa.BinOp); isBin && bo.Op.String() == "+" {
			if k, isK := an.ConstInt(bo.Y); isK && k > 0 && k%2 == 0 && strings.HasSuffix(tr.OriginString(bo.X), "mtproto.MTProto.seqNo") {
				ok = true
			}
		}
		r.Check(ok, "R10.C", "seqno:even-increment", c.pos(st.Pos()), "m.seqNo advances by a positive even constant (the content-related bit is added at serialisation)")
	}
	c.msgIDFormula("R10.C")

	r.Rule("R10.B", "the body sent under a msg_id is the encoding of the request the id was drawn for: the bytes tl.Marshal returns belong to a buffer made by that call and kept by nobody else (sendPacket marshals before it takes the send lock; an acknowledgement encoded meanwhile must not overwrite them)", 1)
	c.marshalOwnsResult("R10.B")
	// ---- R10.A ----------------------------------------------------------------------------------
	c.everyMessageDispatched("R10.A")
	if pr := c.fn("R10.A", load.RootMod, "*MTProto", "processResponse"); pr != nil {
		var test *an.Cond
		for _, i := range an.Ifs(pr) {
			cd, ok := an.Classify(i)
			if !ok || cd.Kind != "eq" {
				continue
			}
			if bo, isBin := cd.X.(*ssa.BinOp); isBin && bo.Op.String() == "&" {
				if k, isK := an.ConstInt(bo.Y); isK && k == 1 && strings.Contains(tr.OriginString(bo.X), "messages.Common).GetSeqNo") {
					if z, isZ := an.ConstInt(cd.Y); isZ && z == 0 {
						test = cd
					}
				}
			}
		}
		if test == nil {
			r.Violate("R10.A", "ack:parity-test", c.pos(pr.Pos()), "no test of msg.GetSeqNo() & 1 in processResponse")
		} else {
			var nilRets []ssa.Instruction
			for _, b := range pr.Blocks {
				for _, in := range b.Instrs {
					if ret, ok := an.AsReturn(in); ok && len(ret.Results) == 1 && an.MayReturnNil(ret, 0) {
						nilRets = append(nilRets, ret)
					}
				}
			}
			okDom := len(nilRets) > 0
			var early ssa.Instruction
			for _, ret := range nilRets {
				if !test.If.Block().Dominates(ret.Block()) {
					okDom = false
					early = ret
				}
			}
			site := c.pos(test.If.Cond.Pos())
			if early != nil {
				site = c.pos(early.Pos())
			}
			r.Check(okDom, "R10.A", "ack:every-success-exit-passes-the-test", site, sprintf("%d successful exits of processResponse, all after the seq_no parity test (an earlier `return nil` in a case arm would skip the acknowledgement)", len(nilRets)))
			// odd edge: MakeRequest(&MsgsAck{MsgIDs: []int64{msg.GetMsgID()}})
			oddB := test.EdgeWhen(false).To()
			okAck := false
			for _, in := range oddB.Instrs {
				call, ok := in.(*ssa.Call)
				if !ok || !(strings.HasSuffix(an.CalleeName(call.Common()), "MTProto).MakeRequest") || strings.HasSuffix(an.CalleeName(call.Common()), "MTProto).makeRequest")) { // MakeRequest is a one-line wrapper of makeRequest
					continue
				}
				if !strings.Contains(tr.OriginString(call.Call.Args[1]), "alloc:objects.MsgsAck") {
					continue
				}
				d := an.NewDeps(nil).Of(call.Call.Args[1])
				if d.Has("messages.Common).GetMsgID") {
					okAck = true
				}
			}
			r.Check(okAck, "R10.A", "ack:names-the-message-id", c.pos(oddB.Instrs[0].Pos()), "on the odd edge a msgs_ack carrying msg.GetMsgID() is sent")
			// every nil exit on the odd edge comes after the ack request: the send is in the first block of that edge
			rec := false
			for _, cs := range an.Calls(pr) {
				if strings.HasSuffix(cs.Name, "MTProto).processResponse") {
					rec = true
				}
			}
			r.Check(rec, "R10.A", "ack:containers-recurse", c.pos(pr.Pos()), "container items are handed to processResponse itself, so each gets its own parity test")
		}
	}
}

// everyMessageDispatched: (1) every successful exit of readMsg after the transport delivered a message passes the
// hand-over of that message (the service-channel send or the processResponse call); (2) every successful exit of
// processResponse comes after its dispatch (the type switch on the decoded object).  A filter in front of either -
// "ignore ids that are not newer", "ignore what nobody waits for" - silently drops results, acknowledgements and
// notifications of messages a conformant server sent.
func (c *Ctx) everyMessageDispatched(rule string) {
	r := c.R
	if rm := c.fn(rule, load.RootMod, "*MTProto", "readMsg"); rm != nil {
		var read ssa.Instruction
		var handovers []ssa.Instruction
		for _, cs := range an.Calls(rm) {
			switch {
			case cs.Common.IsInvoke() && cs.Common.Method.Name() == "ReadMsg":
				read = cs.Instr
			case strings.HasSuffix(cs.Name, "MTProto).processResponse"):
				handovers = append(handovers, cs.Instr)
			}
		}
		for _, b := range rm.Blocks {
			for _, in := range b.Instrs {
				if snd, ok := in.(*ssa.Send); ok {
					handovers = append(handovers, snd)
				}
			}
		}
		if read == nil || len(handovers) == 0 {
			r.Undecide(rule, "dispatch:read-message-is-handed-on", c.pos(rm.Pos()), "ReadMsg call or hand-over not found in readMsg")
		} else {
			var bad []string
			n := 0
			for _, b := range rm.Blocks {
				ret, ok := an.AsReturn(b.Instrs[len(b.Instrs)-1])
				if !ok || len(ret.Results) != 1 || !an.MayReturnNil(ret, 0) || !an.InstrDominates(read, ret) {
					continue
				}
				n++
				passed := false
				for _, h := range handovers {
					if an.InstrDominates(h, ret) {
						passed = true
					}
				}
				if !passed {
					bad = append(bad, "the successful exit at "+c.pos(ret.Pos())+" passes neither processResponse nor the service-channel send")
				}
			}
			r.Check(len(bad) == 0 && n > 0, rule, "dispatch:read-message-is-handed-on", c.pos(rm.Pos()), sprintf("%d successful exit(s) of readMsg after a message was read; %s", n, strings.Join(bad, "; ")))
		}
	}
	if pr := c.fn(rule, load.RootMod, "*MTProto", "processResponse"); pr != nil {
		// the dispatch: the first type assertion of the decoded object (the head of the type switch)
		var head ssa.Instruction
		var tas []*ssa.TypeAssert
		for _, b := range pr.Blocks {
			for _, in := range b.Instrs {
				if ta, ok := in.(*ssa.TypeAssert); ok && ta.CommaOk {
					tas = append(tas, ta)
				}
			}
		}
		// the head of the switch is the test no other test comes before on every path (block numbering is not
		// program order once a helper was inlined)
		for _, ta := range tas {
			first := true
			for _, o := range tas {
				if o != ta && o.Block() != ta.Block() && o.Block().Dominates(ta.Block()) {
					first = false
				}
			}
			if first && head == nil {
				head = ta
			}
		}
		if head == nil {
			r.Undecide(rule, "dispatch:every-success-exit-after-the-switch", c.pos(pr.Pos()), "the type switch of processResponse was not found")
			return
		}
		var bad []string
		n := 0
		for _, b := range pr.Blocks {
			ret, ok := an.AsReturn(b.Instrs[len(b.Instrs)-1])
			if !ok || len(ret.Results) != 1 || !an.MayReturnNil(ret, 0) {
				continue
			}
			n++
			if !an.InstrDominates(head, ret) && reachableAround(pr, head.Block(), ret.Block()) {
				bad = append(bad, "the successful exit at "+c.pos(ret.Pos())+" is taken before the object is dispatched")
			}
		}
		r.Check(len(bad) == 0 && n > 0, rule, "dispatch:every-success-exit-after-the-switch", c.pos(pr.Pos()), sprintf("%d successful exit(s) of processResponse; %s", n, strings.Join(bad, "; ")))
	}
}

// msgIDFormula: GenerateMessageId returns unix seconds << 32 | nanoseconds with the two low bits cleared (evaluated
// for four clock values): a multiple of four with a resolution of 4 ns, so that two requests written one after the
// other under the send lock never share an id - the response table is keyed by it.
func (c *Ctx) msgIDFormula(rule string) {
	r := c.R
	if gm := c.fn(rule, load.UtilsPkg, "", "GenerateMessageId"); gm != nil {
		// (seconds << 32) | (nanoseconds & -4): evaluate the SSA for a few clock values
		var unix ssa.Value
		for _, cs := range an.Calls(gm) {
			if cs.Name == "(time.Time).UnixNano" {
				unix = cs.Value()
			}
		}
		var bad []string
		for _, t := range []int64{1_600_000_000_123_456_789, 1_700_000_000_000_000_003, 999_999_999, 1_000_000_001} {
			for _, b := range gm.Blocks {
				for _, in := range b.Instrs {
					if ret, ok := an.AsReturn(in); ok {
						v, okv := an.EvalInt(an.RetVal(ret, 0), func(x ssa.Value) (int64, bool) {
							if x == unix {
								return t, true
							}
							return 0, false
						})
						want := (t/1_000_000_000)<<32 | (t % 1_000_000_000 &^ 3)
						if !okv || v != want || v%4 != 0 {
							bad = append(bad, sprintf("clock %d → %d, want %d", t, v, want))
						}
					}
				}
			}
		}
		r.Check(unix != nil && len(bad) == 0, rule, "msg-id:clock-derived-multiple-of-4", c.pos(gm.Pos()), "unix seconds << 32 | nanoseconds with the two low bits cleared: "+strings.Join(bad, "; "))
	}
}

// reachableAround: can `to` be reached from the entry without entering block `around` - with the branches on the
// nil-ness of error variables folded (an error handed back through the result variable of an inlined helper is not nil
// on the way that set it, so the `if err != nil { return err }` behind the helper is decided on that way).
func reachableAround(fn *ssa.Function, around, to *ssa.BasicBlock) bool {
	cut := map[an.Edge]bool{}
	for _, p := range around.Preds {
		for si, s := range p.Succs {
			if s == around {
				cut[an.Edge{From: p, Succ: si}] = true
			}
		}
	}
	return an.Reach(fn, cut)[to]
}
