package props

import (
	"go/token"
	"go/types"
	"sort"
	"strings"

	"verif/checker/internal/an"
	"verif/checker/internal/load"

	"golang.org/x/tools/go/ssa"
)

func init() {
	register("C09", c09)
	register("C11", c11)
}

// idDomain classifies a table key: "request" (the id generated for the outgoing message), "echoed" (an id the
// server echoes back: req_msg_id / bad_msg_id), "server" (the msg_id of a received message), "all-keys"
// (iteration over the table), or "param#k" / "unknown".
func idDomain(tr *an.Tracer, v ssa.Value) string {
	os := tr.Origins(v)
	dom := ""
	set := func(d string) {
		if dom == "" || dom == d {
			dom = d
		} else {
			dom = "mixed(" + dom + "," + d + ")"
		}
	}
	for _, o := range os {
		switch {
		case strings.Contains(o, "utils.GenerateMessageId"):
			set("request")
		case strings.Contains(o, "objects.RpcResult.ReqMsgID"), strings.Contains(o, "objects.BadServerSalt.BadMsgID"), strings.Contains(o, "objects.BadMsgNotification.BadMsgID"),
			strings.Contains(o, "objects.FutureSalts.ReqMsgID"), strings.Contains(o, "objects.MsgsStateInfo.ReqMsgID"):
			set("echoed")
		case strings.Contains(o, "messages.Common).GetMsgID"), strings.Contains(o, "messages.Encrypted.MsgID"), strings.Contains(o, "messages.Unencrypted.MsgID"):
			set("server")
		case strings.Contains(o, ").Keys"):
			set("all-keys")
		case strings.HasPrefix(o, "param#"):
			set(o)
		default:
			set("unknown:" + simplifyOrigin(o))
		}
	}
	if dom == "" {
		return "unknown"
	}
	return dom
}

type tableOp struct {
	fn     *ssa.Function
	cs     an.CallSite
	table  string // responseChannels | expectedTypes
	op     string // Add | Get | Delete | Has
	domain string
}

// tableOps lists the operations on the two waiter tables in package mtproto, with the domain of each key
// (a parameter key is resolved through the callers).
func (c *Ctx) tableOps() []tableOp {
	tr := an.NewTracer()
	var out []tableOp
	var fns []*ssa.Function
	for f := range c.P.AllFunctions() {
		if load.FuncPkgPath(f) == load.RootMod && f.Synthetic == "" {
			fns = append(fns, f)
		}
	}
	sortFuncs(fns)
	for _, f := range fns {
		for _, cs := range an.Calls(f) {
			var table string
			switch {
			case strings.HasPrefix(cs.Name, "(*"+load.UtilsPkg+".SyncIntObjectChan)."):
				table = "responseChannels"
			case strings.HasPrefix(cs.Name, "(*"+load.UtilsPkg+".SyncIntReflectTypes)."):
				table = "expectedTypes"
			default:
				continue
			}
			op := cs.Name[strings.LastIndex(cs.Name, ".")+1:]
			if op == "Keys" || len(cs.Common.Args) < 2 {
				continue
			}
			dom := idDomain(tr, cs.Common.Args[1])
			if strings.HasPrefix(dom, "param#") {
				// lift to the callers
				idx := int(dom[len("param#")] - '0')
				lifted := ""
				for _, g := range fns {
					for _, cs2 := range an.Calls(g) {
						if an.StaticCallee(cs2.Common) == f && idx < len(cs2.Common.Args) {
							d := idDomain(tr, cs2.Common.Args[idx])
							if lifted == "" || lifted == d {
								lifted = d
							} else {
								lifted = "mixed(" + lifted + "," + d + ")"
							}
						}
					}
				}
				if lifted != "" {
					dom = lifted
				}
			}
			out = append(out, tableOp{f, cs, table, op, dom})
		}
	}
	return out
}

func sortFuncs(fns []*ssa.Function) {
	for i := 1; i < len(fns); i++ {
		for j := i; j > 0 && fns[j].String() < fns[j-1].String(); j-- {
			fns[j], fns[j-1] = fns[j-1], fns[j]
		}
	}
}

func c09(c *Ctx) {
	r := c.R
	r.Explanation = "Exactly-once delivery to the right caller over all interleavings is a history property; its structural necessary conditions are decided: " +
		"the two waiter tables are written under the id generated for the outgoing request and read/cleared under an id the server echoes back (never " +
		"under the msg_id of the received message — a different id domain); delivering a result is followed on every path by forgetting the entry in " +
		"both tables; the channel registered for a request is created for that request (not a shared one). Typed vector results are C13's rule R13.M."
	r.NotDecided = []string{"all interleavings of callers and the receive loop", "orderings of containers / gzip-packed results", "'never twice' as a history property"}
	r.Rule("R09.K", "key domains: Add under the request id; Get/Delete under an echoed request id (req_msg_id / bad_msg_id)", 5)
	r.Rule("R09.I", "every message the transport delivers is handed on and dispatched: no successful exit of readMsg skips processResponse (or the service-channel send), none of processResponse precedes the type switch - a filter in front of the dispatch drops results callers wait for", 2)
	c.everyMessageDispatched("R09.I")
	r.Rule("R09.U", "the table key is unique among the requests in flight: the id a request is registered under comes from the clock at 4 ns resolution (formula evaluated, = C10 R10.C) and is drawn under the send lock - a coarser id lets two callers share one entry, and the second registration replaces the first", 1)
	c.msgIDFormula("R09.U")
	// what is sent for a request is the encoder's rendering of that request, whole; what is decoded for a message is
	// the message's body, whole
	// the waiter and hint tables, the counters and the channels all live in the client object: two clients of one
	// process (two accounts, two data centres) must not meet in a package variable
	r.Rule("R09.P", "no function of the client (root package, utils, objects, messages, transport) writes a package-level variable or the storage of one outside init: every table, counter and channel is per client", 1)
	{
		var entries []*ssa.Function
		for f := range c.P.AllFunctions() {
			pp := load.FuncPkgPath(f)
			if f.Synthetic != "" || len(f.Blocks) == 0 || f.Name() == "init" || strings.HasPrefix(f.Name(), "init#") {
				continue
			}
			if pp == load.RootMod || pp == load.UtilsPkg || pp == load.ObjPkg || pp == load.MsgPkg || pp == load.TransPkg {
				entries = append(entries, f)
			}
		}
		sort.Slice(entries, func(i, j int) bool { return entries[i].String() < entries[j].String() })
		c.noGlobalWrites("R09.P", entries, "the client's paths: two clients of one process would share it")
	}
	r.Rule("R09.Q", "makeRequest waits for its answer with a plain receive on the channel sendPacket returned (no select with a timer or a default): a call that gives up leaves its entry in the table, and the late answer blocks the receive loop on a channel nobody reads", 1)
	if f := c.fn("R09.Q", load.RootMod, "*MTProto", "makeRequest"); f != nil {
		var ch ssa.Value
		for _, cs := range an.Calls(f) {
			if strings.HasSuffix(cs.Name, "MTProto).sendPacket") {
				for _, ref := range *cs.Instr.(ssa.Value).Referrers() {
					if ex, ok := ref.(*ssa.Extract); ok && ex.Index == 0 {
						ch = ex
					}
				}
			}
		}
		plain, selects := 0, 0
		for _, b := range f.Blocks {
			for _, in := range b.Instrs {
				switch x := in.(type) {
				case *ssa.UnOp:
					if x.Op == token.ARROW && x.X == ch {
						plain++
					}
				case *ssa.Select:
					for _, st := range x.States {
						if st.Chan == ch {
							selects++
						}
					}
				}
			}
		}
		if ch == nil {
			r.Undecide("R09.Q", "wait:plain-receive", c.pos(f.Pos()), "no sendPacket call in makeRequest")
		} else {
			r.Check(plain > 0 && selects == 0, "R09.Q", "wait:plain-receive", c.pos(f.Pos()), sprintf("%d plain receive(s) on the answer channel, %d select(s) over it", plain, selects))
		}
	}
	r.Rule("R09.N", "a caller whose request the server refused for its salt is told to repeat it on every path through the bad_server_salt arm (= R11.N filed under C09): an early exit before the lookup leaves that call waiting for ever", 1)
	c.rotationNotifiesOnEveryPath("R09.N")
	r.Rule("R09.H", "an rpc_error reaches its caller unless the client has repaired its cause: tryToProcessErr returns the error it was given or the result of Reconnect(), never a nil of its own (= R17.M handled-only-by-reconnect filed under C09)", 1)
	c.handledOnlyByReconnect("R09.H")
	r.Rule("R09.V", "no goroutine or deferred function literal started inside a loop captures a variable that is one cell for the whole loop and is stored on every iteration (go 1.13 loop-variable semantics: every item of a container would be processed as the last one)", 1)
	{
		var fns []*ssa.Function
		for f := range c.P.AllFunctions() {
			if c.inRepo(f) && len(f.Blocks) > 0 && f.Synthetic == "" {
				fns = append(fns, f)
			}
		}
		sort.Slice(fns, func(i, j int) bool { return fns[i].String() < fns[j].String() })
		c.noSharedLoopVariableInGoroutines("R09.V", fns)
	}
	r.Rule("R09.M", "the table mutexes are given back on every path to a return (= R16.M filed under C09)", 10)
	c.locksReleased("R09.M", c.repoFunctionsWithLocks())
	r.Rule("R09.B", "the body stored in the outgoing message is the result of tl.Marshal(request) itself, and the bytes handed to the decoder in processResponse are the message's GetMsg() itself (nothing trimmed, re-sliced or re-encoded in between)", 3)
	if f := c.fn("R09.B", load.RootMod, "*MTProto", "sendPacket"); f != nil {
		var body ssa.Value
		for _, cs := range an.Calls(f) {
			if cs.Name == load.TLPkg+".Marshal" {
				args := an.CallArgs(cs.Common)
				if len(args) == 1 {
					if ci, ok := args[0].(*ssa.ChangeInterface); ok {
						args[0] = ci.X
					}
				}
				if len(args) == 1 && args[0] == ssa.Value(f.Params[1]) {
					for _, ref := range *cs.Instr.(ssa.Value).Referrers() {
						if ex, ok := ref.(*ssa.Extract); ok && ex.Index == 0 {
							body = ex
						}
					}
				}
			}
		}
		n := 0
		for _, b := range f.Blocks {
			for _, in := range b.Instrs {
				st, ok := in.(*ssa.Store)
				if !ok {
					continue
				}
				fa, ok := st.Addr.(*ssa.FieldAddr)
				if !ok {
					continue
				}
				fn := an.FieldName(fa.X.Type(), fa.Field)
				if fn != "messages.Encrypted.Msg" && fn != "messages.Unencrypted.Msg" {
					continue
				}
				n++
				r.Check(body != nil && st.Val == body, "R09.B", "body:"+strings.TrimPrefix(fn, "messages."), c.pos(st.Pos()), "the body of the outgoing message is the value tl.Marshal returned for the request parameter")
			}
		}
		if n == 0 {
			r.Undecide("R09.B", "body", c.pos(f.Pos()), "no store to the Msg field of an outgoing message in sendPacket")
		}
	}
	if f := c.fn("R09.B", load.RootMod, "*MTProto", "processResponse"); f != nil {
		n := 0
		for _, cs := range an.Calls(f) {
			if cs.Name != load.TLPkg+".DecodeUnknownObject" {
				continue
			}
			n++
			ok := false
			if call, isCall := cs.Common.Args[0].(*ssa.Call); isCall && call.Common().IsInvoke() && call.Common().Method.Name() == "GetMsg" && call.Common().Value == ssa.Value(f.Params[1]) {
				ok = true
			}
			r.Check(ok, "R09.B", sprintf("decoded:the-message-body#%d", n), c.pos(cs.Pos()), "the bytes decoded are msg.GetMsg() of the message being processed")
		}
		if n == 0 {
			r.Undecide("R09.B", "decoded:the-message-body", c.pos(f.Pos()), "no DecodeUnknownObject call in processResponse")
		}
	}
	r.Rule("R09.W", "a result that travels gzip_packed inside rpc_result is delivered unwrapped: the value handed to writeRPCResponse in the rpc_result arm is the result's Obj or, behind a successful assertion to *GzipPacked, that wrapper's Obj", 1)
	c.packedResultUnwrapped("R09.W")
	r.Rule("R09.F", "an entry leaves the response table only when its waiter has been served or told to retry: Delete on the table is called from writeRPCResponse and processResponse only (a cleanup that evicts the oldest keys evicts the callers that have waited longest)", 1)
	{
		allowed := map[string]bool{"writeRPCResponse": true, "processResponse": true}
		n := 0
		var bad []string
		for f := range c.P.AllFunctions() {
			if !c.P.InRepo(f) || len(f.Blocks) == 0 {
				continue
			}
			for _, cs := range an.Calls(f) {
				if cs.Name != "(*"+load.UtilsPkg+".SyncIntObjectChan).Delete" {
					continue
				}
				n++
				top := f
				for top.Parent() != nil {
					top = top.Parent()
				}
				if !allowed[top.Name()] {
					bad = append(bad, an.ShortName(top)+" at "+c.pos(cs.Pos()))
				}
			}
		}
		sort.Strings(bad)
		if n == 0 {
			r.Undecide("R09.F", "forget:only-when-served", "", "no call of SyncIntObjectChan.Delete found")
		} else {
			r.Check(len(bad) == 0, "R09.F", "forget:only-when-served", "", sprintf("%d call(s) of the table's Delete; outside the delivery and the retry notification: %s", n, strings.Join(bad, "; ")))
		}
	}
	c.forgetOnlyTheEntryServed("R09.F")
	r.Rule("R09.D", "deliver and forget: the result is handed over by a send that cannot be skipped, and every delivering path passes Delete on both tables with the same key", 4)
	r.Rule("R09.C", "fresh channel: the channel registered for a request is a make(chan) of this call", 1)
	tr := an.NewTracer()
	n := map[string]int{}
	for _, op := range c.tableOps() {
		base := sprintf("%s.%s@%s", op.table, op.op, an.ShortName(op.fn))
		n[base]++
		key := sprintf("key:%s#%d", base, n[base])
		site := c.pos(op.cs.Pos())
		switch op.op {
		case "Add":
			r.Check(op.domain == "request", "R09.K", key, site, "registered under a key of domain '"+op.domain+"' (must be the id generated for the outgoing request)")
		case "Get", "Delete", "Has":
			if op.domain == "all-keys" {
				r.Hold("R09.K", key, site, "iteration over the table (salt rotation): decided under C11 R11.T")
				continue
			}
			r.Check(op.domain == "echoed", "R09.K", key, site, "looked up under a key of domain '"+op.domain+"' (must be an id the server echoes: req_msg_id / bad_msg_id) — the msg_id of a received message never equals a request id, so the entry is never found")
		}
	}
	// ---- R09.G: the items of a container are distinct objects --------------------------------------------
	r.Rule("R09.G", "grouping: the container decoder builds one message object per item (allocated inside the loop): results grouped in one msg_container are dispatched one by one, not the last one n times", 1)
	c.containerItemsDistinct("R09.G")

	// ---- R09.Z: compressed answers are unpacked whole ----------------------------------------------------
	r.Rule("R09.Z", "gzip-packed results reach their caller: the unpacking loop ends on a failing reader and uses the bytes of every Read before it looks at the error (the last chunk arrives together with io.EOF)", 1)
	if gz := c.fn("R09.Z", load.ObjPkg, "*GzipPacked", "popMessageAsBytes"); gz != nil {
		c.readerLoops("R09.Z", []*ssa.Function{gz})
	}

	// ---- R09.L: lock discipline of the two tables -------------------------------------------------------
	r.Rule("R09.L", "the waiter and hint tables are maps shared by the callers and the receive loop: every write of the map (insert, delete, replace) is inside the exclusive Lock section of the table's mutex, every read inside a Lock or RLock section", 8)
	c.tableLocks("R09.L")

	// ---- R09.O: register before writing ----------------------------------------------------------
	r.Rule("R09.O", "the waiter (and its decoder hints) is registered before the request is written: an answer processed right after the write must find it", 2)
	c.registerBeforeWrite("R09.O")

	// ---- R09.D ----------------------------------------------------------------------------------
	if w := c.fn("R09.D", load.RootMod, "*MTProto", "writeRPCResponse"); w != nil {
		// the delivery: a plain send, or the send case of a select
		var send ssa.Instruction
		var sendChan, sendVal ssa.Value
		blocking := true
		for _, b := range w.Blocks {
			for _, in := range b.Instrs {
				switch x := in.(type) {
				case *ssa.Send:
					send, sendChan, sendVal = x, x.Chan, x.X
				case *ssa.Select:
					for _, st := range x.States {
						if st.Dir == types.SendOnly {
							send, sendChan, sendVal = x, st.Chan, st.Send
							blocking = x.Blocking
						}
					}
				}
			}
		}
		if send == nil {
			r.Violate("R09.D", "deliver:to-the-registered-channel", c.pos(w.Pos()), "writeRPCResponse no longer sends the result on a channel")
		} else {
			okSrc := strings.Contains(tr.OriginString(sendChan), "SyncIntObjectChan).Get#0") && isParam(sendVal, w, 2)
			r.Check(okSrc, "R09.D", "deliver:to-the-registered-channel", c.pos(send.Pos()), "the result parameter is sent on the channel looked up under the key parameter")
			if !blocking {
				// a send that may be skipped is only a delivery when the channel can hold the value
				buffered, known := false, false
				if g := c.P.Func(load.RootMod, "*MTProto", "getRespChannel"); g != nil {
					for _, b := range g.Blocks {
						for _, in := range b.Instrs {
							if mc, ok := in.(*ssa.MakeChan); ok {
								known = true
								if k, ok := an.ConstInt(mc.Size); !ok || k > 0 {
									buffered = true
								}
							}
						}
					}
				}
				switch {
				case !known:
					r.Undecide("R09.D", "deliver:not-skippable", c.pos(send.Pos()), "the send is a select case with a default arm and the capacity of the waiter's channel could not be determined")
				default:
					r.Check(buffered, "R09.D", "deliver:not-skippable", c.pos(send.Pos()),
						"the send is a select case with a default arm: on an unbuffered channel the result is dropped whenever the caller is not yet parked on the receive (the window between WriteMsg and <-resp)")
				}
			} else {
				r.Hold("R09.D", "deliver:not-skippable", c.pos(send.Pos()), "blocking send")
			}
			for _, tbl := range []string{"SyncIntObjectChan", "SyncIntReflectTypes"} {
				ok := false
				for _, cs := range an.CallsNamed(w, "(*"+load.UtilsPkg+"."+tbl+").Delete") {
					if !isParam(cs.Common.Args[1], w, 1) {
						continue
					}
					if an.InstrDominates(cs.Instr, send) {
						ok = true // forgotten before the hand-over: the entry cannot be found twice either
						continue
					}
					if an.InstrDominates(send, cs.Instr) {
						// every return reachable after the send is dominated by the delete
						all := true
						for _, b := range w.Blocks {
							for _, in := range b.Instrs {
								if ret, isRet := an.AsReturn(in); isRet && an.InstrDominates(send, ret) && !an.InstrDominates(cs.Instr, ret) {
									all = false
								}
							}
						}
						if all {
							ok = true
						}
					}
				}
				r.Check(ok, "R09.D", "forget:"+tbl, c.pos(send.Pos()), "every path that delivers also passes "+tbl+".Delete(msgID)")
			}
		}
	}
	// ---- R09.C ----------------------------------------------------------------------------------
	if sp := c.fn("R09.C", load.RootMod, "*MTProto", "sendPacket"); sp != nil {
		for _, cs := range an.CallsNamed(sp, "(*"+load.UtilsPkg+".SyncIntObjectChan).Add") {
			v := cs.Common.Args[2]
			var srcs []string
			fresh := true
			resolved := false
			for _, o := range tr.Origins(v) {
				if !strings.HasPrefix(o, "call:") {
					srcs = append(srcs, simplifyOrigin(o))
					if !strings.HasPrefix(o, "makechan:") {
						fresh = false
					}
					continue
				}
				// a repository helper: look at what it returns
				for _, hs := range an.Calls(sp) {
					if "call:"+hs.Name != o {
						continue
					}
					if f := an.StaticCallee(hs.Common); f != nil && c.P.InRepo(f) {
						resolved = true
						for _, b := range f.Blocks {
							for _, in := range b.Instrs {
								if ret, ok := an.AsReturn(in); ok && len(ret.Results) == 1 {
									ro := tr.OriginString(an.RetVal(ret, 0))
									srcs = append(srcs, simplifyOrigin(ro))
									if !strings.HasPrefix(ro, "makechan:") {
										fresh = false
									}
								}
							}
						}
					}
					break
				}
				if !resolved {
					srcs = append(srcs, simplifyOrigin(o))
					fresh = false
				}
			}
			// one obligation per source that is not a make(chan) of this call, keyed by the source: the known shared
			// service channel does not cover a channel that comes from anywhere else (a pool, a cache, a field)
			if fresh && len(srcs) > 0 {
				r.Hold("R09.C", "fresh-channel:sendPacket", c.pos(cs.Pos()), "the channel registered for the request comes from: "+strings.Join(srcs, " | "))
			} else if len(srcs) == 0 {
				r.Violate("R09.C", "fresh-channel:sendPacket", c.pos(cs.Pos()), "the channel registered for the request has no recognisable source")
			}
			seenSrc := map[string]bool{}
			for _, sname := range srcs {
				if strings.HasPrefix(sname, "makechan:") || seenSrc[sname] {
					continue
				}
				seenSrc[sname] = true
				r.Violate("R09.C", "fresh-channel:sendPacket/"+strings.ReplaceAll(sname, " ", "_"), c.pos(cs.Pos()), "the channel registered for the request comes from "+sname+" (all sources: "+strings.Join(srcs, " | ")+") — a channel that is not made for this call receives other requests' answers and notifications")
			}
		}
	}
}

func c11(c *Ctx) {
	r := c.R
	r.Explanation = "Liveness over histories with k salt rotations is not a static fact; the structural conditions are: in both the bad_server_salt and the " +
		"new_session_created arm the new salt is stored and the session saved afterwards; the waiters that are sent the retry marker are selected by the " +
		"rejected message's id (bad_msg_id), not by iterating over every registered request; every entry that is sent the marker is forgotten; the waiter " +
		"re-issues its request on the marker."
	r.NotDecided = []string{"liveness over histories with k rotations and n pending requests", "interaction with a fresh key exchange beyond C09 R09.C"}
	r.Rule("R11.S", "adopt and save: the salt field is assigned from the server's value and SaveSession follows, in both arms", 2)
	// "written to the session store": SaveSession hands all four fields to the store, and the store the library
	// ships writes whenever it reports success
	if sv := c.fn("R11.S", load.RootMod, "*MTProto", "SaveSession"); sv != nil {
		n := 0
		for _, cs := range an.Calls(sv) {
			if cs.Common.IsInvoke() && cs.Common.Method.Name() == "Store" {
				n++
				uncond := true
				for _, b := range sv.Blocks {
					if ret, ok := an.AsReturn(b.Instrs[len(b.Instrs)-1]); ok && !an.InstrDominates(cs.Instr, ret) {
						uncond = false
					}
				}
				d := an.NewDeps(c.inRepo).Of(cs.Common.Args[0])
				r.Check(uncond && d.Has("field:mtproto.MTProto.serverSalt"), "R11.S", "save-hands-salt-to-store", c.pos(cs.Pos()), "SaveSession calls the store's Store on every path with a session built from m.serverSalt; roots: "+strings.Join(an.SortedKeys(d.Roots), ", "))
			}
		}
		if n == 0 {
			r.Violate("R11.S", "save-hands-salt-to-store", c.pos(sv.Pos()), "SaveSession does not call Store on the session storage")
		}
	}
	if f := c.fn("R11.S", load.SessPkg, "*genericFileSessionLoader", "Store"); f != nil {
		c.storeSuccessMeansWritten("R11.S", f)
	}
	r.Rule("R11.V", "every salt the receive loop adopts is handed to the store on every path to the end of processResponse (not only when a waiter was found)", 2)
	c.saltSavedOnEveryPath("R11.V")
	r.Rule("R11.O", "the waiter is registered under the request's id before the request is written (= C09 R09.O): a bad_server_salt that overtakes the sender finds the waiter it has to tell to retry", 1)
	c.registerBeforeWrite("R11.O")
	r.Rule("R11.T", "target: the retry marker is sent to the waiter registered under bad_msg_id only", 1)
	r.Rule("R11.F", "forget: every entry that is sent the marker is deleted from the table", 1)
	r.Rule("R11.R", "the waiter re-issues the request on *errorSessionConfigsChanged", 1)
	tr := an.NewTracer()
	pr := c.fn("R11.S", load.RootMod, "*MTProto", "processResponse")
	if pr == nil {
		return
	}
	// ---- R11.S ----------------------------------------------------------------------------------
	for _, arm := range []struct{ key, src string }{{"bad_server_salt", "objects.BadServerSalt.NewSalt"}, {"new_session_created", "objects.NewSessionCreated.ServerSalt"}} {
		var st *ssa.Store
		for _, b := range pr.Blocks {
			for _, in := range b.Instrs {
				if s, ok := in.(*ssa.Store); ok {
					if fa, ok := s.Addr.(*ssa.FieldAddr); ok && an.FieldName(fa.X.Type(), fa.Field) == "mtproto.MTProto.serverSalt" && strings.Contains(tr.OriginString(s.Val), arm.src) {
						st = s
					}
				}
			}
		}
		if st == nil {
			r.Violate("R11.S", "adopt:"+arm.key, c.pos(pr.Pos()), "m.serverSalt is not assigned from "+arm.src)
			continue
		}
		saved := false
		for _, cs := range an.CallsNamed(pr, "(*"+load.RootMod+".MTProto).SaveSession") {
			if cs.Block == st.Block() && an.InstrDominates(st, cs.Instr) {
				saved = true
			}
		}
		r.Check(saved, "R11.S", "adopt-and-save:"+arm.key, c.pos(st.Pos()), "m.serverSalt = "+arm.src+" is followed by SaveSession() in the same arm")
	}
	// ---- R11.T / R11.F --------------------------------------------------------------------------
	var sends []*ssa.Send
	for _, b := range pr.Blocks {
		for _, in := range b.Instrs {
			if s, ok := in.(*ssa.Send); ok && strings.Contains(tr.OriginString(s.X), "alloc:mtproto.errorSessionConfigsChanged") {
				sends = append(sends, s)
			}
		}
	}
	if len(sends) == 0 {
		r.Violate("R11.T", "retry-marker", c.pos(pr.Pos()), "no send of the retry marker (*errorSessionConfigsChanged) in processResponse")
	}
	for i, s := range sends {
		// channel = Get(key)#0
		dom := "unknown"
		var keyV ssa.Value
		if ex, ok := s.Chan.(*ssa.Extract); ok {
			if call, ok := ex.Tuple.(*ssa.Call); ok && strings.HasSuffix(an.CalleeName(call.Common()), "SyncIntObjectChan).Get") {
				keyV = call.Call.Args[1]
				dom = idDomain(tr, keyV)
			}
		}
		r.Check(dom == "echoed", "R11.T", sprintf("retry-marker#%d:target", i+1), c.pos(s.Pos()),
			"the marker is sent to the channel registered under a key of domain '"+dom+"' (must be message.BadMsgID): with 'all-keys' requests the server accepted are re-sent too")
		deleted := false
		for _, cs := range an.CallsNamed(pr, "(*"+load.UtilsPkg+".SyncIntObjectChan).Delete") {
			if keyV != nil && cs.Common.Args[1] == keyV && (an.InstrDominates(s, cs.Instr) || an.InstrDominates(cs.Instr, s)) {
				deleted = true
			}
		}
		r.Check(deleted, "R11.F", sprintf("retry-marker#%d:forgotten", i+1), c.pos(s.Pos()),
			"the notified entry is not removed from responseChannels: the next rotation sends to a channel nobody reads and the receive loop blocks")
	}
	// ---- R11.N: the rejected request is notified on every path through the arm ----------------------
	r.Rule("R11.N", "in the bad_server_salt arm, when a waiter is registered under bad_msg_id, every path to the end of the arm passes the retry-marker send", 1)
	c.rotationNotifiesOnEveryPath("R11.N")

	r.Rule("R11.F", "the rotation handler forgets only the entry it notifies: the key of every Delete in processResponse / writeRPCResponse is the key of the Get that found the waiter (requests accepted before the rotation keep their entries and get their answers)", 2)
	c.forgetOnlyTheEntryServed("R11.F")
	r.Rule("R11.M", "the notification mutex (and every other mutex of the client) is given back on every path out of the handler that takes it: the second rotation finds it free", 10)
	c.locksReleased("R11.M", c.repoFunctionsWithLocks())

	// ---- R11.X: a waiter channel is never closed by the machinery that sends on it -------------------------
	r.Rule("R11.X", "no waiter channel is closed by the table or the receive path: the retry marker (forget, then send) and rpc results are sent on channels taken from the table, and a send on a closed channel panics in the receive loop", 1)
	c.noWaiterClose("R11.X")

	// ---- R11.W: a channel that gets a synthetic answer is not also registered ----------------------
	r.Rule("R11.W", "a waiter is registered only when its caller will be reading: no path of sendPacket both spawns the synthetic answer (go resp <- …) and registers the same channel, otherwise the marker sent to it on rotation blocks the receive loop for ever", 1)
	if sp := c.fn("R11.W", load.RootMod, "*MTProto", "sendPacket"); sp != nil {
		var gos []*ssa.Go
		for _, b := range sp.Blocks {
			for _, in := range b.Instrs {
				if g, ok := in.(*ssa.Go); ok {
					gos = append(gos, g)
				}
			}
		}
		adds := an.CallsNamed(sp, "(*"+load.UtilsPkg+".SyncIntObjectChan).Add")
		nW := 0
		for _, g := range gos {
			mc, ok := g.Call.Value.(*ssa.MakeClosure)
			if !ok {
				continue
			}
			fnc, _ := mc.Fn.(*ssa.Function)
			if fnc == nil {
				continue
			}
			// which captured channels does the goroutine send on?
			for k, fv := range fnc.FreeVars {
				sends := false
				for _, b := range fnc.Blocks {
					for _, in := range b.Instrs {
						if sd, ok := in.(*ssa.Send); ok && tr.HasOrigin(sd.Chan, "free:"+fv.Name()) {
							sends = true
						}
					}
				}
				if !sends || k >= len(mc.Bindings) {
					continue
				}
				bound := mc.Bindings[k]
				for _, a := range adds {
					if !sameChannel(a.Common.Args[2], bound) {
						continue
					}
					nW++
					both := a.Block == g.Block() || blockReaches(a.Block, g.Block()) || blockReaches(g.Block(), a.Block)
					if both && exclusiveGuards(sp, a.Block, g.Block(), tr) {
						both = false // the two sites sit behind opposite outcomes of the same pure test
					}
					r.Check(!both, "R11.W", sprintf("synthetic-answer-not-registered#%d", nW), c.pos(a.Pos()),
						"the channel that receives the synthetic answer at "+c.pos(g.Pos())+" is registered on the same path: its caller reads once and leaves, a later send to it (retry marker, rpc_result) never returns")
				}
			}
		}
		if nW == 0 {
			r.Hold("R11.W", "synthetic-answer-not-registered", c.pos(sp.Pos()), sprintf("%d goroutine(s) spawned in sendPacket, none sends on a registered channel", len(gos)))
		}
	}

	// ---- R11.R ----------------------------------------------------------------------------------
	if mk := c.fn("R11.R", load.RootMod, "*MTProto", "makeRequest"); mk != nil {
		ok := false
		for _, i := range an.Ifs(mk) {
			cd, okc := an.Classify(i)
			if !okc || cd.Kind != "assert" || typeString(cd.Assert.AssertedType) != "*mtproto.errorSessionConfigsChanged" {
				continue
			}
			for _, in := range cd.EdgeWhen(true).To().Instrs {
				if call, okk := in.(*ssa.Call); okk && strings.HasSuffix(an.CalleeName(call.Common()), "MTProto).makeRequest") && isParam(call.Call.Args[1], mk, 1) {
					ok = true
				}
			}
		}
		r.Check(ok, "R11.R", "waiter-retries", c.pos(mk.Pos()), "on *errorSessionConfigsChanged makeRequest(data, …) is called again with the same request")
	}
}

// follows: b can execute after a.
func follows(a, b ssa.Instruction) bool {
	if a.Block() == b.Block() {
		for _, in := range a.Block().Instrs {
			if in == a {
				return true
			}
			if in == b {
				return false
			}
		}
	}
	return reachesBlockStrict(a.Block(), b.Block())
}

func precedesOnSomePath(a, b ssa.Instruction) bool { return follows(a, b) }

func reachesBlockStrict(from, to *ssa.BasicBlock) bool {
	for _, s := range from.Succs {
		if reachesBlock(s, to, map[*ssa.BasicBlock]bool{}) {
			return true
		}
	}
	return false
}

// sameChannel: two SSA values denote the same channel (identical value, or loads of the same local variable).
func sameChannel(a, b ssa.Value) bool {
	if a == b {
		return true
	}
	la, ok1 := a.(*ssa.UnOp)
	lb, ok2 := b.(*ssa.UnOp)
	if ok1 && ok2 && la.Op == token.MUL && lb.Op == token.MUL && la.X == lb.X {
		return true
	}
	// a captured variable is bound by address: the binding is the Alloc, the registered value a load of it
	if ok1 && la.Op == token.MUL && la.X == b {
		return true
	}
	if ok2 && lb.Op == token.MUL && lb.X == a {
		return true
	}
	return false
}

// noWaiterClose: every close() of a chan tl.Object in the repository must be of a channel that did not come out of
// the waiter table.
func (c *Ctx) noWaiterClose(rule string) {
	r := c.R
	tr := an.NewTracer()
	n := 0
	var fns []*ssa.Function
	for f := range c.P.AllFunctions() {
		if c.P.InRepo(f) && f.Synthetic == "" && !strings.Contains(load.FuncPkgPath(f), "/examples/") {
			fns = append(fns, f)
		}
	}
	sort.Slice(fns, func(i, j int) bool { return fns[i].String() < fns[j].String() })
	for _, f := range fns {
		k := 0
		for _, cs := range an.CallsNamed(f, "builtin:close") {
			if len(cs.Common.Args) != 1 || !strings.Contains(cs.Common.Args[0].Type().String(), "tl.Object") {
				continue
			}
			n++
			k++
			o := tr.OriginString(cs.Common.Args[0])
			fromTable := strings.Contains(o, "utils.SyncIntObjectChan.m") || strings.Contains(o, "SyncIntObjectChan).Get") || strings.Contains(o, "MTProto.responseChannels")
			r.Check(!fromTable, rule, sprintf("close:%s#%d", an.ShortName(f), k), c.pos(cs.Pos()),
				"close of a waiter channel ("+simplifyOrigin(o)+"): the handlers forget an entry and then send on its channel")
		}
	}
	if n == 0 {
		r.Hold(rule, "close:none", "", "no close() of a chan tl.Object anywhere in the repository")
	}
}

// registerBeforeWrite: R09.O (also R16.O: an answer that finds no waiter ends in the loop's fatal arm).
func (c *Ctx) registerBeforeWrite(rule string) {
	r := c.R
	if sp := c.fn(rule, load.RootMod, "*MTProto", "sendPacket"); sp != nil {
		var write ssa.Instruction
		for _, cs := range an.Calls(sp) {
			if strings.HasSuffix(cs.Name, "transport.Transport).WriteMsg") {
				write = cs.Instr
			}
		}
		if write == nil {
			r.Undecide(rule, "register-before-write", c.pos(sp.Pos()), "WriteMsg call not found in sendPacket")
		} else {
			for _, tbl := range []string{"SyncIntObjectChan", "SyncIntReflectTypes"} {
				adds := an.CallsNamed(sp, "(*"+load.UtilsPkg+"."+tbl+").Add")
				if len(adds) == 0 {
					r.Violate(rule, "register-before-write:"+tbl, c.pos(sp.Pos()), "sendPacket does not register in "+tbl)
					continue
				}
				ok := true
				why := ""
				for _, a := range adds {
					// the registration must be able to precede the write and must never follow it
					if !an.InstrDominates(a.Instr, write) && !precedesOnSomePath(a.Instr, write) {
						ok, why = false, "the registration at "+c.pos(a.Pos())+" cannot precede the write at "+c.pos(write.Pos())
					}
					if follows(write, a.Instr) {
						ok, why = false, "the registration at "+c.pos(a.Pos())+" happens after the write at "+c.pos(write.Pos())+": an answer that is processed in between finds no waiter, is dropped with 'not found', and the caller blocks for ever"
					}
				}
				r.Check(ok, rule, "register-before-write:"+tbl, c.pos(adds[0].Pos()), why)
			}
		}
	}
}

// exclusiveGuards: block x is reachable only through one outcome of a call f(args…) and block y only through the
// opposite outcome of a call of the same function with the same arguments (if isNullable(req) {…} … if
// !isNullable(req) {…}): no run executes both.
func exclusiveGuards(fn *ssa.Function, x, y *ssa.BasicBlock, tr *an.Tracer) bool {
	type g struct {
		name string
		args string
		out  bool
	}
	guardsOf := func(b *ssa.BasicBlock) []g {
		var out []g
		for _, i := range an.Ifs(fn) {
			cd, ok := an.Classify(i)
			if !ok || !strings.HasPrefix(cd.Kind, "call:") {
				continue
			}
			call, ok := an.StripBoolWrappers(i.Cond).(*ssa.Call)
			if !ok {
				continue
			}
			var as []string
			for _, a := range call.Call.Args {
				as = append(as, tr.OriginString(a))
			}
			for _, outcome := range []bool{true, false} {
				// b unreachable when the edge for this outcome is cut → b requires this outcome
				if !an.Reach(fn, map[an.Edge]bool{cd.EdgeWhen(outcome): true})[b] {
					out = append(out, g{cd.Kind, strings.Join(as, ";"), outcome})
				}
			}
		}
		return out
	}
	for _, a := range guardsOf(x) {
		for _, b := range guardsOf(y) {
			if a.name == b.name && a.args == b.args && a.out != b.out {
				return true
			}
		}
	}
	return false
}

// containerItemsDistinct: in (*MessageContainer).UnmarshalTL every value appended to the result inside the loop is
// an object allocated in that iteration.
func (c *Ctx) containerItemsDistinct(rule string) {
	r := c.R
	f := c.fn(rule, load.ObjPkg, "*MessageContainer", "UnmarshalTL")
	if f == nil {
		return
	}
	inLoop := func(b *ssa.BasicBlock) bool { return reachesBlockStrict(b, b) }
	n := 0
	for _, cs := range an.CallsNamed(f, "builtin:append") {
		if !inLoop(cs.Block) || len(cs.Common.Args) != 2 {
			continue
		}
		// the appended elements: stores into the variadic array behind args[1]
		sl, ok := cs.Common.Args[1].(*ssa.Slice)
		if !ok {
			continue
		}
		arr, ok := sl.X.(*ssa.Alloc)
		if !ok || arr.Referrers() == nil {
			continue
		}
		for _, rf := range *arr.Referrers() {
			ia, ok := rf.(*ssa.IndexAddr)
			if !ok || ia.Referrers() == nil {
				continue
			}
			for _, r2 := range *ia.Referrers() {
				st, ok := r2.(*ssa.Store)
				if !ok || st.Addr != ssa.Value(ia) {
					continue
				}
				n++
				v := st.Val
				for {
					if mi, ok := v.(*ssa.MakeInterface); ok {
						v = mi.X
						continue
					}
					break
				}
				fresh := false
				switch x := v.(type) {
				case *ssa.Alloc:
					fresh = inLoop(x.Block())
				case *ssa.Call:
					fresh = inLoop(x.Block()) // built by a call made in this iteration
				}
				r.Check(fresh, rule, sprintf("container-item:fresh-per-iteration#%d", n), c.pos(cs.Pos()),
					"the element appended for each item of the container is created in that iteration (an object allocated before the loop makes every entry of the result the same, last, message)")
			}
		}
	}
	if n == 0 {
		r.Undecide(rule, "container-item:fresh-per-iteration", c.pos(f.Pos()), "no append of an item inside the decoding loop found")
	}
}

// receiveSendsTargeted: every channel send executed on the receive goroutine (processResponse, writeRPCResponse)
// goes to the channel registered under an id the server echoed for one request (req_msg_id / bad_msg_id): only
// that request's caller is known to be parked on its channel.  A send to every registered channel, or to a channel
// picked by any other key, blocks the loop for ever as soon as one of them has no reader (the key-exchange requests
// register the shared service channel and never read it again).
func (c *Ctx) receiveSendsTargeted(rule string) {
	r := c.R
	tr := an.NewTracer()
	n := 0
	for _, name := range []string{"processResponse", "writeRPCResponse"} {
		f := c.fn(rule, load.RootMod, "*MTProto", name)
		if f == nil {
			continue
		}
		var blocks []*ssa.BasicBlock
		for _, g := range an.WithAnon(f) { // a handler arm moved into a function literal is still the handler
			blocks = append(blocks, g.Blocks...)
		}
		for _, b := range blocks {
			for _, in := range b.Instrs {
				var ch ssa.Value
				switch x := in.(type) {
				case *ssa.Send:
					ch = x.Chan
				case *ssa.Select:
					for _, st := range x.States {
						if st.Dir == types.SendOnly {
							ch = st.Chan
						}
					}
				}
				if ch == nil {
					continue
				}
				n++
				dom := "unknown"
				if ex, ok := ch.(*ssa.Extract); ok {
					if call, ok := ex.Tuple.(*ssa.Call); ok && strings.HasSuffix(an.CalleeName(call.Common()), "SyncIntObjectChan).Get") {
						key := call.Call.Args[1]
						dom = idDomain(tr, key)
						if prm, isP := key.(*ssa.Parameter); isP && dom != "echoed" {
							// the key is a parameter: every caller must pass an echoed id
							all, any := true, false
							for g := range c.P.AllFunctions() {
								if !c.P.InRepo(g) || g.Synthetic != "" {
									continue
								}
								for _, cs := range an.Calls(g) {
									if an.StaticCallee(cs.Common) != f {
										continue
									}
									any = true
									for i, p := range f.Params {
										if p == prm && i < len(cs.Common.Args) && idDomain(tr, cs.Common.Args[i]) != "echoed" {
											all = false
										}
									}
								}
							}
							if any && all {
								dom = "echoed"
							}
						}
					}
				}
				r.Check(dom == "echoed", rule, sprintf("receive-send:%s#%d", name, n), c.pos(in.Pos()),
					"a send on the receive goroutine goes to a channel chosen by a key of domain '"+dom+"' (must be the id echoed for one request: only that caller is known to be reading)")
			}
		}
	}
	if n == 0 {
		r.Undecide(rule, "receive-send", "", "no channel send found in processResponse / writeRPCResponse")
	}
}

// noSharedLoopVariableInGoroutines: the module declares go 1.13, so a range / for variable is ONE variable for the
// whole loop.  A goroutine (or deferred call) started in the loop body that captures it reads whatever the loop has
// stored by the time it runs - usually the last element.  Per `go` / `defer` of a function literal inside a loop: no
// captured cell that is allocated outside the loop body is stored to inside the loop.
func (c *Ctx) noSharedLoopVariableInGoroutines(rule string, fns []*ssa.Function) {
	r := c.R
	n, sites := 0, 0
	for _, f := range fns {
		n++
		k := 0
		for _, b := range f.Blocks {
			if !reachesBlockStrict(b, b) {
				continue // not in a loop
			}
			for _, in := range b.Instrs {
				var fnv ssa.Value
				switch x := in.(type) {
				case *ssa.Go:
					fnv = x.Call.Value
				case *ssa.Defer:
					fnv = x.Call.Value
				}
				mc, ok := fnv.(*ssa.MakeClosure)
				if !ok {
					continue
				}
				sites++
				k++
				var bad []string
				for _, bind := range mc.Bindings {
					cell, ok := bind.(*ssa.Alloc)
					if !ok {
						continue
					}
					// allocated once (outside every cycle through this block) and written inside the loop?
					if reachesBlockStrict(cell.Block(), cell.Block()) && reachesBlockStrict(b, cell.Block()) && reachesBlockStrict(cell.Block(), b) {
						continue // a fresh cell per iteration
					}
					for _, ref := range *cell.Referrers() {
						if st, ok := ref.(*ssa.Store); ok && st.Addr == ssa.Value(cell) && reachesBlockStrict(st.Block(), st.Block()) && reachesBlockStrict(st.Block(), b) && reachesBlockStrict(b, st.Block()) {
							bad = append(bad, "the variable "+cell.Comment+" is one cell for the whole loop, stored at "+c.pos(st.Pos())+" on every iteration and read by the function started here")
							break
						}
					}
				}
				r.Check(len(bad) == 0, rule, sprintf("loop-variable-not-shared:%s#%d", an.ShortName(f), k), c.pos(in.Pos()), strings.Join(bad, "; "))
			}
		}
	}
	if sites == 0 {
		r.Hold(rule, "loop-variable-not-shared:none", "", sprintf("%d functions, no goroutine or deferred literal started inside a loop", n))
	}
}

// forgetOnlyTheEntryServed: inside the two functions that may forget a table entry, the key handed to Delete (on
// either table) is the very key of a Get in the same function - the entry that was looked up and is being served or
// told to retry - not a key computed otherwise (an older id, every id below a bound, a range over Keys()).
func (c *Ctx) forgetOnlyTheEntryServed(rule string) {
	r := c.R
	n := 0
	for _, name := range []string{"processResponse", "writeRPCResponse"} {
		f := c.P.Func(load.RootMod, "*MTProto", name)
		if f == nil {
			continue
		}
		for _, g := range an.WithAnon(f) {
			looked := map[ssa.Value]bool{}
			for _, cs := range an.Calls(g) {
				if cs.Name == "(*"+load.UtilsPkg+".SyncIntObjectChan).Get" {
					if args := an.CallArgs(cs.Common); len(args) == 2 {
						looked[args[1]] = true
					}
				}
			}
			k := 0
			for _, cs := range an.Calls(g) {
				if cs.Name != "(*"+load.UtilsPkg+".SyncIntObjectChan).Delete" && cs.Name != "(*"+load.UtilsPkg+".SyncIntReflectTypes).Delete" {
					continue
				}
				args := an.CallArgs(cs.Common)
				if len(args) != 2 {
					continue
				}
				n++
				k++
				r.Check(looked[args[1]], rule, sprintf("forget:the-entry-looked-up:%s#%d", name, k), c.pos(cs.Pos()), "the key handed to Delete is the key of a Get of the response table in the same function (the entry being served); here it is "+simplifyOrigin(an.NewTracer().OriginString(args[1])))
			}
		}
	}
	if n == 0 {
		r.Undecide(rule, "forget:the-entry-looked-up", "", "no Delete on the waiter / hint tables in processResponse and writeRPCResponse")
	}
}

// packedResultUnwrapped: the value handed to writeRPCResponse in processResponse is rpc_result.Obj with a
// *GzipPacked wrapper taken off.
func (c *Ctx) packedResultUnwrapped(rule string) {
	r := c.R
	if pr := c.P.Func(load.RootMod, "*MTProto", "processResponse"); pr != nil {
		n := 0
		for _, cs := range an.Calls(pr) {
			if !strings.HasSuffix(cs.Name, "MTProto).writeRPCResponse") {
				continue
			}
			args := an.CallArgs(cs.Common)
			if len(args) < 3 {
				continue
			}
			n++
			v := args[2]
			unwraps := false
			var walk func(x ssa.Value, d int)
			walk = func(x ssa.Value, d int) {
				if d > 6 {
					return
				}
				switch y := x.(type) {
				case *ssa.Phi:
					for _, e := range y.Edges {
						walk(e, d+1)
					}
				case *ssa.UnOp:
					if fa, ok := y.X.(*ssa.FieldAddr); ok && strings.HasSuffix(an.FieldName(fa.X.Type(), fa.Field), "objects.GzipPacked.Obj") {
						unwraps = true
					}
				}
			}
			walk(v, 0)
			r.Check(unwraps, rule, sprintf("result:unwrapped-from-gzip#%d", n), c.pos(cs.Pos()), "one of the values delivered is the Obj of a *GzipPacked found in the result: a packed result (object, Bool, rpc_error) reaches its caller as what it is; delivered: "+simplifyOrigin(an.NewTracer().OriginString(v)))
		}
		if n == 0 {
			r.Undecide(rule, "result:unwrapped-from-gzip", c.pos(pr.Pos()), "no writeRPCResponse call in processResponse")
		}
	}
}

// tableLocks: lock discipline of the waiter and hint tables (maps shared by every caller and the receive loop).
func (c *Ctx) tableLocks(rule string) {
	r := c.R
	tr := an.NewTracer()
	for _, tbl := range []string{"SyncIntObjectChan", "SyncIntReflectTypes"} {
		named, _ := c.P.TypeOf(load.UtilsPkg, tbl)
		if named == nil {
			r.Undecide(rule, "locks:"+tbl, "", "type not found")
			continue
		}
		for _, f := range c.P.MethodsOf(load.UtilsPkg, tbl) {
			if len(f.Blocks) == 0 {
				continue
			}
			// only methods somebody calls (Keys() lost its last caller with the targeted notification)
			called := false
			for g := range c.P.AllFunctions() {
				if !c.P.InRepo(g) || g == f {
					continue
				}
				for _, cs := range an.Calls(g) {
					if an.StaticCallee(cs.Common) == f {
						called = true
					}
				}
			}
			if !called {
				continue
			}
			ex := an.LockScopes(f, tbl+".mutex")
			sh := an.RLockScopes(f, tbl+".mutex")
			isMap := func(v ssa.Value) bool { return strings.HasSuffix(tr.OriginString(v), "utils."+tbl+".m") }
			nW, nR := 0, 0
			for _, b := range f.Blocks {
				for _, in := range b.Instrs {
					kind := ""
					switch x := in.(type) {
					case *ssa.MapUpdate:
						if isMap(x.Map) {
							kind = "write"
						}
					case *ssa.Lookup:
						if isMap(x.X) {
							kind = "read"
						}
					case *ssa.Range:
						if isMap(x.X) {
							kind = "read"
						}
					case *ssa.Store:
						if fa, ok := x.Addr.(*ssa.FieldAddr); ok && an.FieldName(fa.X.Type(), fa.Field) == "utils."+tbl+".m" {
							kind = "write"
						}
					case *ssa.Call:
						switch an.CalleeName(x.Common()) {
						case "builtin:delete":
							if isMap(x.Call.Args[0]) {
								kind = "write"
							}
						case "builtin:len":
							if isMap(x.Call.Args[0]) {
								kind = "read"
							}
						}
					}
					if kind == "" {
						continue
					}
					covered := false
					for _, sc := range ex {
						if sc.Covers(in) {
							covered = true
						}
					}
					if kind == "read" {
						nR++
						for _, sc := range sh {
							if sc.Covers(in) {
								covered = true
							}
						}
					} else {
						nW++
					}
					key := sprintf("locks:%s.%s/%s#%d", tbl, f.Name(), kind, map[string]int{"read": nR, "write": nW}[kind])
					what := "a read of the table's map outside any section of its mutex races with the writers"
					if kind == "write" {
						what = "a write of the table's map that is not inside the exclusive Lock section runs concurrently with the receive loop's lookups (under RLock two holders proceed at once): concurrent map read and map write"
					}
					r.Check(covered, rule, key, c.pos(in.Pos()), what)
				}
			}
		}
	}
}

// rotationNotifiesOnEveryPath: in processResponse, with the message decided to be bad_server_salt and a waiter found
// under bad_msg_id, the end of the arm is unreachable without passing a send of the retry marker.
func (c *Ctx) rotationNotifiesOnEveryPath(rule string) {
	r := c.R
	pr := c.P.Func(load.RootMod, "*MTProto", "processResponse")
	if pr == nil {
		r.Undecide(rule, "notify:every-path", "", "processResponse not found")
		return
	}
	tr := an.NewTracer()
	var sends []*ssa.Send
	for _, b := range pr.Blocks {
		for _, in := range b.Instrs {
			if s, ok := in.(*ssa.Send); ok && strings.Contains(tr.OriginString(s.X), "alloc:mtproto.errorSessionConfigsChanged") {
				sends = append(sends, s)
			}
		}
	}
	if len(sends) == 0 {
		r.Undecide(rule, "notify:every-path", c.pos(pr.Pos()), "no send of the retry marker in processResponse")
		return
	}
	if len(sends) > 0 {
		// the block where the arms join again: the seq_no parity test
		var join *ssa.BasicBlock
		for _, i := range an.Ifs(pr) {
			cd, ok := an.Classify(i)
			if ok && cd.Kind == "eq" {
				if bo, isBin := cd.X.(*ssa.BinOp); isBin && bo.Op.String() == "&" && strings.Contains(tr.OriginString(bo.X), "messages.Common).GetSeqNo") {
					join = i.Block()
				}
			}
		}
		if join == nil {
			r.Undecide(rule, "notify:every-path", c.pos(pr.Pos()), "the join point after the dispatch (seq_no parity test) was not found")
		} else {
			cut := map[an.Edge]bool{}
			for _, s := range sends {
				for _, p := range s.Block().Preds {
					for si, sc := range p.Succs {
						if sc == s.Block() {
							cut[an.Edge{From: p, Succ: si}] = true
						}
					}
				}
			}
			reach := an.ReachWith(pr, cut, func(i *ssa.If) (int, bool) {
				cd, ok := an.Classify(i)
				if !ok {
					return 0, false
				}
				switch {
				case cd.Kind == "assert" && strings.Contains(tr.OriginString(cd.X), "DecodeUnknownObject#0"):
					return cd.EdgeWhen(typeString(cd.Assert.AssertedType) == "*objects.BadServerSalt").Succ, true
				case cd.Kind == "nil" && strings.Contains(tr.OriginString(cd.X), "DecodeUnknownObject#1"):
					return cd.EdgeWhen(true).Succ, true
				case cd.Kind == "bool" && strings.Contains(tr.OriginString(cd.X), "SyncIntObjectChan).Get#1"):
					return cd.EdgeWhen(true).Succ, true // a waiter is registered
				}
				return 0, false
			})
			r.Check(!reach[join], rule, "notify:every-path", c.pos(sends[0].Pos()), "with a waiter registered under bad_msg_id, the end of the bad_server_salt arm is reachable without sending it the retry marker (an early exit from the arm): that caller waits for ever")
		}
	}
}

// saltSavedOnEveryPath: every store to MTProto.serverSalt in processResponse is followed by a call of SaveSession on
// every path to a return of the function (a save that happens only when a waiter exists leaves the file with the old
// salt after a rotation that rejected an acknowledgement).
func (c *Ctx) saltSavedOnEveryPath(rule string) {
	r := c.R
	pr := c.P.Func(load.RootMod, "*MTProto", "processResponse")
	if pr == nil {
		r.Undecide(rule, "salt:saved-on-every-path", "", "processResponse not found")
		return
	}
	saves := map[*ssa.BasicBlock]ssa.Instruction{}
	for _, cs := range an.CallsNamed(pr, "(*"+load.RootMod+".MTProto).SaveSession") {
		if _, have := saves[cs.Block]; !have {
			saves[cs.Block] = cs.Instr
		}
	}
	n := 0
	for _, b := range pr.Blocks {
		for _, in := range b.Instrs {
			st, ok := in.(*ssa.Store)
			if !ok {
				continue
			}
			fa, ok := st.Addr.(*ssa.FieldAddr)
			if !ok || an.FieldName(fa.X.Type(), fa.Field) != "mtproto.MTProto.serverSalt" {
				continue
			}
			n++
			// saved later in the same block?
			if sv, ok := saves[b]; ok && an.InstrDominates(st, sv) {
				r.Hold(rule, sprintf("salt:saved-on-every-path#%d", n), c.pos(st.Pos()), "SaveSession follows the store in the same block")
				continue
			}
			var leak ssa.Instruction
			seen := map[*ssa.BasicBlock]bool{}
			var walk func(x *ssa.BasicBlock)
			walk = func(x *ssa.BasicBlock) {
				for _, sc := range x.Succs {
					if seen[sc] || leak != nil {
						continue
					}
					seen[sc] = true
					if _, saved := saves[sc]; saved {
						continue
					}
					for _, y := range sc.Instrs {
						if ret, ok := an.AsReturn(y); ok {
							leak = ret
						}
					}
					walk(sc)
				}
			}
			walk(b)
			detail := ""
			if leak != nil {
				detail = "the return at " + c.pos(leak.Pos()) + " is reached after the store without a call of SaveSession: the running client has the new salt, the store keeps the old one"
			}
			r.Check(leak == nil, rule, sprintf("salt:saved-on-every-path#%d", n), c.pos(st.Pos()), detail)
		}
	}
	if n == 0 {
		r.Undecide(rule, "salt:saved-on-every-path", c.pos(pr.Pos()), "no store to MTProto.serverSalt in processResponse")
	}
}
