package props

import (
	"go/token"
	"go/types"
	"sort"
	"strings"

	"verif/checker/internal/an"
	"verif/checker/internal/load"

	"golang.org/x/tools/go/ssa"
)

// Rule W (width discipline): (*big.Int).Bytes() is the minimal big-endian form — it drops leading zero bytes.
// Every use of such a value must be width-insensitive (TL `bytes`, SetBytes, hex dump, a left-padding
// sanitiser) or width-preserving (a copy right-aligned into the destination).  Copying it left-aligned into a
// fixed buffer, slicing/indexing it at constant positions, comparing it with a fixed-width digest or storing
// it as key material is a violation: the result depends on whether the number happens to start with 00.

type widthSite struct {
	fn      *ssa.Function
	call    *ssa.Call
	key     string // pkg.func/Bytes(<receiver origin>)#n
	recv    string
	bad     []string // violations
	undec   []string
	okUses  []string
	nUses   int
	inScope bool
}

// widthSanitisers: repository functions that left-pad their argument to a fixed width (verified by R18.W for
// pad256).  The forward flow stops at them.
var widthSanitisers = map[string]bool{
	load.SrpPkg + ".pad256":            true,
	load.MathPkg + ".BigIntFixedBytes": true,
}

// widthInsensitive: library/repository sinks for which the minimal form is correct or irrelevant.
var widthInsensitive = map[string]bool{
	"(*" + load.TLPkg + ".Encoder).PutMessage": true,
	"encoding/hex.EncodeToString":              true,
	"(*math/big.Int).SetBytes":                 true,
	"fmt.Sprintf":                              true, "fmt.Errorf": true, "fmt.Println": true, "fmt.Printf": true,
}

func (c *Ctx) isTLObjectStruct(fieldName string) bool {
	// fieldName is "pkg.Type.field"; the struct must be a tl.Object (pointer receiver) and the field []byte
	parts := strings.Split(fieldName, ".")
	if len(parts) != 3 {
		return false
	}
	pp, err := c.Pop()
	if err != nil {
		return false
	}
	for _, pk := range c.P.Initial {
		if pk.Types.Name() != parts[0] {
			continue
		}
		o := pk.Types.Scope().Lookup(parts[1])
		tn, ok := o.(*types.TypeName)
		if !ok {
			continue
		}
		if !pp.IsObject(types.NewPointer(tn.Type())) {
			continue
		}
		st, ok := tn.Type().Underlying().(*types.Struct)
		if !ok {
			continue
		}
		for i := 0; i < st.NumFields(); i++ {
			if st.Field(i).Name() == parts[2] {
				if s, ok := st.Field(i).Type().(*types.Slice); ok {
					if b, ok := s.Elem().(*types.Basic); ok && b.Kind() == types.Uint8 {
						return true
					}
				}
			}
		}
	}
	return false
}

// widthSites analyses every (*big.Int).Bytes() call in the functions accepted by scope.
func (c *Ctx) widthSites(scope func(*ssa.Function) bool) []*widthSite {
	tr := an.NewTracer()
	var fns []*ssa.Function
	for f := range c.P.AllFunctions() {
		if f.Synthetic == "" && scope(f) {
			fns = append(fns, f)
		}
	}
	sort.Slice(fns, func(i, j int) bool { return fns[i].String() < fns[j].String() })
	var out []*widthSite
	for _, f := range fns {
		if widthSanitisers[an.CalleeName(&ssa.CallCommon{Value: f})] {
			continue // verified by checkPadHelper
		}
		ord := map[string]int{}
		for _, cs := range an.CallsNamed(f, "(*math/big.Int).Bytes") {
			call, ok := cs.Instr.(*ssa.Call)
			if !ok {
				continue
			}
			recv := simplifyOrigin(tr.OriginString(call.Call.Args[0]))
			base := an.ShortName(f) + "/Bytes(" + recv + ")"
			ord[base]++
			ws := &widthSite{fn: f, call: call, recv: recv, key: base + sprintf("#%d", ord[base])}
			fw := an.NewForward(func(g *ssa.Function) bool {
				n := an.CalleeName(&ssa.CallCommon{Value: g})
				return c.P.InRepo(g) && !widthSanitisers[n] && !widthInsensitive[n]
			})
			for _, u := range fw.Uses(call) {
				ws.nUses++
				via := ""
				if len(u.Via) > 0 {
					via = " via " + strings.Join(u.Via, "→")
				}
				at := c.pos(u.Instr.Pos())
				switch u.Kind {
				case "len", "range":
					ws.okUses = append(ws.okUses, u.Kind)
				case "arg":
					switch {
					case widthSanitisers[u.Callee]:
						ws.okUses = append(ws.okUses, "sanitiser "+shortCallee(u.Callee))
					case widthInsensitive[u.Callee]:
						// a textual rendering is harmless in a message, not in a decision
						if cmpAt := renderedAndCompared(u.Instr); cmpAt != nil {
							ws.bad = append(ws.bad, "rendered by "+shortCallee(u.Callee)+" and compared at "+c.pos(cmpAt.Pos())+via+" (the minimal form has fewer digits when the value starts with 00)")
							break
						}
						ws.okUses = append(ws.okUses, "width-insensitive "+shortCallee(u.Callee))
					case u.Callee == "bytes.Equal":
						ws.bad = append(ws.bad, "compared with bytes.Equal against a fixed-width value at "+at+via)
					default:
						ws.undec = append(ws.undec, "passed to "+shortCallee(u.Callee)+" at "+at+via+" (not in the sink tables)")
					}
				case "store":
					if c.isTLObjectStruct(u.Field) {
						ws.okUses = append(ws.okUses, "TL bytes field "+u.Field)
					} else {
						ws.bad = append(ws.bad, "stored as "+u.Field+" at "+at+via+" (key material / fixed-width state)")
					}
				case "copy-src":
					if an.RightAligned(u.Dst, nil) || an.RightAligned(u.Dst, u.Instr.(ssa.CallInstruction).Common().Args[1]) {
						ws.okUses = append(ws.okUses, "right-aligned copy")
					} else {
						ws.bad = append(ws.bad, "copied left-aligned into "+simplifyOrigin(tr.OriginString(u.Dst))+" at "+at+via)
					}
				case "slice":
					ws.bad = append(ws.bad, sprintf("sliced [%s:%s] at %s%s", u.Lo, u.Hi, at, via))
				case "index":
					ws.bad = append(ws.bad, sprintf("indexed [%s] at %s%s", u.Lo, at, via))
				case "return":
					ws.undec = append(ws.undec, "returned from "+an.ShortName(u.Instr.Parent())+" at "+at+via)
				default:
					ws.undec = append(ws.undec, u.Kind+" use at "+at+via)
				}
			}
			out = append(out, ws)
		}
	}
	return out
}

func simplifyOrigin(s string) string {
	s = strings.ReplaceAll(s, "call:", "")
	s = strings.ReplaceAll(s, load.RootMod+"/internal/", "")
	s = strings.ReplaceAll(s, load.RootMod+"/", "")
	s = strings.ReplaceAll(s, load.RootMod, "mtproto")
	s = strings.ReplaceAll(s, "encoding/tl.", "tl.")
	s = strings.ReplaceAll(s, "mtproto/objects.", "objects.")
	return s
}

// reportWidth files the obligations of rule W under the given rule id.
func (c *Ctx) reportWidth(rule string, sites []*widthSite) (nBad int) {
	for _, ws := range sites {
		site := c.pos(ws.call.Pos())
		switch {
		case len(ws.bad) > 0:
			nBad++
			c.R.Violate(rule, "width:"+ws.key, site, "minimal-form big.Int.Bytes() reaches a fixed-width position: "+strings.Join(ws.bad, "; "))
		case len(ws.undec) > 0:
			c.R.Undecide(rule, "width:"+ws.key, site, strings.Join(ws.undec, "; "))
		case ws.nUses == 0:
			c.R.Hold(rule, "width:"+ws.key, site, "result unused")
		default:
			c.R.Hold(rule, "width:"+ws.key, site, strings.Join(ws.okUses, ", "))
		}
	}
	return
}

// checkPadHelper verifies a left-padding helper: every use of the subject value (a []byte parameter, or the
// result of Bytes() on a *big.Int parameter) is len(), a slice taken only under the guard len(subject) >= width,
// or the source of a copy that is right-aligned in the destination; and such a copy exists.
func (c *Ctx) checkPadHelper(rule string, fn *ssa.Function) {
	name := an.ShortName(fn)
	var subject ssa.Value
	if len(fn.Params) > 0 {
		if _, ok := fn.Params[0].Type().Underlying().(*types.Slice); ok {
			subject = fn.Params[0]
		}
	}
	if subject == nil {
		for _, cs := range an.CallsNamed(fn, "(*math/big.Int).Bytes") {
			if v, ok := cs.Instr.(*ssa.Call); ok && v.Call.Args[0] == ssa.Value(fn.Params[0]) {
				subject = v
			}
		}
	}
	if subject == nil {
		c.R.Undecide(rule, "sanitiser:"+name, c.pos(fn.Pos()), "subject value (a []byte parameter or param.Bytes()) not found")
		return
	}
	// edges on which len(subject) >= width is known
	var passEdges []an.Edge
	for _, i := range an.Ifs(fn) {
		cd, ok := an.Classify(i)
		if !ok || cd.Kind != "ord" {
			continue
		}
		isLen := func(v ssa.Value) bool {
			call, ok := v.(*ssa.Call)
			return ok && an.CalleeName(call.Common()) == "builtin:len" && call.Call.Args[0] == subject
		}
		rel := cd.Rel
		switch {
		case isLen(cd.X):
		case isLen(cd.Y):
			rel = map[string]string{"<": ">", "<=": ">=", ">": "<", ">=": "<="}[rel]
		default:
			continue
		}
		switch rel { // relation len(subject) rel width when the condition is true
		case ">=", ">":
			passEdges = append(passEdges, an.Edge{From: i.Block(), Succ: 0})
		case "<":
			passEdges = append(passEdges, an.Edge{From: i.Block(), Succ: 1})
		}
	}
	var bad []string
	nCopy := 0
	for _, u := range an.NewForward(nil).Uses(subject) {
		switch u.Kind {
		case "len":
		case "copy-src":
			if an.RightAligned(u.Dst, subject) {
				nCopy++
			} else {
				bad = append(bad, "copy at "+c.pos(u.Instr.Pos())+" is not right-aligned (dst low bound must be width-len(src))")
			}
		case "slice":
			if len(passEdges) == 0 || len(an.Guarded(fn, passEdges, []ssa.Instruction{u.Instr})) > 0 {
				bad = append(bad, sprintf("slice [%s:%s] at %s is not guarded by len(subject) >= width", u.Lo, u.Hi, c.pos(u.Instr.Pos())))
			}
		case "return":
			bad = append(bad, "the unpadded value is returned at "+c.pos(u.Instr.Pos()))
		default:
			bad = append(bad, u.Kind+" use at "+c.pos(u.Instr.Pos()))
		}
	}
	if nCopy == 0 {
		bad = append(bad, "no right-aligned copy into a fixed-width buffer")
	}
	if len(bad) > 0 {
		c.R.Violate(rule, "sanitiser:"+name, c.pos(fn.Pos()), strings.Join(bad, "; "))
	} else {
		c.R.Hold(rule, "sanitiser:"+name, c.pos(fn.Pos()), "left-pads to a fixed width")
	}
}

// renderedAndCompared: the result of a rendering call (hex dump, Sprintf) is an operand of == / != or of a
// string/bytes comparison.
func renderedAndCompared(in ssa.Instruction) ssa.Instruction {
	call, ok := in.(*ssa.Call)
	if !ok || call.Referrers() == nil {
		return nil
	}
	var found ssa.Instruction
	seen := map[ssa.Value]bool{}
	var walk func(v ssa.Value, depth int)
	walk = func(v ssa.Value, depth int) {
		if seen[v] || depth > 4 || v.Referrers() == nil || found != nil {
			return
		}
		seen[v] = true
		for _, rf := range *v.Referrers() {
			switch x := rf.(type) {
			case *ssa.BinOp:
				if x.Op == token.EQL || x.Op == token.NEQ {
					found = x
				}
			case *ssa.Phi:
				walk(x, depth+1)
			case *ssa.Call:
				switch an.CalleeName(x.Common()) {
				case "strings.EqualFold", "strings.Compare", "bytes.Equal", "strings.HasPrefix", "strings.HasSuffix":
					found = x
				}
			}
		}
	}
	walk(call, 0)
	return found
}
