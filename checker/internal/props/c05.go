package props

import (
	"go/token"
	"go/types"
	"sort"
	"strings"

	"verif/checker/internal/an"
	"verif/checker/internal/load"

	"golang.org/x/tools/go/ssa"
)

func init() { register("C05", c05) }

func c05(c *Ctx) {
	r := c.R
	r.Explanation = "Structural necessary conditions of the IGE wrappers: (V) the block loops of doAES256IGEencrypt/decrypt are reachable only through the " +
		"nil edge of isCorrectData(in), whose two tests are len >= 16 and len % 16 == 0; (A) the padding amounts of ige.Encrypt and " +
		"EncryptMessageWithTempKeys, tabulated over every residue of the payload length mod 16 by evaluating the SSA expression, lie in 0..15 and complete " +
		"the block; (S) the cut points tried by DecryptMessageWithTempKeys, obtained by iterating the recovered induction variable of its loop for " +
		"representative lengths, cover every padding 0..15 and never index below 0; the fixed 20-byte prefix split is guarded; (W) nonces enter the temp-key " +
		"derivation at fixed width; (K) the temp-key formulas as expressions (E10); (B) the write set of the cipher methods: a field that may hold a window " +
		"of the caller's input is never a destination."
	r.NotDecided = []string{"that the block loop computes c_i = AES_k(p_i xor c_{i-1}) xor p_{i-1} for every block count, and that decryption inverts it (numerical; pinned by two test vectors only)",
		"writes to the caller's buffers made by anything other than the Cipher methods themselves"}
	r.Rule("R05.V", "length validation dominates both block loops; its thresholds are the AES block size", 4)
	r.Rule("R05.A", "pad-add range: for every residue of the payload length, 0 <= pad <= 15 and (len+pad) % 16 == 0", 2)
	r.Rule("R05.S", "pad-strip range: every cut point len-p, p in 0..15, is tried and no cut point is negative; the 20-byte hash prefix split is length-guarded", 2)
	r.Rule("R05.B", "the caller's input buffer is never written: a cipher field that may hold a window of the input during a call is never the destination of xor / copy / the block cipher / an element store in that call (including deferred clean-up)", 2)
	c05Buffers(c)
	// the message-level wrappers refuse exactly what the cipher refuses: every non-nil error ige.Encrypt / ige.Decrypt
	// return is an error a callee returned (cipher construction, the length check inside the block loop), never one
	// they make themselves - a size limit of their own refuses whole numbers of blocks the property promises to decrypt
	for _, name := range []string{"Encrypt", "Decrypt"} {
		f := c.fn("R05.V", load.IgePkg, "", name)
		if f == nil {
			continue
		}
		var bad []string
		n := 0
		for _, b := range f.Blocks {
			ret, ok := an.AsReturn(b.Instrs[len(b.Instrs)-1])
			if !ok || len(ret.Results) != 2 {
				continue
			}
			ev := an.RetVal(ret, 1)
			if an.IsNilConst(ev) {
				continue
			}
			n++
			var calleeErr func(v ssa.Value, depth int) bool
			calleeErr = func(v ssa.Value, depth int) bool {
				switch x := v.(type) {
				case *ssa.Extract:
					_, ok := x.Tuple.(*ssa.Call)
					return ok
				case *ssa.Call:
					// a wrapper of a callee's error (errors.Wrap(err, ...)) or the error result of a one-result callee
					if g := an.StaticCallee(x.Common()); g != nil && load.FuncPkgPath(g) == load.IgePkg {
						return true
					} else if len(x.Call.Args) > 0 {
						if e2, isE := x.Call.Args[0].(*ssa.Extract); isE {
							_, ok := e2.Tuple.(*ssa.Call)
							return ok
						} else if c2, isC := x.Call.Args[0].(*ssa.Call); isC {
							return an.StaticCallee(c2.Common()) != nil
						}
					}
				case *ssa.Phi:
					// a join (the result variable of an inlined helper): every way in carries a callee's error or nil
					if depth > 6 {
						return false
					}
					for _, e := range x.Edges {
						if !an.IsNilConst(e) && !calleeErr(e, depth+1) {
							return false
						}
					}
					return true
				}
				return false
			}
			fromCallee := calleeErr(ev, 0)
			if !fromCallee {
				bad = append(bad, "the exit at "+c.pos(ret.Pos())+" returns an error made by the wrapper itself ("+simplifyOrigin(an.NewTracer().OriginString(ev))+")")
			}
		}
		r.Check(len(bad) == 0 && n > 0, "R05.V", "wrapper-refuses-only-what-the-cipher-refuses:"+name, c.pos(f.Pos()), sprintf("%d error exit(s); %s", n, strings.Join(bad, "; ")))
	}
	// the wrappers validate what they were given: the slice handed to the block loop by ige.Encrypt / ige.Decrypt is
	// the padded copy / the caller's ciphertext itself, not a view cut down to whole blocks first (which would
	// turn the refusal of a ragged length into a silent truncation)
	if f := c.fn("R05.V", load.IgePkg, "", "Decrypt"); f != nil {
		n := 0
		for _, cs := range an.Calls(f) {
			if !strings.HasSuffix(cs.Name, "Cipher).doAES256IGEdecrypt") {
				continue
			}
			n++
			args := an.CallArgs(cs.Common)
			r.Check(len(args) >= 2 && args[1] == ssa.Value(f.Params[0]), "R05.V", "decrypt:validates-what-it-was-given", c.pos(cs.Pos()), "the ciphertext handed to the length check and the block loop is Decrypt's own parameter, not a re-sliced view of it")
		}
		if n == 0 {
			r.Undecide("R05.V", "decrypt:validates-what-it-was-given", c.pos(f.Pos()), "no call of the cipher's decrypt loop in ige.Decrypt")
		}
	}
	// what a caller gets back is his alone: a result cut from a pooled or otherwise kept buffer is overwritten by
	// the next call (the key exchange keeps the decrypted answer while the next exchange may already run)
	r.Rule("R05.H", "the key-exchange wrapper seals SHA1(payload) ++ payload ++ padding: every SHA-1 digest in the extracted plaintext term is the digest of the payload parameter exactly", 1)
	c.tempKeyPlaintext("R05.H")
	r.Rule("R05.O", "every []byte an exported function of package aes_ige returns belongs to a buffer made during the call (make, append onto nothing, an allocating library call, or such a result of a callee) - never storage reached through a pointer, field, pool or package variable", 4)
	{
		var fns []*ssa.Function
		for f := range c.P.AllFunctions() {
			if load.FuncPkgPath(f) != load.IgePkg || f.Synthetic != "" || len(f.Blocks) == 0 || f.Parent() != nil || f.Object() == nil || !f.Object().Exported() || f.Signature.Recv() != nil {
				continue
			}
			fns = append(fns, f)
		}
		sort.Slice(fns, func(i, j int) bool { return fns[i].String() < fns[j].String() })
		n := 0
		for _, f := range fns {
			res := f.Signature.Results()
			for i := 0; i < res.Len(); i++ {
				if !isByteSlice(res.At(i).Type()) {
					continue
				}
				n++
				why := ""
				ok := resultFresh(f, i, 0, &why)
				r.Check(ok, "R05.O", sprintf("result-owned:%s#%d", f.Name(), i), c.pos(f.Pos()), why)
			}
		}
		if n == 0 {
			r.Undecide("R05.O", "result-owned", "", "no exported function of aes_ige returns a byte slice")
		}
	}
	// what the wrappers hand back is the buffer the block loop filled, whole: a result cut down afterwards (zero
	// bytes "of padding" stripped, a prefix dropped) is no longer the inverse of the other direction
	c.resultIsLoopOutput("R05.V", "Encrypt", "Decrypt")
	{
		// ... and no scratch space shared through package variables (two goroutines encrypt and decrypt at once)
		var entries []*ssa.Function
		for f := range c.P.AllFunctions() {
			if load.FuncPkgPath(f) == load.IgePkg && f.Synthetic == "" && len(f.Blocks) > 0 && f.Parent() == nil && f.Name() != "init" {
				entries = append(entries, f)
			}
		}
		sort.Slice(entries, func(i, j int) bool { return entries[i].String() < entries[j].String() })
		c.noGlobalWrites("R05.B", entries, "the cipher path: the sender and the receive loop run it concurrently")
	}
	r.Rule("R05.W", "nonces are converted at fixed width (32 / 16 bytes) before they are mixed into the temp key and IV", 2)
	r.Rule("R05.K", "temp keys: the tmp_aes_key / tmp_aes_iv expressions extracted from generateTempKeys are the formulas of the key-exchange document", 2)
	if c.verifySummaries("R05.K") {
		c.tempKeys("R05.K")
		c.cipherKeying("R05.K", true)
	}

	// ---- R05.V ------------------------------------------------------------------------------------
	for _, name := range []string{"doAES256IGEencrypt", "doAES256IGEdecrypt"} {
		f := c.fn("R05.V", load.IgePkg, "*Cipher", name)
		if f == nil {
			continue
		}
		var effects []ssa.Instruction
		for _, cs := range an.Calls(f) {
			if strings.HasPrefix(cs.Name, "invoke:(crypto/cipher.Block).") || cs.Name == load.IgePkg+".xor" || cs.Name == "builtin:copy" {
				effects = append(effects, cs.Instr)
			}
		}
		var guard *an.Cond
		for _, i := range an.Ifs(f) {
			cd, ok := an.Classify(i)
			if !ok || cd.Kind != "nil" {
				continue
			}
			call, ok := cd.X.(*ssa.Call)
			if !ok || an.CalleeName(call.Common()) != load.IgePkg+".isCorrectData" {
				continue
			}
			if len(call.Call.Args) == 1 && len(f.Params) > 1 && call.Call.Args[0] == ssa.Value(f.Params[1]) {
				guard = cd
			}
		}
		switch {
		case len(effects) < 3:
			r.Undecide("R05.V", "validate:"+name, c.pos(f.Pos()), sprintf("block loop not recognised (%d cipher/xor/copy calls)", len(effects)))
		case guard == nil:
			r.Violate("R05.V", "validate:"+name, c.pos(f.Pos()), "no `isCorrectData(in) == nil` test of the input parameter before the block loop")
		default:
			un := an.Guarded(f, []an.Edge{guard.EdgeWhen(true)}, effects)
			r.Check(len(un) == 0, "R05.V", "validate:"+name, c.pos(guard.If.Cond.Pos()), sprintf("%d loop operations, %d reachable without the nil edge of isCorrectData(in)", len(effects), len(un)))
		}
	}
	if f := c.fn("R05.V", load.IgePkg, "", "isCorrectData"); f != nil {
		var nilRets []ssa.Instruction
		for _, b := range f.Blocks {
			for _, in := range b.Instrs {
				if ret, ok := an.AsReturn(in); ok && len(ret.Results) == 1 && an.MayReturnNil(ret, 0) {
					nilRets = append(nilRets, ret)
				}
			}
		}
		isLenP := func(v ssa.Value) bool {
			return an.IsLenOf(v, func(x ssa.Value) bool { return x == ssa.Value(f.Params[0]) })
		}
		var minEdge, divEdge *an.Edge
		for _, i := range an.Ifs(f) {
			cd, ok := an.Classify(i)
			if !ok {
				continue
			}
			if cd.Kind == "ord" && isLenP(cd.X) {
				if k, ok := an.ConstInt(cd.Y); ok && k == 16 {
					switch cd.Rel {
					case "<":
						e := an.Edge{From: i.Block(), Succ: 1}
						minEdge = &e
					case ">=":
						e := an.Edge{From: i.Block(), Succ: 0}
						minEdge = &e
					}
				}
			}
			if cd.Kind == "eq" {
				if b, ok := cd.X.(*ssa.BinOp); ok && b.Op == token.REM && isLenP(b.X) {
					k1, ok1 := an.ConstInt(b.Y)
					k2, ok2 := an.ConstInt(cd.Y)
					if ok1 && ok2 && k1 == 16 && k2 == 0 {
						e := cd.EdgeWhen(true)
						divEdge = &e
					}
				}
			}
		}
		for name, e := range map[string]*an.Edge{"len>=16": minEdge, "len%16==0": divEdge} {
			if e == nil {
				r.Violate("R05.V", "threshold:"+name, c.pos(f.Pos()), "isCorrectData has no test "+name+" on its argument")
				continue
			}
			un := an.Guarded(f, []an.Edge{*e}, nilRets)
			r.Check(len(un) == 0 && len(nilRets) > 0, "R05.V", "threshold:"+name, c.pos(f.Pos()), sprintf("%d nil returns, %d reachable without %s", len(nilRets), len(un), name))
		}
	}

	// ---- R05.A ------------------------------------------------------------------------------------
	c.checkEncryptPad("R05.A")
	c.checkTempKeyPad("R05.A")

	// ---- R05.S ------------------------------------------------------------------------------------
	if f := c.fn("R05.S", load.IgePkg, "", "DecryptMessageWithTempKeys"); f != nil {
		c05Strip(c, f)
	}

	// ---- R05.W ------------------------------------------------------------------------------------
	sites := c.widthSites(func(f *ssa.Function) bool { return pkgIn(f, load.IgePkg) })
	c.reportWidth("R05.W", sites)
	if f := c.fn("R05.W", load.IgePkg, "", "generateTempKeys"); f != nil {
		tr := an.NewTracer()
		n := 0
		for _, cs := range an.CallsNamed(f, load.MathPkg+".BigIntFixedBytes") {
			if len(cs.Common.Args) != 2 {
				continue
			}
			n++
			o := tr.OriginString(cs.Common.Args[0])
			w, isConst := an.ConstInt(cs.Common.Args[1])
			want := map[string]int64{"param#0": 32, "param#1": 16}[o]
			r.Check(isConst && w == want, "R05.W", "fixed-width:generateTempKeys/"+o, c.pos(cs.Pos()), sprintf("width %d, protocol width %d", w, want))
		}
		if n == 0 && len(sites) == 0 {
			r.Undecide("R05.W", "fixed-width:generateTempKeys", c.pos(f.Pos()), "neither Bytes() nor BigIntFixedBytes conversions of the nonces found")
		}
	}
}

// makeSize returns the length expression of make([]byte, n) behind a slice value.
func makeSize(v ssa.Value) ssa.Value {
	for {
		switch x := v.(type) {
		case *ssa.MakeSlice:
			return x.Len
		case *ssa.Slice:
			v = x.X
		default:
			return nil
		}
	}
}

func c05Strip(c *Ctx, f *ssa.Function) {
	r := c.R
	// the candidate: argument of the SHA-1 call compared with the prefix — dm[:i]
	var cand *ssa.Slice
	for _, cs := range an.Calls(f) {
		if strings.Contains(cs.Name, "Sha1") && len(cs.Common.Args) == 1 {
			if s, ok := cs.Common.Args[0].(*ssa.Slice); ok {
				cand = s
			}
		}
	}
	if cand == nil || cand.High == nil {
		r.Undecide("R05.S", "strip:cut-points", c.pos(f.Pos()), "candidate slice dm[:i] handed to SHA-1 not found")
		return
	}
	// the cut point is the induction variable itself, or an expression of it (len - pad)
	var loop *an.CountedLoop
	var find func(v ssa.Value, d int)
	find = func(v ssa.Value, d int) {
		if loop != nil || d > 6 {
			return
		}
		switch x := v.(type) {
		case *ssa.Phi:
			if l, ok := an.LoopOf(x); ok {
				loop = l
			}
		case *ssa.BinOp:
			find(x.X, d+1)
			find(x.Y, d+1)
		case *ssa.Convert:
			find(x.X, d+1)
		}
	}
	find(cand.High, 0)
	if loop == nil {
		r.Undecide("R05.S", "strip:cut-points", c.pos(cand.Pos()), "the cut point is not an expression of a counted loop's induction variable")
		return
	}
	dm := cand.X
	var bad []string
	for _, L := range c.grid([]int64{0, 12, 28, 44, 236}, 0, 1024, 4) {
		tried := map[int64]bool{}
		neg := false
		lenAtom := func(v ssa.Value) (int64, bool) {
			if an.IsLenOf(v, func(x ssa.Value) bool { return x == dm }) {
				return L, true
			}
			return 0, false
		}
		evalOK := true
		ok := loop.IterateTo(cand.Block(), lenAtom, 64, func(i int64) {
			cut, ok := an.EvalInt(cand.High, func(v ssa.Value) (int64, bool) {
				if v == ssa.Value(loop.Phi) {
					return i, true
				}
				return lenAtom(v)
			})
			if !ok {
				evalOK = false
				return
			}
			tried[L-cut] = true
			if cut < 0 || cut > L {
				neg = true
			}
		})
		if !ok || !evalOK {
			r.Undecide("R05.S", "strip:cut-points", c.pos(cand.Pos()), "loop bounds / cut point are not affine in len(decoded message)")
			return
		}
		var missing []string
		for p := int64(0); p <= 15 && p <= L; p++ {
			if !tried[p] {
				missing = append(missing, sprintf("%d", p))
			}
		}
		if len(missing) > 0 {
			bad = append(bad, sprintf("len=%d: padding {%s} never tried", L, strings.Join(missing, ",")))
		}
		if neg {
			bad = append(bad, sprintf("len=%d: a cut point outside [0,len] is used as a slice bound", L))
		}
	}
	r.Check(len(bad) == 0, "R05.S", "strip:cut-points", c.pos(cand.Pos()), "iterated for decoded lengths 0,12,28,44,236: "+strings.Join(bad, "; "))

	// the 20-byte prefix split must be guarded by a length test
	var fixedSlices []ssa.Instruction
	for _, b := range f.Blocks {
		for _, in := range b.Instrs {
			if s, ok := in.(*ssa.Slice); ok && s != cand {
				lo, hi := int64(-1), int64(-1)
				if s.Low != nil {
					lo, _ = an.ConstInt(s.Low)
				}
				if s.High != nil {
					hi, _ = an.ConstInt(s.High)
				}
				if lo == 20 || hi == 20 {
					fixedSlices = append(fixedSlices, s)
				}
			}
		}
	}
	if len(fixedSlices) == 0 {
		r.Undecide("R05.S", "strip:prefix-split-guard", c.pos(f.Pos()), "the [:20] / [20:] split was not found")
		return
	}
	var pass []an.Edge
	for _, i := range an.Ifs(f) {
		cd, ok := an.Classify(i)
		if !ok || cd.Kind != "ord" {
			continue
		}
		k, isK := an.ConstInt(cd.Y)
		if !isK || !an.IsLenOf(cd.X, func(ssa.Value) bool { return true }) {
			continue
		}
		switch {
		case cd.Rel == "<" && k >= 20:
			pass = append(pass, an.Edge{From: i.Block(), Succ: 1})
		case cd.Rel == ">=" && k >= 20:
			pass = append(pass, an.Edge{From: i.Block(), Succ: 0})
		case cd.Rel == ">" && k >= 19:
			pass = append(pass, an.Edge{From: i.Block(), Succ: 0})
		case cd.Rel == "<=" && k >= 19:
			pass = append(pass, an.Edge{From: i.Block(), Succ: 1})
		}
	}
	un := fixedSlices
	if len(pass) > 0 {
		un = an.Guarded(f, pass, fixedSlices)
	}
	r.Check(len(un) == 0, "R05.S", "strip:prefix-split-guard", c.pos(fixedSlices[0].Pos()),
		sprintf("%d constant-bound slices at offset 20; %d reachable without a len >= 20 test (a 16-byte answer passes isCorrectData)", len(fixedSlices), len(un)))
}

// checkEncryptPad tabulates the padding amount of ige.Encrypt over payload lengths 0..63.
func (c *Ctx) checkEncryptPad(rule string) {
	r := c.R
	if f := c.fn(rule, load.IgePkg, "", "Encrypt"); f != nil {
		// the buffer handed to doAES256IGEencrypt as input: its length as a function of len(msg)
		var size ssa.Value
		for _, cs := range an.CallsNamed(f, "(*"+load.IgePkg+".Cipher).doAES256IGEencrypt") {
			if len(cs.Common.Args) == 3 {
				size = makeSize(cs.Common.Args[1])
			}
		}
		if size == nil {
			r.Undecide(rule, "pad:ige.Encrypt", c.pos(f.Pos()), "size of the padded buffer not found")
		} else {
			var bad []string
			for n := int64(0); n < c.upto(64, 4096); n++ {
				total, ok := an.EvalInt(size, func(v ssa.Value) (int64, bool) {
					if an.IsLenOf(v, func(x ssa.Value) bool { return x == ssa.Value(f.Params[0]) }) {
						return n, true
					}
					return 0, false
				})
				if !ok {
					bad = []string{"expression not evaluable"}
					break
				}
				if pad := total - n; pad < 0 || pad > 15 || total%16 != 0 {
					bad = append(bad, sprintf("len=%d→pad %d", n, pad))
				}
			}
			r.Check(len(bad) == 0, rule, "pad:ige.Encrypt", c.pos(size.Pos()), "tabulated for len 0..63: "+strings.Join(bad, ", "))
		}
	}
}

// c05Buffers: R05.B.  Per block-loop method: A = the Cipher fields into which a slice of the input parameter is
// stored; W = the Cipher fields that are written through (destination of xor, copy, Block.Encrypt/Decrypt, element
// store) by the method or by the Cipher methods it calls or defers.  A ∩ W must be empty.
func c05Buffers(c *Ctx) {
	r := c.R
	tr := an.NewTracer()
	// write set of the package: no function writes through a []byte parameter, except the parameters that are
	// outputs by contract (named out / dst: the block loops and their
	// wrappers, xor)
	isOut := func(g *ssa.Function, idx int) bool {
		if load.FuncPkgPath(g) != load.IgePkg || idx >= len(g.Params) {
			return false
		}
		n := g.Params[idx].Name()
		return n == "out" || n == "dst"
	}
	c.paramsUntouched("R05.B", load.IgePkg, isOut)
	for _, name := range []string{"doAES256IGEencrypt", "doAES256IGEdecrypt"} {
		f := c.fn("R05.B", load.IgePkg, "*Cipher", name)
		if f == nil {
			continue
		}
		// the method and the *Cipher methods it reaches
		fns := []*ssa.Function{f}
		seen := map[*ssa.Function]bool{f: true}
		for k := 0; k < len(fns); k++ {
			for _, g := range an.WithAnon(fns[k]) {
				for _, cs := range an.Calls(g) {
					callee := an.StaticCallee(cs.Common)
					if callee == nil || seen[callee] || load.FuncPkgPath(callee) != load.IgePkg || callee.Signature.Recv() == nil {
						continue
					}
					seen[callee] = true
					fns = append(fns, callee)
				}
			}
		}
		fieldOf := func(v ssa.Value) string {
			// load of a field of the receiver
			if ld, ok := v.(*ssa.UnOp); ok && ld.Op == token.MUL {
				if fa, ok := ld.X.(*ssa.FieldAddr); ok {
					n := an.FieldName(fa.X.Type(), fa.Field)
					if strings.HasPrefix(n, "ige.Cipher.") {
						return strings.TrimPrefix(n, "ige.Cipher.")
					}
				}
			}
			return ""
		}
		aliased := map[string]string{}
		written := map[string]string{}
		for _, g := range fns {
			for _, b := range g.Blocks {
				for _, in := range b.Instrs {
					switch x := in.(type) {
					case *ssa.Store:
						if fa, ok := x.Addr.(*ssa.FieldAddr); ok {
							n := an.FieldName(fa.X.Type(), fa.Field)
							if strings.HasPrefix(n, "ige.Cipher.") && g == f {
								if o := tr.OriginString(x.Val); strings.HasPrefix(o, "param#1") {
									aliased[strings.TrimPrefix(n, "ige.Cipher.")] = c.pos(x.Pos())
								}
							}
						}
						if ia, ok := x.Addr.(*ssa.IndexAddr); ok {
							if fl := fieldOf(ia.X); fl != "" {
								written[fl] = "element store at " + c.pos(x.Pos())
							}
						}
					case ssa.CallInstruction:
						cn := an.CalleeName(x.Common())
						args := an.CallArgs(x.Common())
						dst := -1
						switch {
						case cn == load.IgePkg+".xor", cn == "builtin:copy":
							dst = 0
						case strings.HasPrefix(cn, "invoke:(crypto/cipher.Block).Encrypt"), strings.HasPrefix(cn, "invoke:(crypto/cipher.Block).Decrypt"):
							dst = 1
						}
						if dst >= 0 && dst < len(args) {
							v := args[dst]
							if sl, ok := v.(*ssa.Slice); ok {
								v = sl.X
							}
							if fl := fieldOf(v); fl != "" {
								written[fl] = shortCallee(cn) + " at " + c.pos(x.Pos())
							}
						}
					}
				}
			}
		}
		var bad []string
		for fl, where := range aliased {
			if w, ok := written[fl]; ok {
				bad = append(bad, sprintf("c.%s holds a window of the input (stored at %s) and is written by %s", fl, where, w))
			}
		}
		// ... and the registers NewCipher sets up are the cipher's own: a field that NewCipher points at a window
		// of its key / iv argument and that this method writes through changes the caller's key or IV
		if ctor := c.P.Func(load.IgePkg, "", "NewCipher"); ctor != nil {
			for _, b := range ctor.Blocks {
				for _, in := range b.Instrs {
					st, ok := in.(*ssa.Store)
					if !ok {
						continue
					}
					fa, ok := st.Addr.(*ssa.FieldAddr)
					if !ok {
						continue
					}
					n := an.FieldName(fa.X.Type(), fa.Field)
					if !strings.HasPrefix(n, "ige.Cipher.") {
						continue
					}
					v := st.Val
					for {
						if sl, ok := v.(*ssa.Slice); ok {
							v = sl.X
							continue
						}
						break
					}
					if prm, ok := v.(*ssa.Parameter); ok {
						fl := strings.TrimPrefix(n, "ige.Cipher.")
						if w, isW := written[fl]; isW {
							bad = append(bad, sprintf("c.%s is a window of NewCipher's argument %s (stored at %s) and is written by %s", fl, prm.Name(), c.pos(st.Pos()), w))
						}
					}
				}
			}
		}
		sort.Strings(bad)
		if len(aliased) == 0 && len(bad) == 0 {
			r.Hold("R05.B", "input-untouched:"+name, c.pos(f.Pos()), "no window of the input is kept in the cipher state")
			continue
		}
		r.Check(len(bad) == 0, "R05.B", "input-untouched:"+name, c.pos(f.Pos()), sprintf("%d field(s) alias the input, %d are written through: %s", len(aliased), len(written), strings.Join(bad, "; ")))
	}
}

// checkTempKeyPad: the padding EncryptMessageWithTempKeys adds after SHA1(data)+data is 0..15 bytes and completes
// the block, for every data length (the server tries exactly the paddings 0..15 when it looks for the hash).
func (c *Ctx) checkTempKeyPad(rule string) {
	r := c.R
	if f := c.fn(rule, load.IgePkg, "", "EncryptMessageWithTempKeys"); f != nil {
		// pad = argument of the random-bytes call; total = 20 + len(msg) + pad
		var pad ssa.Value
		for _, cs := range an.Calls(f) {
			if (strings.HasSuffix(cs.Name, ".RandomBytes") || cs.Name == "builtin:make" || strings.HasSuffix(cs.Name, "cryptoRandomBytes")) && len(cs.Common.Args) >= 1 {
				pad = cs.Common.Args[0]
			}
		}
		if pad == nil {
			for _, b := range f.Blocks {
				for _, in := range b.Instrs {
					if ms, ok := in.(*ssa.MakeSlice); ok {
						pad = ms.Len
					}
				}
			}
		}
		if pad == nil {
			r.Undecide(rule, "pad:ige.EncryptMessageWithTempKeys", c.pos(f.Pos()), "padding amount not found")
		} else {
			var bad []string
			for n := int64(0); n < c.upto(64, 4096); n++ {
				p, ok := an.EvalInt(pad, func(v ssa.Value) (int64, bool) {
					if call, ok := v.(*ssa.Call); ok && an.CalleeName(call.Common()) == "builtin:len" {
						a := call.Call.Args[0]
						if a == ssa.Value(f.Params[0]) {
							return n, true
						}
						if src, ok := a.(*ssa.Call); ok && (strings.Contains(an.CalleeName(src.Common()), "Sha1")) {
							return 20, true
						}
					}
					return 0, false
				})
				if !ok {
					bad = []string{"expression not evaluable"}
					break
				}
				if p < 0 || p > 15 || (20+n+p)%16 != 0 {
					bad = append(bad, sprintf("len=%d→pad %d", n, p))
				}
			}
			if len(bad) > 6 {
				bad = append(bad[:6], sprintf("…(%d lengths)", len(bad)))
			}
			r.Check(len(bad) == 0, rule, "pad:ige.EncryptMessageWithTempKeys", c.pos(pad.Pos()), "tabulated for len 0..63 (20-byte SHA-1 prefix): "+strings.Join(bad, ", "))
		}
	}
}

// paramsUntouched: one obligation per []byte parameter of every source function of package pkg (other than the
// ones isOut names as the buffer to fill): nothing writes through it -- no element store, copy, library mutator,
// append to it (append fills the spare capacity of the caller's array in place), nor a callee that does.
func (c *Ctx) paramsUntouched(rule, pkg string, isOut func(g *ssa.Function, idx int) bool) {
	r := c.R
	var pkgFns []*ssa.Function
	for f := range c.P.AllFunctions() {
		if load.FuncPkgPath(f) == pkg && f.Synthetic == "" && len(f.Blocks) > 0 && f.Parent() == nil {
			pkgFns = append(pkgFns, f)
		}
	}
	sort.Slice(pkgFns, func(i, j int) bool { return pkgFns[i].String() < pkgFns[j].String() })
	nparams := 0
	for _, f := range pkgFns {
		for k, p := range f.Params {
			sl, ok := p.Type().Underlying().(*types.Slice)
			if !ok || !strings.Contains(sl.Elem().String(), "byte") && sl.Elem().String() != "uint8" || isOut != nil && isOut(f, k) {
				continue
			}
			nparams++
			ws := an.ParamWrites(f, k, isOut, 0)
			var bad []string
			for _, w := range ws {
				bad = append(bad, w.What+" at "+c.pos(w.Instr.Pos()))
			}
			r.Check(len(bad) == 0, rule, sprintf("param-untouched:%s/%s", an.ShortName(f), p.Name()), c.pos(f.Pos()), "the caller's buffer "+p.Name()+" is written: "+strings.Join(bad, "; "))
		}
	}
	if nparams == 0 {
		r.Undecide(rule, "param-untouched", "", "no []byte parameter found in package "+pkg)
	}
}

func isByteSlice(t types.Type) bool {
	sl, ok := t.Underlying().(*types.Slice)
	if !ok {
		return false
	}
	b, ok := sl.Elem().Underlying().(*types.Basic)
	return ok && b.Kind() == types.Uint8
}

// allocating library calls: the result is storage nobody else holds
var freshLib = map[string]bool{
	"bytes.Join": true, "bytes.Repeat": true, "bytes.Clone": true, "(*bytes.Buffer).Bytes": false,
	"github.com/xelaj/go-dry.Sha1Byte": true, "github.com/xelaj/go-dry.Sha1": true, "github.com/xelaj/go-dry.RandomBytes": true,
	"github.com/xelaj/go-dry.BigIntBytes": true, "(*math/big.Int).Bytes": true, "(*math/big.Int).FillBytes": false,
}

// resultFresh: every value function f returns as its idx-th result is a buffer made during the call.
func resultFresh(f *ssa.Function, idx, depth int, why *string) bool {
	if depth > 4 {
		*why = "call chain too deep to follow"
		return false
	}
	n := 0
	for _, b := range f.Blocks {
		for _, in := range b.Instrs {
			ret, ok := an.AsReturn(in)
			if !ok || idx >= len(ret.Results) {
				continue
			}
			n++
			if !valueFresh(an.RetVal(ret, idx), depth, map[ssa.Value]bool{}, why) {
				*why = an.ShortName(f) + ": " + *why
				return false
			}
		}
	}
	return true
}

func valueFresh(v ssa.Value, depth int, seen map[ssa.Value]bool, why *string) bool {
	if seen[v] {
		return true
	}
	seen[v] = true
	switch x := v.(type) {
	case *ssa.Const:
		return true
	case *ssa.MakeSlice:
		return true
	case *ssa.Alloc:
		return true
	case *ssa.Slice:
		return valueFresh(x.X, depth, seen, why)
	case *ssa.Convert:
		return true // string <-> []byte conversions copy
	case *ssa.ChangeType:
		return valueFresh(x.X, depth, seen, why)
	case *ssa.Phi:
		for _, e := range x.Edges {
			if !valueFresh(e, depth, seen, why) {
				return false
			}
		}
		return true
	case *ssa.Extract:
		if call, ok := x.Tuple.(*ssa.Call); ok {
			return callFresh(call, x.Index, depth, seen, why)
		}
	case *ssa.Call:
		return callFresh(x, 0, depth, seen, why)
	case *ssa.UnOp:
		switch a := x.X.(type) {
		case *ssa.FieldAddr:
			*why = "a window of the field " + an.FieldName(a.X.Type(), a.Field) + ", which outlives the call"
			return false
		case *ssa.Global:
			*why = "a window of the package variable " + a.Name()
			return false
		default:
			*why = "storage reached through a pointer (" + x.X.Name() + ": " + x.X.Type().String() + "), which may be pooled or shared"
			return false
		}
	case *ssa.Parameter:
		*why = "the caller's own argument " + x.Name()
		return false
	}
	*why = "not a buffer made in this call (" + v.Name() + " = " + v.String() + ")"
	return false
}

func callFresh(call *ssa.Call, idx, depth int, seen map[ssa.Value]bool, why *string) bool {
	name := an.CalleeName(call.Common())
	if name == "builtin:append" && len(call.Call.Args) > 0 {
		return valueFresh(call.Call.Args[0], depth, seen, why)
	}
	if fresh, known := freshLib[name]; known {
		if !fresh {
			*why = "the result of " + name + ", which is a window of its receiver"
		}
		return fresh
	}
	if g := an.StaticCallee(call.Common()); g != nil && len(g.Blocks) > 0 && strings.HasPrefix(load.FuncPkgPath(g), load.RootMod) {
		return resultFresh(g, idx, depth+1, why)
	}
	*why = "the result of " + name + " (not known to allocate)"
	return false
}

// resultIsLoopOutput: what ige.Encrypt / ige.Decrypt return with a nil error is the very buffer handed to the block
// loop as its output.
func (c *Ctx) resultIsLoopOutput(rule string, names ...string) {
	r := c.R
	for _, name := range names {
		f := c.fn(rule, load.IgePkg, "", name)
		if f == nil {
			continue
		}
		var outs []ssa.Value
		for _, cs := range an.Calls(f) {
			if strings.HasSuffix(cs.Name, "Cipher).doAES256IGEencrypt") || strings.HasSuffix(cs.Name, "Cipher).doAES256IGEdecrypt") {
				if args := an.CallArgs(cs.Common); len(args) >= 3 {
					outs = append(outs, args[2])
				}
			}
		}
		n := 0
		var bad []string
		for _, b := range f.Blocks {
			for _, in := range b.Instrs {
				ret, ok := an.AsReturn(in)
				if !ok || len(ret.Results) != 2 {
					continue
				}
				v := an.RetVal(ret, 0)
				if k, isK := v.(*ssa.Const); isK && k.IsNil() {
					continue
				}
				n++
				same := false
				for _, o := range outs {
					if o == v {
						same = true
					}
				}
				if !same {
					bad = append(bad, "the result returned at "+c.pos(ret.Pos())+" is not the buffer handed to the block loop as its output ("+v.String()+")")
				}
			}
		}
		if n == 0 || len(outs) == 0 {
			r.Undecide(rule, "result-is-the-loop-output:"+name, c.pos(f.Pos()), sprintf("%d value return(s), %d block-loop call(s)", n, len(outs)))
		} else {
			r.Check(len(bad) == 0, rule, "result-is-the-loop-output:"+name, c.pos(f.Pos()), strings.Join(bad, "; "))
		}
	}
}
