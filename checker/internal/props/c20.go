package props

import (
	"go/ast"
	"go/constant"
	"go/types"
	"sort"
	"strings"

	"verif/checker/internal/an"
	"verif/checker/internal/load"

	"golang.org/x/tools/go/ssa"
)

func init() { register("C20", c20) }

func c20(c *Ctx) {
	r := c.R
	r.Explanation = "Totality and routing of link resolution, decided structurally: a census of panic-capable operations in everything reachable from " +
		"deeplinks.Resolve (slice/index with non-constant bounds, assertions, explicit panics), each discharged by a dominating guard or listed; the path " +
		"templates are pairwise non-overlapping, so map iteration order cannot change the result; the host table is the five Telegram hosts and membership " +
		"is tested on u.Hostname() (port-insensitive); scheme arms: '', http, https → web resolver, tg and everything else → error; the username is " +
		"lower-cased and the invite token is not."
	r.NotDecided = []string{"net/url's own totality and percent-escape semantics"}
	c.errorsKept("R20.X", "the link resolver (package deeplinks)", 1, inPkgs(load.DeepPkg))
	r.Rule("R20.P", "every panic-capable operation reachable from Resolve is discharged by a guard or accepted with a reason", 2)
	r.Rule("R20.T", "path templates are pairwise disjoint (different segment counts or a differing literal segment)", 1)
	r.Rule("R20.H", "reserved hosts = the five Telegram hosts; membership tested on Hostname(); scheme arms route as documented", 4)
	r.Rule("R20.L", "Domain = lower-cased path variable; Invite = the path variable unchanged; the templates are matched against u.Path itself; empty variables are errors", 3)
	tr := an.NewTracer()

	res := c.fn("R20.P", load.DeepPkg, "", "Resolve")
	if res == nil {
		return
	}
	g := c.Graph()
	var fns []*ssa.Function
	for f := range g.Reachable([]*ssa.Function{res}, func(f *ssa.Function) bool { return load.FuncPkgPath(f) == load.DeepPkg }) {
		if load.FuncPkgPath(f) == load.DeepPkg && f.Synthetic == "" && len(f.Blocks) > 0 {
			fns = append(fns, f)
		}
	}
	sort.Slice(fns, func(i, j int) bool { return fns[i].String() < fns[j].String() })
	n, d, a := c.runCensus("R20.P", fns, nil, nil)
	r.Extra["census_functions"] = len(fns)
	r.Extra["census_sites"] = n
	r.Extra["census_discharged"] = d
	r.Extra["census_accepted"] = a

	// ---- R20.T ----------------------------------------------------------------------------------
	pk := c.P.Pkg(load.DeepPkg)
	fd, _ := c.declOf(load.DeepPkg, "", "resolveHttpLink")
	var templates []string
	if fd != nil {
		ast.Inspect(fd.Body, func(n ast.Node) bool {
			cl, ok := n.(*ast.CompositeLit)
			if !ok {
				return true
			}
			if _, isMap := pk.TypesInfo.Types[cl].Type.Underlying().(*types.Map); !isMap {
				return true
			}
			for _, e := range cl.Elts {
				if kv, ok := e.(*ast.KeyValueExpr); ok {
					if v := pk.TypesInfo.Types[kv.Key].Value; v != nil && v.Kind() == constant.String {
						templates = append(templates, constant.StringVal(v))
					}
				}
			}
			return false
		})
	}
	if len(templates) < 2 {
		r.Undecide("R20.T", "templates", "", "the template map literal of resolveHttpLink was not found")
	} else {
		sort.Strings(templates)
		overlap := func(a, b string) bool {
			sa, sb := strings.Split(a, "/"), strings.Split(b, "/")
			if len(sa) != len(sb) {
				return false
			}
			for i := range sa {
				va := strings.HasPrefix(sa[i], "{") && strings.HasSuffix(sa[i], "}")
				vb := strings.HasPrefix(sb[i], "{") && strings.HasSuffix(sb[i], "}")
				if !va && !vb && sa[i] != sb[i] {
					return false
				}
			}
			return true
		}
		var bad []string
		for i := range templates {
			for j := i + 1; j < len(templates); j++ {
				if overlap(templates[i], templates[j]) {
					bad = append(bad, templates[i]+" ~ "+templates[j])
				}
			}
			if !strings.HasPrefix(templates[i], "/") {
				bad = append(bad, templates[i]+" is not rooted")
			}
		}
		r.Check(len(bad) == 0, "R20.T", "templates:disjoint", c.pos(fd.Pos()), strings.Join(templates, " , ")+" — overlapping pairs would make the result depend on map iteration order: "+strings.Join(bad, "; "))
		wantT := map[string]bool{"/joinchat/{token}": true, "/{username}": true}
		okSet := len(templates) == len(wantT)
		for _, t := range templates {
			if !wantT[t] {
				okSet = false
			}
		}
		r.Check(okSet, "R20.H", "templates:set", c.pos(fd.Pos()), "templates: "+strings.Join(templates, " , ")+" (a one-segment path is a username, /joinchat/<token> an invite, anything else an error)")
	}

	// ---- R20.H ----------------------------------------------------------------------------------
	if rh, _ := c.declOf(load.DeepPkg, "", "ReservedHosts"); rh != nil {
		var hosts []string
		ast.Inspect(rh.Body, func(n ast.Node) bool {
			if cl, ok := n.(*ast.CompositeLit); ok {
				for _, e := range cl.Elts {
					if v := pk.TypesInfo.Types[e].Value; v != nil && v.Kind() == constant.String {
						hosts = append(hosts, constant.StringVal(v))
					}
				}
			}
			return true
		})
		sort.Strings(hosts)
		want := []string{"t.me", "telegram.dog", "telegram.me", "telesco.pe", "tx.me"}
		r.Check(strings.Join(hosts, ",") == strings.Join(want, ","), "R20.H", "hosts:table", c.pos(rh.Pos()), "ReservedHosts() = "+strings.Join(hosts, ","))
	}
	if hf := c.fn("R20.H", load.DeepPkg, "", "resolveHttpLink"); hf != nil {
		ok := false
		var guard *an.Cond
		for _, i := range an.Ifs(hf) {
			cd, okc := an.Classify(i)
			if !okc || !strings.HasSuffix(cd.Kind, "deeplinks.stringListContains") {
				continue
			}
			xo, yo := tr.OriginString(cd.X), tr.OriginString(cd.Y)
			if strings.Contains(xo, "deeplinks.ReservedHosts") && strings.Contains(yo, "(*net/url.URL).Hostname") {
				ok = true
				guard = cd
			}
		}
		r.Check(ok, "R20.H", "hosts:membership-on-Hostname", c.pos(hf.Pos()), "stringListContains(ReservedHosts(), u.Hostname()) — u.Host would include the port")
		// ... and membership is byte equality with a table entry: a folding, prefix or substring comparison admits
		// look-alike hosts (tele\u017fco.pe folds onto telesco.pe)
		if sl := c.fn("R20.H", load.DeepPkg, "", "stringListContains"); sl != nil && len(sl.Params) == 2 {
			var pass []an.Edge
			for _, i := range an.Ifs(sl) {
				cd, okc := an.Classify(i)
				if !okc || cd.Kind != "eq" {
					continue
				}
				isElem := func(v ssa.Value) bool {
					ld, ok := v.(*ssa.UnOp)
					if !ok {
						return false
					}
					ia, ok := ld.X.(*ssa.IndexAddr)
					return ok && ia.X == ssa.Value(sl.Params[0])
				}
				if (isElem(cd.X) && cd.Y == ssa.Value(sl.Params[1])) || (isElem(cd.Y) && cd.X == ssa.Value(sl.Params[1])) {
					pass = append(pass, cd.EdgeWhen(true))
				}
			}
			var trues []ssa.Instruction
			for _, b := range sl.Blocks {
				for _, in := range b.Instrs {
					if ret, ok := an.AsReturn(in); ok && len(ret.Results) == 1 {
						if k, isK := an.RetVal(ret, 0).(*ssa.Const); !isK || k.Value == nil || k.Value.ExactString() != "false" {
							trues = append(trues, in)
						}
					}
				}
			}
			un := an.Guarded(sl, pass, trues)
			r.Check(len(pass) > 0 && len(trues) > 0 && len(un) == 0, "R20.H", "hosts:membership-is-byte-equality", c.pos(sl.Pos()), sprintf("%d `l[i] == s` test(s), %d return(s) that may answer true, %d of them reachable without the equal edge of such a test", len(pass), len(trues), len(un)))
		}
		if guard != nil {
			// every template match happens only on the member edge
			var effects []ssa.Instruction
			// the result is what the path says: once built from the template variables the result object is returned, not
			// handed to anything that may rewrite it (a query decoder with a `domain` key would override the path's name)
			nRes := 0
			for _, f := range an.WithAnon(hf) {
				for _, b := range f.Blocks {
					for _, in := range b.Instrs {
						al, ok := in.(*ssa.Alloc)
						if !ok {
							continue
						}
						tn := typeString(al.Type().Underlying().(*types.Pointer).Elem())
						if tn != "deeplinks.ResolveParameters" && tn != "deeplinks.JoinParameters" {
							continue
						}
						nRes++
						var passed []string
						var walk func(v ssa.Value, depth int)
						walk = func(v ssa.Value, depth int) {
							if v.Referrers() == nil || depth > 3 {
								return
							}
							for _, rf := range *v.Referrers() {
								switch x := rf.(type) {
								case *ssa.MakeInterface:
									walk(x, depth+1)
								case *ssa.ChangeInterface:
									walk(x, depth+1)
								case ssa.CallInstruction:
									passed = append(passed, shortCallee(an.CalleeName(x.Common()))+" at "+c.pos(x.Pos()))
								}
							}
						}
						walk(al, 0)
						r.Check(len(passed) == 0, "R20.L", sprintf("result:%s-not-rewritten#%d", strings.TrimPrefix(tn, "deeplinks."), nRes), c.pos(al.Pos()),
							"the result object is only filled from the template variables and returned; passed on to: "+strings.Join(passed, ", "))
					}
				}
			}
			if nRes == 0 {
				r.Undecide("R20.L", "result:not-rewritten", c.pos(hf.Pos()), "no ResolveParameters / JoinParameters built in resolveHttpLink")
			}
			// inside matchPath the two strings are split as they are: trimming or cleaning before the split makes
			// `//name` and `/name` the same path
			if mp := c.P.Func(load.DeepPkg, "", "matchPath"); mp != nil {
				splits := an.CallsNamed(mp, "strings.Split")
				okSplit := len(splits) >= 2
				var detail []string
				for _, cs := range splits {
					o := tr.OriginString(cs.Common.Args[0])
					detail = append(detail, o)
					if o == "param#0" || o == "param#1" {
						continue
					}
					// dropping exactly the one leading slash from a string known to start with it is the same segmentation
					if call, isCall := cs.Common.Args[0].(*ssa.Call); isCall && an.CalleeName(call.Common()) == "strings.TrimPrefix" &&
						isConstString(call.Call.Args[1], "/") && (tr.OriginString(call.Call.Args[0]) == "param#0" || tr.OriginString(call.Call.Args[0]) == "param#1") {
						continue
					}
					okSplit = false
				}
				r.Check(okSplit, "R20.L", "match:segments-verbatim", c.pos(mp.Pos()), "matchPath splits the template and the path themselves into segments (split operands: "+strings.Join(detail, ", ")+"): an empty leading segment is a different path shape")
			}
			for _, cs := range an.CallsNamed(hf, load.DeepPkg+".matchPath") {
				effects = append(effects, cs.Instr)
			}
			un := an.Guarded(hf, []an.Edge{guard.EdgeWhen(true)}, effects)
			r.Check(len(un) == 0 && len(effects) > 0, "R20.H", "hosts:foreign-host-is-error", c.pos(guard.If.Cond.Pos()), "no path is matched unless the host is reserved")
		}
		// fixURLHost runs before the host test
		okFix := false
		for _, cs := range an.CallsNamed(hf, load.DeepPkg+".fixURLHost") {
			if guard != nil && instrDominates(cs.Instr, guard.If) {
				okFix = true
			}
		}
		r.Check(okFix, "R20.H", "hosts:scheme-less-recovery-first", c.pos(hf.Pos()), "fixURLHost(u) runs before the host test")
		// Hostname() strips a port - and the brackets of an address literal: "[t.me]" must not pass for t.me, so
		// hosts written in brackets are refused before the membership test
		{
			var pre *an.Cond
			for _, i := range an.Ifs(hf) {
				cd, ok := an.Classify(i)
				if !ok || cd.Kind != "call:strings.HasPrefix" {
					continue
				}
				call, _ := i.Cond.(*ssa.Call)
				if call == nil {
					if u, isU := i.Cond.(*ssa.UnOp); isU {
						call, _ = u.X.(*ssa.Call)
					}
				}
				if call != nil && len(call.Call.Args) == 2 && strings.HasSuffix(tr.OriginString(call.Call.Args[0]), "URL.Host") && isConstString(call.Call.Args[1], "[") {
					pre = cd
				}
			}
			okLit := false
			if pre != nil && guard != nil {
				// the membership test is reached only when the host does not start with a bracket
				okLit = len(an.Guarded(hf, []an.Edge{pre.EdgeWhen(false)}, []ssa.Instruction{guard.If})) == 0
			}
			r.Check(okLit, "R20.H", "hosts:address-literals-refused", c.pos(hf.Pos()), "a host written in brackets is refused before Hostname() (which strips the brackets) is compared with the reserved names")
		}
		// the recovered host is the text before the FIRST slash of the scheme-less link (t.me/joinchat/TOKEN has
		// host t.me, not t.me/joinchat): the cut position comes from a first-occurrence search of "/" in u.Path
		if fx := c.fn("R20.H", load.DeepPkg, "", "fixURLHost"); fx != nil {
			firstOcc := map[string]bool{"strings.Index": true, "strings.IndexByte": true, "strings.IndexRune": true, "strings.IndexAny": true}
			n, okCut, detail := 0, true, ""
			for _, b := range fx.Blocks {
				for _, in := range b.Instrs {
					st, ok := in.(*ssa.Store)
					if !ok {
						continue
					}
					fa, ok := st.Addr.(*ssa.FieldAddr)
					if !ok || !strings.HasSuffix(an.FieldName(fa.X.Type(), fa.Field), "URL.Host") {
						continue
					}
					sl, ok := st.Val.(*ssa.Slice)
					if !ok {
						continue // the bare-host arm stores the whole path
					}
					n++
					cut := sl.High
					call, isCall := cut.(*ssa.Call)
					switch {
					case cut == nil:
						okCut, detail = false, "the host is not cut at a position"
					case !isCall || !firstOcc[an.CalleeName(call.Common())]:
						name := "a computed value"
						if isCall {
							name = an.CalleeName(call.Common())
						}
						okCut, detail = false, "the cut position comes from "+name+", not from a first-occurrence search"
					case len(call.Call.Args) != 2 || !strings.HasSuffix(tr.OriginString(call.Call.Args[0]), "URL.Path") || !isSlashConst(call.Call.Args[1]):
						okCut, detail = false, "the search is not for \"/\" in u.Path"
					}
				}
			}
			if n == 0 {
				r.Undecide("R20.H", "hosts:recovered-host-ends-at-first-slash", c.pos(fx.Pos()), "no store u.Host = u.Path[:i] found in fixURLHost")
			} else {
				r.Check(okCut, "R20.H", "hosts:recovered-host-ends-at-first-slash", c.pos(fx.Pos()), "u.Host = u.Path[:i] with i the first \"/\" of u.Path; "+detail)
			}
		}
	}
	// scheme arms
	{
		route := map[string]string{}
		for _, s := range []string{"", "http", "https", "tg", "ftp"} {
			reach := an.ReachWith(res, nil, func(i *ssa.If) (int, bool) {
				cd, ok := an.Classify(i)
				if !ok || cd.Kind != "eq" || !strings.HasSuffix(tr.OriginString(cd.X), "url.URL.Scheme") {
					if ok && cd.Kind == "nil" {
						return cd.EdgeWhen(true).Succ, true // url.Parse succeeded
					}
					return 0, false
				}
				k, okk := cd.Y.(*ssa.Const)
				if !okk || k.Value == nil || k.Value.Kind() != constant.String {
					return 0, false
				}
				return cd.EdgeWhen(constant.StringVal(k.Value) == s).Succ, true
			})
			var to []string
			for _, cs := range an.Calls(res) {
				if reach[cs.Block] && (strings.HasSuffix(cs.Name, "resolveHttpLink") || strings.HasSuffix(cs.Name, "resolveTgLink") || cs.Name == "fmt.Errorf") {
					to = append(to, cs.Name[strings.LastIndex(cs.Name, ".")+1:])
				}
			}
			route[s] = strings.Join(to, "+")
		}
		ok := route[""] == "resolveHttpLink" && route["http"] == "resolveHttpLink" && route["https"] == "resolveHttpLink" && route["ftp"] == "Errorf" && (route["tg"] == "resolveTgLink" || route["tg"] == "Errorf")
		r.Check(ok, "R20.H", "schemes:routing", c.pos(res.Pos()), sprintf("''→%s http→%s https→%s tg→%s ftp→%s", route[""], route["http"], route["https"], route["tg"], route["ftp"]))
		if tg := c.P.Func(load.DeepPkg, "", "resolveTgLink"); tg != nil && route["tg"] == "resolveTgLink" {
			allErr := true
			for _, b := range tg.Blocks {
				for _, in := range b.Instrs {
					if ret, ok := an.AsReturn(in); ok && len(ret.Results) == 2 && (!an.MayReturnNil(ret, 0) || an.MayReturnNil(ret, 1)) {
						allErr = false
					}
				}
			}
			r.Check(allErr, "R20.H", "schemes:tg-is-error", c.pos(tg.Pos()), "resolveTgLink returns an error on every path")
		}
	}

	// ---- R20.L ----------------------------------------------------------------------------------
	if hf := c.P.Func(load.DeepPkg, "", "resolveHttpLink"); hf != nil {
		var dom, inv, domArgDesc string
		var domArg, invArg bool
		var emptyGuards int
		for _, f := range an.WithAnon(hf) {
			for _, b := range f.Blocks {
				for _, in := range b.Instrs {
					if st, ok := in.(*ssa.Store); ok {
						if fa, ok := st.Addr.(*ssa.FieldAddr); ok {
							switch an.FieldName(fa.X.Type(), fa.Field) {
							case "deeplinks.ResolveParameters.Domain":
								dom = tr.OriginString(st.Val)
								// what is lower-cased is the path variable itself: the map lookup, not a trimmed,
								// unescaped or otherwise rewritten form of it
								if call, ok := st.Val.(*ssa.Call); ok && an.CalleeName(call.Common()) == "strings.ToLower" && len(call.Call.Args) == 1 {
									domArg = pathVariable(call.Call.Args[0], f)
									domArgDesc = tr.OriginString(call.Call.Args[0])
								}
							case "deeplinks.JoinParameters.Invite":
								inv = tr.OriginString(st.Val)
								invArg = pathVariable(st.Val, f)
							}
						}
					}
				}
			}
			for _, i := range an.Ifs(f) {
				cd, ok := an.Classify(i)
				if ok && cd.Kind == "eq" && (isConstString(cd.Y, "") || isConstString(cd.X, "")) {
					emptyGuards++
				}
			}
		}
		for _, cs := range an.CallsNamed(hf, load.DeepPkg+".matchPath") {
			o := tr.OriginString(cs.Common.Args[1])
			r.Check(strings.HasSuffix(o, "url.URL.Path") && !strings.Contains(o, "call:"), "R20.L", "match:path-verbatim", c.pos(cs.Pos()),
				"the path matched against the templates is "+simplifyOrigin(o)+" (must be u.Path itself: the invite token is case-sensitive and /JoinChat/x is not an invite)")
		}
		r.Check(strings.HasPrefix(dom, "call:strings.ToLower"), "R20.L", "domain:lower-cased", c.pos(hf.Pos()), "Domain ← "+dom)
		r.Check(domArg, "R20.L", "domain:the-path-variable-itself", c.pos(hf.Pos()), "what is lower-cased into Domain is "+domArgDesc+" (must be the lookup of the template variable in the map matchPath returned, with nothing trimmed or rewritten: t.me/@name is not the user `name`)")
		r.Check(invArg && inv != "" && !strings.Contains(inv, "ToLower") && !strings.Contains(inv, "ToUpper"), "R20.L", "invite:verbatim", c.pos(hf.Pos()), "Invite ← "+inv)
		r.Check(emptyGuards >= 2, "R20.L", "empty-variable-is-error", c.pos(hf.Pos()), sprintf("%d tests of a path variable against the empty string", emptyGuards))
	}
}

func isSlashConst(v ssa.Value) bool {
	k, ok := v.(*ssa.Const)
	if !ok || k.Value == nil {
		return false
	}
	if k.Value.Kind() == constant.String {
		return constant.StringVal(k.Value) == "/"
	}
	if i, ok := constant.Int64Val(k.Value); ok {
		return i == '/'
	}
	return false
}

// pathVariable: v is a lookup in the first parameter of the converter closure f (a map[string]string), or the
// value half of the comma-ok form of one.
func pathVariable(v ssa.Value, f *ssa.Function) bool {
	if ex, ok := v.(*ssa.Extract); ok && ex.Index == 0 {
		v = ex.Tuple
	}
	lk, ok := v.(*ssa.Lookup)
	if !ok || len(f.Params) == 0 {
		return false
	}
	return lk.X == ssa.Value(f.Params[0])
}
