package props

import (
	"strings"

	"verif/checker/internal/an"
	"verif/checker/internal/load"

	"golang.org/x/tools/go/ssa"
)

func init() { register("C15", c15) }

func c15(c *Ctx) {
	r := c.R
	r.Explanation = "Census of panic-capable operations (explicit panic, panicking helpers, unchecked type assertions, reflect methods that panic on the wrong " +
		"kind, allocations / slices / indexes with non-constant operands, division) in every repository function reachable from tl.Decode and " +
		"tl.DecodeUnknownObject (VTA call graph plus CHA edges for the reflection-fed tl interfaces, so every UnmarshalTL is included). Each site is " +
		"discharged by a machine-checked side condition (dominating Kind()/len/>=0 guard, non-negative-by-construction size, comma-ok form, population " +
		"conditions P1–P4/K/T over all registered types), accepted in triage.json with a reason, or reported."
	r.NotDecided = []string{"total memory proportionality as a number", "recursion depth", "nil dereferences (not part of the census)"}
	r.Rule("R15.C", "every panic-capable operation reachable from Decode/DecodeUnknownObject is discharged, accepted with a reason, or a finding", 30)
	var entries []*ssa.Function
	for _, n := range []string{"Decode", "DecodeUnknownObject"} {
		if f := c.fn("R15.C", load.TLPkg, "", n); f != nil {
			entries = append(entries, f)
		}
	}
	fns := c.censusRegion(entries, nil)
	conds := c.populationConditions()
	r.Rule("R15.T", "every loop whose bound comes from the wire leaves on the sticky decoder error", 2)
	c.loopTermination("R15.T", fns)
	n, d, a := c.runCensus("R15.C", fns, nil, conds)
	r.Extra["census_functions"] = len(fns)
	r.Extra["census_sites"] = n
	r.Extra["census_discharged"] = d
	r.Extra["census_accepted"] = a
	r.Extra["population_conditions"] = conds
}

// loopTermination (R15.T): a loop whose bound comes from the wire must leave on the sticky decoder error.
func (c *Ctx) loopTermination(rule string, fns []*ssa.Function) {
	tr := an.NewTracer()
	for _, f := range fns {
		n := 0
		for _, i := range an.Ifs(f) {
			b := i.Block()
			// is the If on a cycle?
			onCycle := false
			for _, s := range b.Succs {
				if reachesBlock(s, b, map[*ssa.BasicBlock]bool{}) {
					onCycle = true
				}
			}
			if !onCycle {
				continue
			}
			cd, ok := an.Classify(i)
			if !ok || cd.Kind != "ord" {
				continue
			}
			// loop test i < N: which operand is the bound?
			var bound ssa.Value
			if _, isPhi := an.Unconv(cd.X).(*ssa.Phi); isPhi {
				bound = cd.Y
			} else if bo, ok := cd.X.(*ssa.BinOp); ok && bo.Op.String() == "+" {
				bound = cd.Y
			} else if _, isPhi := an.Unconv(cd.Y).(*ssa.Phi); isPhi {
				bound = cd.X
			}
			if bound == nil {
				continue
			}
			n++
			key := sprintf("loop:%s#%d", an.ShortName(f), n)
			if !an.WireSizedLocal(bound) {
				c.R.Hold(rule, key, c.pos(i.Cond.Pos()), "bound derives from len()/NumField()/constants: "+simplifyOrigin(tr.OriginString(bound)))
				continue
			}
			// cycle blocks
			cyc := map[*ssa.BasicBlock]bool{}
			for _, x := range f.Blocks {
				if reachesBlock(b, x, map[*ssa.BasicBlock]bool{}) && reachesBlock(x, b, map[*ssa.BasicBlock]bool{}) {
					cyc[x] = true
				}
			}
			exits := false
			for x := range cyc {
				if len(x.Instrs) == 0 {
					continue
				}
				j, ok := x.Instrs[len(x.Instrs)-1].(*ssa.If)
				if !ok || j == i {
					continue
				}
				cj, ok := an.Classify(j)
				if !ok || cj.Kind != "nil" {
					continue
				}
				o := tr.OriginString(cj.X)
				if strings.Contains(o, "tl.Decoder.err") || strings.Contains(o, "Decoder).CheckErr") {
					if !cyc[cj.EdgeWhen(false).To()] || leadsOut(cj.EdgeWhen(false).To(), cyc) {
						exits = true
					}
				}
			}
			c.R.Check(exits, rule, key, c.pos(i.Cond.Pos()), "the bound comes from the wire ("+simplifyOrigin(tr.OriginString(bound))+"): the loop must leave as soon as the decoder's sticky error is set, or 2^31 iterations make no progress")
		}
	}
}

func leadsOut(b *ssa.BasicBlock, cyc map[*ssa.BasicBlock]bool) bool {
	// the block ends the function or jumps out of the cycle without returning to it
	if len(b.Succs) == 0 {
		return true
	}
	for _, s := range b.Succs {
		if !cyc[s] {
			return true
		}
	}
	return false
}
