package props

import (
	"verif/checker/internal/load"

	"golang.org/x/tools/go/ssa"
)

func init() { register("C15", c15) }

func c15(c *Ctx) {
	r := c.R
	r.Explanation = "Census of panic-capable operations (explicit panic, panicking helpers, unchecked type assertions, reflect methods that panic on the wrong " +
		"kind, allocations / slices / indexes with non-constant operands, division) in every repository function reachable from tl.Decode and " +
		"tl.DecodeUnknownObject (VTA call graph plus CHA edges for the reflection-fed tl interfaces, so every UnmarshalTL is included). Each site is " +
		"discharged by a machine-checked side condition (dominating Kind()/len/>=0 guard, non-negative-by-construction size, comma-ok form, population " +
		"conditions P1–P4/K/T over all registered types), accepted in triage.json with a reason, or reported."
	r.NotDecided = []string{"total memory proportionality as a number", "recursion depth", "nil dereferences (not part of the census)"}
	r.Rule("R15.C", "every panic-capable operation reachable from Decode/DecodeUnknownObject is discharged, accepted with a reason, or a finding", 30)
	var entries []*ssa.Function
	for _, n := range []string{"Decode", "DecodeUnknownObject"} {
		if f := c.fn("R15.C", load.TLPkg, "", n); f != nil {
			entries = append(entries, f)
		}
	}
	fns := c.censusRegion(entries, nil)
	conds := c.populationConditions()
	n, d, a := c.runCensus("R15.C", fns, nil, conds)
	r.Extra["census_functions"] = len(fns)
	r.Extra["census_sites"] = n
	r.Extra["census_discharged"] = d
	r.Extra["census_accepted"] = a
	r.Extra["population_conditions"] = conds
}
