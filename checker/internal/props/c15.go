package props

import (
	"strings"

	"verif/checker/internal/an"
	"verif/checker/internal/load"

	"golang.org/x/tools/go/ssa"
)

func init() { register("C15", c15) }

func c15(c *Ctx) {
	r := c.R
	r.Explanation = "Census of panic-capable operations (explicit panic, panicking helpers, unchecked type assertions, reflect methods that panic on the wrong " +
		"kind, allocations / slices / indexes with non-constant operands, division) in every repository function reachable from tl.Decode and " +
		"tl.DecodeUnknownObject (VTA call graph plus CHA edges for the reflection-fed tl interfaces, so every UnmarshalTL is included). Each site is " +
		"discharged by a machine-checked side condition (dominating Kind()/len/>=0 guard, non-negative-by-construction size, comma-ok form, population " +
		"conditions P1–P4/K/T over all registered types), accepted in triage.json with a reason, or reported."
	r.NotDecided = []string{"total memory proportionality as a number", "recursion depth", "nil dereferences (not part of the census)"}
	r.Rule("R15.C", "every panic-capable operation reachable from Decode/DecodeUnknownObject is discharged, accepted with a reason, or a finding", 30)
	var entries []*ssa.Function
	for _, n := range []string{"Decode", "DecodeUnknownObject"} {
		if f := c.fn("R15.C", load.TLPkg, "", n); f != nil {
			entries = append(entries, f)
		}
	}
	fns := c.censusRegion(entries, nil)
	conds := c.populationConditions()
	r.Rule("R15.T", "every loop whose bound comes from the wire leaves on the sticky decoder error", 2)
	c.loopTermination("R15.T", fns)
	c.readerLoops("R15.T", fns)
	n, d, a := c.runCensus("R15.C", fns, nil, conds)
	r.Extra["census_functions"] = len(fns)
	r.Extra["census_sites"] = n
	r.Extra["census_discharged"] = d
	r.Extra["census_accepted"] = a
	r.Extra["population_conditions"] = conds
}

// loopTermination (R15.T): a loop whose bound comes from the wire must leave on the sticky decoder error.
func (c *Ctx) loopTermination(rule string, fns []*ssa.Function) {
	tr := an.NewTracer()
	for _, f := range fns {
		n := 0
		for _, i := range an.Ifs(f) {
			b := i.Block()
			// is the If on a cycle?
			onCycle := false
			for _, s := range b.Succs {
				if reachesBlock(s, b, map[*ssa.BasicBlock]bool{}) {
					onCycle = true
				}
			}
			if !onCycle {
				continue
			}
			cd, ok := an.Classify(i)
			if !ok || cd.Kind != "ord" {
				continue
			}
			// loop test i < N: which operand is the bound?
			var bound ssa.Value
			if _, isPhi := an.Unconv(cd.X).(*ssa.Phi); isPhi {
				bound = cd.Y
			} else if bo, ok := cd.X.(*ssa.BinOp); ok && bo.Op.String() == "+" {
				bound = cd.Y
			} else if _, isPhi := an.Unconv(cd.Y).(*ssa.Phi); isPhi {
				bound = cd.X
			}
			if bound == nil {
				continue
			}
			n++
			key := sprintf("loop:%s#%d", an.ShortName(f), n)
			if !an.WireSizedLocal(bound) {
				c.R.Hold(rule, key, c.pos(i.Cond.Pos()), "bound derives from len()/NumField()/constants: "+simplifyOrigin(tr.OriginString(bound)))
				continue
			}
			// cycle blocks
			cyc := map[*ssa.BasicBlock]bool{}
			for _, x := range f.Blocks {
				if reachesBlock(b, x, map[*ssa.BasicBlock]bool{}) && reachesBlock(x, b, map[*ssa.BasicBlock]bool{}) {
					cyc[x] = true
				}
			}
			exits := false
			for x := range cyc {
				if len(x.Instrs) == 0 {
					continue
				}
				j, ok := x.Instrs[len(x.Instrs)-1].(*ssa.If)
				if !ok || j == i {
					continue
				}
				cj, ok := an.Classify(j)
				if !ok || cj.Kind != "nil" {
					continue
				}
				o := tr.OriginString(cj.X)
				if strings.Contains(o, "tl.Decoder.err") || strings.Contains(o, "Decoder).CheckErr") {
					if !cyc[cj.EdgeWhen(false).To()] || leadsOut(cj.EdgeWhen(false).To(), cyc) {
						exits = true
					}
				}
			}
			c.R.Check(exits, rule, key, c.pos(i.Cond.Pos()), "the bound comes from the wire ("+simplifyOrigin(tr.OriginString(bound))+"): the loop must leave as soon as the decoder's sticky error is set, or 2^31 iterations make no progress")
		}
	}
}

func leadsOut(b *ssa.BasicBlock, cyc map[*ssa.BasicBlock]bool) bool {
	// the block ends the function or jumps out of the cycle without returning to it
	if len(b.Succs) == 0 {
		return true
	}
	for _, s := range b.Succs {
		if !cyc[s] {
			return true
		}
	}
	return false
}

// readerLoops (R15.T): a loop around a Read must end when the reader keeps failing.  Readers keep their error
// (gzip, flate, bufio: every later Read returns 0, err): with n = 0 and err a non-nil error that equals no
// sentinel, forcing the loop's tests on n and err must leave no cycle through the Read.
func (c *Ctx) readerLoops(rule string, fns []*ssa.Function) {
	for _, f := range fns {
		k := 0
		for _, cs := range an.Calls(f) {
			call, ok := cs.Instr.(*ssa.Call)
			if !ok {
				continue
			}
			mname := ""
			if cs.Common.IsInvoke() {
				mname = cs.Common.Method.Name()
			} else if sf := an.StaticCallee(cs.Common); sf != nil && sf.Signature.Recv() != nil {
				mname = sf.Name()
			}
			if mname != "Read" || call.Type().String() != "(n int, err error)" && call.Type().String() != "(int, error)" {
				continue
			}
			rb := cs.Block
			if !reachesBlockStrict(rb, rb) {
				continue // not in a loop
			}
			k++
			key := sprintf("read-loop:%s#%d", an.ShortName(f), k)
			var nV, errV ssa.Value
			if call.Referrers() != nil {
				for _, rf := range *call.Referrers() {
					if ex, ok := rf.(*ssa.Extract); ok {
						if ex.Index == 0 {
							nV = ex
						} else {
							errV = ex
						}
					}
				}
			}
			atom := func(v ssa.Value) (int64, bool) {
				if nV != nil && v == nV {
					return 0, true
				}
				return 0, false
			}
			decide := func(i *ssa.If) (int, bool) {
				cd, ok := an.Classify(i)
				if !ok {
					return 0, false
				}
				edge := func(e an.Edge) (int, bool) { return e.Succ, true }
				switch {
				case cd.Kind == "nil" && errV != nil && cd.X == errV:
					return edge(cd.EdgeWhen(false))
				case cd.Kind == "eq" && errV != nil && (an.Unconv(cd.X) == errV || an.Unconv(cd.Y) == errV):
					return edge(cd.EdgeWhen(false))
				case strings.HasPrefix(cd.Kind, "call:errors.Is") && errV != nil && cd.X == errV:
					return edge(cd.EdgeWhen(false))
				}
				if res, ok := an.EvalCond(i.Cond, atom); ok {
					if res {
						return 0, true
					}
					return 1, true
				}
				return 0, false
			}
			_, exec := an.ReachExec(f, nil, decide)
			// a cycle through the Read block along executable edges?
			seen := map[*ssa.BasicBlock]bool{}
			var spin func(b *ssa.BasicBlock) bool
			spin = func(b *ssa.BasicBlock) bool {
				for si, s := range b.Succs {
					if !exec[an.Edge{From: b, Succ: si}] {
						continue
					}
					if s == rb {
						return true
					}
					if !seen[s] {
						seen[s] = true
						if spin(s) {
							return true
						}
					}
				}
				return false
			}
			c.R.Check(!spin(rb), rule, key, c.pos(cs.Pos()), "with this Read returning (0, a persistent non-sentinel error) the loop can come back to the Read: a truncated or corrupt stream makes the decoder spin for ever")
			// io.Reader contract: n > 0 bytes may come together with the error (io.EOF with the last chunk): the bytes
			// are consumed before any branch on the error
			if nV != nil && errV != nil && rule != "R15.T" { // dropping bytes is wrong output, not a panic or a loop: not C15's business
				var uses []ssa.Instruction
				if nV.Referrers() != nil {
					for _, rf := range *nV.Referrers() {
						if sl, ok := rf.(*ssa.Slice); ok && sl.High == nV {
							uses = append(uses, sl)
						}
					}
				}
				if len(uses) > 0 {
					okOrder := true
					where := ""
					for _, i := range an.Ifs(f) {
						cd, ok := an.Classify(i)
						if !ok || !reachesBlock(rb, i.Block(), map[*ssa.BasicBlock]bool{}) {
							continue
						}
						onErr := (cd.Kind == "nil" && cd.X == errV) || (cd.Kind == "eq" && (an.Unconv(cd.X) == errV || an.Unconv(cd.Y) == errV)) ||
							(strings.HasPrefix(cd.Kind, "call:errors.Is") && cd.X == errV)
						if !onErr {
							continue
						}
						dominated := false
						for _, u := range uses {
							if an.InstrDominates(u, i) {
								dominated = true
							}
						}
						if !dominated {
							okOrder, where = false, c.pos(i.Cond.Pos())
						}
					}
					c.R.Check(okOrder, rule, key+"/bytes-before-error", c.pos(cs.Pos()), "the n bytes of this Read are used before the error is looked at (a reader may return the last chunk together with io.EOF; branching on the error first at "+where+" drops it)")
				}
			}
		}
	}
}
