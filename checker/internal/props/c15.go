package props

import (
	"go/token"
	"go/types"
	"sort"
	"strings"

	"verif/checker/internal/an"
	"verif/checker/internal/load"

	"golang.org/x/tools/go/ssa"
)

func init() { register("C15", c15) }

func c15(c *Ctx) {
	r := c.R
	r.Explanation = "Census of panic-capable operations (explicit panic, panicking helpers, unchecked type assertions, reflect methods that panic on the wrong " +
		"kind, allocations / slices / indexes with non-constant operands, division) in every repository function reachable from tl.Decode and " +
		"tl.DecodeUnknownObject (VTA call graph plus CHA edges for the reflection-fed tl interfaces, so every UnmarshalTL is included). Each site is " +
		"discharged by a machine-checked side condition (dominating Kind()/len/>=0 guard, non-negative-by-construction size, comma-ok form, population " +
		"conditions P1–P4/K/T over all registered types), accepted in triage.json with a reason, or reported."
	r.NotDecided = []string{"total memory proportionality as a number", "that the depth bound is small enough for the stack (a number)", "nil dereferences other than the two kinds R15.N and the error-path rule of the census look at"}
	c.errorsKept("R15.X", "the codec (packages tl and objects)", 8, inPkgs(load.TLPkg, load.ObjPkg))
	r.Rule("R15.C", "every panic-capable operation reachable from Decode/DecodeUnknownObject is discharged, accepted with a reason, or a finding", 30)
	var entries []*ssa.Function
	for _, n := range []string{"Decode", "DecodeUnknownObject"} {
		if f := c.fn("R15.C", load.TLPkg, "", n); f != nil {
			entries = append(entries, f)
		}
	}
	fns := c.censusRegion(entries, nil)
	conds := c.populationConditions()
	// P2 ("a registered type that is not a struct never reaches the struct walk") also needs the enum arm of
	// decodeObject to leave on every path
	if okEnum, _ := enumLeavesBeforeWalk(c); !okEnum {
		conds["P2"] = false
	}
	r.Rule("R15.T", "every loop whose bound comes from the wire leaves on the sticky decoder error", 2)
	c.loopTermination("R15.T", fns)
	c.readerLoops("R15.T", fns)
	c.nilTypes("R15.N", fns, 30)
	c.recursionGated("R15.D", fns)
	// R15.G: decoding (and the encoding that runs beside it on other goroutines) writes no package-level state.
	// The registry maps are filled by init(); a map, cache or counter written from inside Decode / Marshal is
	// written by the receive goroutine and every caller at once, and an unsynchronised map write ends the
	// process with a fatal error no recover() can stop.
	r.Rule("R15.G", "nothing reachable from Decode / DecodeUnknownObject / Marshal writes a package-level variable (store, map update, delete): the codec keeps no shared mutable state", 1)
	{
		entries2 := append([]*ssa.Function{}, entries...)
		if f := c.P.Func(load.TLPkg, "", "Marshal"); f != nil {
			entries2 = append(entries2, f)
		}
		c.noGlobalWrites("R15.G", entries2, "a codec path: two decodes (the receive loop and a caller, or two clients) write it concurrently")
	}
	n, d, a := c.runCensus("R15.C", fns, nil, conds)
	r.Extra["census_functions"] = len(fns)
	r.Extra["census_sites"] = n
	r.Extra["census_discharged"] = d
	r.Extra["census_accepted"] = a
	r.Extra["population_conditions"] = conds
}

// loopTermination (R15.T): a loop whose bound comes from the wire must leave on the sticky decoder error.
func (c *Ctx) loopTermination(rule string, fns []*ssa.Function) {
	tr := an.NewTracer()
	for _, f := range fns {
		n := 0
		for _, i := range an.Ifs(f) {
			b := i.Block()
			// is the If on a cycle?
			onCycle := false
			for _, s := range b.Succs {
				if reachesBlock(s, b, map[*ssa.BasicBlock]bool{}) {
					onCycle = true
				}
			}
			if !onCycle {
				continue
			}
			cd, ok := an.Classify(i)
			if !ok || cd.Kind != "ord" {
				continue
			}
			// loop test i < N: which operand is the bound?
			var bound ssa.Value
			if _, isPhi := an.Unconv(cd.X).(*ssa.Phi); isPhi {
				bound = cd.Y
			} else if bo, ok := cd.X.(*ssa.BinOp); ok && bo.Op.String() == "+" {
				bound = cd.Y
			} else if _, isPhi := an.Unconv(cd.Y).(*ssa.Phi); isPhi {
				bound = cd.X
			}
			if bound == nil {
				continue
			}
			n++
			key := sprintf("loop:%s#%d", an.ShortName(f), n)
			if !an.WireSizedLocal(bound) {
				c.R.Hold(rule, key, c.pos(i.Cond.Pos()), "bound derives from len()/NumField()/constants: "+simplifyOrigin(tr.OriginString(bound)))
				continue
			}
			// cycle blocks
			cyc := map[*ssa.BasicBlock]bool{}
			for _, x := range f.Blocks {
				if reachesBlock(b, x, map[*ssa.BasicBlock]bool{}) && reachesBlock(x, b, map[*ssa.BasicBlock]bool{}) {
					cyc[x] = true
				}
			}
			exits := false
			for x := range cyc {
				if len(x.Instrs) == 0 {
					continue
				}
				j, ok := x.Instrs[len(x.Instrs)-1].(*ssa.If)
				if !ok || j == i {
					continue
				}
				cj, ok := an.Classify(j)
				if !ok || cj.Kind != "nil" {
					continue
				}
				o := tr.OriginString(cj.X)
				if strings.Contains(o, "tl.Decoder.err") || strings.Contains(o, "Decoder).CheckErr") {
					if !cyc[cj.EdgeWhen(false).To()] || leadsOut(cj.EdgeWhen(false).To(), cyc) {
						exits = true
					}
				}
			}
			c.R.Check(exits, rule, key, c.pos(i.Cond.Pos()), "the bound comes from the wire ("+simplifyOrigin(tr.OriginString(bound))+"): the loop must leave as soon as the decoder's sticky error is set, or 2^31 iterations make no progress")
		}
	}
}

func leadsOut(b *ssa.BasicBlock, cyc map[*ssa.BasicBlock]bool) bool {
	// the block ends the function or jumps out of the cycle without returning to it
	if len(b.Succs) == 0 {
		return true
	}
	for _, s := range b.Succs {
		if !cyc[s] {
			return true
		}
	}
	return false
}

// readerLoops (R15.T): a loop around a Read must end when the reader keeps failing.  Readers keep their error
// (gzip, flate, bufio: every later Read returns 0, err): with n = 0 and err a non-nil error that equals no
// sentinel, forcing the loop's tests on n and err must leave no cycle through the Read.
func (c *Ctx) readerLoops(rule string, fns []*ssa.Function) {
	for _, f := range fns {
		k := 0
		for _, cs := range an.Calls(f) {
			call, ok := cs.Instr.(*ssa.Call)
			if !ok {
				continue
			}
			mname := ""
			if cs.Common.IsInvoke() {
				mname = cs.Common.Method.Name()
			} else if sf := an.StaticCallee(cs.Common); sf != nil && sf.Signature.Recv() != nil {
				mname = sf.Name()
			}
			if mname != "Read" || call.Type().String() != "(n int, err error)" && call.Type().String() != "(int, error)" {
				continue
			}
			rb := cs.Block
			if !reachesBlockStrict(rb, rb) {
				continue // not in a loop
			}
			k++
			key := sprintf("read-loop:%s#%d", an.ShortName(f), k)
			var nV, errV ssa.Value
			if call.Referrers() != nil {
				for _, rf := range *call.Referrers() {
					if ex, ok := rf.(*ssa.Extract); ok {
						if ex.Index == 0 {
							nV = ex
						} else {
							errV = ex
						}
					}
				}
			}
			atom := func(v ssa.Value) (int64, bool) {
				if nV != nil && v == nV {
					return 0, true
				}
				return 0, false
			}
			decide := func(i *ssa.If) (int, bool) {
				cd, ok := an.Classify(i)
				if !ok {
					return 0, false
				}
				edge := func(e an.Edge) (int, bool) { return e.Succ, true }
				switch {
				case cd.Kind == "nil" && errV != nil && cd.X == errV:
					return edge(cd.EdgeWhen(false))
				case cd.Kind == "eq" && errV != nil && (an.Unconv(cd.X) == errV || an.Unconv(cd.Y) == errV):
					return edge(cd.EdgeWhen(false))
				case strings.HasPrefix(cd.Kind, "call:errors.Is") && errV != nil && cd.X == errV:
					return edge(cd.EdgeWhen(false))
				}
				if res, ok := an.EvalCond(i.Cond, atom); ok {
					if res {
						return 0, true
					}
					return 1, true
				}
				return 0, false
			}
			_, exec := an.ReachExec(f, nil, decide)
			// a cycle through the Read block along executable edges?
			seen := map[*ssa.BasicBlock]bool{}
			var spin func(b *ssa.BasicBlock) bool
			spin = func(b *ssa.BasicBlock) bool {
				for si, s := range b.Succs {
					if !exec[an.Edge{From: b, Succ: si}] {
						continue
					}
					if s == rb {
						return true
					}
					if !seen[s] {
						seen[s] = true
						if spin(s) {
							return true
						}
					}
				}
				return false
			}
			c.R.Check(!spin(rb), rule, key, c.pos(cs.Pos()), "with this Read returning (0, a persistent non-sentinel error) the loop can come back to the Read: a truncated or corrupt stream makes the decoder spin for ever")
			// io.Reader contract: n > 0 bytes may come together with the error (io.EOF with the last chunk): the bytes
			// are consumed before any branch on the error
			if nV != nil && errV != nil && rule != "R15.T" { // dropping bytes is wrong output, not a panic or a loop: not C15's business
				var uses []ssa.Instruction
				if nV.Referrers() != nil {
					for _, rf := range *nV.Referrers() {
						if sl, ok := rf.(*ssa.Slice); ok && sl.High == nV {
							uses = append(uses, sl)
						}
					}
				}
				if len(uses) > 0 {
					okOrder := true
					where := ""
					for _, i := range an.Ifs(f) {
						cd, ok := an.Classify(i)
						if !ok || !reachesBlock(rb, i.Block(), map[*ssa.BasicBlock]bool{}) {
							continue
						}
						onErr := (cd.Kind == "nil" && cd.X == errV) || (cd.Kind == "eq" && (an.Unconv(cd.X) == errV || an.Unconv(cd.Y) == errV)) ||
							(strings.HasPrefix(cd.Kind, "call:errors.Is") && cd.X == errV)
						if !onErr {
							continue
						}
						dominated := false
						for _, u := range uses {
							if an.InstrDominates(u, i) {
								dominated = true
							}
						}
						if !dominated {
							okOrder, where = false, c.pos(i.Cond.Pos())
						}
					}
					c.R.Check(okOrder, rule, key+"/bytes-before-error", c.pos(cs.Pos()), "the n bytes of this Read are used before the error is looked at (a reader may return the last chunk together with io.EOF; branching on the error first at "+where+" drops it)")
				}
			}
		}
	}
}

// nilTypes (R15.N): reflect.TypeOf(nil) is a nil reflect.Type, and any method call on it is a nil dereference.
// Every method call on a reflect.TypeOf(y) result needs y non-nil at the call; the decoder's values are non-nil
// by its sticky-error discipline, which is checked, not assumed: the error field is only ever stored non-nil
// errors, a function's nil result implies the field is set, results are used where the field is still clear.
func (c *Ctx) nilTypes(rule string, fns []*ssa.Function, floor int) {
	r := c.R
	r.Rule(rule, "a method is called on reflect.TypeOf(y) only where y is not nil: y is boxed on the spot, tested against nil, or held in a field every store of which is a function result used with the sticky decoder error still clear - the functions return nil only with the error set, and the error field is never stored a nil; or the value half of a (value, error) result used behind the nil edge of that error, the callee returning a nil value only with an error", floor)
	var pop []*ssa.Function
	for f := range c.P.AllFunctions() {
		if c.P.InRepo(f) && f.Synthetic == "" && len(f.Blocks) > 0 {
			pop = append(pop, f)
		}
	}
	sort.Slice(pop, func(i, j int) bool { return pop[i].String() < pop[j].String() })
	isErr := func(fa *ssa.FieldAddr) bool {
		k, st := fieldKeyOf(fa)
		return st != nil && strings.HasSuffix(k, load.TLPkg+".Decoder.err")
	}
	nn := &an.NonNil{IsErrField: isErr, Funcs: pop}
	// the error field is monotone
	ns := 0
	for _, f := range pop {
		stores, ok := nn.StickyStores(f)
		for i, st := range stores {
			ns++
			r.Check(ok[i], rule, sprintf("sticky:%s#%d", an.ShortName(f), i+1), c.pos(st.Pos()), "the decoder's error field may be stored a nil error here: an earlier failure would be forgotten, and every 'returns nil only with the error set' argument with it")
		}
	}
	if ns == 0 {
		r.Undecide(rule, "sticky:stores", "", "no store to tl.Decoder.err found")
	}
	sites := 0
	for _, f := range fns {
		ord := 0
		for _, b := range f.Blocks {
			for _, in := range b.Instrs {
				ci, ok := in.(ssa.CallInstruction)
				if !ok || !ci.Common().IsInvoke() {
					continue
				}
				call, ok := ci.Common().Value.(*ssa.Call)
				if !ok || an.CalleeName(call.Common()) != "reflect.TypeOf" || len(call.Call.Args) != 1 {
					continue
				}
				sites++
				ord++
				y := call.Call.Args[0]
				key := sprintf("typeof:%s/%s#%d", an.ShortName(f), ci.Common().Method.Name(), ord)
				if p, isParam := y.(*ssa.Parameter); isParam && f.Name() == "Decode" && f.Signature.Recv() == nil && f.Pkg.Pkg.Path() == load.TLPkg {
					r.Hold(rule, key, c.pos(in.Pos()), "the value is parameter "+p.Name()+" of the entry point: the caller's own destination, not wire data")
					continue
				}
				nn.Why = ""
				if nn.Value(y, b, 0) {
					r.Hold(rule, key, c.pos(in.Pos()), "non-nil: "+strings.Join(nn.Notes, "; "))
				} else if e, ok := c.triageEntry(rule, key); ok {
					// accepted sites name a machine-checked condition: the decoder's contract "a nil object only with an error"
					cond := true
					if e.Condition == "decode-nil-implies-error" {
						du := c.P.Func(load.TLPkg, "", "DecodeUnknownObject")
						nn.Why = ""
						cond = du != nil && nn.PairContract(du, 0) && decodedLeaves(y, 0, map[ssa.Value]bool{})
						if cond == false && nn.Why == "" {
							nn.Why = "the value is not (only) an object DecodeUnknownObject returned"
						}
					}
					r.Check(cond, rule, key, c.pos(in.Pos()), "accepted under condition "+e.Condition+" ["+nn.Why+"]: "+e.Reason)
				} else {
					r.Violate(rule, key, c.pos(in.Pos()), "method "+ci.Common().Method.Name()+" is called on reflect.TypeOf(y), and y may be nil here ("+nn.Why+"): a nil reflect.Type, a nil dereference")
				}
			}
		}
	}
	r.Extra["typeof_sites"] = sites
	// "always ends in a value or an error": the two entry points that hand back an object never hand back
	// (nil, nil) - each return has a non-nil error or a non-nil object
	if rule == "R15.N" {
		for _, name := range []string{"DecodeUnknownObject"} {
			if f := c.P.Func(load.TLPkg, "", name); f != nil {
				nn.Why = ""
				r.Check(nn.PairContract(f, 0), rule, "value-or-error:"+name, c.pos(f.Pos()), name+" returns a nil object only together with an error: "+nn.Why)
			}
		}
		if f := c.P.Func(load.TLPkg, "*Decoder", "DecodeNestedObject"); f != nil {
			nn.Why = ""
			r.Check(nn.PairContract(f, 0), rule, "value-or-error:DecodeNestedObject", c.pos(f.Pos()), "DecodeNestedObject returns a nil object only together with an error: "+nn.Why)
		}
	}
}

func fieldKeyOf(fa *ssa.FieldAddr) (string, *types.Struct) {
	pt, ok := fa.X.Type().Underlying().(*types.Pointer)
	if !ok {
		return "", nil
	}
	st, ok := pt.Elem().Underlying().(*types.Struct)
	if !ok {
		return "", nil
	}
	return pt.Elem().String() + "." + st.Field(fa.Field).Name(), st
}

// decodedLeaves: every value merged into v is result 0 of tl.DecodeUnknownObject or the Obj of a gzip_packed.
func decodedLeaves(v ssa.Value, d int, seen map[ssa.Value]bool) bool {
	if d > 8 {
		return false
	}
	if seen[v] {
		return true
	}
	seen[v] = true
	switch x := v.(type) {
	case *ssa.ChangeInterface:
		return decodedLeaves(x.X, d+1, seen)
	case *ssa.ChangeType:
		return decodedLeaves(x.X, d+1, seen)
	case *ssa.Phi:
		for _, e := range x.Edges {
			if !decodedLeaves(e, d+1, seen) {
				return false
			}
		}
		return true
	case *ssa.Extract:
		call, ok := x.Tuple.(*ssa.Call)
		return ok && x.Index == 0 && an.CalleeName(call.Common()) == load.TLPkg+".DecodeUnknownObject"
	case *ssa.UnOp:
		if fa, ok := x.X.(*ssa.FieldAddr); ok {
			k, _ := fieldKeyOf(fa)
			return strings.HasSuffix(k, "objects.GzipPacked.Obj")
		}
	}
	return false
}

// recursionGated (R15.D): the depth to which values are nested is chosen by the peer, and every level costs stack.
// A depth gate is a function that counts a level (a store of depth+1 to the decoder's depth field) and compares
// the depth with a constant.  With the gates taken out, the call graph of the decode region must have no cycle
// left: every recursion on wire data passes a gate each time round.
func (c *Ctx) recursionGated(rule string, fns []*ssa.Function) {
	r := c.R
	r.Rule(rule, "every cycle in the call graph of the decode region passes a depth gate - a function that adds one to Decoder.depth and compares the depth with a constant: the nesting a peer can impose is bounded before the stack is", 1)
	isDepth := func(v ssa.Value) bool {
		ld, ok := v.(*ssa.UnOp)
		if !ok || ld.Op != token.MUL {
			return false
		}
		fa, ok := ld.X.(*ssa.FieldAddr)
		if !ok {
			return false
		}
		k, _ := fieldKeyOf(fa)
		return strings.HasSuffix(k, load.TLPkg+".Decoder.depth")
	}
	gate := map[*ssa.Function]bool{}
	for _, f := range fns {
		counts, compares := false, false
		for _, b := range f.Blocks {
			for _, in := range b.Instrs {
				switch x := in.(type) {
				case *ssa.Store:
					fa, ok := x.Addr.(*ssa.FieldAddr)
					if !ok {
						continue
					}
					if k, _ := fieldKeyOf(fa); !strings.HasSuffix(k, load.TLPkg+".Decoder.depth") {
						continue
					}
					if bo, ok := x.Val.(*ssa.BinOp); ok && bo.Op == token.ADD && isDepth(bo.X) {
						if k, isK := an.ConstInt(bo.Y); isK && k >= 1 {
							counts = true
						}
					}
				case *ssa.If:
					if cd, ok := an.Classify(x); ok && cd.Kind == "ord" {
						_, kx := an.ConstInt(cd.X)
						_, ky := an.ConstInt(cd.Y)
						if isDepth(cd.X) && ky || isDepth(cd.Y) && kx {
							compares = true
						}
					}
				}
			}
		}
		if counts && compares {
			// ... and does so on every way through: the increment and the comparison dominate every call of the
			// function that can lead back into the region's recursion (a gate that counts only some kinds of value
			// lets the others nest without bound)
			var incr, cmp *ssa.BasicBlock
			for _, b := range f.Blocks {
				for _, in := range b.Instrs {
					switch x := in.(type) {
					case *ssa.Store:
						if fa, ok := x.Addr.(*ssa.FieldAddr); ok {
							if k, _ := fieldKeyOf(fa); strings.HasSuffix(k, load.TLPkg+".Decoder.depth") {
								if bo, ok := x.Val.(*ssa.BinOp); ok && bo.Op == token.ADD && incr == nil {
									incr = b
								}
							}
						}
					case *ssa.If:
						if cd, ok := an.Classify(x); ok && cd.Kind == "ord" && (isDepth(cd.X) || isDepth(cd.Y)) && cmp == nil {
							cmp = b
						}
					}
				}
			}
			uncond := incr != nil && cmp != nil
			if uncond {
				g0 := c.Graph()
				for _, b := range f.Blocks {
					for _, in := range b.Instrs {
						ci, ok := in.(ssa.CallInstruction)
						if !ok {
							continue
						}
						if _, isDefer := in.(*ssa.Defer); isDefer {
							continue
						}
						reenters := false
						for _, callee := range g0.CalleesAt(f, ci) {
							if callee == f || g0.Reaches(callee, c.inRepo, func(h *ssa.Function) bool { return h == f }) {
								reenters = true
							}
						}
						if reenters && !(incr.Dominates(b) && cmp.Dominates(b)) {
							uncond = false
						}
					}
				}
			}
			if uncond {
				gate[f] = true
			}
		}
	}
	in := map[*ssa.Function]bool{}
	for _, f := range fns {
		in[f] = true
	}
	g := c.Graph()
	// DFS for a cycle in the region minus the gates
	state := map[*ssa.Function]int{}
	var stack []*ssa.Function
	var cycle []string
	var dfs func(f *ssa.Function) bool
	dfs = func(f *ssa.Function) bool {
		state[f] = 1
		stack = append(stack, f)
		for _, h := range g.Callees(f) {
			if !in[h] || gate[h] {
				continue
			}
			if state[h] == 1 {
				for i := len(stack) - 1; i >= 0; i-- {
					cycle = append([]string{an.ShortName(stack[i])}, cycle...)
					if stack[i] == h {
						break
					}
				}
				return true
			}
			if state[h] == 0 && dfs(h) {
				return true
			}
		}
		stack = stack[:len(stack)-1]
		state[f] = 2
		return false
	}
	found := false
	for _, f := range fns {
		if !gate[f] && state[f] == 0 && dfs(f) {
			found = true
			break
		}
	}
	var gates []string
	for f := range gate {
		gates = append(gates, an.ShortName(f))
	}
	sort.Strings(gates)
	if found {
		r.Violate(rule, "recursion:gated", "", sprintf("a recursion of the decode region passes no depth gate: %s → (back to the first); gates found: %v. The peer chooses how deep a value is nested (rpc_result in rpc_result…, 12 bytes a level), every level is stack, and a stack overflow ends the process", strings.Join(cycle, " → "), gates))
		return
	}
	r.Hold(rule, "recursion:gated", "", sprintf("%d functions in the region, depth gates %v: without them the call graph is acyclic", len(fns), gates))
	c.depthBalanced(rule)
}

// depthBalanced: a level that was counted is given back on every way out - by a deferred decrement, or by a
// decrement on every path from the increment to a return.  A leaked level makes the depth grow with the number of
// values decoded, not with their nesting, and an honest message of a thousand scalars is refused as "too deep".
func (c *Ctx) depthBalanced(rule string) {
	r := c.R
	isDepthAddr := func(v ssa.Value) bool {
		fa, ok := v.(*ssa.FieldAddr)
		if !ok {
			return false
		}
		k, _ := fieldKeyOf(fa)
		return strings.HasSuffix(k, load.TLPkg+".Decoder.depth")
	}
	step := func(st *ssa.Store) int64 {
		if !isDepthAddr(st.Addr) {
			return 0
		}
		bo, ok := st.Val.(*ssa.BinOp)
		if !ok {
			return 0
		}
		ld, ok := bo.X.(*ssa.UnOp)
		if !ok || !isDepthAddr(ld.X) {
			return 0
		}
		// same decoder: the address chain starts at the same receiver
		if ld.X.(*ssa.FieldAddr).X != st.Addr.(*ssa.FieldAddr).X {
			return 0
		}
		k, isK := an.ConstInt(bo.Y)
		if !isK {
			return 0
		}
		switch bo.Op {
		case token.ADD:
			return k
		case token.SUB:
			return -k
		}
		return 0
	}
	n := 0
	for f := range c.P.AllFunctions() {
		if load.FuncPkgPath(f) != load.TLPkg || len(f.Blocks) == 0 || f.Parent() != nil {
			continue
		}
		var incs []*ssa.Store
		decBlocks := map[*ssa.BasicBlock]bool{}
		for _, b := range f.Blocks {
			for _, in := range b.Instrs {
				if st, ok := in.(*ssa.Store); ok {
					switch step(st) {
					case 1:
						incs = append(incs, st)
					case -1:
						decBlocks[b] = true
					}
				}
			}
		}
		if len(incs) == 0 {
			continue
		}
		n++
		key := "depth:balanced:" + an.ShortName(f)
		// a deferred literal that decrements, registered after the increment
		deferred := false
		for _, b := range f.Blocks {
			for _, in := range b.Instrs {
				df, ok := in.(*ssa.Defer)
				if !ok {
					continue
				}
				var g *ssa.Function
				switch x := df.Call.Value.(type) {
				case *ssa.MakeClosure:
					g, _ = x.Fn.(*ssa.Function)
				case *ssa.Function:
					g = x
				}
				if g == nil {
					continue
				}
				for _, gb := range g.Blocks {
					for _, gin := range gb.Instrs {
						if st, ok := gin.(*ssa.Store); ok {
							if bo, ok := st.Val.(*ssa.BinOp); ok && bo.Op == token.SUB && isDepthAddr(st.Addr) {
								if an.InstrDominates(incs[0], df) {
									deferred = true
								}
							}
						}
					}
				}
			}
		}
		if deferred {
			r.Hold(rule, key, c.pos(incs[0].Pos()), "the level is given back by a deferred decrement registered right after it is counted")
			continue
		}
		// explicit decrements: no return reachable from the increment without passing one
		cut := map[an.Edge]bool{}
		for b := range decBlocks {
			for k := range b.Succs {
				cut[an.Edge{From: b, Succ: k}] = true
			}
		}
		var bad []string
		inc := incs[0]
		ib := inc.Block()
		nn := &an.NonNil{IsErrField: func(fa *ssa.FieldAddr) bool {
			k, st := fieldKeyOf(fa)
			return st != nil && strings.HasSuffix(k, load.TLPkg+".Decoder.err")
		}}
		for k := range ib.Succs {
			reach := an.ReachFrom(f, an.Edge{From: ib, Succ: k}, cut)
			for _, b := range f.Blocks {
				ret, isRet := an.AsReturn(b.Instrs[len(b.Instrs)-1])
				if isRet && reach[b] && !decBlocks[b] {
					if nn.ErrSetAt(b) {
						continue // the sticky error is set: nothing is decoded any more, the count no longer matters
					}
					bad = append(bad, "the return at "+c.pos(ret.Pos())+" is reached with the level still counted")
				}
			}
		}
		if ret, isRet := an.AsReturn(ib.Instrs[len(ib.Instrs)-1]); isRet && !decBlocks[ib] {
			bad = append(bad, "the return at "+c.pos(ret.Pos())+" is reached with the level still counted")
		}
		sort.Strings(bad)
		if len(bad) > 3 {
			bad = append(bad[:3], sprintf("… (%d exits)", len(bad)))
		}
		r.Check(len(bad) == 0, rule, key, c.pos(inc.Pos()), "every exit after the increment of Decoder.depth passes a decrement: "+strings.Join(bad, "; "))
	}
	if n == 0 {
		r.Hold(rule, "depth:balanced:none", "", "no function of package tl counts nesting levels")
	}
}

// noGlobalWrites: nothing reachable from the entries (repository functions) writes package-level state outside an
// exclusive lock section.
func (c *Ctx) noGlobalWrites(rule string, entries []*ssa.Function, where string) {
	r := c.R
	region := c.censusRegion(entries, nil)
	ws := an.GlobalWrites(region)
	ord := map[string]int{}
	own := 0
	for _, w := range ws {
		if w.Global.Pkg != nil && !strings.HasPrefix(w.Global.Pkg.Pkg.Path(), "github.com/xelaj/mtproto") {
			continue
		}
		base := an.ShortName(w.Instr.Parent()) + "/" + w.Global.Name()
		ord[base]++
		own++
		locked := false
		for _, cs := range an.Calls(w.Instr.Parent()) {
			if (cs.Name == "(*sync.Mutex).Lock" || cs.Name == "(*sync.RWMutex).Lock") && an.InstrDominates(cs.Instr, w.Instr) {
				locked = true
			}
		}
		// the secret generators and the key exchange must not keep process-wide state at all: a lock, a sync.Once
		// or a sync.Map makes the write safe, not the second client's exchange independent of the first one's
		strict := strings.HasPrefix(rule, "R19") || strings.HasPrefix(rule, "R07") || rule == "R06.Z" || rule == "R17.G"
		if w.What == "sync.Map write" && !strict {
			locked = true // synchronised by construction
		}
		if locked && !strict {
			r.Hold(rule, sprintf("global-write:%s#%d", base, ord[base]), c.pos(w.Instr.Pos()), "package variable written inside an exclusive lock section (or a sync.Map)")
			continue
		}
		r.Violate(rule, sprintf("global-write:%s#%d", base, ord[base]), c.pos(w.Instr.Pos()), sprintf("%s of the package variable %s on %s", w.What, w.Global.Name(), where))
	}
	if own == 0 {
		r.Hold(rule, "global-write:none", "", sprintf("%d functions reachable from the entry points, none writes a package variable", len(region)))
	}
}
