package props

import (
	"go/types"
	"sort"
	"strings"

	"verif/checker/internal/an"
	"verif/checker/internal/load"

	"golang.org/x/tools/go/ssa"
)

func init() { register("C12", c12) }

// errorValues lists, for each call in fn whose last result is `error`, the SSA value holding it (nil when dropped).
type errSite struct {
	cs  an.CallSite
	val ssa.Value
}

func isErrorType(t types.Type) bool {
	n, ok := t.(*types.Named)
	return ok && n.Obj().Pkg() == nil && n.Obj().Name() == "error"
}

func errorSites(fn *ssa.Function) []errSite {
	var out []errSite
	for _, cs := range an.Calls(fn) {
		call, ok := cs.Instr.(*ssa.Call)
		if !ok {
			continue
		}
		switch t := call.Type().(type) {
		case *types.Tuple:
			if t.Len() == 0 || !isErrorType(t.At(t.Len()-1).Type()) {
				continue
			}
			var ex ssa.Value
			for _, r := range *call.Referrers() {
				if e, ok := r.(*ssa.Extract); ok && e.Index == t.Len()-1 {
					ex = e
				}
			}
			out = append(out, errSite{cs, ex})
		default:
			if isErrorType(call.Type()) {
				var v ssa.Value
				if len(*call.Referrers()) > 0 {
					v = call
				}
				out = append(out, errSite{cs, v})
			}
		}
	}
	return out
}

// errorReturned: the error value is tested against nil and on its non-nil edge every return hands back a non-nil
// error; or the error value itself is returned directly.
func errorReturned(fn *ssa.Function, ev ssa.Value) (bool, string) {
	if ev == nil {
		return false, "the error result is discarded"
	}
	// returned directly (return f())
	for _, r := range *ev.Referrers() {
		if ret, ok := an.AsReturn(r); ok {
			_ = ret
			return true, "returned directly"
		}
		if call, ok := r.(*ssa.Call); ok && (strings.HasSuffix(an.CalleeName(call.Common()), "errors.Wrap") || strings.HasSuffix(an.CalleeName(call.Common()), "errors.Wrapf")) {
			// errors.Wrap(err, …) returns nil for a nil err: fine when its result is returned
			for _, r2 := range *call.Referrers() {
				if _, ok := an.AsReturn(r2); ok {
					return true, "returned through errors.Wrap"
				}
			}
		}
	}
	// assume the call failed: whichever way the function goes on from there (branches on the nil-ness of the error, or
	// of a variable that carries it, are decided), no return may report a nil error - this covers the early-return form,
	// the switch form, an error handed on through a helper's result variable, and an error that is never looked at
	evi, ok := ev.(ssa.Instruction)
	if !ok {
		return false, "the error value is not computed in this function"
	}
	same := func(x ssa.Value) bool { return an.Unconv(x) == ev || x == ev }
	// the exploration starts behind the instruction that produces the error: split at the block level (the block of
	// the call; successors only) - returns in the same block behind the call are judged as well
	bad := an.NilReturnsAfterFailure(fn, evi.Block(), same, nil)
	for _, in := range evi.Block().Instrs {
		if ret, isRet := an.AsReturn(in); isRet && len(ret.Results) > 0 && an.IsNilConst(an.RetVal(ret, len(ret.Results)-1)) {
			bad = append(bad, ret)
		}
	}
	if len(bad) > 0 {
		return false, "with err != nil a return with a nil error stays reachable"
	}
	return true, "every exit with err != nil returns an error"
}

func c12(c *Ctx) {
	r := c.R
	r.Explanation = "Structural necessary conditions of session persistence: every field of session.Session is written by writeSession, read back by " +
		"readSession, supplied by SaveSession and restored by LoadSession from/to the corresponding MTProto field (4x4 coverage table); the encoders and " +
		"decoders are pairs (StdEncoding both ways, 8-byte little-endian salt); no error on the Load path is dropped; ENOENT maps to NotFound and NewMTProto " +
		"treats exactly NotFound as 'no session'; a cache hit is guarded by the mtime comparison and a non-nil cache, and the two cache fields are set " +
		"together; the directory checked by Store is never the empty string of a bare file name; makeAuthKey is called only when no session was loaded."
	r.NotDecided = []string{"byte-exact round trip of arbitrary keys/hostnames (delegated to encoding/json and base64)",
		"torn-file behaviour beyond 'every decode error is returned'", "staleness of the mtime-keyed cache on coarse-timestamp filesystems (not reproducible here)"}
	c.errorsKept("R12.X", "the session store (package session, SaveSession)", 4, func(f *ssa.Function) bool {
		return inPkgs(load.SessPkg)(f) || rootMethods("SaveSession", "LoadSession")(f)
	})
	r.Rule("R12.C", "Session ↔ file ↔ MTProto field coverage (4 fields x 4 functions) and encoder/decoder pairing", 18)
	r.Rule("R12.E", "no dropped error on the Load path; ENOENT → NotFound; NewMTProto continues only on nil / NotFound", 8)
	r.Rule("R12.M", "cache hit guarded by ModTime().Equal(lastEdited) and cached != nil; cached and lastEdited assigned together", 2)
	r.Rule("R12.D", "the directory tested by Store is never the empty first result of filepath.Split, and every file-system probe on the Store/Load paths follows symbolic links the way the write and the read do", 3)
	r.Rule("R12.R", "makeAuthKey is called only on the !encrypted edge; encrypted is initialised from 'a session was loaded'", 2)
	tr := an.NewTracer()

	fields := []string{"Key", "Hash", "Salt", "Hostname"}
	mtField := map[string]string{"Key": "authKey", "Hash": "authKeyHash", "Salt": "serverSalt", "Hostname": "addr"}
	// stores of fn into fields of type T: field -> value
	storesInto := func(fn *ssa.Function, typ string) map[string][]ssa.Value {
		out := map[string][]ssa.Value{}
		for _, b := range fn.Blocks {
			for _, in := range b.Instrs {
				if st, ok := in.(*ssa.Store); ok {
					if fa, ok := st.Addr.(*ssa.FieldAddr); ok {
						fn := an.FieldName(fa.X.Type(), fa.Field)
						if strings.HasPrefix(fn, typ+".") {
							out[strings.TrimPrefix(fn, typ+".")] = append(out[strings.TrimPrefix(fn, typ+".")], st.Val)
						}
					}
				}
			}
		}
		return out
	}
	// unconditional: a store of the field with the right source lies on every path to a completing exit (a value that
	// is restored only under a condition — "unless already configured" — is not restored)
	unconditional := func(fn *ssa.Function, typ, field, sub string) bool {
		for _, b := range fn.Blocks {
			for _, in := range b.Instrs {
				st, ok := in.(*ssa.Store)
				if !ok {
					continue
				}
				fa, ok := st.Addr.(*ssa.FieldAddr)
				if !ok || an.FieldName(fa.X.Type(), fa.Field) != typ+"."+field || !an.NewDeps(c.inRepo).Of(st.Val).Has(sub) {
					continue
				}
				all := true
				for _, rb := range fn.Blocks {
					ret, isRet := an.AsReturn(rb.Instrs[len(rb.Instrs)-1])
					if !isRet {
						continue
					}
					if n := len(ret.Results); n > 0 && typeString(an.RetVal(ret, n-1).Type()) == "error" && an.NonNilError(an.RetVal(ret, n-1), rb) {
						continue
					}
					if !an.InstrDominates(st, ret) {
						all = false
					}
				}
				if all {
					return true
				}
			}
		}
		return false
	}
	depsHas := func(vs []ssa.Value, sub string) bool {
		for _, v := range vs {
			if an.NewDeps(c.inRepo).Of(v).Has(sub) {
				return true
			}
		}
		return false
	}
	ws := c.fn("R12.C", load.SessPkg, "*tokenStorageFormat", "writeSession")
	rs := c.fn("R12.C", load.SessPkg, "*tokenStorageFormat", "readSession")
	sv := c.fn("R12.C", load.RootMod, "*MTProto", "SaveSession")
	ld := c.fn("R12.C", load.RootMod, "*MTProto", "LoadSession")
	// the Session struct must have exactly these fields
	if pk := c.P.Pkg(load.SessPkg); pk != nil {
		if tn, ok := pk.Types.Scope().Lookup("Session").(*types.TypeName); ok {
			st := tn.Type().Underlying().(*types.Struct)
			var have []string
			for i := 0; i < st.NumFields(); i++ {
				have = append(have, st.Field(i).Name())
			}
			r.Check(strings.Join(have, ",") == strings.Join(fields, ","), "R12.C", "session-fields", c.pos(tn.Pos()), "fields of session.Session: "+strings.Join(have, ",")+" (the coverage table has a row for each)")
			fields = have
		}
	}
	fileField := map[string]string{"Key": "Key", "Hash": "Hash", "Salt": "Salt", "Hostname": "Hostname"}
	if ws != nil {
		st := storesInto(ws, "session.tokenStorageFormat")
		for _, f := range fields {
			r.Check(depsHas(st[fileField[f]], "field:session.Session."+f) && unconditional(ws, "session.tokenStorageFormat", fileField[f], "field:session.Session."+f), "R12.C", "writeSession:"+f, c.pos(ws.Pos()), "file field "+fileField[f]+" is computed from Session."+f+" on every path")
		}
	}
	if rs != nil {
		st := storesInto(rs, "session.Session")
		for _, f := range fields {
			r.Check(depsHas(st[f], "field:session.tokenStorageFormat."+fileField[f]) && unconditional(rs, "session.Session", f, "field:session.tokenStorageFormat."+fileField[f]), "R12.C", "readSession:"+f, c.pos(rs.Pos()), "Session."+f+" is computed from file field "+fileField[f]+" on every completing path")
		}
	}
	if sv != nil {
		st := storesInto(sv, "session.Session")
		for _, f := range fields {
			r.Check(depsHas(st[f], "field:mtproto.MTProto."+mtField[f]) && unconditional(sv, "session.Session", f, "field:mtproto.MTProto."+mtField[f]), "R12.C", "SaveSession:"+f, c.pos(sv.Pos()), "Session."+f+" ← MTProto."+mtField[f]+" on every path")
		}
	}
	if ld != nil {
		st := storesInto(ld, "mtproto.MTProto")
		for _, f := range fields {
			r.Check(depsHas(st[mtField[f]], "field:session.Session."+f) && unconditional(ld, "mtproto.MTProto", mtField[f], "field:session.Session."+f), "R12.C", "LoadSession:"+f, c.pos(ld.Pos()), "MTProto."+mtField[f]+" ← Session."+f+" on every path")
		}
	}
	// encoder / decoder pairs
	pair := func(key string, enc, dec *ssa.Function, encName, decName string) {
		if enc == nil || dec == nil {
			return
		}
		ne, nd := 0, 0
		for _, f := range c.Graph().Reachable([]*ssa.Function{enc}, c.inRepo) {
			_ = f
		}
		count := func(root *ssa.Function, name string) int {
			n := 0
			for f := range c.Graph().Reachable([]*ssa.Function{root}, c.inRepo) {
				if !c.P.InRepo(f) {
					continue
				}
				for _, cs := range an.Calls(f) {
					if cs.Name == name {
						n++
					}
				}
			}
			return n
		}
		ne, nd = count(enc, encName), count(dec, decName)
		r.Check(ne > 0 && nd > 0 && ne == nd, "R12.C", key, c.pos(enc.Pos()), sprintf("%d × %s on the write side, %d × %s on the read side", ne, shortCallee(encName), nd, shortCallee(decName)))
	}
	// the file itself: what Store writes is encoding/json's rendering of the file structure, what Load parses is
	// parsed by encoding/json into the same structure (a hand-made rendering - %q is Go quoting, not JSON quoting -
	// differs from it for some host names)
	if st, ldr := c.P.Func(load.SessPkg, "*genericFileSessionLoader", "Store"), c.P.Func(load.SessPkg, "*genericFileSessionLoader", "Load"); st != nil && ldr != nil {
		nSink := 0
		var bad []string
		for _, cs := range an.Calls(st) {
			idx := -1
			switch cs.Name {
			case "io/ioutil.WriteFile", "os.WriteFile":
				idx = 1
			case "(*os.File).Write", "(*os.File).WriteString", "(*bufio.Writer).Write", "(*bufio.Writer).WriteString", "io.WriteString":
				idx = 1
			}
			args := an.CallArgs(cs.Common)
			if idx < 0 || idx >= len(args) {
				continue
			}
			nSink++
			if !tr.AllOrigins(args[idx], "call:encoding/json.Marshal") {
				bad = append(bad, "the bytes written at "+c.pos(cs.Pos())+" are "+simplifyOrigin(tr.OriginString(args[idx])))
			}
		}
		nm := 0
		for _, cs := range an.Calls(st) {
			if cs.Name == "encoding/json.Marshal" || cs.Name == "encoding/json.MarshalIndent" {
				if mi, ok := cs.Common.Args[0].(*ssa.MakeInterface); ok && strings.HasSuffix(mi.X.Type().String(), "session.tokenStorageFormat") {
					nm++
				}
			}
		}
		nu := 0
		for _, cs := range an.Calls(ldr) {
			if cs.Name == "encoding/json.Unmarshal" && len(cs.Common.Args) == 2 {
				if mi, ok := cs.Common.Args[1].(*ssa.MakeInterface); ok && strings.HasSuffix(mi.X.Type().String(), "session.tokenStorageFormat") {
					nu++
				}
			}
		}
		if nSink == 0 {
			r.Undecide("R12.C", "pair:json", c.pos(st.Pos()), "no write of bytes recognised in Store")
		} else {
			r.Check(len(bad) == 0 && nm > 0 && nu > 0, "R12.C", "pair:json", c.pos(st.Pos()), sprintf("%d write(s) in Store, %d json.Marshal of the file structure, %d json.Unmarshal into it in Load; %s", nSink, nm, nu, strings.Join(bad, "; ")))
		}
	}
	pair("pair:base64", ws, rs, "(*encoding/base64.Encoding).EncodeToString", "(*encoding/base64.Encoding).DecodeString")
	pair("pair:salt-bytes", ws, rs, "(encoding/binary.littleEndian).PutUint64", "(encoding/binary.littleEndian).Uint64")
	// same base64 alphabet on both sides
	alphaOrd := map[string]int{}
	for _, fn := range []*ssa.Function{ws, rs} {
		if fn == nil {
			continue
		}
		for f := range c.Graph().Reachable([]*ssa.Function{fn}, c.inRepo) {
			if !c.P.InRepo(f) {
				continue
			}
			for _, cs := range an.Calls(f) {
				if strings.HasPrefix(cs.Name, "(*encoding/base64.Encoding).") {
					o := tr.OriginString(cs.Common.Args[0])
					k := "alphabet:" + an.ShortName(f) + "/" + strings.TrimPrefix(cs.Name, "(*encoding/base64.Encoding).")
					alphaOrd[k]++
					r.Check(o == "global:StdEncoding", "R12.C", sprintf("%s#%d", k, alphaOrd[k]), c.pos(cs.Pos()), "encoding object: "+o)
				}
			}
		}
	}
	if enc := c.fn("R12.C", load.SessPkg, "", "encodeInt64ToBase64"); enc != nil {
		ok := false
		for _, cs := range an.CallsNamed(enc, "(encoding/binary.littleEndian).PutUint64") {
			if bufLen(cs.Common.Args[1]) == 8 {
				ok = true
			}
		}
		r.Check(ok, "R12.C", "salt-width", c.pos(enc.Pos()), "the salt is written as 8 little-endian bytes")
	}

	// ---- R12.E ----------------------------------------------------------------------------------
	for _, fd := range []struct{ recv, name string }{{"*genericFileSessionLoader", "Load"}, {"*tokenStorageFormat", "readSession"}, {"", "decodeInt64ToBase64"}} {
		f := c.fn("R12.E", load.SessPkg, fd.recv, fd.name)
		if f == nil {
			continue
		}
		ord := map[string]int{}
		for _, es := range errorSites(f) {
			if strings.HasPrefix(es.cs.Name, "github.com/pkg/errors.") || strings.HasPrefix(es.cs.Name, "github.com/xelaj/errs.") || strings.HasPrefix(es.cs.Name, "fmt.") {
				continue
			}
			ord[es.cs.Name]++
			ok, why := errorReturned(f, es.val)
			r.Check(ok, "R12.E", sprintf("error:%s/%s#%d", fd.name, shortCallee(es.cs.Name), ord[es.cs.Name]), c.pos(es.cs.Pos()), why)
		}
	}
	if f := c.P.Func(load.SessPkg, "*genericFileSessionLoader", "Load"); f != nil {
		ok := false
		for _, i := range an.Ifs(f) {
			cd, okc := an.Classify(i)
			if !okc || !strings.HasSuffix(cd.Kind, "errors.Is") {
				continue
			}
			if k, isK := an.ConstInt(an.Unconv(cd.Y)); isK && k == 2 { // syscall.ENOENT
				for _, in := range cd.EdgeWhen(true).To().Instrs {
					if ret, okr := an.AsReturn(in); okr && len(ret.Results) == 2 && strings.Contains(tr.OriginString(an.RetVal(ret, 1)), "errs.NotFound") {
						ok = true
					}
					if call, okc := in.(*ssa.Call); okc && strings.HasPrefix(an.CalleeName(call.Common()), "github.com/xelaj/errs.NotFound") {
						ok = true // made here and handed on through a result variable
					}
				}
			}
		}
		r.Check(ok, "R12.E", "missing-file→NotFound", c.pos(f.Pos()), "errors.Is(err, ENOENT) returns errs.NotFound")
	}
	if f := c.fn("R12.E", load.RootMod, "", "NewMTProto"); f != nil {
		errV, _ := errResultOf(f, "SessionLoader).Load")
		var allocs []ssa.Instruction
		for _, b := range f.Blocks {
			for _, in := range b.Instrs {
				if al, ok := in.(*ssa.Alloc); ok && strings.HasSuffix(typeString(al.Type()), "mtproto.MTProto") {
					allocs = append(allocs, al)
				}
			}
		}
		if errV == nil || len(allocs) == 0 {
			r.Undecide("R12.E", "NewMTProto:only-NotFound-is-no-session", c.pos(f.Pos()), "Load's error or the MTProto allocation not found")
		} else {
			reach := an.ReachWith(f, nil, func(i *ssa.If) (int, bool) {
				cd, ok := an.Classify(i)
				if !ok || an.Unconv(cd.X) != errV {
					return 0, false
				}
				switch {
				case cd.Kind == "nil":
					return cd.EdgeWhen(false).Succ, true
				case strings.HasSuffix(cd.Kind, "errs.IsNotFound"):
					return cd.EdgeWhen(false).Succ, true
				}
				return 0, false
			})
			r.Check(!reach[allocs[0].Block()], "R12.E", "NewMTProto:only-NotFound-is-no-session", c.pos(f.Pos()), "with a non-nil error that is not NotFound no client is constructed")
		}
	}

	// ---- R12.M ----------------------------------------------------------------------------------
	if f := c.P.Func(load.SessPkg, "*genericFileSessionLoader", "Load"); f != nil {
		var hits []ssa.Instruction
		for _, b := range f.Blocks {
			for _, in := range b.Instrs {
				if ret, ok := an.AsReturn(in); ok && len(ret.Results) == 2 && strings.Contains(tr.OriginString(an.RetVal(ret, 0)), "genericFileSessionLoader.cached") {
					hits = append(hits, ret)
				}
			}
		}
		if len(hits) == 0 {
			r.Hold("R12.M", "cache-hit:none", c.pos(f.Pos()), "Load never returns the cached session (no cache): nothing to guard")
		} else {
			var eqEdge, nnEdge *an.Edge
			for _, i := range an.Ifs(f) {
				cd, ok := an.Classify(i)
				if !ok {
					continue
				}
				if strings.HasSuffix(cd.Kind, "(time.Time).Equal") {
					xo, yo := tr.OriginString(cd.X), tr.OriginString(cd.Y)
					if strings.Contains(xo+yo, "ModTime") && strings.Contains(xo+yo, "genericFileSessionLoader.lastEdited") {
						e := cd.EdgeWhen(true)
						eqEdge = &e
					}
				}
				if cd.Kind == "nil" && strings.Contains(tr.OriginString(cd.X), "genericFileSessionLoader.cached") {
					e := cd.EdgeWhen(false)
					nnEdge = &e
				}
			}
			ok := eqEdge != nil && nnEdge != nil && len(an.Guarded(f, []an.Edge{*eqEdge}, hits)) == 0 && len(an.Guarded(f, []an.Edge{*nnEdge}, hits)) == 0
			r.Check(ok, "R12.M", "cache-hit:guarded", c.pos(hits[0].Pos()), "returning l.cached requires ModTime().Equal(l.lastEdited) and l.cached != nil")
			// the mtime compared is that of the file just stat'ed
			// assigned together
			var cb, lb *ssa.BasicBlock
			for _, b := range f.Blocks {
				for _, in := range b.Instrs {
					if st, ok := in.(*ssa.Store); ok {
						if fa, ok := st.Addr.(*ssa.FieldAddr); ok {
							switch an.FieldName(fa.X.Type(), fa.Field) {
							case "session.genericFileSessionLoader.cached":
								cb = b
							case "session.genericFileSessionLoader.lastEdited":
								lb = b
								if !strings.Contains(tr.OriginString(st.Val), "ModTime") {
									lb = nil
								}
							}
						}
					}
				}
			}
			r.Check(cb != nil && cb == lb, "R12.M", "cache-fill:together", c.pos(f.Pos()), "cached and lastEdited (= the stat'ed ModTime) are assigned in the same block")
		}
	}

	// ---- R12.D ----------------------------------------------------------------------------------
	if f := c.fn("R12.D", load.SessPkg, "*genericFileSessionLoader", "Store"); f != nil {
		n := 0
		for _, cs := range an.Calls(f) {
			if cs.Name != load.DryPkg+".FileExists" && cs.Name != load.DryPkg+".FileIsDir" && cs.Name != "os.Stat" && cs.Name != "os.Lstat" {
				continue
			}
			n++
			os := tr.Origins(cs.Common.Args[0])
			bare := false
			for _, o := range os {
				if strings.HasPrefix(o, "call:path/filepath.Split#0") {
					bare = true
				}
			}
			guarded := false
			if bare {
				// an `== ""` test of the same value dominating the call, or an alternative origin (phi with a literal)
				for _, i := range an.Ifs(f) {
					cd, ok := an.Classify(i)
					if ok && cd.Kind == "eq" && (isConstString(cd.Y, "") || isConstString(cd.X, "")) && strings.Contains(tr.OriginString(cd.X)+tr.OriginString(cd.Y), "filepath.Split#0") {
						if len(an.Guarded(f, []an.Edge{cd.EdgeWhen(false)}, []ssa.Instruction{cs.Instr})) == 0 {
							guarded = true
						}
					}
				}
				if len(os) > 1 {
					guarded = true
				}
			}
			key := sprintf("dir-arg:%s#%d", shortCallee(cs.Name), n)
			r.Check(!bare || guarded, "R12.D", key, c.pos(cs.Pos()), "directory argument: "+simplifyOrigin(strings.Join(os, " | "))+` — filepath.Split("bare.json") yields "" and the existence test fails`)
		}
		if n == 0 {
			r.Hold("R12.D", "dir-arg:none", c.pos(f.Pos()), "Store does not test a directory")
		}
	}

	// "every path whose directory exists": the directory exists when the operating system resolves it, links
	// included - which is how WriteFile and ReadFile will resolve it. A probe that looks at the link itself
	// (Lstat, Readlink, directory listings) refuses a linked directory the write would have accepted.
	{
		var entries []*ssa.Function
		for _, n := range []string{"Store", "Load"} {
			if f := c.P.Func(load.SessPkg, "*genericFileSessionLoader", n); f != nil {
				entries = append(entries, f)
			}
		}
		g := c.Graph()
		reach := g.Reachable(entries, func(f *ssa.Function) bool { return c.P.InRepoOrDry(f) })
		var fns []*ssa.Function
		for f := range reach {
			if c.P.InRepoOrDry(f) && len(f.Blocks) > 0 {
				fns = append(fns, f)
			}
		}
		sort.Slice(fns, func(i, j int) bool { return fns[i].String() < fns[j].String() })
		noFollow := map[string]bool{"os.Lstat": true, "os.Readlink": true, "os.ReadDir": true, "io/ioutil.ReadDir": true, "path/filepath.Walk": true, "path/filepath.WalkDir": true, "(*os.File).Readdir": true, "(*os.File).ReadDir": true}
		follow := map[string]bool{"os.Stat": true, "(*os.File).Stat": true}
		probes := 0
		for _, f := range fns {
			k := 0
			for _, cs := range an.Calls(f) {
				if !noFollow[cs.Name] && !follow[cs.Name] {
					continue
				}
				probes++
				k++
				r.Check(follow[cs.Name], "R12.D", sprintf("probe-follows-links:%s/%s#%d", an.ShortName(f), shortCallee(cs.Name), k), c.pos(cs.Pos()), cs.Name+" examines the path without following a symbolic link: a session directory that is a link to a directory exists for the write and the read, yet this probe reports something else")
			}
		}
		if probes == 0 {
			r.Hold("R12.D", "probe-follows-links:none", "", "no file-system probe on the Store/Load paths")
		}
	}

	// ---- R12.W ----------------------------------------------------------------------------------
	// "all store/load sequences on one path": the loader works on the path it was given - the string handed to
	// NewFromFile is the string every later stat / read / write uses (an expansion of $VAR, ~ or a cleaned-up form
	// makes two loaders built from one string disagree, or puts the session somewhere else)
	// "relative, absolute and bare-filename paths": filepath.Split("session.json") gives the directory "" (which
	// is no directory), filepath.Dir gives "." - nothing on the way from the configuration to the store takes a
	// session path apart with Split
	r.Rule("R12.S", "the session is saved on every salt change (= R11.V filed under C12): each store to MTProto.serverSalt in processResponse is followed by SaveSession on every path to a return", 2)
	c.saltSavedOnEveryPath("R12.S")
	r.Rule("R12.B", "no call of path/filepath.Split (or path.Split) on a value derived from the session path in packages telegram, session and the root package: a bare file name must keep \".\" as its directory", 1)
	{
		n, calls := 0, 0
		for f := range c.P.AllFunctions() {
			pp := load.FuncPkgPath(f)
			if len(f.Blocks) == 0 || !(pp == load.TgPkg || pp == load.SessPkg || pp == load.RootMod) {
				continue
			}
			n++
			for _, cs := range an.Calls(f) {
				if cs.Name != "path/filepath.Split" && cs.Name != "path.Split" {
					continue
				}
				d := an.NewDeps(c.inRepo).Of(cs.Common.Args[0])
				if d.Has("SessionFile") || d.Has("AuthKeyFile") || d.Has("genericFileSessionLoader.path") || d.Has("session.NewFromFile") {
					calls++
					r.Violate("R12.B", sprintf("bare-name:%s#%d", an.ShortName(f), calls), c.pos(cs.Pos()), "the session path is taken apart with Split: for a bare file name the directory part is \"\", which no directory test accepts")
				}
			}
		}
		if calls == 0 {
			r.Hold("R12.B", "bare-name:no-split", "", sprintf("%d functions, no Split of a session path", n))
		}
	}
	r.Rule("R12.P", "NewFromFile stores its argument itself in the loader's path field (no expansion, cleaning or joining in between)", 1)
	if f := c.fn("R12.P", load.SessPkg, "", "NewFromFile"); f != nil && len(f.Params) == 1 {
		n := 0
		for _, b := range f.Blocks {
			for _, in := range b.Instrs {
				st, ok := in.(*ssa.Store)
				if !ok {
					continue
				}
				fa, ok := st.Addr.(*ssa.FieldAddr)
				if !ok || !strings.HasSuffix(an.FieldName(fa.X.Type(), fa.Field), "genericFileSessionLoader.path") {
					continue
				}
				n++
				r.Check(st.Val == ssa.Value(f.Params[0]), "R12.P", "path:as-given", c.pos(st.Pos()), "the path field is set to "+st.Val.String())
			}
		}
		if n == 0 {
			r.Undecide("R12.P", "path:as-given", c.pos(f.Pos()), "no store to the loader's path field in NewFromFile")
		}
	}

	r.Rule("R12.W", "Store replaces the whole file (WriteFile / Create / OpenFile with O_TRUNC / write-then-rename) and every exit that may report success passes the write: the last store wins byte for byte", 2)
	if f := c.P.Func(load.SessPkg, "*genericFileSessionLoader", "Store"); f != nil {
		verdict, detail := "", ""
		for _, cs := range an.Calls(f) {
			switch cs.Name {
			case "io/ioutil.WriteFile", "os.WriteFile", "os.Create", "os.Rename":
				if verdict == "" {
					verdict, detail = "ok", cs.Name
				}
			case "os.OpenFile":
				flags, isConst := an.ConstInt(cs.Common.Args[1])
				const oTrunc = 0x200 // syscall.O_TRUNC on linux, darwin: 0x400, windows: 0x200
				trunc := isConst && (flags&0x200 != 0 || flags&0x400 != 0)
				if !isConst {
					verdict, detail = "undecided", "os.OpenFile with non-constant flags"
				} else if !trunc {
					verdict, detail = "bad", sprintf("os.OpenFile(path, %#x, …) without O_TRUNC: a shorter session written over a longer one leaves the old tail behind and the file no longer parses", flags)
				} else if verdict == "" {
					verdict, detail = "ok", "os.OpenFile with O_TRUNC"
				}
				_ = oTrunc
			}
		}
		c.storeSuccessMeansWritten("R12.W", f)
		// write-aside-and-rename works only inside one file system: the file that is renamed into place has to be
		// created in the directory of the session file, not in the system's temp directory
		for _, cs := range an.Calls(f) {
			if cs.Name != "io/ioutil.TempFile" && cs.Name != "os.CreateTemp" {
				continue
			}
			dirArg := cs.Common.Args[0]
			d := an.NewDeps(c.inRepo).Of(dirArg)
			okDir := d.Has("field:session.genericFileSessionLoader.path")
			if k, isK := dirArg.(*ssa.Const); isK && k.Value != nil && k.Value.ExactString() == `""` {
				okDir = false
			}
			r.Check(okDir, "R12.W", "store:temp-file-beside-the-target", c.pos(cs.Pos()), "the temporary file that is renamed over the session file is created in a directory derived from the session path (rename does not cross file systems; \"\" means os.TempDir()); roots: "+strings.Join(an.SortedKeys(d.Roots), ", "))
		}
		switch verdict {
		case "ok":
			r.Hold("R12.W", "store:whole-file-write", c.pos(f.Pos()), "the session bytes are written with "+detail)
		case "bad":
			r.Violate("R12.W", "store:whole-file-write", c.pos(f.Pos()), detail)
		default:
			r.Undecide("R12.W", "store:whole-file-write", c.pos(f.Pos()), "no recognised whole-file write idiom in Store ("+detail+")")
		}
	}

	// "a missing file is reported as 'not found'" - and only a missing file: every exit of Load that returns
	// errs.NotFound lies behind the true edge of errors.Is(err, ENOENT) on the error of the stat / open
	if f := c.P.Func(load.SessPkg, "*genericFileSessionLoader", "Load"); f != nil {
		var bad []string
		n := 0
		// judged where the 'not found' error is made: it is returned from there, directly or through the result
		// variable of a helper that was inlined
		var made []ssa.Instruction
		for _, cs := range an.Calls(f) {
			if strings.HasPrefix(cs.Name, "github.com/xelaj/errs.NotFound") {
				made = append(made, cs.Instr)
			}
		}
		for _, ret := range made {
			n++
			guarded := an.DominatingGuard(f, ret, func(cd *an.Cond) int {
				if strings.HasSuffix(cd.Kind, "errors.Is") || cd.Kind == "call:os.IsNotExist" || cd.Kind == "call:errors.Is" {
					return cd.EdgeWhen(true).Succ
				}
				return -1
			})
			if !guarded {
				bad = append(bad, "the exit at "+c.pos(ret.Pos())+" reports 'not found' without the file having been found missing")
			}
		}
		r.Check(len(bad) == 0, "R12.E", "load:not-found-only-when-missing", c.pos(f.Pos()), sprintf("%d exit(s) return errs.NotFound; %s (a file that exists - empty after a crash between truncation and write - is an error, or NewMTProto starts a new key exchange over it)", n, strings.Join(bad, "; ")))
	}
	// the counterpart on the read side: what is parsed is the whole file, whatever its size ("any length")
	if f := c.P.Func(load.SessPkg, "*genericFileSessionLoader", "Load"); f != nil {
		n := 0
		for _, cs := range an.CallsNamed(f, "encoding/json.Unmarshal") {
			n++
			verdict := "the parsed bytes come from " + simplifyOrigin(tr.OriginString(cs.Common.Args[0])) + ", not from a read of the whole file"
			okRead := false
			src := cs.Common.Args[0]
			if ex, isEx := src.(*ssa.Extract); isEx && ex.Index == 0 {
				if call, isCall := ex.Tuple.(*ssa.Call); isCall {
					switch an.CalleeName(call.Common()) {
					case "io/ioutil.ReadFile", "os.ReadFile":
						okRead = true
					case "io/ioutil.ReadAll", "io.ReadAll":
						rd := call.Call.Args[0]
						if mi, isMI := rd.(*ssa.MakeInterface); isMI {
							rd = mi.X
						}
						if e2, isE2 := rd.(*ssa.Extract); isE2 && e2.Index == 0 {
							if c2, isC2 := e2.Tuple.(*ssa.Call); isC2 && (an.CalleeName(c2.Common()) == "os.Open" || an.CalleeName(c2.Common()) == "os.OpenFile") {
								okRead = true
							}
						}
						if !okRead {
							verdict = "ReadAll reads from " + simplifyOrigin(tr.OriginString(call.Call.Args[0])) + ", not from the file itself: a limited or buffered reader in between cuts a session that is longer than it expects, and the intact file is reported as torn"
						}
					}
				}
			}
			r.Check(okRead, "R12.W", sprintf("load:whole-file-read#%d", n), c.pos(cs.Pos()), verdict)
		}
		if n == 0 {
			r.Undecide("R12.W", "load:whole-file-read", c.pos(f.Pos()), "no json.Unmarshal call in Load")
		}
	}

	// ---- R12.R ----------------------------------------------------------------------------------
	if f := c.fn("R12.R", load.RootMod, "*MTProto", "CreateConnection"); f != nil {
		var calls []ssa.Instruction
		for _, cs := range an.CallsNamed(f, "(*"+load.RootMod+".MTProto).makeAuthKey") {
			calls = append(calls, cs.Instr)
		}
		ok := false
		for _, i := range an.Ifs(f) {
			cd, okc := an.Classify(i)
			if okc && cd.Kind == "bool" && strings.HasSuffix(tr.OriginString(cd.X), "mtproto.MTProto.encrypted") {
				// edge on which encrypted is false
				e := cd.EdgeWhen(false)
				if len(calls) > 0 && len(an.Guarded(f, []an.Edge{e}, calls)) == 0 {
					ok = true
				}
			}
		}
		r.Check(ok && len(calls) > 0, "R12.R", "resume:makeAuthKey-only-when-not-encrypted", c.pos(f.Pos()), sprintf("%d call(s) of makeAuthKey, all behind the !m.encrypted edge", len(calls)))
	}
	// who else calls makeAuthKey
	for f := range c.P.AllFunctions() {
		if !c.P.InRepo(f) || f.Synthetic != "" {
			continue
		}
		for _, cs := range an.CallsNamed(f, "(*"+load.RootMod+".MTProto).makeAuthKey") {
			top := f
			for top.Parent() != nil {
				top = top.Parent()
			}
			r.Check(top.Name() == "CreateConnection", "R12.R", "caller:makeAuthKey@"+an.ShortName(top), c.pos(cs.Pos()), "makeAuthKey may only be called from CreateConnection")
		}
	}
	if f := c.P.Func(load.RootMod, "", "NewMTProto"); f != nil {
		ok := false
		for _, b := range f.Blocks {
			for _, in := range b.Instrs {
				if st, oks := in.(*ssa.Store); oks {
					if fa, okf := st.Addr.(*ssa.FieldAddr); okf && an.FieldName(fa.X.Type(), fa.Field) == "mtproto.MTProto.encrypted" {
						o := tr.OriginString(st.Val)
						ok = strings.Contains(o, "SessionLoader).Load#0 != nil")
					}
				}
			}
		}
		r.Check(ok, "R12.R", "resume:encrypted-iff-session-loaded", c.pos(f.Pos()), "encrypted is initialised with `loaded session != nil`")
	}
}

// storeSuccessMeansWritten: a Store that reports success has written - every exit of the file loader's Store
// that may return nil passes a write call.
func (c *Ctx) storeSuccessMeansWritten(rule string, f *ssa.Function) {
	r := c.R
	var writes []ssa.Instruction
	for _, cs := range an.Calls(f) {
		switch cs.Name {
		case "io/ioutil.WriteFile", "os.WriteFile", "os.Create", "os.Rename", "os.OpenFile", "(*os.File).Write":
			writes = append(writes, cs.Instr)
		}
	}
	nExit := 0
	for _, b := range f.Blocks {
		ret, ok := an.AsReturn(b.Instrs[len(b.Instrs)-1])
		if !ok || len(ret.Results) != 1 || an.NonNilError(an.RetVal(ret, 0), b) {
			continue
		}
		nExit++
		passed := false
		for _, w := range writes {
			if an.InstrDominates(w, ret) {
				passed = true
			}
		}
		r.Check(passed, rule, sprintf("store:success-means-written#%d", nExit), c.pos(ret.Pos()),
			"an exit of Store that may report success is reached without any write of the file: the caller believes the session is saved (a skipped write keeps whatever the file held)")
	}
	if nExit == 0 {
		r.Undecide(rule, "store:success-means-written", c.pos(f.Pos()), "Store has no exit that may report success")
	}
}
