package props

import (
	"go/ast"
	"go/constant"
	"go/token"
	"regexp"
	"sort"
	"strings"

	"verif/checker/internal/an"
	"verif/checker/internal/load"

	"golang.org/x/tools/go/packages"
	"golang.org/x/tools/go/ssa"
)

func init() { register("C17", c17) }

type errRow struct {
	prefix, suffix, kind string
	pos                  token.Pos
}

// errorTables evaluates specificErrors and errorMessages from the package-level composite literals.
func errorTables(pk *packages.Package) (rows []errRow, msgs map[string]string, ok bool) {
	msgs = map[string]string{}
	str := func(e ast.Expr) (string, bool) {
		v := pk.TypesInfo.Types[e].Value
		if v == nil || v.Kind() != constant.String {
			return "", false
		}
		return constant.StringVal(v), true
	}
	found := 0
	for _, f := range pk.Syntax {
		for _, d := range f.Decls {
			gd, isGen := d.(*ast.GenDecl)
			if !isGen || gd.Tok != token.VAR {
				continue
			}
			for _, sp := range gd.Specs {
				vs := sp.(*ast.ValueSpec)
				for i, n := range vs.Names {
					if i >= len(vs.Values) {
						continue
					}
					cl, isCl := vs.Values[i].(*ast.CompositeLit)
					if !isCl {
						continue
					}
					switch n.Name {
					case "specificErrors":
						found++
						for _, e := range cl.Elts {
							rl, isRow := e.(*ast.CompositeLit)
							if !isRow || len(rl.Elts) != 3 {
								return nil, nil, false
							}
							var vals [3]ast.Expr
							for k, el := range rl.Elts {
								if kv, isKV := el.(*ast.KeyValueExpr); isKV {
									switch kv.Key.(*ast.Ident).Name {
									case "prefix":
										vals[0] = kv.Value
									case "suffix":
										vals[1] = kv.Value
									case "kind":
										vals[2] = kv.Value
									}
								} else {
									vals[k] = el
								}
							}
							p, ok1 := str(vals[0])
							s, ok2 := str(vals[1])
							kv := pk.TypesInfo.Types[vals[2]].Value
							if !ok1 || !ok2 || kv == nil {
								return nil, nil, false
							}
							kn, _ := constant.Int64Val(kv)
							kind := "?"
							if kn >= 0 && int(kn) < len(reflectKindNames) {
								kind = reflectKindNames[kn]
							}
							rows = append(rows, errRow{p, s, kind, rl.Pos()})
						}
					case "errorMessages":
						found++
						for _, e := range cl.Elts {
							kv, isKV := e.(*ast.KeyValueExpr)
							if !isKV {
								return nil, nil, false
							}
							k, ok1 := str(kv.Key)
							v, ok2 := str(kv.Value)
							if !ok1 || !ok2 {
								return nil, nil, false
							}
							msgs[k] = v
						}
					}
				}
			}
		}
	}
	return rows, msgs, found == 2
}

var verbRe = regexp.MustCompile(`%[+\-# 0]*[0-9]*(\.[0-9]+)?[a-zA-Z]`)

func c17(c *Ctx) {
	r := c.R
	r.Explanation = "RPC error expansion is table-driven, so its totality is a table property plus a panic census: every row of the prefix/suffix table names " +
		"a catalogued message with exactly one formatting verb, kinds are Int/String, no two rows can match the same text with different results, the " +
		"PHONE_MIGRATE_ row is Int; every panic-capable operation reachable from RpcErrorToNative / tryToProcessErr is discharged by a guard, by a table " +
		"condition, or reported; the structured error's fields come from the server's code, the normalised name and the parsed parameter; an unknown data " +
		"centre yields an error, a known one stores the address and reconnects before the request is re-issued."
	r.NotDecided = []string{"delivery of the error to the right caller beyond the registration order (C09)", "that the reconnect after PHONE_MIGRATE succeeds (network)"}
	c.errorsKept("R17.X", "the request path (MakeRequest, makeRequest, sendPacket, tryToProcessErr, Reconnect)", 4, rootMethods("MakeRequest", "MakeRequestWithHintToDecoder", "makeRequest", "sendPacket", "tryToProcessErr", "Reconnect", "Disconnect"))
	// the structured error is a function of the reply it was made from: a cache keyed by the text alone hands the
	// first code to every later reply with that text, in every client of the process
	r.Rule("R17.G", "nothing reachable from RpcErrorToNative / TryExpandError writes a package-level variable (a lock or a sync.Map does not excuse it): the conversion keeps no state between replies", 1)
	{
		var entries []*ssa.Function
		for _, n := range []string{"RpcErrorToNative", "TryExpandError", "BadMsgErrorFromNative"} {
			if f := c.P.Func(load.RootMod, "", n); f != nil {
				entries = append(entries, f)
			}
		}
		c.noGlobalWrites("R17.G", entries, "the error conversion: a later reply (of any client) would be answered from it")
	}

	r.Rule("R17.W", "an rpc_error that travels gzip_packed inside rpc_result reaches makeRequest as *RpcError (= R09.W filed under C17): the rpc_result arm takes the *GzipPacked wrapper off before the delivery, otherwise the caller gets (wrapper, nil) and PHONE_MIGRATE is never followed", 1)
	c.packedResultUnwrapped("R17.W")

	r.Rule("R17.T", "prefix/suffix table ⊆ catalogue, one verb per parametrised text, kinds ⊆ {Int,String}, unambiguous, PHONE_MIGRATE_ is Int", 16)
	r.Rule("R17.P", "every panic-capable operation reachable from RpcErrorToNative / tryToProcessErr / the error arm of makeRequest is discharged, accepted under a checked table condition, or a finding", 3)
	r.Rule("R17.F", "field provenance of ErrResponseCode: Code ← ErrorCode, Message ← normalised name, AdditionalInfo ← parsed parameter; RpcErrorToNative returns *ErrResponseCode on every path", 4)
	r.Rule("R17.D", "the rpc_error finds its caller: the waiter is registered under the request's id before the request is written (= C09 R09.O), so an error answered at once is not dropped as 'not found'", 1)
	c.registerBeforeWrite("R17.D")
	r.Rule("R17.M", "PHONE_MIGRATE_X: unknown DC → error; known DC → address stored, Reconnect, request re-issued", 3)
	tr := an.NewTracer()
	pk := c.P.Pkg(load.RootMod)
	rows, msgs, ok := errorTables(pk)
	conds := map[string]bool{}
	if !ok || len(rows) == 0 {
		r.Undecide("R17.T", "tables", "", "specificErrors / errorMessages are not composite literals of constant strings")
	} else {
		kindsOK := true
		for _, row := range rows {
			name := row.prefix + "X" + row.suffix
			text, inCat := msgs[name]
			nverb := len(verbRe.FindAllString(strings.ReplaceAll(text, "%%", ""), -1))
			var bad []string
			if !inCat {
				bad = append(bad, "not in errorMessages")
			} else if nverb != 1 {
				bad = append(bad, sprintf("catalogue text has %d formatting verbs: %q", nverb, text))
			}
			if row.kind != "Int" && row.kind != "String" {
				bad = append(bad, "kind "+row.kind+" is not handled by TryExpandError")
				kindsOK = false
			}
			r.Check(len(bad) == 0, "R17.T", "row:"+name, c.pos(row.pos), strings.Join(bad, "; "))
		}
		conds["error-kinds-int-or-string"] = kindsOK
		// ambiguity
		var amb []string
		for i := range rows {
			for j := i + 1; j < len(rows); j++ {
				a, b := rows[i], rows[j]
				pre := strings.HasPrefix(a.prefix, b.prefix) || strings.HasPrefix(b.prefix, a.prefix)
				suf := strings.HasSuffix(a.suffix, b.suffix) || strings.HasSuffix(b.suffix, a.suffix)
				if pre && suf && (a.prefix != b.prefix || a.suffix != b.suffix) {
					amb = append(amb, a.prefix+"…"+a.suffix+" ~ "+b.prefix+"…"+b.suffix)
				}
				if a.prefix == b.prefix && a.suffix == b.suffix {
					amb = append(amb, "duplicate row "+a.prefix+"…"+a.suffix)
				}
			}
		}
		r.Check(len(amb) == 0, "R17.T", "unambiguous", "", "pairs of rows that can match the same text: "+strings.Join(amb, "; "))
		pm := false
		for _, row := range rows {
			if row.prefix == "PHONE_MIGRATE_" && row.suffix == "" && row.kind == "Int" {
				pm = true
			}
		}
		conds["phone-migrate-row-int"] = pm
		r.Check(pm, "R17.T", "row-kind:PHONE_MIGRATE_X", "", "the PHONE_MIGRATE_ row is of kind Int (tryToProcessErr asserts .(int))")
		// catalogue texts without parameter must not contain verbs that Sprintf would misread: only parametrised names are formatted
		var verbs []string
		param := map[string]bool{}
		for _, row := range rows {
			param[row.prefix+"X"+row.suffix] = true
		}
		var names []string
		for k := range msgs {
			names = append(names, k)
		}
		sort.Strings(names)
		for _, k := range names {
			if !param[k] && len(verbRe.FindAllString(strings.ReplaceAll(msgs[k], "%%", ""), -1)) > 0 && strings.Contains(k, "_X") {
				verbs = append(verbs, k)
			}
		}
		r.Check(len(verbs) == 0, "R17.T", "catalogue:parametrised-texts-have-rows", "", "catalogued texts with a verb but no prefix/suffix row (their parameter is never extracted): "+strings.Join(verbs, ", "))
		r.Extra["table_rows"] = len(rows)
		r.Extra["catalogue_entries"] = len(msgs)
	}

	// ---- R17.F ----------------------------------------------------------------------------------
	native := c.fn("R17.F", load.RootMod, "", "RpcErrorToNative")
	expand := c.fn("R17.F", load.RootMod, "", "TryExpandError")
	if native != nil {
		allPtr := true
		nRet := 0
		for _, b := range native.Blocks {
			for _, in := range b.Instrs {
				if ret, ok := an.AsReturn(in); ok && len(ret.Results) == 1 {
					nRet++
					if !strings.HasPrefix(tr.OriginString(an.RetVal(ret, 0)), "alloc:mtproto.ErrResponseCode") {
						allPtr = false
					}
				}
			}
		}
		conds["native-returns-ErrResponseCode"] = allPtr && nRet > 0
		r.Check(allPtr && nRet > 0, "R17.F", "native:returns-*ErrResponseCode", c.pos(native.Pos()), "every return of RpcErrorToNative is a freshly built *ErrResponseCode (makeRequest asserts it)")
		want := map[string][]string{"Code": {"objects.RpcError.ErrorCode"}, "Message": {"TryExpandError#0"}, "AdditionalInfo": {"TryExpandError#1"}}
		for _, b := range native.Blocks {
			for _, in := range b.Instrs {
				if st, ok := in.(*ssa.Store); ok {
					if fa, ok := st.Addr.(*ssa.FieldAddr); ok {
						fn := strings.TrimPrefix(an.FieldName(fa.X.Type(), fa.Field), "mtproto.ErrResponseCode.")
						if subs, ok := want[fn]; ok {
							o := tr.OriginString(st.Val)
							r.Check(originHasAll([]string{o}, subs), "R17.F", "field:"+fn, c.pos(st.Pos()), fn+" ← "+simplifyOrigin(o))
							if fn == "Code" {
								// the server's code itself: the conversion of the field load, no arithmetic, no
								// choice between two values (a sign "normalised" away is another code)
								exact := false
								v := st.Val
								if cv, ok := v.(*ssa.Convert); ok {
									v = cv.X
								}
								if ld, ok := v.(*ssa.UnOp); ok && ld.Op == token.MUL {
									if fa2, ok := ld.X.(*ssa.FieldAddr); ok && an.FieldName(fa2.X.Type(), fa2.Field) == "objects.RpcError.ErrorCode" {
										exact = true
									}
								}
								r.Check(exact, "R17.F", "field:Code/the-servers-code-itself", c.pos(st.Pos()), "Code is "+st.Val.String()+" (must be the conversion of rpc_error.error_code and nothing else)")
							}
							delete(want, fn)
						}
					}
				}
			}
		}
		for fn := range want {
			r.Violate("R17.F", "field:"+fn, c.pos(native.Pos()), "ErrResponseCode."+fn+" is not assigned")
		}
		// Sprintf only with additional data
		for _, cs := range an.CallsNamed(native, "fmt.Sprintf") {
			guarded := an.DominatingGuard(native, cs.Instr, func(cd *an.Cond) int {
				if cd.Kind == "nil" && strings.Contains(tr.OriginString(cd.X), "TryExpandError#1") {
					return cd.EdgeWhen(false).Succ
				}
				return -1
			})
			r.Check(guarded, "R17.F", "format:only-with-parameter", c.pos(cs.Pos()), "fmt.Sprintf(desc, data) runs only when a parameter was extracted, i.e. desc is a catalogue text with one verb (an unknown text containing % is never a format)")
		}
	}
	if expand != nil {
		okName, okNum := false, false
		for _, b := range expand.Blocks {
			for _, in := range b.Instrs {
				if ret, ok := an.AsReturn(in); ok && len(ret.Results) == 2 {
					o0, o1 := tr.OriginString(an.RetVal(ret, 0)), tr.OriginString(an.RetVal(ret, 1))
					if strings.Contains(o0, `+ const:"X")`) && strings.Contains(o0, "prefixSuffix.prefix") && strings.Contains(o0, "prefixSuffix.suffix") {
						okName = true
					}
					if strings.Contains(o1, "strconv.Atoi#0") {
						okNum = true
					}
				}
			}
		}
		r.Check(okName && okNum, "R17.F", "expand:name-and-parameter", c.pos(expand.Pos()), "normalised name = prefix + \"X\" + suffix; parameter = Atoi(text between prefix and suffix)")
	}

	// ---- R17.P ----------------------------------------------------------------------------------
	var entries []*ssa.Function
	for _, e := range []*ssa.Function{native, expand, c.fn("R17.P", load.RootMod, "*MTProto", "tryToProcessErr")} {
		if e != nil {
			entries = append(entries, e)
		}
	}
	n, d, a := c.runCensus("R17.P", entries, nil, conds)
	r.Extra["census_sites"] = n
	r.Extra["census_discharged"] = d
	r.Extra["census_accepted"] = a
	r.Extra["table_conditions"] = conds
	// the assertion in makeRequest's error arm
	if mk := c.fn("R17.P", load.RootMod, "*MTProto", "makeRequest"); mk != nil {
		for _, b := range mk.Blocks {
			for _, in := range b.Instrs {
				if ta, ok := in.(*ssa.TypeAssert); ok && !ta.CommaOk && strings.Contains(tr.OriginString(ta.X), "RpcErrorToNative") {
					r.Check(conds["native-returns-ErrResponseCode"], "R17.P", "ppo:(*mtproto.MTProto).makeRequest/assert:.(*ErrResponseCode)", c.pos(ta.Pos()), "realErr.(*ErrResponseCode): discharged because RpcErrorToNative returns that type on every path")
				}
			}
		}
	}

	// ---- R17.M ----------------------------------------------------------------------------------
	if tp := c.P.Func(load.RootMod, "*MTProto", "tryToProcessErr"); tp != nil {
		var found *an.Cond
		for _, i := range an.Ifs(tp) {
			cd, ok := an.Classify(i)
			if !ok || cd.Kind != "bool" {
				continue
			}
			if ex, isEx := cd.X.(*ssa.Extract); isEx && ex.Index == 1 {
				if lk, isLk := ex.Tuple.(*ssa.Lookup); isLk && strings.HasSuffix(tr.OriginString(lk.X), "MTProto.dclist") {
					found = cd
				}
			}
		}
		if found == nil {
			r.Violate("R17.M", "dc-lookup", c.pos(tp.Pos()), "no `addr, found := m.dclist[id]` test")
		} else {
			missB, hitB := found.EdgeWhen(false).To(), found.EdgeWhen(true).To()
			errOK := false
			for _, in := range missB.Instrs {
				if ret, ok := an.AsReturn(in); ok && len(ret.Results) == 1 && !an.MayReturnNil(ret, 0) {
					errOK = true
				}
			}
			r.Check(errOK, "R17.M", "unknown-dc-is-error", c.pos(found.If.Cond.Pos()), "a data centre that is not configured yields a non-nil error")
			stored, reconn := false, false
			for _, in := range hitB.Instrs {
				if st, ok := in.(*ssa.Store); ok {
					if fa, ok := st.Addr.(*ssa.FieldAddr); ok && an.FieldName(fa.X.Type(), fa.Field) == "mtproto.MTProto.addr" {
						stored = true
					}
				}
				if call, ok := in.(ssa.CallInstruction); ok && strings.HasSuffix(an.CalleeName(call.Common()), "MTProto).Reconnect") {
					reconn = stored
				}
			}
			r.Check(stored && reconn, "R17.M", "known-dc-switches-and-reconnects", c.pos(found.If.Cond.Pos()), "m.addr is set to the configured address and then Reconnect() is called")
			// … and the outcome of the handling is the outcome of the reconnect: every exit after it returns
			// Reconnect()'s result (nil = handled, the caller repeats the request), never the original error
			var rc ssa.Value
			for _, cs := range an.Calls(tp) {
				if strings.HasSuffix(cs.Name, "MTProto).Reconnect") && cs.Value() != nil {
					rc = cs.Value()
				}
			}
			okRet, nRet := rc != nil, 0
			if rc != nil {
				seen := map[*ssa.BasicBlock]bool{}
				var walk func(b *ssa.BasicBlock)
				walk = func(b *ssa.BasicBlock) {
					if seen[b] {
						return
					}
					seen[b] = true
					if ret, ok := an.AsReturn(b.Instrs[len(b.Instrs)-1]); ok && len(ret.Results) == 1 {
						nRet++
						v := an.RetVal(ret, 0)
						if phi, isPhi := v.(*ssa.Phi); isPhi {
							for _, e := range phi.Edges {
								if e != rc && !an.IsNilConst(e) {
									okRet = false
								}
							}
						} else if v != rc && !an.IsNilConst(v) {
							okRet = false
						}
					}
					for _, s := range b.Succs {
						walk(s)
					}
				}
				walk(rc.(*ssa.Call).Block())
			}
			r.Check(okRet && nRet > 0, "R17.M", "handled-means-nil", c.pos(found.If.Cond.Pos()), "after the reconnect the function returns the reconnect's own result: a successful switch is reported as nil so that the request is repeated")
		}
	}
	if mk := c.P.Func(load.RootMod, "*MTProto", "makeRequest"); mk != nil {
		// after tryToProcessErr == nil the same request is issued again
		ok := false
		for _, i := range an.Ifs(mk) {
			cd, okc := an.Classify(i)
			if !okc || cd.Kind != "nil" || !strings.Contains(tr.OriginString(cd.X), "tryToProcessErr") {
				continue
			}
			for _, in := range cd.EdgeWhen(true).To().Instrs {
				if call, okk := in.(*ssa.Call); okk && strings.HasSuffix(an.CalleeName(call.Common()), "MTProto).makeRequest") && isParam(call.Call.Args[1], mk, 1) {
					ok = true
				}
			}
		}
		r.Check(ok, "R17.M", "request-reissued", c.pos(mk.Pos()), "when the error was handled (nil), makeRequest(data, …) is called again with the same request")
	}
	c.reissueOnlyWhenAsked("R17.M")
	// "the address configured for data centre X": what SetDCList is given wins over what the table held (the built-in
	// addresses of data centres 1..5 are there from the start) - if the table is rebuilt aside, the caller's entries
	// are written after the old ones, not before
	if sd := c.P.Func(load.RootMod, "*MTProto", "SetDCList"); sd != nil && len(sd.Params) == 2 {
		fromParam := func(v ssa.Value) (isIn, isOld bool) {
			ex, ok := v.(*ssa.Extract)
			if !ok {
				return
			}
			nx, ok := ex.Tuple.(*ssa.Next)
			if !ok {
				return
			}
			rg, ok := nx.Iter.(*ssa.Range)
			if !ok {
				return
			}
			if rg.X == ssa.Value(sd.Params[1]) {
				return true, false
			}
			if strings.HasSuffix(tr.OriginString(rg.X), "MTProto.dclist") {
				return false, true
			}
			return
		}
		var ins, olds []*ssa.BasicBlock
		for _, b := range sd.Blocks {
			for _, in := range b.Instrs {
				if mu, ok := in.(*ssa.MapUpdate); ok {
					isIn, isOld := fromParam(mu.Value)
					if isIn {
						ins = append(ins, b)
					}
					if isOld {
						olds = append(olds, b)
					}
				}
			}
		}
		if len(ins) == 0 {
			r.Undecide("R17.M", "configured-address-wins", c.pos(sd.Pos()), "no map update from the entries of SetDCList's argument found")
		} else {
			okOrder := true
			for _, bi := range ins {
				for _, bo := range olds {
					if reachesBlock(bi, bo, map[*ssa.BasicBlock]bool{}) && !reachesBlock(bo, bi, map[*ssa.BasicBlock]bool{}) {
						okOrder = false
					}
				}
			}
			r.Check(okOrder, "R17.M", "configured-address-wins", c.pos(sd.Pos()), sprintf("%d update(s) from the argument, %d from the old table: the old entries are copied after the caller's and overwrite them (the built-in address of a data centre beats the configured one)", len(ins), len(olds)))
		}
	}
	// "reconnects to the address configured for data centre X": the address the migrate arm has just set is the one
	// Reconnect dials - nothing reachable from Reconnect (outside the key exchange) assigns MTProto.addr again
	if rc := c.P.Func(load.RootMod, "*MTProto", "Reconnect"); rc != nil {
		isKeyEx := func(f *ssa.Function) bool { return an.ShortName(f) == "(*mtproto.MTProto).makeAuthKey" }
		var bad []string
		nf := 0
		for f := range c.Graph().Reachable([]*ssa.Function{rc}, func(f *ssa.Function) bool { return c.P.InRepo(f) && !isKeyEx(f) && !isRequestBarrier(f) }) {
			if !c.P.InRepo(f) || isKeyEx(f) {
				continue
			}
			nf++
			for _, b := range f.Blocks {
				for _, in := range b.Instrs {
					if st, ok := in.(*ssa.Store); ok {
						if fa, ok := st.Addr.(*ssa.FieldAddr); ok && an.FieldName(fa.X.Type(), fa.Field) == "mtproto.MTProto.addr" {
							bad = append(bad, "MTProto.addr written in "+an.ShortName(f)+" at "+c.pos(st.Pos()))
						}
					}
				}
			}
		}
		sort.Strings(bad)
		r.Check(len(bad) == 0 && nf > 3, "R17.M", "reconnect-dials-the-address-just-set", c.pos(rc.Pos()), sprintf("%d functions reachable from Reconnect outside makeAuthKey; %s", nf, strings.Join(bad, "; ")))
	}
	// "the one error handled instead of returned is PHONE_MIGRATE_X": inside the rpc_error arm of makeRequest the
	// request is issued again only behind the nil edge of tryToProcessErr's result - no other code or text is retried
	if mk := c.P.Func(load.RootMod, "*MTProto", "makeRequest"); mk != nil {
		var armHead *ssa.BasicBlock
		for _, b := range mk.Blocks {
			for _, in := range b.Instrs {
				if ta, ok := in.(*ssa.TypeAssert); ok && ta.CommaOk && strings.HasSuffix(ta.AssertedType.String(), "objects.RpcError") {
					if i, ok := b.Instrs[len(b.Instrs)-1].(*ssa.If); ok {
						armHead = i.Block().Succs[0]
					}
				}
			}
		}
		var handled *an.Cond
		for _, i := range an.Ifs(mk) {
			cd, ok := an.Classify(i)
			if ok && cd.Kind == "nil" && strings.Contains(tr.OriginString(cd.X), "tryToProcessErr") {
				handled = cd
			}
		}
		if armHead == nil || handled == nil {
			r.Undecide("R17.M", "only-handled-errors-are-reissued", c.pos(mk.Pos()), "the rpc_error arm or the test of tryToProcessErr's result was not found in makeRequest")
		} else {
			var bad []string
			n := 0
			for _, cs := range an.Calls(mk) {
				if !strings.HasSuffix(cs.Name, "MTProto).makeRequest") || !armHead.Dominates(cs.Block) {
					continue
				}
				n++
				if len(an.Guarded(mk, []an.Edge{handled.EdgeWhen(true)}, []ssa.Instruction{cs.Instr})) != 0 {
					bad = append(bad, "the re-issue at "+c.pos(cs.Pos())+" does not depend on tryToProcessErr having handled the error")
				}
			}
			r.Check(len(bad) == 0 && n > 0, "R17.M", "only-handled-errors-are-reissued", c.pos(mk.Pos()), sprintf("%d re-issue(s) in the rpc_error arm; %s", n, strings.Join(bad, "; ")))
		}
	}
	c.handledOnlyByReconnect("R17.M")
	// "returns an error if X is not configured": the data centre looked up in the table is the number the server
	// named, as parsed - not its absolute value, not a default, not a neighbour
	if f := c.fn("R17.M", load.RootMod, "*MTProto", "tryToProcessErr"); f != nil {
		n := 0
		for _, b := range f.Blocks {
			for _, in := range b.Instrs {
				lk, ok := in.(*ssa.Lookup)
				if !ok {
					continue
				}
				ld, ok := lk.X.(*ssa.UnOp)
				if !ok {
					continue
				}
				fa, ok := ld.X.(*ssa.FieldAddr)
				if !ok || !strings.HasSuffix(an.FieldName(fa.X.Type(), fa.Field), "MTProto.dclist") {
					continue
				}
				n++
				exact := false
				if ex, ok := lk.Index.(*ssa.Extract); ok && ex.Index == 0 {
					if ta, ok := ex.Tuple.(*ssa.TypeAssert); ok && strings.Contains(an.NewTracer().OriginString(ta.X), "ErrResponseCode.AdditionalInfo") {
						exact = true
					}
				}
				r.Check(exact, "R17.M", sprintf("lookup:the-number-the-server-named#%d", n), c.pos(lk.Pos()), "the key of the data-centre lookup is "+lk.Index.String()+" (must be the asserted AdditionalInfo itself)")
			}
		}
		if n == 0 {
			r.Undecide("R17.M", "lookup:the-number-the-server-named", c.pos(f.Pos()), "no lookup in MTProto.dclist found in tryToProcessErr")
		}
	}
	// "the address configured for data centre X" is the configuration of THIS client: the table a client looks X
	// up in is a map made for it, not one it shares with every other client of the process (SetDCList writes
	// into the table in place)
	nst := 0
	var rootFns []*ssa.Function
	for f := range c.P.AllFunctions() {
		if f.Pkg != nil && f.Pkg.Pkg.Path() == load.RootMod && len(f.Blocks) > 0 {
			rootFns = append(rootFns, f)
		}
	}
	sort.Slice(rootFns, func(i, j int) bool { return rootFns[i].String() < rootFns[j].String() })
	for _, f := range rootFns {
		per := 0
		for _, b := range f.Blocks {
			for _, in := range b.Instrs {
				st, ok := in.(*ssa.Store)
				if !ok {
					continue
				}
				fa, ok := st.Addr.(*ssa.FieldAddr)
				if !ok {
					continue
				}
				if k, _ := fieldKeyOf(fa); !strings.HasSuffix(k, "mtproto.MTProto.dclist") {
					continue
				}
				nst++
				per++
				why := ""
				r.Check(freshMap(st.Val, 0, &why), "R17.M", sprintf("dc-table-per-client:%s#%d", an.ShortName(f), per), c.pos(st.Pos()), "the data-centre table of a client is a map made for that client; here it is "+why+": one client's SetDCList would reconfigure the others")
			}
		}
	}
	if nst == 0 {
		r.Undecide("R17.M", "dc-table-per-client", "", "no store to MTProto.dclist found")
	}
}

// freshMap: v is a map made by this very evaluation (make / map literal), possibly inside a repository function
// all of whose returns are such maps.
func freshMap(v ssa.Value, depth int, why *string) bool {
	if depth > 4 {
		*why = "too deep to follow"
		return false
	}
	switch x := v.(type) {
	case *ssa.MakeMap:
		return true
	case *ssa.Phi:
		for _, e := range x.Edges {
			if !freshMap(e, depth+1, why) {
				return false
			}
		}
		return true
	case *ssa.Call:
		if g := an.StaticCallee(x.Common()); g != nil && len(g.Blocks) > 0 && g.Signature.Results().Len() == 1 {
			n := 0
			for _, b := range g.Blocks {
				if ret, ok := an.AsReturn(b.Instrs[len(b.Instrs)-1]); ok {
					n++
					if !freshMap(an.RetVal(ret, 0), depth+1, why) {
						return false
					}
				}
			}
			return n > 0
		}
		*why = "the result of " + an.CalleeName(x.Common())
		return false
	case *ssa.UnOp:
		if g, ok := x.X.(*ssa.Global); ok {
			*why = "the package variable " + g.Name()
			return false
		}
	}
	*why = "a value that is not made on the spot (" + v.Name() + ")"
	return false
}

// reissueOnlyWhenAsked: makeRequest writes the request again only (a) in the rpc_error arm, behind a handled error,
// or (b) in an arm that is entered for *errorSessionConfigsChanged alone.  Any other answer - a dh_gen_retry, an
// rpc_error of some code - is handed to the caller, who decides.
func (c *Ctx) reissueOnlyWhenAsked(rule string) {
	r := c.R
	mk := c.P.Func(load.RootMod, "*MTProto", "makeRequest")
	if mk == nil {
		r.Undecide(rule, "reissue:only-when-asked", "", "makeRequest not found")
		return
	}
	okEdges := map[string][]an.Edge{}
	for _, b := range mk.Blocks {
		for _, in := range b.Instrs {
			ta, ok := in.(*ssa.TypeAssert)
			if !ok || !ta.CommaOk {
				continue
			}
			i, ok := b.Instrs[len(b.Instrs)-1].(*ssa.If)
			if !ok {
				continue
			}
			name := ta.AssertedType.String()
			okEdges[name[strings.LastIndex(name, ".")+1:]] = append(okEdges[name[strings.LastIndex(name, ".")+1:]], an.Edge{From: i.Block(), Succ: 0})
		}
	}
	var bad []string
	n := 0
	for _, cs := range an.Calls(mk) {
		if !strings.HasSuffix(cs.Name, "MTProto).makeRequest") {
			continue
		}
		n++
		okArm := false
		for _, name := range []string{"RpcError", "errorSessionConfigsChanged"} {
			for _, e := range okEdges[name] {
				if len(an.Guarded(mk, []an.Edge{e}, []ssa.Instruction{cs.Instr})) == 0 {
					okArm = true
				}
			}
		}
		if !okArm {
			bad = append(bad, "the re-issue at "+c.pos(cs.Pos())+" is reachable for an answer that is neither an rpc_error nor the retry marker")
		}
	}
	if n == 0 {
		r.Hold(rule, "reissue:only-when-asked", c.pos(mk.Pos()), "makeRequest never re-issues")
		return
	}
	r.Check(len(bad) == 0, rule, "reissue:only-when-asked", c.pos(mk.Pos()), sprintf("%d re-issue(s); %s", n, strings.Join(bad, "; ")))
}

// handledOnlyByReconnect: "nil" from tryToProcessErr means "the cause is repaired, issue the request again".  The
// one repair the client knows is the reconnect to another data centre, so every return of tryToProcessErr hands
// back the error it was given (itself or wrapped) or the result of Reconnect() - never a nil of its own (an error
// class declared "worth retrying" is re-sent for ever and never reaches its caller).
func (c *Ctx) handledOnlyByReconnect(rule string) {
	r := c.R
	f := c.fn(rule, load.RootMod, "*MTProto", "tryToProcessErr")
	if f == nil || len(f.Params) < 2 {
		return
	}
	n := 0
	var bad []string
	var ok1 func(v ssa.Value, d int) bool
	ok1 = func(v ssa.Value, d int) bool {
		if d > 5 {
			return false
		}
		switch x := v.(type) {
		case *ssa.MakeInterface:
			return x.X == ssa.Value(f.Params[1])
		case *ssa.Phi:
			for _, e := range x.Edges {
				if !ok1(e, d+1) {
					return false
				}
			}
			return true
		case *ssa.Call:
			name := an.CalleeName(x.Common())
			if strings.HasSuffix(name, "MTProto).Reconnect") {
				return true
			}
			if name == "github.com/pkg/errors.Wrapf" || name == "github.com/pkg/errors.Wrap" || name == "github.com/pkg/errors.WithMessage" {
				// wraps the error it was given: non-nil
				return len(x.Call.Args) > 0 && ok1(x.Call.Args[0], d+1)
			}
		}
		return false
	}
	for _, b := range f.Blocks {
		for _, in := range b.Instrs {
			ret, ok := an.AsReturn(in)
			if !ok || len(ret.Results) != 1 {
				continue
			}
			n++
			v := an.RetVal(ret, 0)
			if !ok1(v, 0) {
				bad = append(bad, "the return at "+c.pos(ret.Pos())+" hands back "+v.String())
			}
		}
	}
	r.Check(n > 0 && len(bad) == 0, rule, "handled-only-by-reconnect", c.pos(f.Pos()), sprintf("%d return(s) of tryToProcessErr, each the given error (itself or wrapped) or the result of Reconnect(); %s", n, strings.Join(bad, "; ")))
}
