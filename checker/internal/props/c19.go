package props

import (
	"strings"

	"verif/checker/internal/an"
	"verif/checker/internal/load"

	"golang.org/x/tools/go/ssa"
)

func init() { register("C19", c19) }

// isRandRoot classifies a dependency root as a randomness acquisition.
func isRandRoot(root string) (isRand, isCrypto, isGlobalMath bool) {
	name := root
	for _, p := range []string{"call:", "mut:", "via:"} {
		name = strings.TrimPrefix(name, p)
	}
	switch {
	case strings.HasPrefix(name, "crypto/rand."):
		return true, true, false
	case strings.HasPrefix(name, "math/rand.") || strings.HasPrefix(name, "math/rand/v2."):
		// package-level functions use the global source; New/NewSource build a private one
		g := !strings.HasSuffix(name, ".New") && !strings.HasSuffix(name, ".NewSource")
		return true, false, g
	case strings.HasPrefix(name, "(*math/rand.Rand).") || strings.HasPrefix(name, "(*math/rand/v2.Rand)."):
		return true, false, false
	case name == "(*math/big.Int).Rand":
		// draws from the *rand.Rand handed to it, which shows up as its own root
		return false, false, false
	case strings.Contains(name, "time.Now") || strings.Contains(name, "(time.Time).UnixNano") || strings.Contains(name, "(time.Time).Unix"):
		return true, false, false
	}
	return false, false, false
}

type secretSite struct {
	name string
	val  ssa.Value
	pos  string
}

func c19(c *Ctx) {
	r := c.R
	r.Explanation = "All-paths origin fact: for each of the four secret-generating functions (nonce, new_nonce, DH exponent b, SRP ephemeral a) the " +
		"interprocedural backward slice of the secret value (repository + go-dry code, mutators of buffers and big.Ints included) is computed; every " +
		"randomness acquisition in the slice must be crypto/rand and at least one must be present; if a secret depends on the global math/rand source, " +
		"every rand.Seed reachable from NewMTProto/CreateConnection is reported too. The use sites in makeAuthKey must take their nonces from the generators."
	r.NotDecided = []string{}
	r.Rule("R19.S", "every randomness acquisition in the backward slice of a secret is crypto/rand, and the secret depends on at least one", 4)
	r.Rule("R19.U", "the nonces sent in req_pq / p_q_inner_data and the SRP exponent are results of the generators", 4)
	r.Rule("R19.R", "no generator depends on a source that client construction reseeds", 1)

	var secrets []secretSite
	retVals := func(f *ssa.Function) []ssa.Value {
		var out []ssa.Value
		for _, b := range f.Blocks {
			for _, in := range b.Instrs {
				if ret, ok := in.(*ssa.Return); ok && len(ret.Results) > 0 {
					out = append(out, ret.Results[0])
				}
			}
		}
		return out
	}
	for _, g := range []struct{ name, fn string }{{"nonce", "RandomInt128"}, {"new_nonce", "RandomInt256"}} {
		f := c.fn("R19.S", load.TLPkg, "", g.fn)
		if f == nil {
			continue
		}
		for _, v := range retVals(f) {
			secrets = append(secrets, secretSite{g.name + ":tl." + g.fn, v, c.pos(f.Pos())})
		}
	}
	if f := c.fn("R19.S", load.MathPkg, "", "MakeGAB"); f != nil {
		n := 0
		for _, cs := range an.CallsNamed(f, "(*math/big.Int).Exp") {
			if len(cs.Common.Args) == 4 {
				n++
				secrets = append(secrets, secretSite{sprintf("dh_exponent:math.MakeGAB/Exp#%d", n), cs.Common.Args[2], c.pos(cs.Pos())})
			}
		}
		if n < 2 {
			r.Undecide("R19.S", "dh_exponent:math.MakeGAB", c.pos(f.Pos()), sprintf("expected two big.Int.Exp calls (g^b and g_a^b), found %d", n))
		}
	}
	srpPub := c.fn("R19.S", load.SrpPkg, "", "GetInputCheckPassword")
	srpIn := c.fn("R19.S", load.SrpPkg, "", "getInputCheckPassword")
	if srpPub != nil && srpIn != nil {
		n := 0
		for _, cs := range an.CallsNamed(srpPub, load.SrpPkg+".getInputCheckPassword") {
			if len(cs.Common.Args) == 4 {
				n++
				secrets = append(secrets, secretSite{"srp_ephemeral:srp.GetInputCheckPassword", cs.Common.Args[3], c.pos(cs.Pos())})
			}
		}
		if n == 0 {
			r.Undecide("R19.S", "srp_ephemeral:srp.GetInputCheckPassword", c.pos(srpPub.Pos()), "call of getInputCheckPassword(password, B, mp, random) not found")
		}
		// R19.U: the exponent of g^a inside getInputCheckPassword derives from the `random` parameter
		okA := false
		for _, cs := range an.CallsNamed(srpIn, load.SrpPkg+".bigExp") {
			if len(cs.Common.Args) == 3 {
				d := an.NewDeps(c.inRepoOrDry).Of(cs.Common.Args[1])
				if d.Has("param:" + load.SrpPkg + ".getInputCheckPassword#3") {
					okA = true
				}
			}
		}
		r.Check(okA, "R19.U", "srp:a<-random", c.pos(srpIn.Pos()), "an exponent of bigExp in getInputCheckPassword derives from the `random` argument")
	}

	dependsOnGlobal := false
	for _, s := range secrets {
		d := an.NewDeps(c.inRepoOrDry).Of(s.val)
		nCrypto, nBad := 0, 0
		for _, root := range an.SortedKeys(d.Roots) {
			isRand, isCrypto, isGlobal := isRandRoot(root)
			if !isRand {
				continue
			}
			site := s.pos
			if in, ok := d.Sites[root]; ok {
				site = c.pos(in.Pos())
			}
			name := strings.TrimPrefix(strings.TrimPrefix(strings.TrimPrefix(root, "call:"), "mut:"), "via:")
			if isCrypto {
				nCrypto++
				r.Hold("R19.S", "source:"+s.name+"<-"+name, site, "")
				continue
			}
			nBad++
			if isGlobal {
				dependsOnGlobal = true
			}
			r.Violate("R19.S", "source:"+s.name+"<-"+name, site, "the secret "+s.name+" depends on "+name+", a reproducible (non-cryptographic / time-seeded) source")
		}
		if nCrypto == 0 && nBad == 0 {
			r.Violate("R19.S", "source:"+s.name+"<-none", s.pos, "the secret has no randomness acquisition in its backward slice (constant or derived from non-random data); roots: "+strings.Join(an.SortedKeys(d.Roots), ", "))
		} else if nCrypto == 0 {
			// already reported per source
		} else {
			r.Hold("R19.S", "crypto-origin:"+s.name, s.pos, "")
		}
	}

	// R19.U use sites in makeAuthKey
	if mk := c.fn("R19.U", load.RootMod, "*MTProto", "makeAuthKey"); mk != nil {
		tr := an.NewTracer()
		for _, cs := range an.CallsNamed(mk, "(*"+load.RootMod+".MTProto).reqPQ") {
			r.Check(len(cs.Common.Args) == 2 && tr.AllOrigins(cs.Common.Args[1], "call:"+load.TLPkg+".RandomInt128"), "R19.U", "use:req_pq.nonce", c.pos(cs.Pos()), tr.OriginString(cs.Common.Args[1]))
		}
		want := map[string]string{"objects.PQInnerData.Nonce": "RandomInt128", "objects.PQInnerData.NewNonce": "RandomInt256"}
		seen := map[string]bool{}
		for _, b := range mk.Blocks {
			for _, in := range b.Instrs {
				st, ok := in.(*ssa.Store)
				if !ok {
					continue
				}
				fa, ok := st.Addr.(*ssa.FieldAddr)
				if !ok {
					continue
				}
				fn := an.FieldName(fa.X.Type(), fa.Field)
				if gen, ok := want[fn]; ok {
					seen[fn] = true
					r.Check(tr.AllOrigins(st.Val, "call:"+load.TLPkg+"."+gen), "R19.U", "use:"+fn, c.pos(st.Pos()), tr.OriginString(st.Val))
				}
			}
		}
		for fn := range want {
			if !seen[fn] {
				r.Undecide("R19.U", "use:"+fn, c.pos(mk.Pos()), "store to "+fn+" not found in makeAuthKey")
			}
		}
	}

	// R19.R reseed
	g := c.Graph()
	var roots []*ssa.Function
	for _, e := range []struct{ recv, name string }{{"", "NewMTProto"}, {"*MTProto", "CreateConnection"}} {
		if f := c.fn("R19.R", load.RootMod, e.recv, e.name); f != nil {
			roots = append(roots, f)
		}
	}
	nSeed := 0
	for f := range g.Reachable(roots, c.inRepoOrDry) {
		if !c.P.InRepoOrDry(f) {
			continue
		}
		for _, cs := range an.Calls(f) {
			if cs.Name == "math/rand.Seed" {
				nSeed++
				key := "reseed:" + an.ShortName(f)
				if dependsOnGlobal {
					r.Violate("R19.R", key, c.pos(cs.Pos()), "client construction reseeds the global math/rand source that a secret depends on")
				} else {
					r.Hold("R19.R", key, c.pos(cs.Pos()), "rand.Seed is reachable from client construction, but no secret depends on the global source")
				}
			}
		}
	}
	if nSeed == 0 {
		r.Hold("R19.R", "reseed:none", "", "no rand.Seed reachable from NewMTProto/CreateConnection")
	}
	r.Extra["secret_sites"] = len(secrets)
}
