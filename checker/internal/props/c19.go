package props

import (
	"go/types"
	"sort"
	"strings"

	"verif/checker/internal/an"
	"verif/checker/internal/load"

	"golang.org/x/tools/go/ssa"
)

func init() { register("C19", c19) }

// isRandRoot classifies a dependency root as a randomness acquisition.
func isRandRoot(root string) (isRand, isCrypto, isGlobalMath bool) {
	name := root
	for _, p := range []string{"call:", "mut:", "via:"} {
		name = strings.TrimPrefix(name, p)
	}
	switch {
	case strings.HasPrefix(name, "crypto/rand."):
		return true, true, false
	case strings.HasPrefix(name, "math/rand.") || strings.HasPrefix(name, "math/rand/v2."):
		// package-level functions use the global source; New/NewSource build a private one
		g := !strings.HasSuffix(name, ".New") && !strings.HasSuffix(name, ".NewSource")
		return true, false, g
	case strings.HasPrefix(name, "(*math/rand.Rand).") || strings.HasPrefix(name, "(*math/rand/v2.Rand)."):
		return true, false, false
	case name == "(*math/big.Int).Rand":
		// draws from the *rand.Rand handed to it, which shows up as its own root
		return false, false, false
	case strings.Contains(name, "time.Now") || strings.Contains(name, "(time.Time).UnixNano") || strings.Contains(name, "(time.Time).Unix"):
		return true, false, false
	}
	return false, false, false
}

type secretSite struct {
	name string
	val  ssa.Value
	pos  string
}

func c19(c *Ctx) {
	r := c.R
	r.Explanation = "All-paths origin fact: for each of the four secret-generating functions (nonce, new_nonce, DH exponent b, SRP ephemeral a) the " +
		"interprocedural backward slice of the secret value (repository + go-dry code, mutators of buffers and big.Ints included) is computed; every " +
		"randomness acquisition in the slice must be crypto/rand and at least one must be present; if a secret depends on the global math/rand source, " +
		"every rand.Seed reachable from NewMTProto/CreateConnection is reported too. The use sites in makeAuthKey must take their nonces from the generators."
	r.NotDecided = []string{}
	r.Rule("R19.S", "every randomness acquisition in the backward slice of a secret is crypto/rand, and the secret depends on at least one", 4)
	r.Rule("R19.U", "the nonces sent in req_pq / p_q_inner_data and the SRP exponent are results of the generators", 4)
	r.Rule("R19.R", "no generator depends on a source that client construction reseeds", 1)

	var secrets []secretSite
	retVals := func(f *ssa.Function) []ssa.Value {
		var out []ssa.Value
		for _, b := range f.Blocks {
			for _, in := range b.Instrs {
				if ret, ok := an.AsReturn(in); ok && len(ret.Results) > 0 {
					out = append(out, an.RetVal(ret, 0))
				}
			}
		}
		return out
	}
	for _, g := range []struct{ name, fn string }{{"nonce", "RandomInt128"}, {"new_nonce", "RandomInt256"}} {
		f := c.fn("R19.S", load.TLPkg, "", g.fn)
		if f == nil {
			continue
		}
		for _, v := range retVals(f) {
			secrets = append(secrets, secretSite{g.name + ":tl." + g.fn, v, c.pos(f.Pos())})
		}
	}
	// ... and what the callers do with the drawn object afterwards belongs to the secret too: a nonce OR-ed with the
	// clock after the draw still "comes from" the generator (the slice follows the mutators of the fresh object)
	{
		var users []*ssa.Function
		for f := range c.P.AllFunctions() {
			if c.inRepo(f) && len(f.Blocks) > 0 && load.FuncPkgPath(f) != load.TLPkg {
				users = append(users, f)
			}
		}
		sort.Slice(users, func(i, j int) bool { return users[i].String() < users[j].String() })
		for _, f := range users {
			n := 0
			for _, cs := range an.Calls(f) {
				if cs.Name != load.TLPkg+".RandomInt128" && cs.Name != load.TLPkg+".RandomInt256" {
					continue
				}
				if v, ok := cs.Instr.(ssa.Value); ok {
					n++
					secrets = append(secrets, secretSite{sprintf("%s@%s#%d", strings.TrimPrefix(cs.Name, load.TLPkg+"."), an.ShortName(f), n), v, c.pos(cs.Pos())})
				}
			}
		}
	}
	if f := c.fn("R19.S", load.MathPkg, "", "MakeGAB"); f != nil {
		n := 0
		for _, cs := range an.CallsNamed(f, "(*math/big.Int).Exp") {
			if len(cs.Common.Args) == 4 {
				n++
				secrets = append(secrets, secretSite{sprintf("dh_exponent:math.MakeGAB/Exp#%d", n), cs.Common.Args[2], c.pos(cs.Pos())})
			}
		}
		if n < 2 {
			r.Undecide("R19.S", "dh_exponent:math.MakeGAB", c.pos(f.Pos()), sprintf("expected two big.Int.Exp calls (g^b and g_a^b), found %d", n))
		}
	}
	srpPub := c.fn("R19.S", load.SrpPkg, "", "GetInputCheckPassword")
	srpIn := c.fn("R19.S", load.SrpPkg, "", "getInputCheckPassword")
	if srpPub != nil && srpIn != nil {
		n := 0
		for _, cs := range an.CallsNamed(srpPub, load.SrpPkg+".getInputCheckPassword") {
			if len(cs.Common.Args) == 4 {
				n++
				secrets = append(secrets, secretSite{"srp_ephemeral:srp.GetInputCheckPassword", cs.Common.Args[3], c.pos(cs.Pos())})
			}
		}
		if n == 0 {
			r.Undecide("R19.S", "srp_ephemeral:srp.GetInputCheckPassword", c.pos(srpPub.Pos()), "call of getInputCheckPassword(password, B, mp, random) not found")
		}
		// R19.U: the exponent of g^a inside getInputCheckPassword derives from the `random` parameter
		okA := false
		for _, cs := range an.CallsNamed(srpIn, load.SrpPkg+".bigExp") {
			if len(cs.Common.Args) == 3 {
				d := an.NewDeps(c.inRepoOrDry).Of(cs.Common.Args[1])
				if d.Has("param:" + load.SrpPkg + ".getInputCheckPassword#3") {
					okA = true
				}
			}
		}
		r.Check(okA, "R19.U", "srp:a<-random", c.pos(srpIn.Pos()), "an exponent of bigExp in getInputCheckPassword derives from the `random` argument")
	}

	dependsOnGlobal := false
	for _, s := range secrets {
		d := an.NewDeps(c.inRepoOrDry).Of(s.val)
		nCrypto, nBad := 0, 0
		for _, root := range an.SortedKeys(d.Roots) {
			// a secret is made of the OS random source and constants: client state (a field), an argument or a
			// package variable that flows into it - the session id, a counter, the clock kept somewhere - makes part
			// of it reproducible even when no generator is called on the spot
			if (strings.HasPrefix(root, "field:") || strings.HasPrefix(root, "param:") || strings.HasPrefix(root, "free:") || strings.HasPrefix(root, "global:")) && root != "global:Reader" && root != "global:BigEndian" && root != "global:LittleEndian" {
				site := s.pos
				if in, ok := d.Sites[root]; ok {
					site = c.pos(in.Pos())
				}
				nBad++
				r.Violate("R19.S", "source:"+s.name+"<-"+root, site, "the secret "+s.name+" also depends on "+root+", which is not drawn from the OS random source")
				continue
			}
			isRand, isCrypto, isGlobal := isRandRoot(root)
			if !isRand {
				continue
			}
			site := s.pos
			if in, ok := d.Sites[root]; ok {
				site = c.pos(in.Pos())
			}
			name := strings.TrimPrefix(strings.TrimPrefix(strings.TrimPrefix(root, "call:"), "mut:"), "via:")
			if isCrypto {
				nCrypto++
				r.Hold("R19.S", "source:"+s.name+"<-"+name, site, "")
				continue
			}
			nBad++
			if isGlobal {
				dependsOnGlobal = true
			}
			r.Violate("R19.S", "source:"+s.name+"<-"+name, site, "the secret "+s.name+" depends on "+name+", a reproducible (non-cryptographic / time-seeded) source")
		}
		if nCrypto == 0 && nBad == 0 {
			r.Violate("R19.S", "source:"+s.name+"<-none", s.pos, "the secret has no randomness acquisition in its backward slice (constant or derived from non-random data); roots: "+strings.Join(an.SortedKeys(d.Roots), ", "))
		} else if nCrypto == 0 {
			// already reported per source
		} else {
			r.Hold("R19.S", "crypto-origin:"+s.name, s.pos, "")
		}
	}

	// R19.O: a buffer filled from crypto/rand is not written again before it is used as the secret
	r.Rule("R19.O", "the byte buffers that hold a secret are written by crypto/rand only: no element store, copy or other writer touches them between the read of the random source and their use; the big integers that hold one are never the receiver of a math/big method that does not also read them", 4)
	for _, t := range []struct{ pkg, fn, key string }{{load.SrpPkg, "GetInputCheckPassword", "srp_ephemeral"}, {load.TLPkg, "cryptoRandomBytes", "nonce-bytes"}} {
		f := c.P.Func(t.pkg, "", t.fn)
		if f == nil {
			r.Undecide("R19.O", "only-writer:"+t.key, "", t.fn+" not found")
			continue
		}
		n := 0
		for _, b := range f.Blocks {
			for _, in := range b.Instrs {
				var ms ssa.Value
				switch x := in.(type) {
				case *ssa.MakeSlice:
					if strings.Contains(x.Type().String(), "byte") {
						ms = x
					}
				case *ssa.Alloc: // make([]byte, constant) is an array allocation that is sliced
					if at, isArr := x.Type().Underlying().(*types.Pointer).Elem().Underlying().(*types.Array); isArr && strings.Contains(at.Elem().String(), "byte") || isArr && at.Elem().String() == "uint8" {
						ms = x
					}
				}
				if ms == nil {
					continue
				}
				n++
				var bad []string
				seen := map[ssa.Value]bool{}
				var walk func(v ssa.Value)
				walk = func(v ssa.Value) {
					if seen[v] || v.Referrers() == nil {
						return
					}
					seen[v] = true
					for _, rf := range *v.Referrers() {
						switch x := rf.(type) {
						case *ssa.Slice:
							walk(x)
						case *ssa.IndexAddr:
							for _, r2 := range *x.Referrers() {
								if st, isSt := r2.(*ssa.Store); isSt && st.Addr == ssa.Value(x) {
									bad = append(bad, "element store at "+c.pos(st.Pos()))
								}
							}
						case *ssa.Call:
							name := an.CalleeName(x.Common())
							switch {
							case name == "crypto/rand.Read", name == "io.ReadFull":
							case name == "builtin:copy":
								if len(x.Call.Args) == 2 && x.Call.Args[0] == v {
									bad = append(bad, "copy into the buffer at "+c.pos(x.Pos()))
								}
							case name == "builtin:len", name == "builtin:cap":
							default:
								if g := an.StaticCallee(x.Common()); g != nil && len(g.Blocks) > 0 {
									for i, a := range x.Call.Args {
										if a == v && an.WritesParam(g, i) {
											bad = append(bad, "written by "+shortCallee(name)+" at "+c.pos(x.Pos()))
										}
									}
								}
							}
						}
					}
				}
				walk(ms)
				r.Check(len(bad) == 0, "R19.O", sprintf("only-writer:%s#%d", t.key, n), c.pos(ms.Pos()), "writers of the secret's buffer other than the random source: "+strings.Join(bad, "; "))
			}
		}
		if n == 0 {
			r.Undecide("R19.O", "only-writer:"+t.key, c.pos(f.Pos()), "no byte buffer allocated in "+t.fn)
		}
	}

	// R19.O for big integers: math/big methods write their receiver. The integer that holds a secret may be
	// the receiver of a writing method only when the secret itself is among the operands (b.Mod(b, q) keeps a
	// function of the random draw; b.Sub(p, one) replaces the draw with a public value).
	bigReadOnly := map[string]bool{"Bytes": true, "Cmp": true, "CmpAbs": true, "Sign": true, "BitLen": true, "Bit": true, "Int64": true, "Uint64": true, "IsInt64": true, "IsUint64": true, "String": true, "Text": true, "Append": true, "Format": true, "FillBytes": true, "TrailingZeroBits": true, "ProbablyPrime": true, "Bits": true, "MarshalText": true, "MarshalJSON": true, "GobEncode": true}
	bigSecret := func(key string, f *ssa.Function, secret ssa.Value) {
		var bad []string
		uses := 0
		for _, rf := range *secret.Referrers() {
			ci, ok := rf.(ssa.CallInstruction)
			if !ok {
				continue
			}
			cc := ci.Common()
			g := cc.StaticCallee()
			if g == nil || g.Pkg == nil || g.Pkg.Pkg.Path() != "math/big" || g.Signature.Recv() == nil || len(cc.Args) == 0 {
				continue
			}
			uses++
			if cc.Args[0] != secret || bigReadOnly[g.Name()] {
				continue
			}
			among := false
			for _, a := range cc.Args[1:] {
				if a == secret {
					among = true
				}
			}
			if !among {
				bad = append(bad, sprintf("%s at %s writes the integer without reading it", g.Name(), c.pos(ci.Pos())))
			}
		}
		site := c.pos(f.Pos())
		if secret.Pos().IsValid() {
			site = c.pos(secret.Pos())
		}
		r.Check(len(bad) == 0, "R19.O", "only-writer:"+key, site, sprintf("%d math/big uses of the secret integer; ", uses)+strings.Join(bad, "; "))
	}
	if f := c.P.Func(load.MathPkg, "", "MakeGAB"); f != nil {
		n := 0
		for _, cs := range an.CallsNamed(f, "crypto/rand.Int") {
			if call, ok := cs.Instr.(*ssa.Call); ok {
				for _, rf := range *call.Referrers() {
					if e, ok := rf.(*ssa.Extract); ok && e.Index == 0 {
						n++
						bigSecret(sprintf("dh_exponent-int#%d", n), f, e)
					}
				}
			}
		}
		if n == 0 {
			r.Undecide("R19.O", "only-writer:dh_exponent-int", c.pos(f.Pos()), "no result of crypto/rand.Int found in MakeGAB")
		}
	}
	if srpIn != nil && len(srpIn.Params) == 4 {
		n := 0
		for _, cs := range an.CallsNamed(srpIn, load.SrpPkg+".bytesToBig") {
			if call, ok := cs.Instr.(*ssa.Call); ok && len(cs.Common.Args) == 1 && cs.Common.Args[0] == ssa.Value(srpIn.Params[3]) {
				n++
				bigSecret(sprintf("srp_ephemeral-int#%d", n), srpIn, call)
			}
		}
		if n == 0 {
			r.Undecide("R19.O", "only-writer:srp_ephemeral-int", c.pos(srpIn.Pos()), "bytesToBig(random) not found in getInputCheckPassword")
		}
	}

	// two key exchanges (two clients, two data centres) draw their secrets at the same time: no generator keeps
	// its bytes in package-level storage
	// "creating a client does not reseed any generator those secrets depend on": the draws read crypto/rand.Reader at
	// the moment they are made, so the variable itself is part of the source - nothing in the repository assigns it
	c.failedDrawIsNoSecret("R19.E")
	r.Rule("R19.W", "no function of the repository stores to crypto/rand.Reader (or to any other package-level variable of crypto/rand / math/rand): the process-wide source every draw reads is never replaced", 1)
	{
		n, bad := 0, 0
		for f := range c.P.AllFunctions() {
			if !c.inRepo(f) || len(f.Blocks) == 0 {
				continue
			}
			n++
			for _, b := range f.Blocks {
				for _, in := range b.Instrs {
					st, ok := in.(*ssa.Store)
					if !ok {
						continue
					}
					g, ok := st.Addr.(*ssa.Global)
					if !ok || g.Pkg == nil {
						continue
					}
					if pp := g.Pkg.Pkg.Path(); pp == "crypto/rand" || pp == "math/rand" || pp == "math/rand/v2" {
						bad++
						r.Violate("R19.W", sprintf("source-replaced:%s/%s.%s#%d", an.ShortName(f), pp, g.Name(), bad), c.pos(st.Pos()), "assignment to "+pp+"."+g.Name()+": every later draw of every client in the process reads what was put there")
					}
				}
			}
		}
		if bad == 0 {
			r.Hold("R19.W", "source-replaced:none", "", sprintf("%d functions of the repository, none assigns a variable of crypto/rand or math/rand", n))
		}
	}
	r.Rule("R19.G", "nothing reachable from the secret generators (RandomInt128/256, MakeGAB, GetInputCheckPassword) writes a package-level variable or the storage of one", 1)
	{
		var entries []*ssa.Function
		for _, e := range []struct{ pkg, name string }{{load.TLPkg, "RandomInt128"}, {load.TLPkg, "RandomInt256"}, {load.MathPkg, "MakeGAB"}, {load.SrpPkg, "GetInputCheckPassword"}} {
			if f := c.P.Func(e.pkg, "", e.name); f != nil {
				entries = append(entries, f)
			}
		}
		c.noGlobalWrites("R19.G", entries, "a secret's path: concurrent exchanges would share it")
	}

	// R19.U use sites in makeAuthKey
	if mk := c.fn("R19.U", load.RootMod, "*MTProto", "makeAuthKey"); mk != nil {
		tr := an.NewTracer()
		for _, cs := range an.CallsNamed(mk, "(*"+load.RootMod+".MTProto).reqPQ") {
			r.Check(len(cs.Common.Args) == 2 && tr.AllOrigins(cs.Common.Args[1], "call:"+load.TLPkg+".RandomInt128"), "R19.U", "use:req_pq.nonce", c.pos(cs.Pos()), tr.OriginString(cs.Common.Args[1]))
		}
		want := map[string]string{"objects.PQInnerData.Nonce": "RandomInt128", "objects.PQInnerData.NewNonce": "RandomInt256"}
		seen := map[string]bool{}
		for _, b := range mk.Blocks {
			for _, in := range b.Instrs {
				st, ok := in.(*ssa.Store)
				if !ok {
					continue
				}
				fa, ok := st.Addr.(*ssa.FieldAddr)
				if !ok {
					continue
				}
				fn := an.FieldName(fa.X.Type(), fa.Field)
				if gen, ok := want[fn]; ok {
					seen[fn] = true
					r.Check(tr.AllOrigins(st.Val, "call:"+load.TLPkg+"."+gen), "R19.U", "use:"+fn, c.pos(st.Pos()), tr.OriginString(st.Val))
				}
			}
		}
		for fn := range want {
			if !seen[fn] {
				r.Undecide("R19.U", "use:"+fn, c.pos(mk.Pos()), "store to "+fn+" not found in makeAuthKey")
			}
		}
	}

	// R19.R reseed
	g := c.Graph()
	var roots []*ssa.Function
	for _, e := range []struct{ recv, name string }{{"", "NewMTProto"}, {"*MTProto", "CreateConnection"}} {
		if f := c.fn("R19.R", load.RootMod, e.recv, e.name); f != nil {
			roots = append(roots, f)
		}
	}
	nSeed := 0
	for f := range g.Reachable(roots, c.inRepoOrDry) {
		if !c.P.InRepoOrDry(f) {
			continue
		}
		for _, cs := range an.Calls(f) {
			if cs.Name == "math/rand.Seed" {
				nSeed++
				key := "reseed:" + an.ShortName(f)
				if dependsOnGlobal {
					r.Violate("R19.R", key, c.pos(cs.Pos()), "client construction reseeds the global math/rand source that a secret depends on")
				} else {
					r.Hold("R19.R", key, c.pos(cs.Pos()), "rand.Seed is reachable from client construction, but no secret depends on the global source")
				}
			}
		}
	}
	if nSeed == 0 {
		r.Hold("R19.R", "reseed:none", "", "no rand.Seed reachable from NewMTProto/CreateConnection")
	}
	r.Extra["secret_sites"] = len(secrets)
}
