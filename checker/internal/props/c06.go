package props

import (
	"go/token"
	"strings"

	"verif/checker/internal/an"
	"verif/checker/internal/load"

	"golang.org/x/tools/go/ssa"
)

func init() { register("C06", c06) }

func pkgIn(f *ssa.Function, pkgs ...string) bool {
	p := load.FuncPkgPath(f)
	for _, x := range pkgs {
		if p == x {
			return true
		}
	}
	return false
}

func c06(c *Ctx) {
	r := c.R
	r.Explanation = "Structural necessary conditions for 'key exchange succeeds whatever the values drawn': (W) no minimal-form big.Int.Bytes() " +
		"result reaches a fixed-width protocol position — every Bytes() call in the handshake, temp-key derivation, RSA and fingerprint code is followed " +
		"forward through copies, slices, stores and repository callees and each use is classified; (S) the success exit of makeAuthKey is dominated by " +
		"serviceModeActivated=false, encrypted=true and SaveSession; the fingerprint sent and the one matched are both RSAFingerprint(m.publicKey), " +
		"which is SHA-1(PutMessage(n) PutMessage(e))[12:]."
	r.NotDecided = []string{"Pollard-rho terminates with the right factors for every pq (numerical)", "RSA and DH arithmetic (math/big)",
		"that the server's view of the key equals the client's (needs an independent server)"}
	r.Rule("R06.W", "no variable-length big.Int.Bytes() reaches a fixed-width position (copy left-aligned, constant slice/index, bytes.Equal against a digest, stored as key); fixed-width conversions use the protocol width of their operand", 8)
	r.Rule("R06.A", "the client's DH message is readable by a conformant server for every g_b: SHA1(data)+data is padded with 0..15 bytes to a whole block (tabulated over the data length), so the server's search over paddings 0..15 finds the hash whatever the byte length of g_b", 1)
	c.checkTempKeyPad("R06.A")
	// what the client echoes to the server is what it received, as received: pq travels back as the very string
	// of resPQ (a re-rendering of the parsed number drops the leading zero bytes of a fixed-width pq), the nonces as
	// the values drawn / received
	// "whatever Diffie-Hellman group the server uses": the specification lets the server pick g from 2, 3, 4, 5, 6, 7.
	// With the comparisons of server_DH_inner_data.g against constants decided for each of them (everything else left
	// open), the computation of the key must stay reachable - a check that lists five generators refuses the sixth
	// the property is stated per connection, a process runs several: nothing the exchange touches is shared between
	// them (a package-level generator, cache or scratch object is raced by two overlapping exchanges - math/rand.Rand
	// panics with an index out of range when that happens)
	// the specification sends server_time so that the client may correct its clock; it asks nothing of the client's
	// clock.  A refusal whose condition depends on the local clock or on server_time makes the outcome of the
	// exchange depend on the skew between two machines
	c.exchangeWheneverNotConfirmed("R06.R")
	r.Rule("R06.C", "no branch of makeAuthKey that leads to an error exit has the local clock (time.Now) or server_DH_inner_data.server_time among the dependencies of its condition", 1)
	if f := c.fn("R06.C", load.RootMod, "*MTProto", "makeAuthKey"); f != nil {
		n, bad := 0, 0
		for _, i := range an.Ifs(f) {
			// does one of the two edges lead straight to a block that returns a non-nil error?
			errExit := false
			for _, sc := range i.Block().Succs {
				for _, in := range sc.Instrs {
					if ret, ok := an.AsReturn(in); ok && len(ret.Results) == 1 && !an.MayReturnNil(ret, 0) {
						errExit = true
					}
				}
			}
			if !errExit {
				continue
			}
			n++
			// the condition's own operands (callees are not descended: the requests carry clock-derived message ids,
			// and every reply "depends" on its request)
			d := an.NewDeps(func(*ssa.Function) bool { return false }).Of(i.Cond)
			for _, root := range an.SortedKeys(d.Roots) {
				if strings.Contains(root, "time.Now") || strings.Contains(root, "time.Since") || strings.Contains(root, "objects.ServerDHInnerData.ServerTime") {
					bad++
					r.Violate("R06.C", sprintf("refusal-depends-on-the-clock#%d", bad), c.pos(i.Cond.Pos()), "the condition of this refusal depends on "+root+": a conformant server whose clock differs from the client's is refused")
					break
				}
			}
		}
		if bad == 0 {
			r.Hold("R06.C", "refusal-depends-on-the-clock:none", c.pos(f.Pos()), sprintf("%d refusing branches in makeAuthKey, none depends on a clock", n))
		}
	}
	r.Rule("R06.Z", "nothing reachable from makeAuthKey writes a package-level variable, its storage, or calls a receiver-changing method on an object a package variable points to (= R07.S filed under C06)", 1)
	if f := c.fn("R06.Z", load.RootMod, "*MTProto", "makeAuthKey"); f != nil {
		c.noGlobalWrites("R06.Z", []*ssa.Function{f}, "the key exchange: two connections of one process would share it")
	}
	r.Rule("R06.G", "for every generator the specification allows (g = 2..7) the call of MakeGAB in makeAuthKey is reachable when the tests of server_DH_inner_data.g against constants are decided for that value", 6)
	if f := c.fn("R06.G", load.RootMod, "*MTProto", "makeAuthKey"); f != nil {
		var target *ssa.BasicBlock
		for _, cs := range an.Calls(f) {
			if cs.Name == load.MathPkg+".MakeGAB" {
				target = cs.Block
			}
		}
		isG := func(v ssa.Value) bool {
			for {
				cv, ok := v.(*ssa.Convert)
				if !ok {
					break
				}
				v = cv.X
			}
			ld, ok := v.(*ssa.UnOp)
			if !ok || ld.Op != token.MUL {
				return false
			}
			fa, ok := ld.X.(*ssa.FieldAddr)
			return ok && an.FieldName(fa.X.Type(), fa.Field) == "objects.ServerDHInnerData.G"
		}
		if target == nil {
			r.Undecide("R06.G", "generator", c.pos(f.Pos()), "no call of math.MakeGAB in makeAuthKey")
		} else {
			for g := int64(2); g <= 7; g++ {
				g := g
				tests := 0
				decide := func(i *ssa.If) (int, bool) {
					cd, ok := an.Classify(i)
					if !ok || (cd.Kind != "eq" && cd.Kind != "ord") {
						return 0, false
					}
					x, y, rel := cd.X, cd.Y, cd.Rel
					k, isK := an.ConstInt(y)
					if !isG(x) || !isK {
						if k2, isK2 := an.ConstInt(x); isK2 && isG(y) {
							// constant on the left: mirror the relation
							k, isK = k2, true
							switch rel {
							case "<":
								rel = ">"
							case "<=":
								rel = ">="
							case ">":
								rel = "<"
							case ">=":
								rel = "<="
							}
						} else {
							return 0, false
						}
					}
					_ = isK
					tests++
					var holds bool
					if cd.Kind == "eq" {
						return cd.EdgeWhen(g == k).Succ, true
					}
					switch rel {
					case "<":
						holds = g < k
					case "<=":
						holds = g <= k
					case ">":
						holds = g > k
					case ">=":
						holds = g >= k
					}
					if holds {
						return 0, true
					}
					return 1, true
				}
				reach := an.ReachWith(f, nil, decide)
				r.Check(reach[target], "R06.G", sprintf("generator:g=%d", g), c.pos(f.Pos()), sprintf("with %d test(s) of g decided for g = %d the key computation is unreachable: a conformant server using this generator is refused", tests, g))
			}
		}
	}
	r.Rule("R06.E", "the values the exchange echoes are stored as received: p_q_inner_data.pq is resPQ.pq itself, the nonce fields of p_q_inner_data and client_DH_inner_data are the RandomInt128 drawn for req_pq and resPQ.server_nonce themselves", 5)
	if f := c.fn("R06.E", load.RootMod, "*MTProto", "makeAuthKey"); f != nil {
		want := map[string]string{
			"objects.PQInnerData.Pq":                "field:objects.ResPQ.Pq",
			"objects.PQInnerData.Nonce":             "call:" + load.TLPkg + ".RandomInt128",
			"objects.PQInnerData.ServerNonce":       "field:objects.ResPQ.ServerNonce",
			"objects.ClientDHInnerData.Nonce":       "call:" + load.TLPkg + ".RandomInt128",
			"objects.ClientDHInnerData.ServerNonce": "field:objects.ResPQ.ServerNonce",
		}
		exact := func(v ssa.Value) string {
			switch x := v.(type) {
			case *ssa.UnOp:
				if fa, ok := x.X.(*ssa.FieldAddr); ok && x.Op == token.MUL {
					return "field:" + an.FieldName(fa.X.Type(), fa.Field)
				}
			case *ssa.Call:
				return "call:" + an.CalleeName(x.Common())
			}
			return v.Name() + " = " + v.String()
		}
		seen := map[string]bool{}
		for _, b := range f.Blocks {
			for _, in := range b.Instrs {
				st, ok := in.(*ssa.Store)
				if !ok {
					continue
				}
				fa, ok := st.Addr.(*ssa.FieldAddr)
				if !ok {
					continue
				}
				fn := an.FieldName(fa.X.Type(), fa.Field)
				w, ok := want[fn]
				if !ok {
					continue
				}
				seen[fn] = true
				got := exact(st.Val)
				r.Check(got == w, "R06.E", "echo:"+strings.TrimPrefix(fn, "objects."), c.pos(st.Pos()), "stored value is "+got+", expected exactly "+w)
			}
		}
		for fn := range want {
			if !seen[fn] {
				r.Undecide("R06.E", "echo:"+strings.TrimPrefix(fn, "objects."), c.pos(f.Pos()), "no store to this field in makeAuthKey")
			}
		}
	}
	r.Rule("R06.B", "no function of packages math and keys writes through a []byte parameter other than a named destination (dst / out): nonces and key material are used again after the call", 2)
	c.paramsUntouched("R06.B", load.MathPkg, func(g *ssa.Function, idx int) bool {
		n := g.Params[idx].Name()
		return n == "dst" || n == "out"
	})
	r.Rule("R06.T", "the byte strings of the exchange (pq, p, q, g_b, encrypted data) are written in the schema's string form for every length: 1-byte header below 254 bytes, 4-byte header from 254 on (= C02 R02.S; g_b is 254 bytes once in 65536 exchanges)", 3)
	c02Strings(c, an.NewTracer(), "R06.T", "R06.T", "")
	r.Rule("R06.I", "every answer of the key exchange reaches the caller that waits for it: each successful exit of readMsg after a message was read passes the (blocking) service-channel send or processResponse (= C09 R09.I) - an answer that arrives before the caller is parked must wait for it, not be dropped", 2)
	c.everyMessageDispatched("R06.I")
	r.Rule("R06.S", "success effects dominate the success exit; fingerprint sent = fingerprint matched = SHA1(PutMessage(n)PutMessage(e))[12:]", 5)

	sites := c.widthSites(func(f *ssa.Function) bool {
		return pkgIn(f, load.RootMod, load.IgePkg, load.MathPkg, load.KeysPkg, load.TLPkg)
	})
	c.reportWidth("R06.W", sites)
	if f := c.P.Func(load.MathPkg, "", "BigIntFixedBytes"); f != nil {
		c.checkPadHelper("R06.W", f)
		c06FixedWidths(c)
	}
	r.Extra["bytes_call_sites"] = len(sites)

	mk := c.fn("R06.S", load.RootMod, "*MTProto", "makeAuthKey")
	if mk == nil {
		return
	}
	tr := an.NewTracer()
	r.Rule("R06.P", "pq is factorised as a big integer: nothing in SplitPQ narrows a pq-sized value to int64 (pq is a product of two primes below 2^32 and needs all 64 bits), and every panic-capable operation of the handshake's arithmetic helpers is discharged or accepted", 2)
	c06Arithmetic(c)
	r.Rule("R06.N", "numbers the server sends as TL bytes (pq, g_a, dh_prime) are only ever converted with SetBytes or copied into TL bytes fields: no length test, comparison or slicing of the transmitted form, whose leading zero bytes are the sender's choice", 3)
	c06WireNumbers(c, mk)
	r.Rule("R06.F", "a fingerprint of the configured key anywhere in the server's list is accepted: once an element compared equal, the not-found abort cannot happen (early exit, or a flag that stays true)", 1)
	r.Rule("R06.K", "derived values: tmp_aes_key/iv, the RSA payload, auth_key, new_nonce_hash1 and server_salt are computed by the protocol's formulas (extracted expressions compared with the table)", 6)
	if c.verifySummaries("R06.K") {
		c.tempKeys("R06.K")
		c.handshakeFormulas("R06.K", nil)
	}
	c06FingerprintSearch(c, mk, tr)
	// success exits: returns whose value is nil or derives from SaveSession's result
	var saves []ssa.Instruction
	var stEnc, stSvc []ssa.Instruction
	for _, b := range mk.Blocks {
		for _, in := range b.Instrs {
			switch x := in.(type) {
			case ssa.CallInstruction:
				if an.CalleeName(x.Common()) == "(*"+load.RootMod+".MTProto).SaveSession" {
					saves = append(saves, in)
				}
			case *ssa.Store:
				if fa, ok := x.Addr.(*ssa.FieldAddr); ok {
					k, isConst := x.Val.(*ssa.Const)
					switch an.FieldName(fa.X.Type(), fa.Field) {
					case "mtproto.MTProto.encrypted":
						if isConst && k.Value != nil && k.Value.String() == "true" {
							stEnc = append(stEnc, in)
						}
					case "mtproto.MTProto.serviceModeActivated":
						if isConst && k.Value != nil && k.Value.String() == "false" {
							stSvc = append(stSvc, in)
						}
					}
				}
			}
		}
	}
	// a deferred closure that resets the service mode runs on every exit after the defer statement
	for _, b := range mk.Blocks {
		for _, in := range b.Instrs {
			df, ok := in.(*ssa.Defer)
			if !ok {
				continue
			}
			if mc, ok := df.Call.Value.(*ssa.MakeClosure); ok {
				if fn, ok := mc.Fn.(*ssa.Function); ok {
					for _, fb := range fn.Blocks {
						for _, fi := range fb.Instrs {
							if st, ok := fi.(*ssa.Store); ok {
								if fa, ok := st.Addr.(*ssa.FieldAddr); ok && an.FieldName(fa.X.Type(), fa.Field) == "mtproto.MTProto.serviceModeActivated" {
									if k, ok := st.Val.(*ssa.Const); ok && k.Value != nil && k.Value.String() == "false" {
										stSvc = append(stSvc, df)
									}
								}
							}
						}
					}
				}
			}
		}
	}
	nExit := 0
	for _, b := range mk.Blocks {
		for _, in := range b.Instrs {
			ret, ok := an.AsReturn(in)
			if !ok || len(ret.Results) != 1 || b == mk.Recover {
				continue // (the recover block of a function with defers returns the result slot after a panic)
			}
			d := an.NewDeps(nil).Of(returnedValue(ret, 0))
			isSuccess := an.IsNilConst(returnedValue(ret, 0)) || d.Has("MTProto).SaveSession")
			if !isSuccess {
				continue
			}
			nExit++
			for _, e := range []struct {
				name string
				ins  []ssa.Instruction
			}{{"SaveSession", saves}, {"encrypted=true", stEnc}, {"serviceModeActivated=false", stSvc}} {
				ok := false
				for _, i := range e.ins {
					if instrDominates(i, ret) {
						ok = true
					}
				}
				r.Check(ok, "R06.S", sprintf("success-exit#%d:%s", nExit, e.name), c.pos(ret.Pos()), "the success return is dominated by "+e.name)
			}
		}
	}
	if nExit == 0 {
		r.Undecide("R06.S", "success-exit", c.pos(mk.Pos()), "no success exit (nil / SaveSession-derived return) found in makeAuthKey")
	}
	// the fingerprint sent with req_DH_params derives from RSAFingerprint
	for _, cs := range an.CallsNamed(mk, "(*"+load.RootMod+".MTProto).reqDHParams") {
		if len(cs.Common.Args) == 7 {
			d := an.NewDeps(c.inRepoOrDry).Of(cs.Common.Args[5])
			r.Check(d.Has(load.KeysPkg+".RSAFingerprint"), "R06.S", "fingerprint-sent", c.pos(cs.Pos()), "public_key_fingerprint argument derives from keys.RSAFingerprint")
		}
	}
	// RSAFingerprint layout
	if fp := c.fn("R06.S", load.KeysPkg, "", "RSAFingerprint"); fp != nil {
		var seq []string
		for _, cs := range an.CallsNamed(fp, "(*"+load.TLPkg+".Encoder).PutMessage") {
			seq = append(seq, tr.OriginString(cs.Common.Args[1]))
		}
		okSeq := len(seq) == 2 && strings.Contains(seq[0], "rsa.PublicKey.N") && strings.Contains(seq[1], "rsa.PublicKey.E")
		r.Check(okSeq, "R06.S", "fingerprint-layout:PutMessage(n),PutMessage(e)", c.pos(fp.Pos()), strings.Join(seq, " ; "))
		okRet := false
		for _, b := range fp.Blocks {
			for _, in := range b.Instrs {
				if ret, ok := an.AsReturn(in); ok && len(ret.Results) == 1 {
					o := tr.OriginString(an.RetVal(ret, 0))
					okRet = (strings.Contains(o, "Sha1") || strings.Contains(o, "sha1.Sum")) && strings.Contains(o, "[12:")
					r.Check(okRet, "R06.S", "fingerprint-layout:sha1[12:]", c.pos(ret.Pos()), o)
				}
			}
		}
	}
}

// instrDominates: a executes before b on every path to b.
func instrDominates(a, b ssa.Instruction) bool {
	ba, bb := a.Block(), b.Block()
	if ba == bb {
		for _, in := range ba.Instrs {
			if in == a {
				return true
			}
			if in == b {
				return false
			}
		}
		return false
	}
	return ba.Dominates(bb)
}

// fixedWidthTable: protocol width (bytes) of the values converted with math.BigIntFixedBytes, by function and
// operand origin.
var fixedWidthTable = []struct {
	fn, origin string
	width      int64
}{
	{"makeAuthKey", "tl.Int256.Int", 32},
	{"makeAuthKey", "tl.Int128.Int", 16},
	{"makeAuthKey", "MakeGAB#2", 256},
	{"DoRSAencrypt", "big.Int).Exp", 256},
	{"generateTempKeys", "param#0", 32},
	{"generateTempKeys", "param#1", 16},
}

func c06FixedWidths(c *Ctx) {
	tr := an.NewTracer()
	for f := range c.P.AllFunctions() {
		if !c.P.InRepo(f) || f.Synthetic != "" {
			continue
		}
		n := 0
		for _, cs := range an.CallsNamed(f, load.MathPkg+".BigIntFixedBytes") {
			n++
			if len(cs.Common.Args) != 2 {
				continue
			}
			o := tr.OriginString(cs.Common.Args[0])
			key := sprintf("fixed-width:%s/%s#%d", an.ShortName(f), simplifyOrigin(o), n)
			w, isConst := an.ConstInt(cs.Common.Args[1])
			var want int64 = -1
			for _, row := range fixedWidthTable {
				if f.Name() == row.fn && strings.Contains(o, row.origin) {
					want = row.width
					break
				}
			}
			switch {
			case want < 0:
				c.R.Undecide("R06.W", key, c.pos(cs.Pos()), "no row in the fixed-width table for this operand: "+o)
			case !isConst:
				c.R.Undecide("R06.W", key, c.pos(cs.Pos()), "width is not a constant")
			default:
				c.R.Check(w == want, "R06.W", key, c.pos(cs.Pos()), sprintf("width %d, protocol width %d", w, want))
			}
		}
	}
	// generateTempKeys is called with (new_nonce, server_nonce) in this order
	for _, caller := range []struct{ pkg, recv, name string }{{load.RootMod, "*MTProto", "makeAuthKey"}} {
		f := c.P.Func(caller.pkg, caller.recv, caller.name)
		if f == nil {
			continue
		}
		for _, callee := range []string{"DecryptMessageWithTempKeys", "EncryptMessageWithTempKeys"} {
			for _, cs := range an.CallsNamed(f, load.IgePkg+"."+callee) {
				a := cs.Common.Args
				ok := len(a) == 3 && tr.HasOrigin(a[1], "tl.Int256.Int") && tr.HasOrigin(a[2], "tl.Int128.Int")
				c.R.Check(ok, "R06.W", "nonce-order:"+callee, c.pos(cs.Pos()), "called with (data, new_nonce:int256, server_nonce:int128)")
			}
		}
	}
}

// c06FingerprintSearch: R06.F.  The server announces the fingerprints of all its keys; the client must go on when any
// of them is its own (C07 decides the converse: it aborts when none is).
func c06FingerprintSearch(c *Ctx, mk *ssa.Function, tr *an.Tracer) {
	r := c.R
	key := "fingerprint-search:any-match-accepted"
	isElem := func(v ssa.Value) bool { return tr.HasOrigin(v, "objects.ResPQ.Fingerprints[") }
	isOurs := func(v ssa.Value) bool {
		return an.NewDeps(c.inRepoOrDry).Of(v).Has(load.KeysPkg + ".RSAFingerprint")
	}
	matches := func(cd *an.Cond) bool {
		return cd.Kind == "eq" && cd.X != nil && cd.Y != nil && ((isElem(cd.X) && isOurs(cd.Y)) || (isElem(cd.Y) && isOurs(cd.X)))
	}
	// form 1: the comparison is branched on
	_, execAll := an.ReachExec(mk, nil, nil)
	for _, i := range an.Ifs(mk) {
		cd, ok := an.Classify(i)
		if !ok || !matches(cd) {
			continue
		}
		eq := cd.EdgeWhen(true)
		// the test(s) of the result: branches that fold one way when the equal edge is never taken
		_, execCut := an.ReachExec(mk, map[an.Edge]bool{eq: true}, nil)
		after := an.ReachFrom(mk, eq, nil)
		found := false
		for _, t := range an.Ifs(mk) {
			if t == i {
				continue
			}
			for s := 0; s < 2; s++ {
				hit, miss := an.Edge{From: t.Block(), Succ: s}, an.Edge{From: t.Block(), Succ: 1 - s}
				if !(execAll[hit] && execAll[miss] && !execCut[hit] && execCut[miss]) {
					continue
				}
				// `miss` is the not-found edge: after a match it must be dead
				found = true
				_, execAfter := reachFromExec(mk, eq)
				if after[t.Block()] && execAfter[miss] {
					r.Violate("R06.F", key, c.pos(t.Cond.Pos()), sprintf("after an element compared equal at %s the not-found edge of this test can still be taken: a match that is not the last element of the list is forgotten", c.pos(i.Cond.Pos())))
				} else {
					r.Hold("R06.F", key, c.pos(i.Cond.Pos()), "once the equal edge is taken the not-found edge is dead")
				}
			}
		}
		if found {
			return
		}
	}
	// form 2: the comparison is a value that is accumulated in a flag
	for _, b := range mk.Blocks {
		for _, in := range b.Instrs {
			v, ok := in.(*ssa.BinOp)
			if !ok {
				continue
			}
			cd, ok := an.ClassifyValue(v)
			if !ok || !matches(cd) || v.Referrers() == nil {
				continue
			}
			acc := flagAccumulators(v)
			if len(acc) == 0 {
				continue
			}
			bad := ""
			for p := range acc {
				for k, e := range p.Edges {
					pred := p.Block().Preds[k]
					switch x := e.(type) {
					case *ssa.Const:
						if x.Value != nil && x.Value.String() == "false" && blockReaches(v.Block(), pred) {
							bad = sprintf("the flag is reset to false on an edge after the comparison (%s)", c.pos(p.Pos()))
						}
					case *ssa.Phi:
						if !acc[x] {
							bad = "the flag takes an unrelated value"
						}
					default:
						if e == ssa.Value(v) {
							// allowed only as `flag || v`: the edge is taken when an accumulator is false
							okOr := false
							for q := range acc {
								for _, t := range an.Ifs(mk) {
									if an.StripBoolWrappers(t.Cond) == ssa.Value(q) && t.Block().Dominates(v.Block()) {
										okOr = true
									}
								}
							}
							if !okOr {
								bad = sprintf("the flag is overwritten by each comparison (%s): only a match in the last position survives the loop", c.pos(v.Pos()))
							}
						} else {
							bad = "the flag takes an unrelated value"
						}
					}
				}
			}
			r.Check(bad == "", "R06.F", key, c.pos(v.Pos()), "comparison accumulated in a flag: "+bad)
			return
		}
	}
	r.Undecide("R06.F", key, c.pos(mk.Pos()), "no comparison of an element of res_pq.fingerprints with RSAFingerprint(publicKey) found in makeAuthKey")
}

func reachFromExec(fn *ssa.Function, e an.Edge) (map[*ssa.BasicBlock]bool, map[an.Edge]bool) {
	return an.ReachFromExec(fn, e, nil)
}

func blockReaches(from, to *ssa.BasicBlock) bool {
	seen := map[*ssa.BasicBlock]bool{}
	var walk func(b *ssa.BasicBlock) bool
	walk = func(b *ssa.BasicBlock) bool {
		if b == to {
			return true
		}
		if seen[b] {
			return false
		}
		seen[b] = true
		for _, s := range b.Succs {
			if walk(s) {
				return true
			}
		}
		return false
	}
	return walk(from)
}

// flagAccumulators: the phis a boolean value flows into (a `found` flag and its loop-carried copies).
func flagAccumulators(v ssa.Value) map[*ssa.Phi]bool {
	acc := map[*ssa.Phi]bool{}
	var grow func(x ssa.Value)
	grow = func(x ssa.Value) {
		if x.Referrers() == nil {
			return
		}
		for _, rf := range *x.Referrers() {
			if p, ok := rf.(*ssa.Phi); ok && !acc[p] {
				acc[p] = true
				grow(p)
			}
		}
	}
	grow(v)
	return acc
}

// flagTrueImplies: a flag made of the accumulator phis can only be true when v was true at some point: every
// incoming value is false, v, another accumulator, or `true` on the true edge of a test of an accumulator.
func flagTrueImplies(fn *ssa.Function, acc map[*ssa.Phi]bool, v ssa.Value) bool {
	for p := range acc {
		for k, e := range p.Edges {
			pred := p.Block().Preds[k]
			switch x := e.(type) {
			case *ssa.Const:
				if x.Value == nil {
					return false
				}
				if x.Value.String() == "true" {
					// only as the short-circuit arm of `flag || …`
					ok := false
					if len(pred.Instrs) > 0 {
						if t, isIf := pred.Instrs[len(pred.Instrs)-1].(*ssa.If); isIf && pred.Succs[0] == p.Block() {
							if q, isPhi := an.StripBoolWrappers(t.Cond).(*ssa.Phi); isPhi && acc[q] && an.StripBoolWrappers(t.Cond) == t.Cond {
								ok = true
							}
						}
					}
					if !ok {
						return false
					}
				}
			case *ssa.Phi:
				if !acc[x] {
					return false
				}
			default:
				if e != v {
					return false
				}
			}
		}
	}
	return true
}

// c06WireNumbers: R06.N.
func c06WireNumbers(c *Ctx, mk *ssa.Function) {
	r := c.R
	fields := map[string]bool{"objects.ServerDHInnerData.GA": true, "objects.ServerDHInnerData.DhPrime": true, "objects.ResPQ.Pq": true}
	n := map[string]int{}
	for _, b := range mk.Blocks {
		for _, in := range b.Instrs {
			ld, ok := in.(*ssa.UnOp)
			if !ok || ld.Op != token.MUL {
				continue
			}
			fa, ok := ld.X.(*ssa.FieldAddr)
			if !ok {
				continue
			}
			fn := an.FieldName(fa.X.Type(), fa.Field)
			if !fields[fn] {
				continue
			}
			n[fn]++
			key := sprintf("wire-number:%s#%d", fn, n[fn])
			var bad []string
			fw := an.NewForward(func(g *ssa.Function) bool { return false })
			for _, u := range fw.Uses(ld) {
				at := c.pos(u.Instr.Pos())
				switch u.Kind {
				case "arg":
					if !(widthInsensitive[u.Callee] || widthSanitisers[u.Callee]) {
						bad = append(bad, "passed to "+shortCallee(u.Callee)+" at "+at)
					}
				case "store":
					if !c.isTLObjectStruct(u.Field) {
						bad = append(bad, "stored as "+u.Field+" at "+at)
					}
				default:
					bad = append(bad, u.Kind+" of the transmitted bytes at "+at)
				}
			}
			r.Check(len(bad) == 0, "R06.N", key, c.pos(ld.Pos()), "uses of the transmitted form other than SetBytes / a TL bytes field: "+strings.Join(bad, "; ")+" — a conformant server may send the number without leading zero bytes, so the exchange would fail for such values")
		}
	}
	if len(n) == 0 {
		r.Undecide("R06.N", "wire-number", c.pos(mk.Pos()), "no load of ResPQ.Pq / ServerDHInnerData.GA / DhPrime found in makeAuthKey")
	}
}

// c06Arithmetic: R06.P.
func c06Arithmetic(c *Ctx) {
	r := c.R
	if sp := c.fn("R06.P", load.MathPkg, "", "SplitPQ"); sp != nil {
		n := 0
		for _, cs := range an.Calls(sp) {
			if cs.Name == "(*math/big.Int).Int64" || cs.Name == "(*math/big.Int).IsInt64" {
				n++
				r.Violate("R06.P", sprintf("pq-narrowed:%s#%d", cs.Name[strings.LastIndex(cs.Name, ".")+1:], n), c.pos(cs.Pos()),
					"a big integer of SplitPQ is converted to int64: for pq >= 2^63 the value wraps to a negative number (and a random draw bounded by it panics)")
			}
		}
		if n == 0 {
			r.Hold("R06.P", "pq-narrowed:none", c.pos(sp.Pos()), "no Int64 conversion in SplitPQ")
		}
	}
	// census of the arithmetic helpers the exchange calls (all kinds)
	var entries []*ssa.Function
	for _, t := range []struct{ pkg, name string }{{load.MathPkg, "SplitPQ"}, {load.MathPkg, "MakeGAB"}, {load.MathPkg, "DoRSAencrypt"}, {load.MathPkg, "BigIntFixedBytes"}, {load.MathPkg, "Xor"}, {load.KeysPkg, "RSAFingerprint"}} {
		if f := c.P.Func(t.pkg, "", t.name); f != nil {
			entries = append(entries, f)
		}
	}
	stop := func(f *ssa.Function) bool {
		p := load.FuncPkgPath(f)
		return p != load.MathPkg && p != load.KeysPkg
	}
	fns := c.censusRegion(entries, stop)
	n, d, a := c.runCensus("R06.P", fns, nil, nil, "C16/R16.P", "C04/R04.P")
	r.Extra["arith_census_sites"] = n
	r.Extra["arith_census_discharged"] = d
	r.Extra["arith_census_accepted"] = a
}

// returnedValue: the value a return statement hands back.  In a function with defers go/ssa spills results into
// a slot: `store slot <- v; rundefers; return *slot` — the value is then the last store to the slot in the
// returning block.
func returnedValue(ret *ssa.Return, idx int) ssa.Value { return an.RetVal(ret, idx) }
