package props

import (
	"encoding/json"
	"os"
	"path/filepath"
	"sort"
	"strings"

	"verif/checker/internal/an"

	"golang.org/x/tools/go/ssa"
)

// triage is the committed table of accepted panic-capable sites: one named site, one line of reason; used only
// where the operand is not data of the quantified kind (local configuration, the caller's own contract) or where
// a population argument (machine-checked by the named condition) makes the site unreachable.
type triageEntry struct {
	Property  string `json:"property"`
	Key       string `json:"key"`
	Reason    string `json:"reason"`
	Condition string `json:"condition,omitempty"` // name of a machine-checked population condition that must hold
}

type triageFile struct {
	Accepted []triageEntry `json:"accepted"`
}

var triageCache *triageFile

func (c *Ctx) triage() *triageFile {
	if triageCache != nil {
		return triageCache
	}
	t := &triageFile{}
	if b, err := os.ReadFile(filepath.Join(c.Verif, "triage.json")); err == nil {
		if err := json.Unmarshal(b, t); err != nil {
			c.R.Undecide("TRIAGE", "triage.json", "", "triage.json does not parse: "+err.Error())
		}
	}
	triageCache = t
	return t
}

// triageEntry looks an accepted site up by rule and key.
func (c *Ctx) triageEntry(rule, key string) (triageEntry, bool) {
	for _, e := range c.triage().Accepted {
		if e.Property == c.R.Property && e.Key == c.R.Property+"/"+rule+"/"+key {
			return e, true
		}
	}
	return triageEntry{}, false
}

// censusRegion returns the repository functions reachable from the entries.
func (c *Ctx) censusRegion(entries []*ssa.Function, stop func(*ssa.Function) bool) []*ssa.Function {
	g := c.Graph()
	reach := g.Reachable(entries, func(f *ssa.Function) bool { return c.P.InRepo(f) && (stop == nil || !stop(f)) })
	var out []*ssa.Function
	for f := range reach {
		if c.P.InRepo(f) && f.Synthetic == "" && len(f.Blocks) > 0 && (stop == nil || !stop(f)) {
			out = append(out, f)
		}
	}
	sort.Slice(out, func(i, j int) bool { return out[i].String() < out[j].String() })
	return out
}

// runCensus files one obligation per PPO: discharged by a side condition, accepted by the triage table (whose
// condition, when named, must hold), or a violation.
func (c *Ctx) runCensus(rule string, fns []*ssa.Function, kinds map[string]bool, conditions map[string]bool, inherit ...string) (n, discharged, accepted int) {
	tri := map[string]triageEntry{}
	for _, e := range c.triage().Accepted {
		if e.Property == c.R.Property {
			tri[e.Key] = e
		}
		// entries of other properties' censuses (the same site reached from another entry point)
		for _, pre := range inherit {
			if strings.HasPrefix(e.Key, pre+"/") {
				k := c.R.Property + "/" + rule + "/" + strings.TrimPrefix(e.Key, pre+"/")
				if _, own := tri[k]; !own {
					e2 := e
					e2.Reason = "(" + pre + ") " + e.Reason
					tri[k] = e2
				}
			}
		}
	}
	seenKeys := map[string]bool{}
	inRegion := map[*ssa.Function]bool{}
	for _, f := range fns {
		inRegion[f] = true
	}
	for _, p := range an.Census(fns, kinds) {
		p := p
		an.AutoDischarge(&p)
		if !p.Discharged && p.LiftParam != nil {
			// the size is a parameter: the obligation is lifted to every call site in the census region
			idx := -1
			for i, q := range p.Fn.Params {
				if q == p.LiftParam {
					idx = i
				}
			}
			lifted, allOK := 0, true
			ord := map[string]int{}
			for _, caller := range fns {
				for _, cs := range an.Calls(caller) {
					if an.StaticCallee(cs.Common) != p.Fn || idx >= len(cs.Common.Args) {
						continue
					}
					lifted++
					arg := cs.Common.Args[idx]
					if _, isConst := an.ConstInt(arg); isConst || an.NonNeg(arg, 0) {
						continue
					}
					allOK = false
					base := an.ShortName(caller) + "/lifted-" + p.Kind + ":" + an.ShortName(p.Fn)
					ord[base]++
					lk := sprintf("ppo:%s#%d", base, ord[base])
					seenKeys[c.R.Property+"/"+rule+"/"+lk] = true
					n++
					if e, ok := tri[c.R.Property+"/"+rule+"/"+lk]; ok {
						accepted++
						c.R.Hold(rule, lk, c.pos(cs.Pos()), "accepted: "+e.Reason)
						continue
					}
					c.R.Violate(rule, lk, c.pos(cs.Pos()), "the size handed to "+an.ShortName(p.Fn)+" (which allocates it) is neither constant nor non-negative by construction nor guarded: "+an.NewTracer().OriginString(arg))
				}
			}
			_ = allOK
			p.Discharged, p.Why = true, sprintf("size is a parameter: obligation lifted to %d call site(s) in the region", lifted)
		}
		n++
		key := "ppo:" + p.Key
		seenKeys[c.R.Property+"/"+rule+"/"+key] = true
		site := c.pos(p.Instr.Pos())
		if !p.Instr.Pos().IsValid() {
			site = c.pos(p.Fn.Pos())
		}
		switch {
		case p.Discharged:
			discharged++
			c.R.Hold(rule, key, site, "discharged: "+p.Why)
		default:
			if e, ok := tri[c.R.Property+"/"+rule+"/"+key]; ok {
				if e.Condition != "" && conditions != nil && !conditions[e.Condition] {
					c.R.Violate(rule, key, site, "accepted under condition "+e.Condition+", which no longer holds: "+e.Reason)
					continue
				}
				accepted++
				c.R.Hold(rule, key, site, "accepted: "+e.Reason)
				continue
			}
			c.R.Violate(rule, key, site, "panic-capable operation ("+p.Kind+" "+p.Desc+") in "+an.ShortName(p.Fn)+
				" is reachable from the entry points and is neither discharged by a checked side condition nor listed with a reason"+whyNot(p.Why))
		}
	}
	// results of (T, error) calls are not dereferenced where the error is certainly set
	if kinds == nil || kinds["errpath"] {
		pairs, sites := an.ErrPathDerefs(fns)
		c.R.Extra["result_pairs_"+rule] = pairs
		ord := map[string]int{}
		for _, s := range sites {
			base := an.ShortName(s.Fn) + "/errpath:" + an.CalleeName(s.Call.Common())
			ord[base]++
			n++
			c.R.Violate(rule, sprintf("ppo:%s#%d", base, ord[base]), c.pos(s.Use.Pos()), sprintf("%s of result %d of %s at a place reached only when the error result of that call is set: the result is nil there (nil dereference)", s.What, s.Index, an.CalleeName(s.Call.Common())))
		}
		if pairs > 0 {
			n++
			c.R.Hold(rule, "errpath:examined", "", sprintf("%d (pointer|interface, error) result pairs in the region: %d dereferences on an error-only path", pairs, len(sites)))
		}
	}
	// stale triage entries are reported (a site that disappeared needs no entry) — informational only
	var stale []string
	for k := range tri {
		if strings.HasPrefix(k, c.R.Property+"/"+rule+"/") && !seenKeys[k] {
			stale = append(stale, k)
		}
	}
	sort.Strings(stale)
	if len(stale) > 0 {
		c.R.Extra["stale_triage_entries_"+rule] = stale
	}
	return
}

func whyNot(w string) string {
	if w == "" {
		return ""
	}
	return " — " + w
}
