package props

import (
	"strings"

	"verif/checker/internal/an"
	"verif/checker/internal/load"

	"golang.org/x/tools/go/ssa"
)

func init() { register("C03", c03) }

// MTProto 1.0 inner header (writer side: where each field's bytes come from).
var innerWriterSpec = []specItem{
	{"salt", "8", []string{"GetServerSalt"}},
	{"session_id", "8", []string{"GetSessionID"}},
	{"msg_id", "8", []string{"param#2"}},
	{"seq_no", "4", []string{"GetSeqNo"}},
	{"message_data_length", "4", []string{"len(param#1)"}},
	{"message_data", "", []string{"param#1"}},
}

// reader side: where each field goes.
var innerReaderSpec = []specItem{
	{"salt", "8", []string{"messages.Encrypted.Salt"}},
	{"session_id", "8", []string{"messages.Encrypted.SessionID"}},
	{"msg_id", "8", []string{"messages.Encrypted.MsgID"}},
	{"seq_no", "4", []string{"messages.Encrypted.SeqNo"}},
	{"message_data_length", "4", []string{"→"}},
	{"message_data", "", []string{"messages.Encrypted.Msg"}},
}

func successPaths(fn *ssa.Function, valueIdx int) []an.Path {
	ps, _ := an.Paths(fn, 4096)
	var out []an.Path
	for _, p := range ps {
		if p.Ret != nil && valueIdx < len(p.Ret.Results) && !an.MayBeNilConst(an.RetVal(p.Ret, valueIdx)) {
			out = append(out, p)
		}
	}
	return out
}

func c03(c *Ctx) {
	r := c.R
	r.Explanation = "Sibling cross-check of the encrypted envelope against the MTProto 1.0 layout table: the ordered Put*/Pop* sequence on every success " +
		"path of serializePacket, (*Encrypted).Serialize, DeserializeEncrypted, (*Unencrypted).Serialize and DeserializeUnencrypted is extracted from the " +
		"SSA CFG (width from the primitive, label from the origin / destination of the bytes) and compared with the table on both sides; digest windows " +
		"(msg_key = SHA1[4:20], auth_key_id = SHA1[12:20], reader recomputes over decrypted[0:32+len]); the direction selector of the key derivation; the " +
		"padding amount tabulated over all residues; the 8-byte discrimination between encrypted and plain packets."
	r.NotDecided = []string{"the 16 byte windows and four SHA-1 compositions inside generateAESIGE and the cipher itself (numerical; pinned for the send direction by one fixture)",
		"agreement with an independent server implementation"}
	r.Rule("R03.I", "inner header field order and widths on writer and reader equal salt:8 session_id:8 msg_id:8 seq_no:4 len:4 body; ack bit OR-ed exactly on requireToAck", 4)
	r.Rule("R03.O", "outer envelope: auth_key_id:8, msg_key:16, ciphertext; msg_key and ciphertext are computed from the same unpadded plaintext; unencrypted: 0:8, msg_id:8, len:4, body with an exact-length check", 6)
	r.Rule("R03.W", "digest windows: MessageKey = SHA1(x)[4:20], AuthKeyHash = SHA1(key)[12:20], reader recomputes over decrypted[0:32+len]", 3)
	r.Rule("R03.D", "Encrypt derives keys with decode=false, Decrypt with decode=true; the offset is 8 on decode, 0 otherwise", 3)
	r.Rule("R03.P", "padding before IGE: 0 <= pad <= 15 and (len+pad) % 16 == 0 for every residue", 1)
	r.Rule("R03.E", "isPacketEncrypted tests the 8-byte position the unencrypted writer fills with zero", 1)
	tr := an.NewTracer()
	r.Rule("R03.A", "a packet a conformant server sealed is opened: the success exit of the two readers and of transport.ReadMsg is reachable for every msg_id with low bits 01 / 11, whatever its sign (ids of 2038 and later are negative as int64) and for every honest combination of packet length, declared length and 0..15 padding bytes", 4)
	c03Acceptance(c)
	// the sender (any caller's goroutine) and the receive loop run the envelope code at the same time, and nothing
	// serialises a send against a receive: scratch space shared through a package variable mixes the two key derivations
	// the plaintext the envelope parser reads is what the cipher produced: Decrypt hands back the block loop's output
	// whole (a trimmed plaintext loses body bytes that happen to be zero), and DeserializeEncrypted parses that value
	r.Rule("R03.V", "ige.Decrypt returns the buffer the block loop filled, whole (= R05.V filed under C03), and the decoder of the inner header in DeserializeEncrypted is built over that result itself", 2)
	c.resultIsLoopOutput("R03.V", "Decrypt")
	if f := c.fn("R03.V", load.MsgPkg, "", "DeserializeEncrypted"); f != nil {
		var plain ssa.Value
		for _, cs := range an.Calls(f) {
			if cs.Name == load.IgePkg+".Decrypt" {
				for _, ref := range *cs.Instr.(ssa.Value).Referrers() {
					if ex, ok := ref.(*ssa.Extract); ok && ex.Index == 0 {
						plain = ex
					}
				}
			}
		}
		n := 0
		okAll := plain != nil
		for _, cs := range an.Calls(f) {
			if cs.Name != "bytes.NewBuffer" {
				continue
			}
			n++
			if n == 2 && cs.Common.Args[0] != plain {
				okAll = false
			}
		}
		r.Check(okAll && n >= 2, "R03.V", "reader:parses-the-cipher-output", c.pos(f.Pos()), sprintf("%d buffers built in DeserializeEncrypted; the second one (inner header and body) is built over the value ige.Decrypt returned", n))
	}
	r.Rule("R03.B", "no function of packages messages and utils writes through a []byte parameter (the key, the packet, the body belong to the caller; the key is used for every later message)", 4)
	c.paramsUntouched("R03.B", load.MsgPkg, nil)
	c.paramsUntouched("R03.B", load.UtilsPkg, nil)
	r.Rule("R03.G", "nothing reachable from the envelope writers and readers (Serialize, DeserializeEncrypted, DeserializeUnencrypted) writes a package-level variable or appends / copies into the storage of one: a send and a receive overlap freely", 1)
	{
		var entries []*ssa.Function
		for _, e := range []struct{ recv, name string }{{"*Encrypted", "Serialize"}, {"*Unencrypted", "Serialize"}, {"", "DeserializeEncrypted"}, {"", "DeserializeUnencrypted"}} {
			if f := c.P.Func(load.MsgPkg, e.recv, e.name); f != nil {
				entries = append(entries, f)
			}
		}
		if len(entries) < 4 {
			r.Undecide("R03.G", "global-write:entries", "", sprintf("expected 4 envelope entry points, found %d", len(entries)))
		}
		c.noGlobalWrites("R03.G", entries, "the envelope path: a send and a receive that overlap both use it")
	}
	r.Rule("R03.K", "key schedule: the aes_key / aes_iv expressions extracted from generateAESIGE (both directions) are the MTProto 1.0 formulas — every window of auth_key, every SHA-1 input order, every digest slice", 4)
	if c.verifySummaries("R03.K") {
		c.keySchedule("R03.K")
		c.cipherKeying("R03.K", false)
	}

	// ---- R03.I writer ---------------------------------------------------------------------------
	if f := c.fn("R03.I", load.MsgPkg, "", "serializePacket"); f != nil {
		ps := successPaths(f, 0)
		if len(ps) == 0 {
			r.Undecide("R03.I", "writer:serializePacket", c.pos(f.Pos()), "no success path")
		}
		ackPaths, plainPaths := 0, 0
		for i, p := range ps {
			ops := c.codecOps(tr, p)
			diffs := matchSpec(ops, innerWriterSpec)
			r.Check(len(diffs) == 0, "R03.I", sprintf("writer:serializePacket/path%d", i+1), c.pos(f.Pos()), opsString(ops)+" :: "+strings.Join(diffs, "; "))
			// ack bit: which edge of the requireToAck test does this path take?
			if len(ops) > 3 {
				hasOr := strings.Contains(ops[3].label, "| const:1")
				took := pathTakesEdge(p, f, func(i *ssa.If) (int, bool) {
					cd, ok := an.Classify(i)
					if ok && cd.Kind == "bool" && isParam(cd.X, f, 3) {
						if cd.TrueIsEqual {
							return 0, true
						}
						return 1, true
					}
					return 0, false
				})
				switch took {
				case 1:
					ackPaths++
					r.Check(hasOr, "R03.I", "ack-bit:set-on-requireToAck", c.pos(ops[3].cs.Pos()), ops[3].label)
					c.seqNoAsIs("R03.I", ops[3].label, true, c.pos(ops[3].cs.Pos()))
				case 0:
					plainPaths++
					r.Check(!hasOr, "R03.I", "ack-bit:clear-otherwise", c.pos(ops[3].cs.Pos()), ops[3].label)
					c.seqNoAsIs("R03.I", ops[3].label, false, c.pos(ops[3].cs.Pos()))
				default:
					r.Undecide("R03.I", sprintf("ack-bit:path%d", i+1), c.pos(f.Pos()), "the path's relation to the requireToAck test was not recognised")
				}
			}
		}
		if ackPaths == 0 || plainPaths == 0 {
			r.Violate("R03.I", "ack-bit:both-arms", c.pos(f.Pos()), sprintf("expected one path with and one without the content-related bit, found %d / %d", ackPaths, plainPaths))
		}
	}
	// ---- R03.I / R03.O reader -------------------------------------------------------------------
	if f := c.fn("R03.I", load.MsgPkg, "", "DeserializeEncrypted"); f != nil {
		ps := uniformPaths(c, tr, successPaths(f, 0))
		if len(ps) != 1 {
			r.Undecide("R03.I", "reader:DeserializeEncrypted", c.pos(f.Pos()), sprintf("the success paths do not all perform the same read sequence (%d distinct)", len(ps)))
		} else {
			ops := c.codecOps(tr, ps[0])
			var outer, inner []codecOp
			for _, o := range ops {
				if len(outer) == 0 || o.stream == outer[0].stream {
					outer = append(outer, o)
				} else {
					inner = append(inner, o)
				}
			}
			diffs := matchSpec(inner, innerReaderSpec)
			// the body length read is the declared length
			if len(inner) == 6 && len(inner[5].cs.Common.Args) > 1 {
				lenCall := inner[4].cs.Value()
				if !valueIs(inner[5].cs.Common.Args[1], lenCall) {
					diffs = append(diffs, "the body is not read with the declared length")
				}
			}
			r.Check(len(diffs) == 0, "R03.I", "reader:DeserializeEncrypted/inner", c.pos(f.Pos()), opsString(inner)+" :: "+strings.Join(diffs, "; "))
			// outer: 8 → compared with AuthKeyHash, 16 → MsgKey, len(data)-24 → Decrypt
			var od []string
			if len(outer) != 3 {
				od = append(od, sprintf("%d outer fields, expected 3", len(outer)))
			} else {
				if outer[0].width != "8" || !(strings.Contains(outer[0].label, "bytes.Equal") || strings.Contains(outer[0].label, "bytes.Compare")) {
					od = append(od, "field 0 must be the 8-byte key id compared with bytes.Equal: "+outer[0].String())
				}
				if outer[1].width != "16" || !strings.Contains(outer[1].label, "messages.Encrypted.MsgKey") {
					od = append(od, "field 1 must be the 16-byte msg_key: "+outer[1].String())
				}
				if !strings.Contains(outer[2].label, "aes_ige.Decrypt#0") {
					od = append(od, "field 2 must be handed to ige.Decrypt: "+outer[2].String())
				}
				if len(outer[2].cs.Common.Args) > 1 {
					v, ok := an.EvalInt(outer[2].cs.Common.Args[1], func(v ssa.Value) (int64, bool) {
						if an.IsLenOf(v, func(x ssa.Value) bool { return isParam(x, f, 0) }) {
							return 1000, true
						}
						return 0, false
					})
					if !ok || v != 1000-24 {
						od = append(od, sprintf("ciphertext length must be len(data)-24 (evaluates to %d for len 1000)", v))
					}
				}
			}
			r.Check(len(od) == 0, "R03.O", "reader:DeserializeEncrypted/outer", c.pos(f.Pos()), opsString(outer)+" :: "+strings.Join(od, "; "))
			// Decrypt(encryptedData, authKey, msg.MsgKey)
			for _, cs := range an.CallsNamed(f, load.IgePkg+".Decrypt") {
				a := cs.Common.Args
				ok := len(a) == 3 && isParam(a[1], f, 1) && strings.Contains(tr.OriginString(a[2]), "PopRawBytes")
				r.Check(ok, "R03.O", "reader:Decrypt-args", c.pos(cs.Pos()), "Decrypt(ciphertext, authKey parameter, the packet's msg_key)")
			}
		}
	}
	// ---- R03.O outer writer ---------------------------------------------------------------------
	if f := c.fn("R03.O", load.MsgPkg, "*Encrypted", "Serialize"); f != nil {
		ps := successPaths(f, 0)
		for i, p := range ps {
			ops := c.codecOps(tr, p)
			diffs := matchSpec(ops, []specItem{{"auth_key_id", "", []string{"utils.AuthKeyHash"}}, {"msg_key", "", []string{"aes_ige.MessageKey"}}, {"encrypted_data", "", []string{"aes_ige.Encrypt#0"}}})
			r.Check(len(diffs) == 0, "R03.O", sprintf("writer:Encrypted.Serialize/path%d", i+1), c.pos(f.Pos()), opsString(ops)+" :: "+strings.Join(diffs, "; "))
		}
		// same plaintext for MessageKey and Encrypt; same key for AuthKeyHash and Encrypt
		var plain, keyA, keyE ssa.Value
		okSame := true
		for _, cs := range an.Calls(f) {
			switch cs.Name {
			case load.IgePkg + ".MessageKey":
				if plain != nil && plain != cs.Common.Args[0] {
					okSame = false
				}
				plain = cs.Common.Args[0]
			case load.IgePkg + ".Encrypt":
				if plain != nil && plain != cs.Common.Args[0] {
					okSame = false
				}
				plain = cs.Common.Args[0]
				keyE = cs.Common.Args[1]
			case load.UtilsPkg + ".AuthKeyHash":
				keyA = cs.Common.Args[0]
			}
		}
		okPlain := okSame && plain != nil && strings.Contains(tr.OriginString(plain), "messages.serializePacket")
		r.Check(okPlain, "R03.O", "writer:same-plaintext", c.pos(f.Pos()), "msg_key and ciphertext are computed from the same serializePacket result")
		okKey := keyA != nil && keyE != nil && strings.Contains(tr.OriginString(keyA), "GetAuthKey") && strings.Contains(tr.OriginString(keyE), "GetAuthKey")
		r.Check(okKey, "R03.O", "writer:same-key", c.pos(f.Pos()), "auth_key_id and the AES key derive from GetAuthKey()")
		for _, cs := range an.CallsNamed(f, load.MsgPkg+".serializePacket") {
			a := cs.Common.Args
			ok := len(a) == 4 && isParam(a[0], f, 1) && strings.Contains(tr.OriginString(a[1]), "messages.Encrypted.Msg") &&
				strings.Contains(tr.OriginString(a[2]), "messages.Encrypted.MsgID") && isParam(a[3], f, 2)
			r.Check(ok, "R03.O", "writer:serializePacket-args", c.pos(cs.Pos()), "serializePacket(client, msg.Msg, msg.MsgID, requireToAck)")
		}
	}
	// ---- unencrypted ----------------------------------------------------------------------------
	if f := c.fn("R03.O", load.MsgPkg, "*Unencrypted", "Serialize"); f != nil {
		for i, p := range successPaths(f, 0) {
			ops := c.codecOps(tr, p)
			diffs := matchSpec(ops, []specItem{{"auth_key_id=0", "8", []string{"const:0"}}, {"msg_id", "8", []string{"messages.Unencrypted.MsgID"}},
				{"message_data_length", "4", []string{"len(", "messages.Unencrypted.Msg"}}, {"message_data", "", []string{"messages.Unencrypted.Msg"}}})
			r.Check(len(diffs) == 0, "R03.O", sprintf("writer:Unencrypted.Serialize/path%d", i+1), c.pos(f.Pos()), opsString(ops)+" :: "+strings.Join(diffs, "; "))
		}
	}
	if f := c.fn("R03.O", load.MsgPkg, "", "DeserializeUnencrypted"); f != nil {
		ps := uniformPaths(c, tr, successPaths(f, 0))
		if len(ps) != 1 {
			r.Undecide("R03.O", "reader:DeserializeUnencrypted", c.pos(f.Pos()), sprintf("the success paths do not all perform the same read sequence (%d distinct)", len(ps)))
		} else {
			ops := c.codecOps(tr, ps[0])
			diffs := matchSpec(ops, []specItem{{"auth_key_id", "8", nil}, {"msg_id", "8", []string{"messages.Unencrypted.MsgID"}}, {"message_data_length", "4", nil}, {"message_data", "rest", []string{"messages.Unencrypted.Msg"}}})
			// exact-length check: some eq guard on the success path relates len(data) and the declared length with offset 20
			okLen := false
			for _, i := range an.Ifs(f) {
				cd, ok := an.Classify(i)
				if !ok || cd.Kind != "eq" || len(ops) < 3 {
					continue
				}
				decl := ops[2].cs.Value()
				eval := func(v ssa.Value, n, m int64) (int64, bool) {
					return an.EvalInt(v, func(x ssa.Value) (int64, bool) {
						if an.IsLenOf(x, func(y ssa.Value) bool { return isParam(y, f, 0) }) {
							return n, true
						}
						if x == decl {
							return m, true
						}
						return 0, false
					})
				}
				x1, ok1 := eval(cd.X, 120, 100)
				y1, ok2 := eval(cd.Y, 120, 100)
				x2, ok3 := eval(cd.X, 121, 100)
				y2, ok4 := eval(cd.Y, 121, 100)
				if ok1 && ok2 && ok3 && ok4 && x1 == y1 && x2 != y2 {
					un := an.Guarded(f, []an.Edge{cd.EdgeWhen(true)}, []ssa.Instruction{ps[0].Ret})
					okLen = len(un) == 0
				}
			}
			if !okLen {
				diffs = append(diffs, "no guard len(data)-20 == declared length before the success return")
			}
			r.Check(len(diffs) == 0, "R03.O", "reader:DeserializeUnencrypted", c.pos(f.Pos()), opsString(ops)+" :: "+strings.Join(diffs, "; "))
		}
	}

	// ---- R03.W ---------------------------------------------------------------------------------
	winCheck := func(key string, f *ssa.Function, lo, hi string) {
		if f == nil {
			return
		}
		ok := false
		var got []string
		for _, b := range f.Blocks {
			for _, in := range b.Instrs {
				if ret, ok2 := an.AsReturn(in); ok2 && len(ret.Results) == 1 {
					o := tr.OriginString(an.RetVal(ret, 0))
					got = append(got, simplifyOrigin(o))
					if (strings.Contains(o, "Sha1") || strings.Contains(o, "sha1.Sum")) && (strings.HasSuffix(o, "["+lo+":"+hi+"]") || hi == "20" && strings.HasSuffix(o, "["+lo+":]")) {
						ok = true
					}
				}
			}
		}
		r.Check(ok, "R03.W", key, c.pos(f.Pos()), "returns "+strings.Join(got, " / ")+"; window ["+lo+":"+hi+"] of a SHA-1 digest required")
	}
	winCheck("window:MessageKey", c.fn("R03.W", load.IgePkg, "", "MessageKey"), "4", "20")
	winCheck("window:AuthKeyHash", c.fn("R03.W", load.UtilsPkg, "", "AuthKeyHash"), "12", "20")
	if f := c.P.Func(load.MsgPkg, "", "DeserializeEncrypted"); f != nil {
		ok := false
		detail := "no bytes.Equal(SHA1(decrypted[0:32+len])[4:20], msg_key) found"
		for _, i := range an.Ifs(f) {
			cd, okc := an.Classify(i)
			if !okc || cd.Kind != "bytes.Equal" {
				continue
			}
			for _, pair := range [][2]ssa.Value{{cd.X, cd.Y}, {cd.Y, cd.X}} {
				if w := shaWindow(pair[0], tr, f); w != "" {
					detail = w
					if strings.HasPrefix(w, "ok") && strings.Contains(tr.OriginString(pair[1]), "PopRawBytes") {
						ok = true
					}
				}
			}
		}
		r.Check(ok, "R03.W", "window:reader-recompute", c.pos(f.Pos()), detail)
	}

	// ---- R03.D ---------------------------------------------------------------------------------
	for _, d := range []struct {
		fn   string
		want string
	}{{"Encrypt", "false"}, {"Decrypt", "true"}} {
		f := c.fn("R03.D", load.IgePkg, "", d.fn)
		if f == nil {
			continue
		}
		n := 0
		for _, cs := range an.CallsNamed(f, load.IgePkg+".generateAESIGE") {
			n++
			k, ok := cs.Common.Args[2].(*ssa.Const)
			r.Check(ok && k.Value != nil && k.Value.String() == d.want, "R03.D", "direction:"+d.fn, c.pos(cs.Pos()), "generateAESIGE(..., decode="+d.want+") required")
		}
		if n == 0 {
			r.Violate("R03.D", "direction:"+d.fn, c.pos(f.Pos()), d.fn+" does not derive its key through generateAESIGE")
		}
	}
	if f := c.fn("R03.D", load.IgePkg, "", "generateAESIGE"); f != nil {
		ok := false
		detail := "offset selector not found"
		for _, i := range an.Ifs(f) {
			cd, okc := an.Classify(i)
			if !okc || cd.Kind != "bool" || !isParam(cd.X, f, 2) {
				continue
			}
			// the phi merging the two arms
			for _, b := range f.Blocks {
				for _, in := range b.Instrs {
					phi, okp := in.(*ssa.Phi)
					if !okp || len(phi.Edges) != 2 {
						continue
					}
					vals := map[bool]int64{}
					for k, e := range phi.Edges {
						v, okk := an.ConstInt(e)
						if !okk {
							continue
						}
						pred := b.Preds[k]
						// does pred lie on the true arm?
						onTrue := pred == i.Block().Succs[0] || (pred == i.Block() && b == i.Block().Succs[0])
						onFalse := pred == i.Block().Succs[1] || (pred == i.Block() && b == i.Block().Succs[1])
						if onTrue == cd.TrueIsEqual && (onTrue || onFalse) {
							vals[true] = v
						} else if onTrue || onFalse {
							vals[false] = v
						}
					}
					if len(vals) == 2 {
						detail = sprintf("offset = %d on decode, %d otherwise", vals[true], vals[false])
						ok = vals[true] == 8 && vals[false] == 0
					}
				}
			}
		}
		r.Check(ok, "R03.D", "direction:offset-phi", c.pos(f.Pos()), detail)
	}

	// ---- R03.P / R03.E -----------------------------------------------------------------------
	c.checkEncryptPad("R03.P")
	if f := c.fn("R03.E", load.TransPkg, "", "isPacketEncrypted"); f != nil {
		ok := false
		for _, i := range an.Ifs(f) {
			_ = i
		}
		for _, cs := range an.Calls(f) {
			if strings.HasSuffix(cs.Name, ".Uint64") && len(cs.Common.Args) == 2 {
				o := tr.OriginString(cs.Common.Args[1])
				if o == "param#0[:8]" || o == "param#0[0:8]" {
					ok = true
				}
			}
		}
		// and the unencrypted writer's first field is the constant 0 of width 8 (checked above); the encrypted writer's first field is the key id
		r.Check(ok, "R03.E", "discriminate:first-8-bytes", c.pos(f.Pos()), "isPacketEncrypted reads data[:8] as one little-endian word")
	}
}

// uniformPaths keeps one representative per distinct codec sequence.
func uniformPaths(c *Ctx, tr *an.Tracer, ps []an.Path) []an.Path {
	seen := map[string]bool{}
	var out []an.Path
	for _, p := range ps {
		k := opsString(c.codecOps(tr, p))
		if !seen[k] {
			seen[k] = true
			out = append(out, p)
		}
	}
	return out
}

// valueIs: v is w, possibly through integer conversions.
func valueIs(v, w ssa.Value) bool {
	for {
		if v == w {
			return true
		}
		cv, ok := v.(*ssa.Convert)
		if !ok {
			return false
		}
		v = cv.X
	}
}

// pathTakesEdge: for the If selected by pick (returns the successor index meaning "flag set"), reports 1 when the
// path takes that edge, 0 when it takes the other, -1 when the If is not on the path.
func pathTakesEdge(p an.Path, f *ssa.Function, pick func(*ssa.If) (int, bool)) int {
	for k, b := range p.Blocks {
		if len(b.Instrs) == 0 || k+1 >= len(p.Blocks) {
			continue
		}
		i, ok := b.Instrs[len(b.Instrs)-1].(*ssa.If)
		if !ok {
			continue
		}
		s, ok := pick(i)
		if !ok {
			continue
		}
		if b.Succs[s] == p.Blocks[k+1] {
			return 1
		}
		return 0
	}
	return -1
}

// shaWindow: v is SHA1(buf[0:32+len])[4:20] where buf is the result of ige.Decrypt.
func shaWindow(v ssa.Value, tr *an.Tracer, f *ssa.Function) string {
	var call *ssa.Call
	if mk, isCall := v.(*ssa.Call); isCall && an.CalleeName(mk.Common()) == load.IgePkg+".MessageKey" && len(mk.Call.Args) == 1 {
		// the package's own msg_key function: R03.W window:MessageKey shows it to be SHA1(x)[4:20]
		call = mk
	} else {
		sl, ok := v.(*ssa.Slice)
		if !ok {
			return ""
		}
		lo, _ := an.ConstInt(sl.Low)
		hi := int64(20)
		if sl.High != nil {
			hi, _ = an.ConstInt(sl.High)
		}
		call, ok = sl.X.(*ssa.Call)
		if !ok || !strings.Contains(an.CalleeName(call.Common()), "Sha1") || len(call.Call.Args) != 1 {
			return ""
		}
		if sl.Low == nil || lo != 4 || hi != 20 {
			return sprintf("digest window is [%d:%d], MTProto 1.0 msg_key is [4:20]", lo, hi)
		}
	}
	in, ok := call.Call.Args[0].(*ssa.Slice)
	if !ok {
		return "the digest is computed over the whole decrypted buffer (padding included), not over decrypted[0:32+len]"
	}
	if !strings.Contains(tr.OriginString(in.X), "aes_ige.Decrypt#0") {
		return "the digest input is not the decrypted buffer: " + tr.OriginString(in.X)
	}
	if in.Low != nil {
		if k, ok := an.ConstInt(in.Low); !ok || k != 0 {
			return "the digest input does not start at offset 0"
		}
	}
	if in.High == nil {
		return "the digest is computed up to the end of the decrypted buffer (padding included)"
	}
	// High must be 32 + declared length
	h, ok := an.EvalInt(in.High, func(x ssa.Value) (int64, bool) {
		if call, ok := x.(*ssa.Call); ok && strings.HasSuffix(an.CalleeName(call.Common()), ".PopInt") {
			return 1000, true
		}
		return 0, false
	})
	if !ok || h != 1032 {
		return sprintf("the digest input ends at %d for a declared length of 1000 (must be 32+len)", h)
	}
	return "ok: SHA1(decrypted[0:32+len])[4:20]"
}

// c03Acceptance: R03.A.
func c03Acceptance(c *Ctx) {
	r := c.R
	tr := an.NewTracer()
	if f := c.P.Func(load.MsgPkg, "", "DeserializeEncrypted"); f != nil {
		bad, n, ok := honestLengthsAdmitted(c, f, tr)
		if !ok {
			r.Undecide("R03.A", "accept:encrypted/lengths", c.pos(f.Pos()), "declared length or success exit not found")
		} else {
			r.Check(len(bad) == 0, "R03.A", "accept:encrypted/lengths", c.pos(f.Pos()), sprintf("%d honest (packet length, declared length, padding 0..15) points evaluated; refused: %s", n, strings.Join(bad, "; ")))
		}
	}
	// once the message key has vouched for the packet nothing refuses it any more: the checks that may refuse
	// (lengths, parity) come before; a refusal behind the key comparison turns away a packet a conformant server
	// sealed (an empty body leaves the reader at end of input, and a zero-length read at end of input is io.EOF)
	if f := c.P.Func(load.MsgPkg, "", "DeserializeEncrypted"); f != nil {
		var key *an.Cond
		for _, i := range an.Ifs(f) {
			cd, ok := an.Classify(i)
			if ok && cd.Kind == "bytes.Equal" && (strings.Contains(tr.OriginString(cd.X)+tr.OriginString(cd.Y), "Sha1Byte") || strings.Contains(tr.OriginString(cd.X)+tr.OriginString(cd.Y), "aes_ige.MessageKey")) {
				key = cd
			}
		}
		if key == nil {
			r.Undecide("R03.A", "accept:encrypted/nothing-refuses-after-the-key-check", c.pos(f.Pos()), "the msg_key comparison was not found")
		} else {
			reach := an.ReachFrom(f, key.EdgeWhen(true), nil)
			var bad []string
			nret := 0
			for _, b := range f.Blocks {
				ret, ok := an.AsReturn(b.Instrs[len(b.Instrs)-1])
				if !ok || !reach[b] || len(ret.Results) != 2 {
					continue
				}
				nret++
				if k, isConst := an.RetVal(ret, 1).(*ssa.Const); !isConst || k.Value != nil {
					bad = append(bad, "error exit at "+c.pos(ret.Pos()))
				}
			}
			r.Check(len(bad) == 0 && nret > 0, "R03.A", "accept:encrypted/nothing-refuses-after-the-key-check", c.pos(key.If.Cond.Pos()), sprintf("%d exit(s) behind the equal edge of the msg_key comparison; %s", nret, strings.Join(bad, "; ")))
		}
	}
	// transport.ReadMsg opens what the readers opened: the only refusals of its own are the 4-byte error-code frame
	// and the msg_id parity test - a check of an opened field against session state (the salt the session happens to
	// hold) turns away packets a conformant server sealed, bad_server_salt itself among them
	if f := c.P.Func(load.TransPkg, "*transport", "ReadMsg"); f != nil {
		var parity *an.Cond
		for _, i := range an.Ifs(f) {
			cd, ok := an.Classify(i)
			if !ok {
				continue
			}
			o := ""
			if cd.X != nil {
				o += tr.OriginString(cd.X)
			}
			if strings.Contains(o, "GetMsgID") {
				parity = cd
			}
		}
		var bad []string
		n := 0
		for _, cs := range an.Calls(f) {
			switch cs.Name {
			case "fmt.Errorf", "errors.New", "github.com/pkg/errors.New", "github.com/pkg/errors.Errorf":
			default:
				continue
			}
			n++
			okGuard := false
			if parity != nil {
				for _, e := range []an.Edge{{From: parity.If.Block(), Succ: 0}, {From: parity.If.Block(), Succ: 1}} {
					if len(an.Guarded(f, []an.Edge{e}, []ssa.Instruction{cs.Instr})) == 0 {
						okGuard = true
					}
				}
				// the parity test is two comparisons (mod != 1 && mod != 3): the refusal sits behind the second
				for _, i := range an.Ifs(f) {
					if cd, ok := an.Classify(i); ok && cd.X == parity.X {
						for k := 0; k < 2; k++ {
							if len(an.Guarded(f, []an.Edge{{From: i.Block(), Succ: k}}, []ssa.Instruction{cs.Instr})) == 0 {
								okGuard = true
							}
						}
					}
				}
			}
			if !okGuard {
				bad = append(bad, "the error made at "+c.pos(cs.Pos())+" is not the parity refusal")
			}
		}
		r.Check(len(bad) == 0, "R03.A", "accept:transport/no-refusal-of-its-own", c.pos(f.Pos()), sprintf("%d error(s) made by ReadMsg itself; %s", n, strings.Join(bad, "; ")))
	}
	for _, t := range []struct{ pkg, recv, name, key string }{
		{load.MsgPkg, "", "DeserializeEncrypted", "accept:encrypted"},
		{load.MsgPkg, "", "DeserializeUnencrypted", "accept:plain"},
		{load.TransPkg, "*transport", "ReadMsg", "accept:transport"},
	} {
		f := c.fn("R03.A", t.pkg, t.recv, t.name)
		if f == nil {
			continue
		}
		var succ []ssa.Instruction
		for _, p := range successPaths(f, 0) {
			succ = append(succ, p.Ret)
		}
		succ = dedupInstr(succ)
		if len(succ) == 0 {
			r.Undecide("R03.A", t.key, c.pos(f.Pos()), "no success exit")
			continue
		}
		isID := func(v ssa.Value) bool {
			if call, ok := v.(*ssa.Call); ok {
				n := an.CalleeName(call.Common())
				if strings.HasSuffix(n, ".PopLong") {
					return t.name != "DeserializeEncrypted" || strings.Contains(c.destLabel(tr, call), "messages.Encrypted.MsgID")
				}
				if strings.HasSuffix(n, ").GetMsgID") {
					return true
				}
			}
			if ld, ok := v.(*ssa.UnOp); ok {
				o := tr.OriginString(ld)
				if t.name == "DeserializeEncrypted" {
					return strings.Contains(o, "PopLong") && strings.Contains(an.NewTracerNoAlloc().OriginString(ld), "messages.Encrypted.MsgID")
				}
				return strings.Contains(o, "PopLong")
			}
			return false
		}
		okAll, used := true, false
		for _, ret := range succ {
			_, all, u := residueReachSigned(f, isID, ret)
			used = used || u
			if !(all[1] && all[3]) {
				okAll = false
			}
		}
		if len(succ) > 1 {
			// several success exits: each id must reach at least one of them — approximate by the union
			okAll = true
			for _, cls := range []int64{1, 3} {
				ok := false
				for _, ret := range succ {
					_, all, _ := residueReachSigned(f, isID, ret)
					if all[cls] {
						ok = true
					}
				}
				okAll = okAll && ok
			}
		}
		r.Check(used && okAll, "R03.A", t.key, c.pos(f.Pos()), "the parity test of the msg_id accepts every id with low bits 01 and 11 — positive, negative and with only the top bit set (a remainder taken with % is negative for negative ids)")
	}
}
