package props

import (
	"verif/checker/internal/an"

	"go/ast"
	"go/constant"
	"go/token"
	"go/types"
	"golang.org/x/tools/go/ssa"
	"sort"
	"strings"

	"verif/checker/internal/load"
	"verif/checker/internal/pop"
	"verif/checker/internal/tlschema"

	"golang.org/x/tools/go/packages"
)

func init() { register("C13", c13) }

// The documented exclusions of the API schema (cross-checked against tlparser.excludedDefinitions by R13.R).
var excludedAPIDefs = map[string]string{
	"true": "builtin", "boolFalse": "builtin", "boolTrue": "builtin", "vector": "builtin",
	"invokeAfterMsg": "generic wrapper", "invokeAfterMsgs": "generic wrapper", "initConnection": "generic wrapper",
	"invokeWithLayer": "generic wrapper", "invokeWithoutUpdates": "generic wrapper",
	"invokeWithMessagesRange": "generic wrapper", "invokeWithTakeout": "generic wrapper",
}

// Hand-written request wrappers: Go type -> schema function (frozen table, 3 rows; they are not registered,
// so they cannot be matched by id — and the id is exactly what must be checked).
var wrapperTable = map[string]string{
	"InitConnectionParams":    "initConnection",
	"InvokeWithLayerParams":   "invokeWithLayer",
	"InvokeWithTakeoutParams": "invokeWithTakeout",
}

// typeMatcher compares a TL type expression with a Go type, resolving boxed types by constructor id.
type typeMatcher struct {
	c   *Ctx
	pp  *pop.Population
	sch *schemaInfo
	// number of boxed-type comparisons done (evidence)
	boxed int
}

func isNamed(t types.Type, pkg, name string) bool {
	n, ok := t.(*types.Named)
	return ok && n.Obj().Pkg() != nil && n.Obj().Pkg().Path() == pkg && n.Obj().Name() == name
}

func isPtrToNamed(t types.Type, pkg, name string) bool {
	p, ok := t.(*types.Pointer)
	return ok && isNamed(p.Elem(), pkg, name)
}

func basicKind(t types.Type) types.BasicKind {
	if b, ok := t.(*types.Basic); ok {
		return b.Kind()
	}
	return types.Invalid
}

func idSet(ms []*pop.Member) map[uint32]bool {
	s := map[uint32]bool{}
	for _, m := range ms {
		if m.CRCKnown {
			s[m.CRC] = true
		}
	}
	return s
}

func sameSet(a, b map[uint32]bool) bool {
	if len(a) != len(b) {
		return false
	}
	for k := range a {
		if !b[k] {
			return false
		}
	}
	return true
}

func fmtSet(s map[uint32]bool) string {
	var xs []string
	for k := range s {
		xs = append(xs, sprintf("%08x", k))
	}
	sort.Strings(xs)
	if len(xs) > 6 {
		xs = append(xs[:6], sprintf("…(%d)", len(s)))
	}
	return "{" + strings.Join(xs, ",") + "}"
}

// match returns "" when goT is the image of tlT.
func (tm *typeMatcher) match(tlT string, goT types.Type) string {
	switch tlT {
	case "int":
		if basicKind(goT) == types.Int32 {
			return ""
		}
		return "TL int needs Go int32, have " + typeString(goT)
	case "long":
		if basicKind(goT) == types.Int64 {
			return ""
		}
		return "TL long needs Go int64, have " + typeString(goT)
	case "double":
		if basicKind(goT) == types.Float64 {
			return ""
		}
		return "TL double needs Go float64, have " + typeString(goT)
	case "string":
		if basicKind(goT) == types.String {
			return ""
		}
		return "TL string needs Go string, have " + typeString(goT)
	case "bytes":
		if s, ok := goT.(*types.Slice); ok && basicKind(s.Elem()) == types.Uint8 {
			return ""
		}
		return "TL bytes needs Go []byte, have " + typeString(goT)
	case "Bool", "true":
		if basicKind(goT) == types.Bool {
			return ""
		}
		return "TL " + tlT + " needs Go bool, have " + typeString(goT)
	case "int128":
		if isPtrToNamed(goT, load.TLPkg, "Int128") {
			return ""
		}
		return "TL int128 needs *tl.Int128, have " + typeString(goT)
	case "int256":
		if isPtrToNamed(goT, load.TLPkg, "Int256") {
			return ""
		}
		return "TL int256 needs *tl.Int256, have " + typeString(goT)
	case "Object", "!X":
		if isNamed(goT, load.TLPkg, "Object") {
			return ""
		}
		return "TL " + tlT + " needs tl.Object, have " + typeString(goT)
	}
	if el, _, ok := tlschema.VectorElem(tlT); ok {
		s, ok := goT.(*types.Slice)
		if !ok {
			return "TL " + tlT + " needs a Go slice, have " + typeString(goT)
		}
		if why := tm.match(el, s.Elem()); why != "" {
			return "element: " + why
		}
		return ""
	}
	// bare constructor used as a type (future_salt, %Message)
	if d, ok := tm.sch.ByName[tlT]; ok && !d.IsFunc && len(tm.sch.Ctors[tlT]) == 0 {
		return tm.matchBare(d, goT)
	}
	ctors := tm.sch.Ctors[tlT]
	if len(ctors) == 0 {
		return "TL type " + tlT + " has no constructor in the schema"
	}
	want := map[uint32]bool{}
	for _, d := range ctors {
		if !d.HasID {
			// bare type such as Message: compare structurally
			if len(ctors) == 1 {
				return tm.matchBare(d, goT)
			}
			return "constructor " + d.Name + " of " + tlT + " has no id"
		}
		want[d.ID] = true
	}
	tm.boxed++
	switch g := goT.(type) {
	case *types.Named:
		switch u := g.Underlying().(type) {
		case *types.Interface:
			have := idSet(tm.pp.Implementers(g))
			if !sameSet(want, have) {
				return sprintf("TL type %s has constructors %s but Go interface %s is implemented by registered ids %s", tlT, fmtSet(want), g.Obj().Name(), fmtSet(have))
			}
			return ""
		case *types.Basic:
			if u.Kind() != types.Uint32 {
				break
			}
			have := idSet(tm.pp.EnumValues(g))
			if !sameSet(want, have) {
				return sprintf("TL type %s has constructors %s but Go enum %s has registered values %s", tlT, fmtSet(want), g.Obj().Name(), fmtSet(have))
			}
			return ""
		}
	case *types.Pointer:
		if n, ok := g.Elem().(*types.Named); ok {
			m := tm.pp.ByType[n.Obj()]
			if m == nil {
				return "Go type " + typeString(goT) + " is not a registered constructor"
			}
			if len(want) != 1 || !want[m.CRC] {
				return sprintf("TL type %s has constructors %s but Go field is the single constructor %s#%08x", tlT, fmtSet(want), m.Name, m.CRC)
			}
			return ""
		}
	}
	return "TL boxed type " + tlT + " has no recognised Go image in " + typeString(goT)
}

func (tm *typeMatcher) matchBare(d *tlschema.Def, goT types.Type) string {
	p, ok := goT.(*types.Pointer)
	if !ok {
		return "bare constructor " + d.Name + " needs a pointer to its struct, have " + typeString(goT)
	}
	n, ok := p.Elem().(*types.Named)
	if !ok {
		return "bare constructor " + d.Name + " needs a pointer to a named struct"
	}
	if d.HasID {
		m := tm.pp.ByType[n.Obj()]
		if m == nil || !m.CRCKnown || m.CRC != d.ID {
			return sprintf("bare %s#%08x: Go element type %s is not the registered constructor with that id", d.Name, d.ID, n.Obj().Name())
		}
		return ""
	}
	// id-less (message): structural comparison of the fields
	st, ok := n.Underlying().(*types.Struct)
	if !ok {
		return "bare " + d.Name + ": Go type is not a struct"
	}
	var ps []tlschema.Param
	for _, q := range d.Params {
		if !q.Generic {
			ps = append(ps, q)
		}
	}
	if st.NumFields() != len(ps) {
		return sprintf("bare %s: %d parameters but Go struct %s has %d fields", d.Name, len(ps), n.Obj().Name(), st.NumFields())
	}
	for i, q := range ps {
		if why := tm.match(q.Type, st.Field(i).Type()); why != "" {
			return sprintf("bare %s field %d (%s): %s", d.Name, i, q.Name, why)
		}
	}
	return ""
}

// compareFields checks one definition against one population member, field by field.
// Returns the list of disagreements and the number of comparisons made.
func (tm *typeMatcher) compareFields(d *tlschema.Def, m *pop.Member) (diffs []string, n int) {
	if m.Struct == nil {
		// non-struct member (MessageContainer): hand-written codec, compared by R01.H / R13.S
		return nil, 0
	}
	var ps []tlschema.Param
	flagPos := -1
	for _, q := range d.Params {
		if q.Generic {
			continue
		}
		if q.IsFlags {
			if flagPos >= 0 {
				diffs = append(diffs, "more than one flags word")
			}
			flagPos = len(ps)
			continue
		}
		ps = append(ps, q)
	}
	var fs []pop.Field
	for _, f := range m.Fields {
		if f.Tag.Ignore {
			continue
		}
		fs = append(fs, f)
	}
	n++
	if len(ps) != len(fs) {
		diffs = append(diffs, sprintf("schema has %d parameters, Go struct has %d wire fields", len(ps), len(fs)))
		return
	}
	n++
	if (flagPos >= 0) != m.HasFlagIx {
		diffs = append(diffs, sprintf("flags word in schema: %v, FlagIndex() method: %v", flagPos >= 0, m.HasFlagIx))
	} else if flagPos >= 0 {
		if !m.FlagIxOK {
			diffs = append(diffs, "FlagIndex() is not a single constant return")
		} else if m.FlagIndex != flagPos {
			diffs = append(diffs, sprintf("flags word at schema position %d, FlagIndex() = %d", flagPos, m.FlagIndex))
		}
	}
	for i, q := range ps {
		f := fs[i]
		n++
		if f.Tag.Err != "" {
			diffs = append(diffs, sprintf("field %d %s: tag error: %s", i, f.Name, f.Tag.Err))
			continue
		}
		if q.Cond {
			if !f.Tag.HasFlag || f.Tag.Bit != q.Bit {
				diffs = append(diffs, sprintf("field %d %s: schema %s:flags.%d?%s, Go tag %q", i, f.Name, q.Name, q.Bit, q.Type, f.Tag.Raw))
			}
			if (q.Type == "true") != f.Tag.InBitflag {
				diffs = append(diffs, sprintf("field %d %s: schema type %s, encoded_in_bitflags=%v", i, f.Name, q.Type, f.Tag.InBitflag))
			}
			if flagPos < 0 || i < flagPos {
				diffs = append(diffs, sprintf("field %d %s is conditional but precedes the flags word", i, f.Name))
			}
		} else if f.Tag.HasFlag || f.Tag.InBitflag {
			diffs = append(diffs, sprintf("field %d %s: schema parameter %s is unconditional, Go tag %q", i, f.Name, q.Name, f.Tag.Raw))
		}
		if why := tm.match(q.Type, f.Type); why != "" {
			diffs = append(diffs, sprintf("field %d %s (schema %s:%s): %s", i, f.Name, q.Name, q.Type, why))
		}
		// two neighbouring parameters of one type can only be told apart by name: a field that carries the
		// name of ANOTHER parameter of the same definition sits at that parameter's position in every user's
		// mind and at this one on the wire. (A hand-written type may shorten a name - Code for error_code -
		// so a name no parameter has is not a disagreement.)
		n++
		for j, other := range ps {
			if j != i && foldName(other.Name) == foldName(f.Name) && foldName(q.Name) != foldName(f.Name) {
				diffs = append(diffs, sprintf("field %d is named %s, which is schema parameter %d (%s); parameter %d is %s: the struct lists its fields in another order than the schema", i, f.Name, j, other.Name, i, q.Name))
			}
		}
	}
	return
}

// foldName reduces a schema parameter name (snake_case or lowerCamel) and a Go field name (UpperCamel with
// initialisms) to the same spelling: letters and digits only, lower case.
func foldName(s string) string {
	var b strings.Builder
	for _, r := range strings.ToLower(s) {
		if r == '_' {
			continue
		}
		b.WriteRune(r)
	}
	return b.String()
}

func c13(c *Ctx) {
	r := c.R
	r.Level = "translation_validation"
	r.Explanation = "Translation validation of the shipped API layer: two independent readings of the same definitions — the .tl text " +
		"(an independent TL reader in checker/internal/tlschema, canonical-line CRC-32 included) and the type-checked Go program " +
		"(registration arguments, CRC()/FlagIndex() constants, struct fields and tags, client method bodies) — are compared definition by " +
		"definition and method by method, matched by constructor id. Decides the structural statement of C13 for every definition; it does not " +
		"call any method end-to-end."
	r.NotDecided = []string{"'called end-to-end … returns the server's answer' (dynamic behaviour of MakeRequest, the decoder and the server)"}
	c.errorsKept("R13.X", "the shipped wrappers (package telegram): the error of the request is the error of the wrapper", 300, inPkgs(load.TgPkg))
	r.Rule("R13.I", "every schema definition's id equals the CRC-32 of its canonical line and is the CRC() constant of exactly one registered Go type", 1195)
	r.Rule("R13.F", "parameters ↔ struct fields in order: TL→Go type map (boxed types resolved by constructor-id sets), flag bit, encoded_in_bitflags ⇔ true, FlagIndex() = position of flags:#", 1100)
	r.Rule("R13.R", "registered set = schema set minus the documented exclusions; exclusion table agrees with tlparser.excludedDefinitions; enums registered as enums", 60)
	r.Rule("R13.W", "hand-written wrappers carry the id and fields of their schema lines", 3)
	r.Rule("R13.A", "every generated client method hands back the server's answer: on each success return the result is the value of the type assertion on MakeRequest's result (not the assertion's ok flag, a constant or another value)", 330)
	c13AnswerReturned(c)
	r.Rule("R13.M", "each function has a client method that sends its request type with argument k in field k and asserts the schema's result kind (Bool→bool, Vector<T>→[]T′ with identical hint)", 343)
	r.Rule("R13.S", "each registered MTProto service type equals its mtproto.tl line", 30)

	pp, err := c.Pop()
	if err != nil {
		r.Undecide("R13.I", "population", "", err.Error())
		return
	}
	api, mt, err := c.Schemas()
	if err != nil {
		r.Undecide("R13.I", "schema", "", err.Error())
		return
	}
	for _, pr := range pp.Problems {
		r.Undecide("R13.R", "registration-arg", "", pr)
	}
	tm := &typeMatcher{c: c, pp: pp, sch: api}
	programs, disagreements := 0, 0

	// --- API schema: ids, registration, fields --------------------------------------------------
	tgMembersByCRC := map[uint32][]*pop.Member{}
	for _, m := range pp.Members {
		if m.Pkg == load.TgPkg && m.CRCKnown {
			tgMembersByCRC[m.CRC] = append(tgMembersByCRC[m.CRC], m)
		}
	}
	matched := map[*pop.Member]bool{}
	for _, d := range api.S.Defs {
		if !d.HasID {
			continue
		}
		programs++
		key := d.Name
		site := sprintf("schemes/api_latest.tl:%d", d.Line)
		if got := canonCRC(api, d); got != d.ID {
			r.Violate("R13.I", "crc32:"+key, site, sprintf("id #%08x is not the CRC-32 of the canonical line (%08x): %q", d.ID, got, tlschema.Canonical(d.Raw)))
			disagreements++
		} else {
			r.Hold("R13.I", "crc32:"+key, site, "")
		}
		if why, ex := excludedAPIDefs[d.Name]; ex {
			if ms := tgMembersByCRC[d.ID]; len(ms) == 1 && wrapperTable[ms[0].Name] == d.Name {
				r.Hold("R13.R", "excluded:"+key, site, why+"; its hand-written wrapper "+ms[0].Name+" is registered (compared under R13.W)")
			} else if len(ms) > 0 {
				r.Violate("R13.R", "excluded-but-registered:"+key, c.pos(ms[0].Pos), sprintf("%s (%s) is a documented exclusion but %s is registered under its id", d.Name, why, ms[0].Name))
			} else {
				r.Hold("R13.R", "excluded:"+key, site, why)
			}
			continue
		}
		ms := tgMembersByCRC[d.ID]
		switch len(ms) {
		case 0:
			r.Violate("R13.I", "registered:"+key, site, sprintf("no registered Go type returns CRC() = %08x (%s)", d.ID, d.Name))
			disagreements++
			continue
		case 1:
			// the id belongs to the Go name a caller writes: the type / enum constant that carries the id is the one
			// named after the definition (two members of an enum that trade ids keep the registry intact and send
			// each other's constructor)
			want := foldName(strings.ReplaceAll(d.Name, ".", ""))
			got := foldName(ms[0].Name)
			if got == want || got == want+"obj" || got == want+"params" {
				r.Hold("R13.I", "registered:"+key, c.pos(ms[0].Pos), ms[0].Name)
			} else {
				r.Violate("R13.I", "registered:"+key, c.pos(ms[0].Pos), sprintf("id %08x (%s) is carried by the Go name %s: the name a caller writes selects another constructor than the schema gives that name", d.ID, d.Name, ms[0].Name))
				disagreements++
			}
		default:
			var names []string
			for _, m := range ms {
				names = append(names, m.Name)
			}
			r.Violate("R13.I", "registered:"+key, c.pos(ms[1].Pos), sprintf("id %08x is returned by %d registered types: %s", d.ID, len(ms), strings.Join(names, ", ")))
			disagreements++
		}
		m := ms[0]
		matched[m] = true
		// enum-ness: a constructor is registered as an enum value iff the Go side is a named uint32 constant
		if m.IsEnum {
			ok := m.EnumConst != nil && len(paramsNoGeneric(d)) == 0 && !d.IsFunc
			r.Check(ok, "R13.R", "enum:"+key, c.pos(m.Pos), "a constructor registered through RegisterEnums must be a parameterless constructor held as a named uint32 constant")
			continue
		}
		if m.ByValue {
			r.Violate("R13.R", "byvalue:"+key, c.pos(m.Pos), "non-enum constructor registered by value")
			continue
		}
		diffs, _ := tm.compareFields(d, m)
		if len(diffs) > 0 {
			r.Violate("R13.F", "fields:"+key, c.pos(m.Pos), m.Name+": "+strings.Join(diffs, "; "))
			disagreements++
		} else {
			r.Hold("R13.F", "fields:"+key, c.pos(m.Pos), sprintf("%s: %d fields", m.Name, len(m.Fields)))
		}
	}
	// registered telegram members that no schema line defines
	for _, m := range pp.Members {
		if m.Pkg != load.TgPkg {
			continue
		}
		if !m.CRCKnown {
			r.Undecide("R13.I", "crc-const:"+m.Name, c.pos(m.Pos), m.CRCWhy)
			continue
		}
		if m.RegCount > 1 {
			r.Violate("R13.R", "registered-twice:"+m.Name, c.pos(m.RegPos), sprintf("registered %d times", m.RegCount))
		}
		if matched[m] {
			continue
		}
		if ds := api.ByID[m.CRC]; len(ds) > 0 {
			continue // excluded def registered: reported above
		}
		r.Violate("R13.R", "not-in-schema:"+m.Name, c.pos(m.Pos), sprintf("%s is registered with id %08x but no definition of schemes/api_latest.tl has that id", m.Name, m.CRC))
		disagreements++
	}
	// exclusion table vs tlparser.excludedDefinitions
	c13Exclusions(c)

	// --- wrappers ---------------------------------------------------------------------------------
	wrapperMembers := append([]*pop.Member{}, pp.Unregistered...)
	for gn := range wrapperTable {
		if tn := c.P.Pkg(load.TgPkg).Types.Scope().Lookup(gn); tn != nil {
			if m := pp.ByType[tn.(*types.TypeName)]; m != nil {
				wrapperMembers = append(wrapperMembers, m) // registered by hand: same comparison
			}
		}
	}
	sort.Slice(wrapperMembers, func(i, j int) bool { return wrapperMembers[i].Name < wrapperMembers[j].Name })
	for _, m := range wrapperMembers {
		if m.Pkg != load.TgPkg {
			continue
		}
		fn, isWrapper := wrapperTable[m.Name]
		if !isWrapper {
			// any other unregistered tl.Object in package telegram must still be a schema definition
			if m.CRCKnown && len(api.ByID[m.CRC]) > 0 {
				continue
			}
			r.Violate("R13.W", "unknown-object:"+m.Name, c.pos(m.Pos), sprintf("%s implements tl.Object (id %08x) but is neither registered nor a documented wrapper nor a schema definition", m.Name, m.CRC))
			continue
		}
		d := api.ByName[fn]
		if d == nil {
			r.Violate("R13.W", "wrapper:"+m.Name, c.pos(m.Pos), "schema has no function "+fn)
			continue
		}
		programs++
		if !m.CRCKnown {
			r.Undecide("R13.W", "wrapper-id:"+m.Name, c.pos(m.Pos), m.CRCWhy)
		} else if m.CRC != d.ID {
			r.Violate("R13.W", "wrapper-id:"+m.Name, c.pos(m.Pos), sprintf("%s.CRC() = %08x, schema %s#%08x", m.Name, m.CRC, d.Name, d.ID))
			disagreements++
		} else {
			r.Hold("R13.W", "wrapper-id:"+m.Name, c.pos(m.Pos), "")
		}
		diffs, _ := tm.compareFields(d, m)
		if len(diffs) > 0 {
			r.Violate("R13.W", "wrapper-fields:"+m.Name, c.pos(m.Pos), strings.Join(diffs, "; "))
			disagreements++
		} else {
			r.Hold("R13.W", "wrapper-fields:"+m.Name, c.pos(m.Pos), "")
		}
	}
	for gn := range wrapperTable {
		found := false
		for _, m := range pp.Unregistered {
			if m.Pkg == load.TgPkg && m.Name == gn {
				found = true
			}
		}
		if !found {
			if tn := c.P.Pkg(load.TgPkg).Types.Scope().Lookup(gn); tn != nil {
				if m := pp.ByType[tn.(*types.TypeName)]; m != nil {
					continue // now registered: compared through the normal path
				}
			}
			r.Undecide("R13.W", "wrapper:"+gn, "", "documented wrapper type not found")
		}
	}

	c13WrapperMethods(c)

	// --- methods ----------------------------------------------------------------------------------
	c13Methods(c, pp, api, tm, &programs, &disagreements)

	// --- MTProto service schema -------------------------------------------------------------------
	tms := &typeMatcher{c: c, pp: pp, sch: mt}
	for _, m := range pp.Members {
		if m.Pkg != load.ObjPkg {
			continue
		}
		if !m.CRCKnown {
			r.Undecide("R13.S", "crc-const:"+m.Name, c.pos(m.Pos), m.CRCWhy)
			continue
		}
		programs++
		ds := mt.ByID[m.CRC]
		if len(ds) != 1 {
			r.Violate("R13.S", "service-id:"+m.Name, c.pos(m.Pos), sprintf("%s has id %08x; schemes/mtproto.tl defines it %d times", m.Name, m.CRC, len(ds)))
			disagreements++
			continue
		}
		d := ds[0]
		if got := canonCRC(mt, d); got != d.ID {
			r.Violate("R13.S", "service-crc32:"+d.Name, sprintf("schemes/mtproto.tl:%d", d.Line), sprintf("id #%08x is not the CRC-32 of the canonical line (%08x)", d.ID, got))
			disagreements++
		}
		if m.Struct == nil || m.Unmarshaler || m.Marshaler {
			// hand-written codec: the byte layout is compared by R01.H (C01); here only the id
			r.Hold("R13.S", "service-id:"+m.Name, c.pos(m.Pos), "hand-written codec; layout compared under C01 R01.H")
			continue
		}
		diffs, _ := tms.compareFields(d, m)
		if len(diffs) > 0 {
			r.Violate("R13.S", "service-fields:"+m.Name, c.pos(m.Pos), d.Name+": "+strings.Join(diffs, "; "))
			disagreements++
		} else {
			r.Hold("R13.S", "service-fields:"+m.Name, c.pos(m.Pos), d.Name)
		}
	}
	r.Extra["programs"] = programs
	r.Extra["disagreements_checked"] = programs
	r.Extra["disagreements_found"] = disagreements
	r.Extra["boxed_type_comparisons"] = tm.boxed
	r.Extra["population"] = len(pp.Members)
	r.Extra["schema_definitions_api"] = len(api.S.Defs)
	r.Extra["schema_definitions_mtproto"] = len(mt.S.Defs)
	r.Extra["schema_lines_skipped"] = append(append([]string{}, api.Skipped...), mt.Skipped...)
}

// canonCRC applies the canonical-line rule; "%T" (bare use of a boxed type) is first replaced by the name of
// T's single constructor, which is what the original schema text says (vector<%Message> == vector<message>).
func canonCRC(si *schemaInfo, d *tlschema.Def) uint32 {
	raw := d.Raw
	for {
		i := strings.IndexByte(raw, '%')
		if i < 0 {
			break
		}
		j := i + 1
		for j < len(raw) && (raw[j] == '_' || raw[j] == '.' || raw[j] >= '0' && raw[j] <= '9' || raw[j] >= 'a' && raw[j] <= 'z' || raw[j] >= 'A' && raw[j] <= 'Z') {
			j++
		}
		name := raw[i+1 : j]
		if cs := si.Ctors[name]; len(cs) == 1 {
			name = cs[0].Name
		}
		raw = raw[:i] + name + raw[j:]
	}
	return tlschema.CanonicalCRC(raw)
}

func paramsNoGeneric(d *tlschema.Def) []tlschema.Param {
	var ps []tlschema.Param
	for _, q := range d.Params {
		if !q.Generic {
			ps = append(ps, q)
		}
	}
	return ps
}

// c13Exclusions cross-checks the checker's exclusion table against the generator's.
func c13Exclusions(c *Ctx) {
	pk := c.P.Pkg(load.ParsePkg)
	if pk == nil {
		c.R.Undecide("R13.R", "exclusion-table", "", "tlparser package not loaded")
		return
	}
	keys, pos := stringMapKeys(pk, "excludedDefinitions")
	if keys == nil {
		c.R.Undecide("R13.R", "exclusion-table", "", "tlparser.excludedDefinitions is not a map literal with constant string keys")
		return
	}
	have := map[string]bool{}
	for _, k := range keys {
		have[k] = true
	}
	for k := range excludedAPIDefs {
		c.R.Check(have[k], "R13.R", "exclusion-table:"+k, c.pos(pos), "documented exclusion "+k+" must be in tlparser.excludedDefinitions")
	}
	for k := range have {
		if _, ok := excludedAPIDefs[k]; !ok {
			c.R.Violate("R13.R", "exclusion-table:"+k, c.pos(pos), "tlparser excludes "+k+", which is not a documented exclusion")
		}
	}
}

// stringMapKeys evaluates the constant string keys of a package-level map composite literal.
func stringMapKeys(pk *packages.Package, name string) ([]string, token.Pos) {
	for _, f := range pk.Syntax {
		for _, d := range f.Decls {
			gd, ok := d.(*ast.GenDecl)
			if !ok || gd.Tok != token.VAR {
				continue
			}
			for _, sp := range gd.Specs {
				vs := sp.(*ast.ValueSpec)
				for i, n := range vs.Names {
					if n.Name != name || i >= len(vs.Values) {
						continue
					}
					cl, ok := vs.Values[i].(*ast.CompositeLit)
					if !ok {
						return nil, n.Pos()
					}
					var out []string
					for _, e := range cl.Elts {
						kv, ok := e.(*ast.KeyValueExpr)
						if !ok {
							return nil, n.Pos()
						}
						tv := pk.TypesInfo.Types[kv.Key]
						if tv.Value == nil || tv.Value.Kind() != constant.String {
							return nil, n.Pos()
						}
						out = append(out, constant.StringVal(tv.Value))
					}
					return out, n.Pos()
				}
			}
		}
	}
	return nil, token.NoPos
}

// c13Methods: R13.M.
func c13Methods(c *Ctx, pp *pop.Population, api *schemaInfo, tm *typeMatcher, programs, disagreements *int) {
	r := c.R
	pk := c.P.Pkg(load.TgPkg)
	if pk == nil {
		r.Undecide("R13.M", "package", "", "telegram package not loaded")
		return
	}
	clientObj, _ := pk.Types.Scope().Lookup("Client").(*types.TypeName)
	if clientObj == nil {
		r.Undecide("R13.M", "anchor:Client", "", "type telegram.Client not found")
		return
	}
	type methodInfo struct {
		fd      *ast.FuncDecl
		reqType *types.Named
		call    *ast.CallExpr
		hinted  bool
	}
	byReq := map[*types.TypeName][]*methodInfo{}
	for _, f := range pk.Syntax {
		for _, d := range f.Decls {
			fd, ok := d.(*ast.FuncDecl)
			if !ok || fd.Recv == nil || fd.Body == nil || len(fd.Recv.List) != 1 {
				continue
			}
			st, ok := fd.Recv.List[0].Type.(*ast.StarExpr)
			if !ok {
				continue
			}
			id, ok := st.X.(*ast.Ident)
			if !ok || pk.TypesInfo.Uses[id] != clientObj {
				continue
			}
			ast.Inspect(fd.Body, func(n ast.Node) bool {
				call, ok := n.(*ast.CallExpr)
				if !ok {
					return true
				}
				sel, ok := call.Fun.(*ast.SelectorExpr)
				if !ok || (sel.Sel.Name != "MakeRequest" && sel.Sel.Name != "MakeRequestWithHintToDecoder") || len(call.Args) == 0 {
					return true
				}
				fo, _ := pk.TypesInfo.Uses[sel.Sel].(*types.Func)
				if fo == nil || fo.Pkg() == nil || fo.Pkg().Path() != load.RootMod {
					return true
				}
				at := pk.TypesInfo.Types[call.Args[0]].Type
				p, ok := at.(*types.Pointer)
				if !ok {
					return true
				}
				n2, ok := p.Elem().(*types.Named)
				if !ok {
					return true
				}
				byReq[n2.Obj()] = append(byReq[n2.Obj()], &methodInfo{fd: fd, reqType: n2, call: call, hinted: sel.Sel.Name == "MakeRequestWithHintToDecoder"})
				return true
			})
		}
	}
	for _, d := range api.S.Defs {
		if !d.IsFunc || !d.HasID {
			continue
		}
		if _, ex := excludedAPIDefs[d.Name]; ex {
			continue
		}
		ms := pp.ByCRC[d.ID]
		var m *pop.Member
		for _, x := range ms {
			if x.Pkg == load.TgPkg && !x.IsEnum {
				m = x
			}
		}
		if m == nil {
			continue // already reported by R13.I
		}
		*programs++
		mis := byReq[m.Named.Obj()]
		if len(mis) == 0 {
			r.Violate("R13.M", "method:"+d.Name, c.pos(m.Pos), "no method of *Client sends "+m.Name)
			*disagreements++
			continue
		}
		for i, mi := range mis {
			key := "method:" + d.Name
			if i > 0 {
				key += sprintf("#%d", i)
			}
			var diffs []string
			// (a) request construction
			arg := ast.Unparen(mi.call.Args[0])
			params := methodParams(pk, mi.fd)
			switch a := arg.(type) {
			case *ast.Ident:
				// whole params struct handed in by the caller
				ok := false
				for _, p := range params {
					if pk.TypesInfo.Uses[a] == p {
						ok = true
					}
				}
				if !ok {
					diffs = append(diffs, "request value "+a.Name+" is not a parameter of the method")
				}
			case *ast.UnaryExpr:
				cl, ok := ast.Unparen(a.X).(*ast.CompositeLit)
				if !ok || a.Op != token.AND {
					diffs = append(diffs, "request is not &"+m.Name+"{…}")
					break
				}
				diffs = append(diffs, checkLiteral(pk, cl, m, params)...)
			default:
				diffs = append(diffs, "unrecognised request expression "+types.ExprString(arg))
			}
			// (b) result kind
			diffs = append(diffs, checkResult(pk, mi.fd, mi.call, mi.hinted, d, tm)...)
			if len(diffs) > 0 {
				r.Violate("R13.M", key, c.pos(mi.fd.Pos()), mi.fd.Name.Name+": "+strings.Join(diffs, "; "))
				*disagreements++
			} else {
				r.Hold("R13.M", key, c.pos(mi.fd.Pos()), mi.fd.Name.Name+" → "+d.Result)
			}
		}
	}
}

func methodParams(pk *packages.Package, fd *ast.FuncDecl) []*types.Var {
	var out []*types.Var
	for _, f := range fd.Type.Params.List {
		for _, n := range f.Names {
			if v, ok := pk.TypesInfo.Defs[n].(*types.Var); ok {
				out = append(out, v)
			}
		}
	}
	return out
}

// checkLiteral: the k-th method parameter must be stored in the k-th wire field of the request struct, every
// parameter used exactly once, every field assigned from a parameter.
func checkLiteral(pk *packages.Package, cl *ast.CompositeLit, m *pop.Member, params []*types.Var) []string {
	var diffs []string
	assigned := map[string]*types.Var{}
	for i, e := range cl.Elts {
		var fname string
		var val ast.Expr
		if kv, ok := e.(*ast.KeyValueExpr); ok {
			id, ok := kv.Key.(*ast.Ident)
			if !ok {
				return append(diffs, "non-identifier key in request literal")
			}
			fname, val = id.Name, kv.Value
		} else {
			if i >= len(m.Fields) {
				return append(diffs, "too many positional elements")
			}
			fname, val = m.Fields[i].Name, e
		}
		id, ok := ast.Unparen(val).(*ast.Ident)
		if !ok {
			diffs = append(diffs, "field "+fname+" is assigned "+types.ExprString(val)+", not a method parameter")
			continue
		}
		v, _ := pk.TypesInfo.Uses[id].(*types.Var)
		isParam := false
		for _, p := range params {
			if p == v {
				isParam = true
			}
		}
		if !isParam {
			diffs = append(diffs, "field "+fname+" is assigned "+id.Name+", which is not a method parameter")
			continue
		}
		assigned[fname] = v
	}
	if len(params) != len(m.Fields) {
		diffs = append(diffs, sprintf("method has %d parameters, request struct has %d fields", len(params), len(m.Fields)))
		return diffs
	}
	for k, f := range m.Fields {
		v := assigned[f.Name]
		if v == nil {
			diffs = append(diffs, "field "+f.Name+" is not assigned")
			continue
		}
		if v != params[k] {
			diffs = append(diffs, sprintf("field %d %s is assigned parameter %s; schema position %d is parameter %s", k, f.Name, v.Name(), k, params[k].Name()))
		}
	}
	return diffs
}

// checkResult: the value returned by MakeRequest* is asserted to the Go image of the schema's result type;
// vector results are requested with a hint of exactly that slice type.
func checkResult(pk *packages.Package, fd *ast.FuncDecl, call *ast.CallExpr, hinted bool, d *tlschema.Def, tm *typeMatcher) []string {
	var diffs []string
	// the variable holding the response
	var respVar types.Object
	ast.Inspect(fd.Body, func(n ast.Node) bool {
		as, ok := n.(*ast.AssignStmt)
		if !ok || len(as.Rhs) != 1 || as.Rhs[0] != ast.Expr(call) || len(as.Lhs) < 1 {
			return true
		}
		if id, ok := as.Lhs[0].(*ast.Ident); ok {
			respVar = pk.TypesInfo.Defs[id]
			if respVar == nil {
				respVar = pk.TypesInfo.Uses[id]
			}
		}
		return false
	})
	if respVar == nil {
		return []string{"response of MakeRequest is not bound to a variable"}
	}
	var asserted types.Type
	nAssert := 0
	ast.Inspect(fd.Body, func(n ast.Node) bool {
		ta, ok := n.(*ast.TypeAssertExpr)
		if !ok || ta.Type == nil {
			return true
		}
		id, ok := ast.Unparen(ta.X).(*ast.Ident)
		if !ok || pk.TypesInfo.Uses[id] != respVar {
			return true
		}
		asserted = pk.TypesInfo.Types[ta.Type].Type
		nAssert++
		return true
	})
	if nAssert != 1 {
		return []string{sprintf("expected exactly one type assertion on the response, found %d", nAssert)}
	}
	// declared result type of the method = asserted type
	if fd.Type.Results == nil || len(fd.Type.Results.List) < 1 {
		return []string{"method has no results"}
	}
	declared := pk.TypesInfo.Types[fd.Type.Results.List[0].Type].Type
	if !types.Identical(declared, asserted) {
		diffs = append(diffs, "method returns "+typeString(declared)+" but asserts "+typeString(asserted))
	}
	if why := tm.match(d.Result, asserted); why != "" {
		diffs = append(diffs, "result: "+why)
	}
	_, _, isVec := tlschema.VectorElem(d.Result)
	if isVec != hinted {
		diffs = append(diffs, sprintf("schema result %s: vector=%v but decoder hint used=%v", d.Result, isVec, hinted))
	}
	if hinted {
		// reflect.TypeOf(<composite literal of type T>) with T identical to the asserted type
		if len(call.Args) != 2 {
			diffs = append(diffs, sprintf("expected exactly one hint, have %d", len(call.Args)-1))
		} else if hc, ok := ast.Unparen(call.Args[1]).(*ast.CallExpr); !ok || len(hc.Args) != 1 {
			diffs = append(diffs, "hint is not reflect.TypeOf(x)")
		} else {
			fo := calleeObj(pk, hc)
			if fo == nil || fo.Pkg() == nil || fo.Pkg().Path() != "reflect" || fo.Name() != "TypeOf" {
				diffs = append(diffs, "hint is not reflect.TypeOf(x)")
			} else if ht := pk.TypesInfo.Types[hc.Args[0]].Type; !types.Identical(ht, asserted) {
				diffs = append(diffs, "hint type "+typeString(ht)+" differs from asserted type "+typeString(asserted))
			}
		}
	}
	return diffs
}

func calleeObj(pk *packages.Package, call *ast.CallExpr) types.Object {
	switch f := ast.Unparen(call.Fun).(type) {
	case *ast.SelectorExpr:
		return pk.TypesInfo.Uses[f.Sel]
	case *ast.Ident:
		return pk.TypesInfo.Uses[f]
	}
	return nil
}

// c13WrapperMethods (R13.W): the client method of a hand-written wrapper sends the wrapper - on every path the
// request handed to MakeRequest is the method's own *XParams argument, or an XParams made on the spot whose field k
// is the method's argument k.  (A wrapper that sends the bare query for some argument value carries the query's
// id, not the one the schema gives the wrapper.)
func c13WrapperMethods(c *Ctx) {
	r := c.R
	for _, w := range []struct{ method, params string }{{"InitConnection", "InitConnectionParams"}, {"InvokeWithLayer", "InvokeWithLayerParams"}, {"InvokeWithTakeout", "InvokeWithTakeoutParams"}} {
		f := c.fn("R13.W", load.TgPkg, "*Client", w.method)
		if f == nil {
			continue
		}
		key := "wrapper-method:" + w.method
		n := 0
		var bad []string
		for _, cs := range an.Calls(f) {
			if !strings.HasSuffix(cs.Name, ".MakeRequest") && !strings.HasSuffix(cs.Name, ".MakeRequestWithHintToDecoder") {
				continue
			}
			n++
			args := an.CallArgs(cs.Common)
			if len(args) < 2 {
				bad = append(bad, "MakeRequest without a request at "+c.pos(cs.Pos()))
				continue
			}
			v := args[1]
			if mi, ok := v.(*ssa.MakeInterface); ok {
				v = mi.X
			}
			isParams := func(t types.Type) bool {
				pt, ok := t.Underlying().(*types.Pointer)
				if !ok {
					return false
				}
				nm, ok := pt.Elem().(*types.Named)
				return ok && nm.Obj().Name() == w.params && nm.Obj().Pkg().Path() == load.TgPkg
			}
			switch x := v.(type) {
			case *ssa.Parameter:
				if !isParams(x.Type()) {
					bad = append(bad, sprintf("the request at %s is the method's argument %s, which is not a *%s", c.pos(cs.Pos()), x.Name(), w.params))
				}
			case *ssa.Alloc:
				if !isParams(x.Type()) {
					bad = append(bad, sprintf("the request at %s is a %s, not a *%s", c.pos(cs.Pos()), x.Type(), w.params))
					break
				}
				st := x.Type().Underlying().(*types.Pointer).Elem().Underlying().(*types.Struct)
				for i := 0; i < st.NumFields(); i++ {
					ok := false
					for _, rf := range *x.Referrers() {
						fa, isFA := rf.(*ssa.FieldAddr)
						if !isFA || fa.Field != i {
							continue
						}
						for _, r2 := range *fa.Referrers() {
							if sto, isSt := r2.(*ssa.Store); isSt && sto.Addr == ssa.Value(fa) && i+1 < len(f.Params) {
								val := sto.Val
								for {
									if cv, isC := val.(*ssa.Convert); isC {
										val = cv.X
										continue
									}
									if cv, isC := val.(*ssa.ChangeType); isC {
										val = cv.X
										continue
									}
									break
								}
								if val == ssa.Value(f.Params[i+1]) {
									ok = true
								}
							}
						}
					}
					if !ok {
						bad = append(bad, sprintf("field %s of the request at %s is not the method's argument %d", st.Field(i).Name(), c.pos(cs.Pos()), i+1))
					}
				}
			default:
				bad = append(bad, sprintf("the request at %s is not always a *%s (it is %s: chosen among several values)", c.pos(cs.Pos()), w.params, v.Name()))
			}
		}
		if n == 0 {
			r.Violate("R13.W", key, c.pos(f.Pos()), "the wrapper method does not call MakeRequest")
			continue
		}
		r.Check(len(bad) == 0, "R13.W", key, c.pos(f.Pos()), strings.Join(bad, "; "))
	}
}

// c13AnswerReturned: R13.A over every method of *telegram.Client that calls MakeRequest / MakeRequestWithHintToDecoder
// and returns (T, error).
func c13AnswerReturned(c *Ctx) {
	r := c.R
	var fns []*ssa.Function
	for f := range c.P.AllFunctions() {
		if load.FuncPkgPath(f) != load.TgPkg || f.Synthetic != "" || len(f.Blocks) == 0 || f.Signature.Recv() == nil || f.Parent() != nil {
			continue
		}
		if !strings.HasSuffix(f.Signature.Recv().Type().String(), "telegram.Client") || f.Signature.Results().Len() != 2 {
			continue
		}
		fns = append(fns, f)
	}
	sort.Slice(fns, func(i, j int) bool { return fns[i].String() < fns[j].String() })
	for _, f := range fns {
		var answer ssa.Value
		for _, cs := range an.Calls(f) {
			if strings.HasSuffix(cs.Name, "Client).MakeRequest") || strings.HasSuffix(cs.Name, "Client).MakeRequestWithHintToDecoder") || strings.HasSuffix(cs.Name, "MTProto).MakeRequest") || strings.HasSuffix(cs.Name, "MTProto).MakeRequestWithHintToDecoder") {
				if v, ok := cs.Instr.(ssa.Value); ok {
					for _, ref := range *v.Referrers() {
						if ex, ok := ref.(*ssa.Extract); ok && ex.Index == 0 {
							answer = ex
						}
					}
				}
			}
		}
		if answer == nil {
			continue // not a request wrapper
		}
		var bad []string
		n := 0
		for _, b := range f.Blocks {
			for _, in := range b.Instrs {
				ret, ok := an.AsReturn(in)
				if !ok || len(ret.Results) != 2 || !an.MayReturnNil(ret, 1) {
					continue
				}
				n++
				v := an.RetVal(ret, 0)
				if ex, ok := v.(*ssa.Extract); ok && ex.Index == 0 {
					v = ex.Tuple
				}
				ta, ok := v.(*ssa.TypeAssert)
				if !ok || ta.X != answer {
					bad = append(bad, "the success return at "+c.pos(ret.Pos())+" hands back "+an.RetVal(ret, 0).String()+", not the asserted answer")
				}
			}
		}
		if n == 0 {
			continue
		}
		r.Check(len(bad) == 0, "R13.A", "answer:"+f.Name(), c.pos(f.Pos()), strings.Join(bad, "; "))
	}
}
