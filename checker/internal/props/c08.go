package props

import (
	"go/types"
	"sort"
	"strings"

	"verif/checker/internal/an"
	"verif/checker/internal/load"

	"golang.org/x/tools/go/ssa"
)

func init() { register("C08", c08) }

// errResultOf finds the error result (last tuple element) of the first call in fn whose callee name contains sub.
func errResultOf(fn *ssa.Function, sub string) (*ssa.Extract, *ssa.Call) {
	for _, cs := range an.Calls(fn) {
		if !strings.Contains(cs.Name, sub) {
			continue
		}
		call, ok := cs.Instr.(*ssa.Call)
		if !ok {
			continue
		}
		tup, ok := call.Type().(*types.Tuple)
		if !ok {
			continue
		}
		for _, r := range *call.Referrers() {
			if ex, ok := r.(*ssa.Extract); ok && ex.Index == tup.Len()-1 {
				return ex, call
			}
		}
	}
	return nil, nil
}

func isGlobalLoad(v ssa.Value, name string) bool {
	u, ok := v.(*ssa.UnOp)
	if !ok {
		return false
	}
	g, ok := u.X.(*ssa.Global)
	return ok && (name == "" || g.Name() == name)
}

// sentinelExits: with err fixed to the sentinel (non-nil, equal to the named global, unequal to other globals,
// failing every type assertion), which returns stay reachable and do they hand the error back unwrapped?
func sentinelExits(fn *ssa.Function, errV ssa.Value, sentinel string) (bad []ssa.Instruction, n int) {
	same := func(v ssa.Value) bool { return an.Unconv(v) == errV }
	reach := an.ReachWith(fn, nil, func(i *ssa.If) (int, bool) {
		cd, ok := an.Classify(i)
		if !ok {
			return 0, false
		}
		edge := func(equal bool) (int, bool) { return cd.EdgeWhen(equal).Succ, true }
		switch cd.Kind {
		case "nil":
			if same(cd.X) {
				return edge(false)
			}
		case "eq":
			for _, pair := range [][2]ssa.Value{{cd.X, cd.Y}, {cd.Y, cd.X}} {
				if same(pair[0]) && isGlobalLoad(an.Unconv(pair[1]), "") {
					return edge(isGlobalLoad(an.Unconv(pair[1]), sentinel))
				}
			}
		case "assert":
			if same(cd.X) {
				return edge(false)
			}
		}
		return 0, false
	})
	eb := errV.(ssa.Instruction).Block()
	for _, b := range fn.Blocks {
		if !reach[b] || !(eb == b || eb.Dominates(b)) {
			continue
		}
		for _, in := range b.Instrs {
			ret, ok := an.AsReturn(in)
			if !ok || len(ret.Results) == 0 {
				continue
			}
			n++
			if !same(an.RetVal(ret, len(ret.Results)-1)) {
				bad = append(bad, ret)
			}
		}
	}
	return
}

func c08(c *Ctx) {
	r := c.R
	r.Explanation = "Framing is independent of TCP segmentation exactly when every read the mode readers issue is a full read: decided structurally — " +
		"tcpConn.Read obtains bytes only through go-dry's CancelableReader, whose worker is the only reader of the wrapped connection and uses io.ReadFull; " +
		"nothing in transport/mode reads the raw connection; the transport hands that tcpConn to the mode. Sibling checks of the two framings: one threshold/" +
		"marker constant (0x7f), little-endian 3-byte and 4-byte lengths evaluated from the SSA stores, word size divides and multiplies; announcement arrays " +
		"shared by writer and detector. The 4-byte error frame is converted through int32 (sign). End-of-stream and cancellation are returned unwrapped by " +
		"all four layers: with err fixed to the sentinel, every reachable exit returns err itself."
	r.NotDecided = []string{"delivery under all segmentations as a schedule statement (R08.F is the mechanism that makes it schedule-independent)", "lengths >= 2^24 words in abridged mode"}
	r.Rule("R08.F", "TCP reads are full reads: tcpConn.Read → CancelableReader.Read → io.ReadFull on the connection; no raw Read in transport/mode; the mode reads through tcpConn", 5)
	r.Rule("R08.H", "framing constants and byte orders are shared by writer and reader of each mode; announcements shared by New and Detect", 8)
	r.Rule("R08.C", "the 4-byte error frame is surfaced as a signed code (int32 conversion before widening)", 1)
	r.Rule("R08.E", "io.EOF / context.Canceled pass unwrapped through tcpConn.Read, the mode readers, transport.ReadMsg and MTProto.readMsg; the receive loop has the EOF arm", 9)
	tr := an.NewTracer()

	// ---- R08.F ----------------------------------------------------------------------------------
	if f := c.fn("R08.F", load.TransPkg, "*tcpConn", "Read"); f != nil {
		okSrc := false
		for _, p := range successPaths(f, 0) {
			if okSrc {
				break
			}
			if len(p.Ret.Results) == 2 && an.MayBeNilConst(an.RetVal(p.Ret, 1)) {
				o := tr.OriginString(an.RetVal(p.Ret, 0))
				okSrc = strings.Contains(o, "ioutil.CancelableReader).Read#0")
				r.Check(okSrc, "R08.F", "tcpConn.Read:source", c.pos(p.Ret.Pos()), "the byte count returned on success comes from "+simplifyOrigin(o))
			}
		}
		for _, cs := range an.CallsNamed(f, "(*"+load.DryPkg+"/ioutil.CancelableReader).Read") {
			a := cs.Common.Args
			ok := len(a) == 2 && strings.Contains(tr.OriginString(a[0]), "transport.tcpConn.cancelReader") && isParam(a[1], f, 1)
			r.Check(ok, "R08.F", "tcpConn.Read:via-cancelReader", c.pos(cs.Pos()), "t.cancelReader.Read(b) with the caller's buffer")
		}
		if !okSrc {
			r.Violate("R08.F", "tcpConn.Read:source", c.pos(f.Pos()), "tcpConn.Read does not return the count of CancelableReader.Read")
		}
	}
	// no raw reads of a net connection in transport / mode
	nRaw := 0
	for f := range c.P.AllFunctions() {
		if f.Synthetic != "" || !pkgIn(f, load.TransPkg, load.ModePkg) {
			continue
		}
		for _, cs := range an.Calls(f) {
			if cs.Name == "(*net.TCPConn).Read" || cs.Name == "(*net.conn).Read" || cs.Name == "invoke:(net.Conn).Read" || cs.Name == "io.ReadAtLeast" ||
				strings.HasPrefix(cs.Name, "(*bufio.Reader).Read") {
				nRaw++
				r.Violate("R08.F", "raw-read@"+an.ShortName(f), c.pos(cs.Pos()), "direct "+cs.Name+" on the connection: a short read would be taken for a whole header/body")
			}
		}
	}
	if nRaw == 0 {
		r.Hold("R08.F", "raw-read:none", "", "no direct Read of a net connection in internal/transport or internal/mode")
	}
	if f := c.fn("R08.F", load.TransPkg, "", "NewTCP"); f != nil {
		ok := false
		for _, cs := range an.CallsNamed(f, load.DryPkg+"/ioutil.NewCancelableReader") {
			a := cs.Common.Args
			if len(a) == 2 && strings.Contains(tr.OriginString(a[1]), "net.DialTCP#0") {
				for _, u := range an.NewForward(nil).Uses(cs.Value()) {
					if u.Kind == "store" && u.Field == "transport.tcpConn.cancelReader" {
						ok = true
					}
				}
			}
		}
		r.Check(ok, "R08.F", "NewTCP:wraps-connection", c.pos(f.Pos()), "cancelReader = ioutil.NewCancelableReader(ctx, the dialled *net.TCPConn)")
	}
	if f := c.fn("R08.F", load.TransPkg, "", "NewTransport"); f != nil {
		ok := false
		for _, cs := range an.CallsNamed(f, load.ModePkg+".New") {
			if len(cs.Common.Args) == 2 {
				o := tr.OriginString(cs.Common.Args[1])
				ok = strings.Contains(o, "transport.NewTCP#0")
			}
		}
		r.Check(ok, "R08.F", "NewTransport:mode-reads-tcpConn", c.pos(f.Pos()), "mode.New is given the tcpConn built by NewTCP")
	}
	// go-dry (version pinned by go.mod): the worker is the only reader of the wrapped connection and uses io.ReadFull
	if beg := c.P.Func(load.DryPkg+"/ioutil", "*CancelableReader", "begin"); beg == nil {
		r.Undecide("R08.F", "go-dry:begin", "", "(*ioutil.CancelableReader).begin not found in the module cache")
	} else {
		okFull := false
		for _, cs := range an.CallsNamed(beg, "io.ReadFull") {
			a := cs.Common.Args
			if len(a) == 2 && strings.Contains(tr.OriginString(a[0]), "ioutil.CancelableReader.r") {
				okFull = true
			}
		}
		r.Check(okFull, "R08.F", "go-dry:ReadFull", c.pos(beg.Pos()), "CancelableReader.begin fills each request with io.ReadFull(c.r, buf)")
		other := 0
		for f := range c.P.AllFunctions() {
			if load.FuncPkgPath(f) != load.DryPkg+"/ioutil" {
				continue
			}
			for _, cs := range an.Calls(f) {
				if cs.Common.IsInvoke() && cs.Common.Method.Name() == "Read" && strings.Contains(tr.OriginString(cs.Common.Value), "ioutil.CancelableReader.r") {
					other++
				}
			}
		}
		r.Check(other == 0, "R08.F", "go-dry:no-partial-read", c.pos(beg.Pos()), sprintf("%d direct Read calls on the wrapped reader", other))
		if nc := c.P.Func(load.DryPkg+"/ioutil", "", "NewCancelableReader"); nc != nil {
			started := false
			for _, b := range nc.Blocks {
				for _, in := range b.Instrs {
					if g, ok := in.(*ssa.Go); ok && strings.HasSuffix(an.CalleeName(g.Common()), "CancelableReader).begin") {
						started = true
					}
				}
			}
			r.Check(started, "R08.F", "go-dry:worker-started", c.pos(nc.Pos()), "NewCancelableReader starts the worker")
		}
	}

	// ---- R08.H ----------------------------------------------------------------------------------
	c08Framing(c, tr)

	// ---- R08.C ----------------------------------------------------------------------------------
	if f := c.fn("R08.C", load.TransPkg, "*transport", "ReadMsg"); f != nil {
		found := false
		kt := an.NewTracer()
		kt.KeepConv = true
		for _, b := range f.Blocks {
			for _, in := range b.Instrs {
				ret, ok := an.AsReturn(in)
				if !ok || len(ret.Results) != 2 {
					continue
				}
				mi, ok := an.RetVal(ret, 1).(*ssa.MakeInterface)
				if !ok || !strings.HasSuffix(typeString(mi.X.Type()), "transport.ErrCode") {
					continue
				}
				found = true
				o := kt.OriginString(mi.X)
				signed := strings.Contains(o, "conv(int32)") || strings.Contains(o, "PopInt")
				r.Check(signed && strings.Contains(o, "Uint32") || strings.Contains(o, "PopInt"), "R08.C", "error-code:signed", c.pos(ret.Pos()),
					"the code wrapped in transport.ErrCode is "+simplifyOrigin(o)+" — without an int32 conversion -404 surfaces as 4294966892 on 64-bit")
			}
		}
		if !found {
			r.Undecide("R08.C", "error-code:signed", c.pos(f.Pos()), "no return of a transport.ErrCode found in transport.ReadMsg")
		}
		// every four-byte frame is a code, whatever its sign: the envelope parsers are reached only through the
		// not-equal edge of the test len(frame) == 4
		var pass []an.Edge
		for _, i := range an.Ifs(f) {
			cd, ok := an.Classify(i)
			if !ok || cd.Kind != "eq" {
				continue
			}
			isLen := func(v ssa.Value) bool {
				call, ok := v.(*ssa.Call)
				return ok && an.CalleeName(call.Common()) == "builtin:len"
			}
			if kx, okx := an.ConstInt(cd.Y); okx && kx == 4 && isLen(cd.X) {
				pass = append(pass, cd.EdgeWhen(false))
			} else if ky, oky := an.ConstInt(cd.X); oky && ky == 4 && isLen(cd.Y) {
				pass = append(pass, cd.EdgeWhen(false))
			}
		}
		var parsers []ssa.Instruction
		for _, cs := range an.Calls(f) {
			if strings.HasSuffix(cs.Name, "messages.DeserializeEncrypted") || strings.HasSuffix(cs.Name, "messages.DeserializeUnencrypted") {
				parsers = append(parsers, cs.Instr)
			}
		}
		if len(pass) == 0 || len(parsers) == 0 {
			r.Undecide("R08.C", "error-code:every-four-byte-frame", c.pos(f.Pos()), sprintf("%d test(s) of the frame length against 4, %d parser call(s)", len(pass), len(parsers)))
		} else {
			un := an.Guarded(f, pass, parsers)
			r.Check(len(un) == 0, "R08.C", "error-code:every-four-byte-frame", c.pos(f.Pos()), sprintf("%d parser call(s), %d reachable with a four-byte frame (a code that is zero or positive would be parsed as a message)", len(parsers), len(un)))
		}
	}

	// ---- R08.X: what the writers hand to the connection is header ++ message, the message whole -------------
	r.Rule("R08.X", "the mode writers write the format's header and then the message itself, unmodified and whole: the expressions handed to conn.Write (extracted) are le32(len) / the abridged word count in its two forms, followed by the message parameter", 2)
	for _, m := range []string{"*abridged", "*intermediate"} {
		w := c.fn("R08.X", load.ModePkg, m, "WriteMsg")
		if w == nil {
			continue
		}
		key := "wire:" + strings.TrimPrefix(m, "*")
		e := c.termEval([]string{"m", "msg"}, nil)
		e.WatchAll = true
		if _, ok := e.Eval(w); !ok {
			r.Undecide("R08.X", key, c.pos(w.Pos()), "WriteMsg could not be evaluated: "+strings.Join(e.Notes, "; "))
			continue
		}
		var writes []*an.T
		pos := c.pos(w.Pos())
		for _, sc := range e.Seen {
			if strings.HasSuffix(sc.Name, ").Write") && len(sc.Args) == 2 {
				writes = append(writes, sc.Args[1])
				pos = c.pos(sc.Pos)
			}
		}
		got := an.Fn("cat", writes...)
		msg := an.Sym("$msg")
		words := an.Fn("/", an.Fn("len", msg), an.Num(4))
		var hdr *an.T
		if m == "*intermediate" {
			hdr = an.Fn("fixed", an.Fn("le32", an.Fn("len", msg)), an.Num(4))
		} else {
			b := func(t *an.T) *an.T { return an.Fn("byte", t) }
			long := an.Fn("cat", b(an.Num(127)), b(words), b(an.Fn(">>", words, an.Num(8))), b(an.Fn(">>", words, an.Num(16))))
			hdr = an.Fn("phi", b(words), long)
		}
		c.compareTerm("R08.X", key, pos, got, an.Fn("cat", hdr, msg), "bytes written for one message")
	}

	// ---- R08.A: the readers admit every frame the format carries, up to the 2^20 bytes the property names ------
	r.Rule("R08.A", "the mode readers allocate and read the body for every frame length the format carries up to 2^20 bytes: no refusal keyed on the announced length is in the way", 2)
	for _, m := range []string{"*abridged", "*intermediate"} {
		rd := c.fn("R08.A", load.ModePkg, m, "ReadMsg")
		if rd == nil {
			continue
		}
		var body *ssa.MakeSlice
		for _, b := range rd.Blocks {
			for _, in := range b.Instrs {
				if ms, ok := in.(*ssa.MakeSlice); ok {
					if _, isConst := an.ConstInt(ms.Len); !isConst {
						body = ms
					}
				}
			}
		}
		key := "admit:" + strings.TrimPrefix(m, "*")
		if body == nil {
			r.Undecide("R08.A", key, c.pos(rd.Pos()), "the allocation of the message body was not found")
			continue
		}
		var bad []string
		for _, size := range c.grid([]int64{0, 4, 504, 508, 1024, 65536, 262144, 262148, 1 << 20}, 0, 4096, 4) {
			words := size / 4
			atom := func(v ssa.Value) (int64, bool) {
				if call, ok := v.(*ssa.Call); ok && strings.HasSuffix(an.CalleeName(call.Common()), "littleEndian).Uint32") {
					if m == "*abridged" {
						return words, true
					}
					return size, true
				}
				if ld, ok := v.(*ssa.UnOp); ok && m == "*abridged" {
					if ia, ok := ld.X.(*ssa.IndexAddr); ok {
						if k, ok := an.ConstInt(ia.Index); ok && k == 0 {
							if bt, ok := ld.Type().Underlying().(*types.Basic); ok && bt.Kind() == types.Uint8 {
								if words < 127 {
									return words, true
								}
								return 0x7f, true
							}
						}
					}
				}
				return 0, false
			}
			got, ok, reach := evalAt(rd, body.Len, atom)
			switch {
			case !reach[body.Block()]:
				bad = append(bad, sprintf("a frame of %d bytes is refused before its body is read", size))
			case !ok || got != size:
				bad = append(bad, sprintf("a frame announced as %d bytes gets a body buffer of %d", size, got))
			}
		}
		r.Check(len(bad) == 0, "R08.A", key, c.pos(body.Pos()), "9 lengths from 0 to 2^20 evaluated: "+strings.Join(bad, "; "))
	}

	// ---- R08.E (addition): end of stream is what the connection reported, never something a layer concludes --------
	// every exit that returns the sentinel io.EOF itself (not the error value it received) must lie behind the
	// equal edge of a comparison of a received error with io.EOF; "n == 0, so it must be the end" turns an empty
	// message into end-of-stream
	for _, t := range []struct{ pkg, recv, name string }{
		{load.TransPkg, "*tcpConn", "Read"}, {load.ModePkg, "*abridged", "ReadMsg"}, {load.ModePkg, "*intermediate", "ReadMsg"},
		{load.TransPkg, "*transport", "ReadMsg"}, {load.RootMod, "*MTProto", "readMsg"},
	} {
		f := c.P.Func(t.pkg, t.recv, t.name)
		if f == nil {
			continue
		}
		isEOF := func(v ssa.Value) bool {
			ld, ok := v.(*ssa.UnOp)
			if !ok {
				return false
			}
			g, ok := ld.X.(*ssa.Global)
			return ok && g.Name() == "EOF" && g.Pkg != nil && g.Pkg.Pkg.Path() == "io"
		}
		var bad []string
		n := 0
		for _, b := range f.Blocks {
			ret, ok := an.AsReturn(b.Instrs[len(b.Instrs)-1])
			if !ok || len(ret.Results) == 0 {
				continue
			}
			ev := an.RetVal(ret, len(ret.Results)-1)
			if !isEOF(ev) {
				continue
			}
			n++
			guarded := an.DominatingGuard(f, ret, func(cd *an.Cond) int {
				if cd.Kind == "eq" && (isEOF(cd.X) || isEOF(cd.Y)) {
					return cd.EdgeWhen(true).Succ
				}
				return -1
			})
			if !guarded {
				bad = append(bad, "the exit at "+c.pos(ret.Pos())+" returns io.EOF without having received it")
			}
		}
		r.Check(len(bad) == 0, "R08.E", "eof-only-when-received:"+an.ShortName(f), c.pos(f.Pos()), sprintf("%d exit(s) return the io.EOF sentinel itself; %s", n, strings.Join(bad, "; ")))
	}

	// a reader reports; it does not hang up: nothing reachable from transport.ReadMsg closes the connection (frames
	// that follow an error-code frame are still to be delivered, and the end of the stream is the peer's to announce)
	if rm := c.P.Func(load.TransPkg, "*transport", "ReadMsg"); rm != nil {
		var bad []string
		nf := 0
		for f := range c.Graph().Reachable([]*ssa.Function{rm}, func(f *ssa.Function) bool { return c.P.InRepo(f) }) {
			if !c.P.InRepo(f) || len(f.Blocks) == 0 {
				continue
			}
			nf++
			for _, cs := range an.Calls(f) {
				isClose := cs.Common.IsInvoke() && cs.Common.Method.Name() == "Close" || strings.HasSuffix(cs.Name, ").Close") && !strings.Contains(cs.Name, "gzip")
				if isClose {
					bad = append(bad, an.ShortName(f)+" calls Close at "+c.pos(cs.Pos()))
				}
			}
		}
		sort.Strings(bad)
		r.Check(len(bad) == 0 && nf > 3, "R08.E", "read-path-never-closes", c.pos(rm.Pos()), sprintf("%d functions reachable from transport.ReadMsg; %s", nf, strings.Join(bad, "; ")))
	}

	// the announcement bytes and every other package-level table of the framing code are constants in all but
	// name: nothing in packages mode and transport writes them (a Detect that reads the peer's bytes into a slice of
	// the announcement array changes what every later connection announces)
	// the transport hands frames on as they are: what the envelope parser sees is what the mode reader returned,
	// what the mode writer gets is what Serialize returned (a trimmed, re-sliced or re-read frame shifts everything)
	r.Rule("R08.P", "transport.ReadMsg passes the frame the mode reader returned, unchanged, to the envelope parsers; transport.WriteMsg passes what Serialize returned, unchanged, to the mode writer", 2)
	if f := c.fn("R08.P", load.TransPkg, "*transport", "ReadMsg"); f != nil {
		var frame ssa.Value
		for _, cs := range an.Calls(f) {
			if cs.Common.IsInvoke() && cs.Common.Method.Name() == "ReadMsg" {
				for _, ref := range *cs.Instr.(ssa.Value).Referrers() {
					if ex, ok := ref.(*ssa.Extract); ok && ex.Index == 0 {
						frame = ex
					}
				}
			}
		}
		n := 0
		var bad []string
		for _, cs := range an.Calls(f) {
			if !strings.HasSuffix(cs.Name, "messages.DeserializeEncrypted") && !strings.HasSuffix(cs.Name, "messages.DeserializeUnencrypted") && !strings.HasSuffix(cs.Name, "transport.isPacketEncrypted") {
				continue
			}
			n++
			if args := an.CallArgs(cs.Common); len(args) == 0 || frame == nil || args[0] != frame {
				bad = append(bad, shortCallee(cs.Name)+" at "+c.pos(cs.Pos())+" is given something other than the frame read")
			}
		}
		if frame == nil || n < 3 {
			r.Undecide("R08.P", "frame:read-verbatim", c.pos(f.Pos()), sprintf("mode reader call found: %v, %d parser call(s)", frame != nil, n))
		} else {
			r.Check(len(bad) == 0, "R08.P", "frame:read-verbatim", c.pos(f.Pos()), sprintf("%d parser calls; %s", n, strings.Join(bad, "; ")))
		}
	}
	if f := c.fn("R08.P", load.TransPkg, "*transport", "WriteMsg"); f != nil {
		n := 0
		var bad []string
		var leaves func(v ssa.Value, seen map[ssa.Value]bool)
		leaves = func(v ssa.Value, seen map[ssa.Value]bool) {
			if seen[v] {
				return
			}
			seen[v] = true
			switch x := v.(type) {
			case *ssa.Phi:
				for _, e := range x.Edges {
					leaves(e, seen)
				}
				return
			case *ssa.Const:
				if x.IsNil() {
					return // the zero value of the variable on paths that return before the write
				}
			case *ssa.Extract:
				if call, ok := x.Tuple.(*ssa.Call); ok && x.Index == 0 && strings.HasSuffix(an.CalleeName(call.Common()), ").Serialize") {
					return
				}
			}
			bad = append(bad, "the bytes handed to the mode writer include "+v.String()+" ("+c.pos(v.Pos())+")")
		}
		for _, cs := range an.Calls(f) {
			if cs.Common.IsInvoke() && cs.Common.Method.Name() == "WriteMsg" {
				n++
				leaves(cs.Common.Args[0], map[ssa.Value]bool{})
			}
		}
		if n == 0 {
			r.Undecide("R08.P", "frame:written-verbatim", c.pos(f.Pos()), "no call of the mode writer in transport.WriteMsg")
		} else {
			r.Check(len(bad) == 0, "R08.P", "frame:written-verbatim", c.pos(f.Pos()), strings.Join(bad, "; "))
		}
	}
	// "messages written ... reach the peer": Write returns when the bytes are queued in the kernel, and Close
	// delivers the queue unless the socket was told to drop it (SO_LINGER 0 also turns the peer's end-of-stream
	// into a reset)
	c.tcpWritePassThrough("R08.W")
	r.Rule("R08.S", "no socket of the repository is configured to discard queued data on Close: SetLinger is called, if at all, with a negative constant (the default)", 1)
	{
		nf, nc := 0, 0
		for f := range c.P.AllFunctions() {
			if !c.inRepo(f) || len(f.Blocks) == 0 {
				continue
			}
			nf++
			for _, cs := range an.Calls(f) {
				if strings.HasSuffix(cs.Name, ").SetWriteDeadline") || strings.HasSuffix(cs.Name, ").SetDeadline") {
					// a write deadline turns a slow peer into a partial write on a connection that stays in use:
					// the frame is cut after its length prefix and every later frame lands inside it
					nc++
					r.Violate("R08.S", sprintf("write-deadline:%s#%d", an.ShortName(f), nc), c.pos(cs.Pos()), "a deadline on writes: a Write that times out has put part of a frame on the wire, the mode writers keep no state about a half-written frame and the connection goes on being used")
					continue
				}
				if !strings.HasSuffix(cs.Name, ").SetLinger") {
					continue
				}
				nc++
				args := an.CallArgs(cs.Common)
				k, isK := an.ConstInt(args[len(args)-1])
				r.Check(isK && k < 0, "R08.S", sprintf("linger:%s#%d", an.ShortName(f), nc), c.pos(cs.Pos()), "SetLinger with a value that is not a negative constant: what WriteMsg has queued is dropped when the connection is closed and the peer sees a reset instead of the end of the stream")
			}
		}
		if nc == 0 {
			r.Hold("R08.S", "linger:default", "", sprintf("%d functions of the repository, no SetLinger / SetWriteDeadline / SetDeadline call", nf))
		}
	}
	r.Rule("R08.B", "no function of packages mode and transport writes through a []byte parameter (WriteMsg's message stays what the caller handed over)", 2)
	isReader := func(g *ssa.Function, idx int) bool { return g.Name() == "Read" } // io.Reader: the argument is the buffer to fill
	c.paramsUntouched("R08.B", load.ModePkg, isReader)
	c.paramsUntouched("R08.B", load.TransPkg, isReader)
	r.Rule("R08.G", "no function of packages mode and transport writes a package-level variable or reads into / appends to / copies into the storage of one", 1)
	{
		var entries []*ssa.Function
		for f := range c.P.AllFunctions() {
			pp := load.FuncPkgPath(f)
			if (pp == load.ModePkg || pp == load.TransPkg) && f.Synthetic == "" && len(f.Blocks) > 0 && f.Parent() == nil && f.Name() != "init" {
				entries = append(entries, f)
			}
		}
		sort.Slice(entries, func(i, j int) bool { return entries[i].String() < entries[j].String() })
		c.noGlobalWrites("R08.G", entries, "the framing path: every connection of the process shares it")
	}

	// ---- R08.O: "the same sequence of byte strings" - each delivered message keeps its bytes ------------------------
	r.Rule("R08.O", "every message a mode reader returns lives in a buffer made by that call: a reader that hands out a window of a buffer it keeps (and refills on the next call) changes the messages it delivered earlier", 2)
	for _, m := range []string{"*abridged", "*intermediate"} {
		rd := c.fn("R08.O", load.ModePkg, m, "ReadMsg")
		if rd == nil {
			continue
		}
		var bad []string
		n := 0
		for _, b := range rd.Blocks {
			ret, ok := an.AsReturn(b.Instrs[len(b.Instrs)-1])
			if !ok || len(ret.Results) != 2 {
				continue
			}
			if k, isConst := an.RetVal(ret, 0).(*ssa.Const); isConst && k.Value == nil {
				continue
			}
			n++
			why := ""
			if !freshBytes(an.RetVal(ret, 0), 0, &why) {
				bad = append(bad, sprintf("the message returned at %s is %s", c.pos(ret.Pos()), why))
			}
		}
		key := "owned-result:" + strings.TrimPrefix(m, "*")
		if n == 0 {
			r.Undecide("R08.O", key, c.pos(rd.Pos()), "no exit returns a message")
			continue
		}
		r.Check(len(bad) == 0, "R08.O", key, c.pos(rd.Pos()), sprintf("%d exit(s) return a message; %s", n, strings.Join(bad, "; ")))
	}

	// ---- R08.E ----------------------------------------------------------------------------------
	type layer struct{ pkg, recv, name, call string }
	for _, l := range []layer{
		{load.TransPkg, "*tcpConn", "Read", "CancelableReader).Read"},
		{load.TransPkg, "*transport", "ReadMsg", "Mode).ReadMsg"},
		{load.RootMod, "*MTProto", "readMsg", "transport.Transport).ReadMsg"},
	} {
		f := c.fn("R08.E", l.pkg, l.recv, l.name)
		if f == nil {
			continue
		}
		errV, _ := errResultOf(f, l.call)
		if errV == nil {
			r.Undecide("R08.E", "unwrapped:"+an.ShortName(f), c.pos(f.Pos()), "the lower layer's error result was not found")
			continue
		}
		for _, s := range []string{"EOF", "Canceled"} {
			bad, n := sentinelExits(f, errV, s)
			site := c.pos(f.Pos())
			if len(bad) > 0 {
				site = c.pos(bad[0].Pos())
			}
			r.Check(len(bad) == 0 && n > 0, "R08.E", "unwrapped:"+an.ShortName(f)+"/"+s, site,
				sprintf("with err = %s: %d reachable exits, %d of them return something other than err itself", s, n, len(bad)))
		}
	}
	for _, m := range []string{"*abridged", "*intermediate"} {
		f := c.fn("R08.E", load.ModePkg, m, "ReadMsg")
		if f == nil {
			continue
		}
		// each read of the connection: with its error fixed to the sentinel, every exit reachable after it returns
		// that very error (a short-count complaint that is tested first would mask end of stream)
		k := 0
		for _, cs := range an.Calls(f) {
			if !cs.Common.IsInvoke() || cs.Common.Method.Name() != "Read" {
				continue
			}
			call, ok := cs.Instr.(*ssa.Call)
			if !ok || call.Referrers() == nil {
				continue
			}
			var errV ssa.Value
			for _, rf := range *call.Referrers() {
				if ex, ok := rf.(*ssa.Extract); ok && ex.Index == 1 {
					errV = ex
				}
			}
			k++
			key := sprintf("unwrapped:mode.%s.ReadMsg/read#%d", strings.TrimPrefix(m, "*"), k)
			if errV == nil {
				r.Violate("R08.E", key, c.pos(cs.Pos()), "the error result of the connection's Read is dropped")
				continue
			}
			for _, sn := range []string{"EOF", "Canceled"} {
				bad, n := sentinelExits(f, errV, sn)
				site := c.pos(cs.Pos())
				if len(bad) > 0 {
					site = c.pos(bad[0].Pos())
				}
				r.Check(len(bad) == 0 && n > 0, "R08.E", key+"/"+sn, site,
					sprintf("with this Read's err = %s: %d reachable exits, %d of them return something other than err itself", sn, n, len(bad)))
			}
		}
		if k == 0 {
			r.Undecide("R08.E", "unwrapped:mode."+strings.TrimPrefix(m, "*")+".ReadMsg", c.pos(f.Pos()), "no Read of the connection found")
		}
	}
	// the receive loop's EOF arm reconnects, the Canceled arm returns
	if f := c.fn("R08.E", load.RootMod, "*MTProto", "startReadingResponses"); f != nil {
		okEOF := false
		for _, g := range an.WithAnon(f) {
			for _, i := range an.Ifs(g) {
				cd, ok := an.Classify(i)
				if !ok || cd.Kind != "eq" || !(isGlobalLoad(cd.Y, "EOF") || isGlobalLoad(cd.X, "EOF")) {
					continue
				}
				if !strings.Contains(tr.OriginString(cd.X)+tr.OriginString(cd.Y), "MTProto).readMsg") {
					continue
				}
				for _, in := range cd.EdgeWhen(true).To().Instrs {
					if call, ok := in.(ssa.CallInstruction); ok && strings.HasSuffix(an.CalleeName(call.Common()), "MTProto).Reconnect") {
						okEOF = true
					}
				}
			}
		}
		r.Check(okEOF, "R08.E", "loop:EOF-arm-reconnects", c.pos(f.Pos()), "the receive loop compares readMsg's error with io.EOF and reconnects on that edge")
	}
}

// storedBytes evaluates the constant-index byte stores into a local array for a given atom assignment.
func storedBytes(al *ssa.Alloc, atom func(ssa.Value) (int64, bool)) (map[int64]int64, bool) {
	out := map[int64]int64{}
	for _, rf := range *al.Referrers() {
		ia, ok := rf.(*ssa.IndexAddr)
		if !ok {
			continue
		}
		k, ok := an.ConstInt(ia.Index)
		if !ok {
			return nil, false
		}
		for _, r2 := range *ia.Referrers() {
			if st, ok := r2.(*ssa.Store); ok && st.Addr == ia {
				v, ok := an.EvalInt(st.Val, atom)
				if !ok {
					return nil, false
				}
				out[k] = v & 0xff
			}
		}
	}
	return out, true
}

func c08Framing(c *Ctx, tr *an.Tracer) {
	r := c.R
	w := c.fn("R08.H", load.ModePkg, "*abridged", "WriteMsg")
	rd := c.fn("R08.H", load.ModePkg, "*abridged", "ReadMsg")
	if w != nil && rd != nil {
		lenAtom := func(L int64) func(ssa.Value) (int64, bool) {
			return func(v ssa.Value) (int64, bool) {
				if an.IsLenOf(v, func(x ssa.Value) bool { return isParam(x, w, 1) }) {
					return L, true
				}
				return 0, false
			}
		}
		// header written for a given length: which array reaches conn.Write (first Write call)?
		var bad []string
		var hdrCall *ssa.CallCommon
		for _, cs := range an.Calls(w) {
			if cs.Common.IsInvoke() && cs.Common.Method.Name() == "Write" {
				hdrCall = cs.Common
				break
			}
		}
		for _, L := range c.grid([]int64{0, 4, 8, 500, 504, 508, 512, 1 << 16, 1 << 20, 0x123454 * 4}, 0, 4096, 4) {
			if hdrCall == nil {
				bad = append(bad, "no Write of the header")
				break
			}
			atom := lenAtom(L)
			reach := an.ReachWith(w, nil, func(i *ssa.If) (int, bool) {
				v, ok := an.EvalCond(i.Cond, atom)
				if !ok {
					return 0, false
				}
				if v {
					return 0, true
				}
				return 1, true
			})
			var hdr map[int64]int64
			var hlen int64
			for _, b := range w.Blocks {
				if !reach[b] {
					continue
				}
				for _, in := range b.Instrs {
					if al, ok := in.(*ssa.Alloc); ok {
						if n := arrayLenOfType(al); n == 1 || n == 4 {
							if m, ok := storedBytes(al, atom); ok && len(m) > 0 {
								hdr, hlen = m, n
							}
						}
					}
				}
			}
			words := L / 4
			var want []int64
			if words < 127 {
				want = []int64{words}
			} else {
				want = []int64{0x7f, words & 0xff, (words >> 8) & 0xff, (words >> 16) & 0xff}
			}
			if hdr == nil || hlen != int64(len(want)) {
				bad = append(bad, sprintf("len=%d: header of %d bytes, format says %d", L, hlen, len(want)))
				continue
			}
			for k, b := range want {
				if hdr[int64(k)] != b {
					bad = append(bad, sprintf("len=%d: header byte %d is %#x, format says %#x", L, k, hdr[int64(k)], b))
				}
			}
		}
		r.Check(len(bad) == 0, "R08.H", "abridged:writer-header", c.pos(w.Pos()), "header bytes evaluated for 10 lengths around the 127-word switch: "+strings.Join(bad, "; "))
		// non-multiples of 4 are refused
		rej := an.ReachWith(w, nil, func(i *ssa.If) (int, bool) {
			v, ok := an.EvalCond(i.Cond, lenAtom(6))
			if !ok {
				return 0, false
			}
			if v {
				return 0, true
			}
			return 1, true
		})
		wrote := false
		for _, cs := range an.Calls(w) {
			if cs.Common.IsInvoke() && cs.Common.Method.Name() == "Write" && rej[cs.Block] {
				wrote = true
			}
		}
		r.Check(!wrote, "R08.H", "abridged:writer-rejects-unaligned", c.pos(w.Pos()), "a 6-byte message reaches no Write")
		// reader: marker constant, 3-byte little-endian length into a 4-byte zeroed buffer, times word size
		var rbad []string
		markerOK, longOK, mulOK := false, false, false
		for _, i := range an.Ifs(rd) {
			cd, ok := an.Classify(i)
			if ok && cd.Kind == "eq" {
				if k, ok := an.ConstInt(cd.Y); ok && k == 0x7f && strings.HasSuffix(tr.OriginString(cd.X), "[0]") {
					markerOK = true
				}
				if k, ok := an.ConstInt(cd.X); ok && k == 0x7f && strings.HasSuffix(tr.OriginString(cd.Y), "[0]") {
					markerOK = true // operands the other way round
				}
			}
		}
		for _, cs := range an.Calls(rd) {
			if strings.HasSuffix(cs.Name, "littleEndian).Uint32") {
				if bufLen(cs.Common.Args[1]) == 4 {
					// the 3 length bytes are read into [:3] of the same buffer
					for _, rc := range an.Calls(rd) {
						if rc.Common.IsInvoke() && rc.Common.Method.Name() == "Read" {
							if sl, ok := rc.Common.Args[0].(*ssa.Slice); ok {
								hi, _ := an.ConstInt(sl.High)
								if sl.High != nil && hi == 3 && sl.Low == nil && baseAlloc(sl) == baseAlloc(cs.Common.Args[1]) {
									longOK = true
								}
							}
						}
					}
				}
			}
		}
		for _, b := range rd.Blocks {
			for _, in := range b.Instrs {
				if ms, ok := in.(*ssa.MakeSlice); ok {
					if bo, ok := ms.Len.(*ssa.BinOp); ok && bo.Op.String() == "*" {
						if k, ok := an.ConstInt(bo.Y); ok && k == 4 {
							mulOK = true
						}
					}
				}
			}
		}
		if !markerOK {
			rbad = append(rbad, "the first byte is not compared with 0x7f")
		}
		if !longOK {
			rbad = append(rbad, "the long form is not 3 bytes read into [:3] of a 4-byte buffer decoded little-endian")
		}
		if !mulOK {
			rbad = append(rbad, "the body buffer is not words*4 bytes")
		}
		r.Check(len(rbad) == 0, "R08.H", "abridged:reader-header", c.pos(rd.Pos()), strings.Join(rbad, "; "))
	}
	// intermediate
	if w := c.fn("R08.H", load.ModePkg, "*intermediate", "WriteMsg"); w != nil {
		ok := false
		for _, cs := range an.Calls(w) {
			if strings.HasSuffix(cs.Name, "littleEndian).PutUint32") && len(cs.Common.Args) == 3 && bufLen(cs.Common.Args[1]) == 4 {
				if strings.Contains(c.valueLabel(tr, cs.Common.Args[2]), "len(param#1)") {
					ok = true
				}
			}
		}
		r.Check(ok, "R08.H", "intermediate:writer-header", c.pos(w.Pos()), "4-byte little-endian len(msg)")
	}
	if rd := c.fn("R08.H", load.ModePkg, "*intermediate", "ReadMsg"); rd != nil {
		ok := false
		for _, b := range rd.Blocks {
			for _, in := range b.Instrs {
				if ms, ok2 := in.(*ssa.MakeSlice); ok2 {
					o := tr.OriginString(ms.Len)
					if strings.Contains(o, "littleEndian).Uint32") {
						ok = true
					}
				}
			}
		}
		hdr4 := false
		for _, cs := range an.Calls(rd) {
			if strings.HasSuffix(cs.Name, "littleEndian).Uint32") && bufLen(cs.Common.Args[1]) == 4 {
				hdr4 = true
			}
		}
		r.Check(ok && hdr4, "R08.H", "intermediate:reader-header", c.pos(rd.Pos()), "body length = little-endian Uint32 of a 4-byte header")
	}
	// announcements: getModeAnnouncement returns the same globals Detect matches, with the documented bytes
	pk := c.P.Pkg(load.ModePkg)
	if pk != nil {
		want := map[string][]int64{"transportModeAbridged": {0xef}, "transportModeIntermediate": {0xee, 0xee, 0xee, 0xee}}
		for name, bytes := range want {
			got := globalByteArray(c, load.ModePkg, name)
			ok := len(got) == len(bytes)
			for i := range bytes {
				if ok && got[i] != bytes[i] {
					ok = false
				}
			}
			r.Check(ok, "R08.H", "announcement:"+name, "", sprintf("bytes %v, format says %v", got, bytes))
		}
		for _, m := range []struct{ recv, glob string }{{"*abridged", "transportModeAbridged"}, {"*intermediate", "transportModeIntermediate"}} {
			if f := c.fn("R08.H", load.ModePkg, m.recv, "getModeAnnouncement"); f != nil {
				ok := false
				for _, b := range f.Blocks {
					for _, in := range b.Instrs {
						if ret, ok2 := an.AsReturn(in); ok2 && len(ret.Results) == 1 && strings.HasPrefix(tr.OriginString(an.RetVal(ret, 0)), "global:"+m.glob) {
							ok = true
						}
					}
				}
				r.Check(ok, "R08.H", "announcement:"+strings.TrimPrefix(m.recv, "*")+"-returns-global", c.pos(f.Pos()), "returns "+m.glob+"[:]")
			}
		}
		if f := c.fn("R08.H", load.ModePkg, "", "Detect"); f != nil {
			uses := map[string]bool{}
			for _, b := range f.Blocks {
				for _, in := range b.Instrs {
					var ops []*ssa.Value
					for _, op := range in.Operands(ops) {
						if g, ok := (*op).(*ssa.Global); ok {
							uses[g.Name()] = true
						}
					}
				}
			}
			r.Check(uses["transportModeAbridged"] && uses["transportModeIntermediate"], "R08.H", "announcement:Detect-matches-globals", c.pos(f.Pos()), "Detect compares with both announcement arrays")
		}
		if f := c.fn("R08.H", load.ModePkg, "", "New"); f != nil {
			ok := false
			for _, cs := range an.Calls(f) {
				if cs.Common.IsInvoke() && cs.Common.Method.Name() == "Write" && strings.Contains(tr.OriginString(cs.Common.Args[0]), "getModeAnnouncement") {
					ok = true
				}
			}
			r.Check(ok, "R08.H", "announcement:written-on-creation", c.pos(f.Pos()), "mode.New writes getModeAnnouncement() to the connection")
		}
	}
}

func baseAlloc(v ssa.Value) ssa.Value {
	for {
		switch x := v.(type) {
		case *ssa.Slice:
			v = x.X
		default:
			return v
		}
	}
}

// globalByteArray evaluates a package-level `[...]byte{…}` variable.
func globalByteArray(c *Ctx, pkg, name string) []int64 {
	pk := c.P.Pkg(pkg)
	if pk == nil {
		return nil
	}
	return globalByteArrayAST(pk, name)
}

// freshBytes: the slice was made by this activation of the function (make, a local array), possibly re-sliced.
func freshBytes(v ssa.Value, d int, why *string) bool {
	if d > 8 {
		*why = "too deep to follow"
		return false
	}
	switch x := v.(type) {
	case *ssa.MakeSlice:
		return true
	case *ssa.Alloc:
		return true
	case *ssa.Slice:
		return freshBytes(x.X, d+1, why)
	case *ssa.Phi:
		for _, e := range x.Edges {
			if !freshBytes(e, d+1, why) {
				return false
			}
		}
		return true
	case *ssa.UnOp:
		if fa, ok := x.X.(*ssa.FieldAddr); ok {
			*why = "a window of the field " + an.FieldName(fa.X.Type(), fa.Field) + ", which outlives the call"
			return false
		}
		if g, ok := x.X.(*ssa.Global); ok {
			*why = "a window of the package variable " + g.Name()
			return false
		}
	}
	*why = "not a buffer made in this call (" + v.Name() + ")"
	return false
}
