package props

import (
	"go/ast"
	"go/constant"
	"go/token"
	"go/types"
	"regexp"
	"sort"
	"strings"

	"verif/checker/internal/an"
	"verif/checker/internal/load"

	"golang.org/x/tools/go/packages"
	"golang.org/x/tools/go/ssa"
)

func init() { register("C14", c14) }

// orderExceptions: functions that read an unordered slice in an order-insensitive way.
var orderExceptions = map[string]string{
	"(*internal/cmd/tlgen/gen.Generator).typeIdFromSchemaType": "looks up the single element whose Interface equals t (types are unique keys): the result does not depend on the slice order",
}

func c14(c *Ctx) {
	r := c.R
	defer c14ObjSuffix(c)
	r.Explanation = "'Any schema is translated faithfully' quantifies over generated programs and needs the generator to run; what is decided statically: " +
		"(O) reproducibility — a typestate analysis 'unordered until sorted' over the generator's SSA: every slice filled while ranging over a map is " +
		"tainted (through fields, returns and arguments) and no element of a tainted slice may reach a jennifer emission call unless a sort of that slice " +
		"dominates the read; (Q) every jen.Qual reference into the repository names an existing exported object; (T) the tag literals the generator emits " +
		"are the ones tl.parseTag recognises; (P) the primitive TL→Go map of the generator equals the one the runtime and C13 expect; (C) the comment kinds " +
		"the parser accepts cover the kinds occurring in the shipped schema; (F) FlagIndex is emitted as the position of `flags:#`."
	r.NotDecided = []string{"that for any schema the generated package compiles and declares the same constructors (needs running the generator on generated inputs)",
		"name mangling collisions of goify for arbitrary names"}
	c.errorsKept("R14.X", "the schema tool (tlparser, gen, main)", 20, inPkgs(load.ParsePkg, load.GenPkg, load.TlgenPkg))
	r.Rule("R14.O", "no element of a slice filled in map-iteration order reaches an emission call before a dominating sort of that slice", 4)
	r.Rule("R14.Q", "every jen.Qual(<repository package>, name) names an exported object of that package", 3)
	r.Rule("R14.T", "tag literals emitted by the generator are the ones tl.parseTag recognises", 3)
	r.Rule("R14.P", "primitive map of the generator: Bool→bool long→int64 double→float64 int→int32 string→string bytes→[]byte true→bool", 7)
	r.Rule("R14.C", "comment kinds accepted by the parser ⊇ kinds occurring in schemes/api_latest.tl", 1)
	r.Rule("R14.F", "FlagIndex() is emitted as the index of the `flags` parameter; the flags word is recognised as name 'flags' type '#'", 2)

	c14Order(c)
	gpk := c.P.Pkg(load.GenPkg)
	if gpk == nil {
		r.Undecide("R14.Q", "package", "", "generator package not loaded")
		return
	}
	// ---- R14.Q ----------------------------------------------------------------------------------
	strVal := func(pk *packages.Package, e ast.Expr) (string, bool) {
		if tv, ok := pk.TypesInfo.Types[e]; ok && tv.Value != nil && tv.Value.Kind() == constant.String {
			return constant.StringVal(tv.Value), true
		}
		if id, ok := e.(*ast.Ident); ok {
			if v, ok := pk.TypesInfo.Uses[id].(*types.Var); ok && v.Parent() == pk.Types.Scope() {
				// package-level var with a constant initialiser
				for _, f := range pk.Syntax {
					for _, d := range f.Decls {
						if gd, ok := d.(*ast.GenDecl); ok && gd.Tok == token.VAR {
							for _, sp := range gd.Specs {
								vs := sp.(*ast.ValueSpec)
								for i, n := range vs.Names {
									if pk.TypesInfo.Defs[n] == v && i < len(vs.Values) {
										if tv, ok := pk.TypesInfo.Types[vs.Values[i]]; ok && tv.Value != nil {
											return constant.StringVal(tv.Value), true
										}
									}
								}
							}
						}
					}
				}
			}
		}
		return "", false
	}
	nq := 0
	for _, f := range gpk.Syntax {
		ast.Inspect(f, func(n ast.Node) bool {
			call, ok := n.(*ast.CallExpr)
			if !ok || len(call.Args) != 2 {
				return true
			}
			sel, ok := call.Fun.(*ast.SelectorExpr)
			if !ok || sel.Sel.Name != "Qual" {
				return true
			}
			if obj := gpk.TypesInfo.Uses[sel.Sel]; obj == nil || obj.Pkg() == nil || !strings.HasSuffix(obj.Pkg().Path(), "jennifer/jen") {
				return true
			}
			path, ok1 := strVal(gpk, call.Args[0])
			name, ok2 := strVal(gpk, call.Args[1])
			if !ok1 || !ok2 {
				r.Undecide("R14.Q", "qual:"+types.ExprString(call), c.pos(call.Pos()), "arguments of jen.Qual are not constant")
				return true
			}
			nq++
			key := "qual:" + shortPkg(path) + "." + name
			target := c.P.Pkg(path)
			if target == nil {
				if strings.HasPrefix(path, load.RootMod) {
					r.Violate("R14.Q", key, c.pos(call.Pos()), "package "+path+" does not exist in the repository")
				} else {
					r.Hold("R14.Q", key, c.pos(call.Pos()), "outside the repository (not loaded): "+path)
				}
				return true
			}
			obj := target.Types.Scope().Lookup(name)
			r.Check(obj != nil && obj.Exported(), "R14.Q", key, c.pos(call.Pos()), "generated code refers to "+path+"."+name+", which "+map[bool]string{true: "exists", false: "does not exist: any schema with a function returning Bool produces a package that does not compile"}[obj != nil])
			return true
		})
	}
	if nq == 0 {
		r.Undecide("R14.Q", "qual", "", "no jen.Qual call found in the generator")
	}

	// ---- R14.T ----------------------------------------------------------------------------------
	genLits := stringLiteralsOf(gpk, "generateStructParameter")
	tlLits := stringLiteralsOf(c.P.Pkg(load.TLPkg), "parseTag")
	tagName := ""
	if tl := c.P.Pkg(load.TLPkg); tl != nil {
		if k, ok := tl.Types.Scope().Lookup("tagName").(*types.Const); ok {
			tagName = constant.StringVal(k.Val())
		}
	}
	hasFlagFmt := false
	for _, l := range genLits {
		if strings.HasPrefix(l, "flag:") && strings.HasSuffix(l, "%v") || l == "flag:%d" {
			hasFlagFmt = true
		}
	}
	r.Check(hasFlagFmt && contains(tlLits, "flag:"), "R14.T", "tag:flag-prefix", "", sprintf("generator formats %v; parseTag recognises the prefix \"flag:\" (%v)", genLits, contains(tlLits, "flag:")))
	r.Check(contains(genLits, ",encoded_in_bitflags") && contains(tlLits, "encoded_in_bitflags"), "R14.T", "tag:bitflag-option", "", "generator appends \",encoded_in_bitflags\"; parseTag looks for the option \"encoded_in_bitflags\"")
	r.Check(tagName != "" && contains(genLits, tagName), "R14.T", "tag:key", "", sprintf("generator writes the tag key %q; runtime reads key %q", tagName, tagName))

	// ---- R14.P ----------------------------------------------------------------------------------
	want := map[string]string{"Bool": "Bool", "long": "Int64", "double": "Float64", "int": "Int32", "string": "String", "bytes": "Index.Byte", "true": "Bool"}
	got := map[string]string{}
	if fd, _ := c.declOf(load.GenPkg, "*Generator", "typeIdFromSchemaType"); fd != nil {
		ast.Inspect(fd.Body, func(n ast.Node) bool {
			sw, ok := n.(*ast.SwitchStmt)
			if !ok || sw.Tag == nil {
				return true
			}
			for _, st := range sw.Body.List {
				cc := st.(*ast.CaseClause)
				for _, e := range cc.List {
					k, ok := strVal(gpk, e)
					if !ok {
						continue
					}
					// item = jen.X().Y()
					chain := ""
					for _, bs := range cc.Body {
						if as, ok := bs.(*ast.AssignStmt); ok && len(as.Rhs) == 1 {
							chain = jenChain(as.Rhs[0])
						}
					}
					got[k] = chain
				}
			}
			return false
		})
	}
	var names []string
	for k := range want {
		names = append(names, k)
	}
	sort.Strings(names)
	for _, k := range names {
		r.Check(got[k] == want[k], "R14.P", "primitive:"+k, "", sprintf("TL %s is generated as jen.%s (the runtime and the shipped layer use %s)", k, got[k], want[k]))
	}

	// ---- R14.C ----------------------------------------------------------------------------------
	ppk := c.P.Pkg(load.ParsePkg)
	accepted := map[string]bool{}
	if fd := findDecl(ppk, "ParseSchema"); fd != nil {
		ast.Inspect(fd.Body, func(n ast.Node) bool {
			sw, ok := n.(*ast.SwitchStmt)
			if !ok || sw.Tag == nil {
				return true
			}
			if id, ok := sw.Tag.(*ast.Ident); !ok || id.Name != "ctype" {
				return true
			}
			for _, st := range sw.Body.List {
				cc := st.(*ast.CaseClause)
				for _, e := range cc.List {
					if k, ok := strVal(ppk, e); ok {
						accepted[k] = true
					}
				}
				if cc.List == nil {
					// default arm: does it refuse the comment (a return at the top level of the arm) or skip it?
					rejects := false
					for _, bs := range cc.Body {
						if _, isRet := bs.(*ast.ReturnStmt); isRet {
							rejects = true
						}
					}
					if !rejects {
						accepted["*"] = true
					}
				}
			}
			return false
		})
	}
	if len(accepted) == 0 {
		r.Undecide("R14.C", "comment-kinds", "", "the switch over the comment type in ParseSchema was not found")
	} else if api, _, err := c.Schemas(); err == nil {
		kinds := map[string]int{}
		first := map[string]int{}
		for _, cm := range api.S.Comments {
			k := strings.SplitN(cm.Text, " ", 2)[0]
			kinds[k]++
			if _, ok := first[k]; !ok {
				first[k] = cm.Line
			}
		}
		var bad []string
		for k := range kinds {
			if !accepted[k] && !accepted["*"] {
				bad = append(bad, sprintf("%q (line %d)", k, first[k]))
			}
		}
		sort.Strings(bad)
		if len(bad) > 6 {
			bad = append(bad[:6], sprintf("…(%d kinds)", len(bad)))
		}
		var acc []string
		for k := range accepted {
			acc = append(acc, k)
		}
		sort.Strings(acc)
		r.Check(len(bad) == 0, "R14.C", "comment-kinds:api_latest.tl", "schemes/api_latest.tl", sprintf("the parser accepts comments starting with %v and fails with 'unknown comment type' on anything else; the shipped schema has comments starting with %s", acc, strings.Join(bad, ", ")))
	}

	// ---- R14.F ----------------------------------------------------------------------------------
	if gs := c.fn("R14.F", load.GenPkg, "*Generator", "generateStructTypeAndMethods"); gs != nil {
		tr := an.NewTracer()
		ok := false
		for _, cs := range an.Calls(gs) {
			if strings.HasSuffix(cs.Name, "jennifer/jen.Lit") && len(cs.Common.Args) == 1 {
				// the literal returned by FlagIndex: a phi of -1 and the loop index
				o := tr.OriginString(cs.Common.Args[0])
				if strings.Contains(o, "const:-1") {
					ok = true
				}
			}
		}
		lits := stringLiteralsOf(gpk, "generateStructTypeAndMethods")
		r.Check(ok && contains(lits, "flags") && contains(lits, "bitflags") && contains(lits, "FlagIndex"), "R14.F", "flagindex:position-of-flags", c.pos(gs.Pos()), "FlagIndex() returns the index of the parameter named flags of type bitflags")
	}
	// ---- R14.B: every flag bit 0..31 is accepted by the parser ------------------------------------------------
	r.Rule("R14.B", "the parser accepts conditional parameters on every bit 0..31 of the flags word: no comparison of the parsed bit number sends one of them to an error return", 1)
	if pp := c.fn("R14.B", load.ParsePkg, "", "parseParam"); pp != nil {
		trb := an.NewTracer()
		var bit ssa.Value
		for _, cs := range an.CallsNamed(pp, "strconv.Atoi") {
			if call, ok := cs.Instr.(*ssa.Call); ok && call.Referrers() != nil {
				for _, rf := range *call.Referrers() {
					if ex, ok := rf.(*ssa.Extract); ok && ex.Index == 0 {
						bit = ex
					}
				}
			}
		}
		if bit == nil {
			r.Undecide("R14.B", "flag-bits:0..31", c.pos(pp.Pos()), "the conversion of the bit number (strconv.Atoi) was not found in parseParam")
		} else {
			var bad []string
			nTests := 0
			for _, i := range an.Ifs(pp) {
				if o := trb.OriginString(i.Cond); !an.Mentions(i.Cond, bit) && !strings.Contains(o, "tlparser.Parameter.BitToTrigger") && !strings.Contains(o, "strconv.Atoi#0") {
					continue
				}
				for b := int64(0); b < 32; b++ {
					res, ok := an.EvalCond(i.Cond, func(v ssa.Value) (int64, bool) {
						if v == bit {
							return b, true
						}
						if ld, isLd := v.(*ssa.UnOp); isLd {
							if o := trb.OriginString(ld); strings.HasSuffix(o, "tlparser.Parameter.BitToTrigger") || o == "call:strconv.Atoi#0" {
								return b, true
							}
						}
						return 0, false
					})
					if !ok {
						continue
					}
					nTests++
					succ := 1
					if res {
						succ = 0
					}
					tb := i.Block().Succs[succ]
					if ret, isRet := an.AsReturn(tb.Instrs[len(tb.Instrs)-1]); isRet && len(ret.Results) > 0 {
						if an.NonNilError(an.RetVal(ret, len(ret.Results)-1), tb) && len(bad) < 4 {
							bad = append(bad, sprintf("bit %d is refused at %s", b, c.pos(i.Cond.Pos())))
						}
					}
				}
			}
			r.Check(len(bad) == 0, "R14.B", "flag-bits:0..31", c.pos(pp.Pos()), sprintf("%d evaluations of range tests on the bit number: %s", nTests, strings.Join(bad, "; ")))
		}
	}

	// ---- R14.W: generated files replace what was there ---------------------------------------------------
	r.Rule("R14.W", "every file the generator writes is written whole (WriteFile / Create / OpenFile with O_TRUNC): regenerating over previous output leaves no tail of the old file behind, so the output does not depend on what the directory held", 1)
	{
		nW := 0
		var fns []*ssa.Function
		for f := range c.P.AllFunctions() {
			if f.Synthetic == "" && strings.HasPrefix(load.FuncPkgPath(f), load.GenPkg) {
				fns = append(fns, f)
			}
		}
		sort.Slice(fns, func(i, j int) bool { return fns[i].String() < fns[j].String() })
		for _, f := range fns {
			k := 0
			for _, cs := range an.Calls(f) {
				switch cs.Name {
				case "io/ioutil.WriteFile", "os.WriteFile", "os.Create":
					nW++
					k++
					r.Hold("R14.W", sprintf("write:%s#%d", an.ShortName(f), k), c.pos(cs.Pos()), cs.Name+" truncates")
				case "os.OpenFile":
					flags, isConst := an.ConstInt(cs.Common.Args[1])
					const wr = 0x1 | 0x2 // O_WRONLY | O_RDWR
					if isConst && flags&wr == 0 {
						continue // opened for reading
					}
					nW++
					k++
					key := sprintf("write:%s#%d", an.ShortName(f), k)
					switch {
					case !isConst:
						r.Undecide("R14.W", key, c.pos(cs.Pos()), "os.OpenFile with non-constant flags")
					case flags&0x200 != 0 || flags&0x400 != 0:
						r.Hold("R14.W", key, c.pos(cs.Pos()), "os.OpenFile with O_TRUNC")
					default:
						r.Violate("R14.W", key, c.pos(cs.Pos()), sprintf("os.OpenFile(name, %#x, …) opens the output for writing without O_TRUNC: a shorter regenerated file keeps the tail of the previous one (not valid Go, and different bytes for the same schema)", flags))
					}
				}
			}
		}
		if nW == 0 {
			r.Undecide("R14.W", "write", "", "no file write found in the generator package")
		}
	}
	// ---- R14.U: every emitter reads the schema fields that determine its output ---------------------------
	r.Rule("R14.U", "use coverage: each emitter of the generator reads (itself or through generator callees) every field of the parsed definition that determines what it emits — a field that is no longer consulted cannot be reflected in the output", 12)
	{
		P, O, M, R, E, I := "tlparser.Parameter.", "tlparser.Object.", "tlparser.Method.", "tlparser.MethodResponse.", "gen.enum.", "gen.internalSchema."
		required := []struct {
			recv, fn string
			fields   []string
		}{
			{"*Generator", "generateStructParameter", []string{P + "Name", P + "Type", P + "IsVector", P + "IsOptional", P + "BitToTrigger"}},
			{"*Generator", "generateStructTypeAndMethods", []string{O + "Name", O + "CRC", O + "Parameters", O + "Interface", P + "Name", P + "Type", P + "IsVector", P + "IsOptional", P + "BitToTrigger"}},
			{"*Generator", "generateSpecificEnum", []string{E + "Name", E + "CRC"}},
			{"*Generator", "generateArgumentsForMethod", []string{M + "Parameters", P + "Name", P + "Type", P + "IsVector"}},
			{"*Generator", "generateMethodArgumentForMakingRequest", []string{M + "Name", M + "Parameters", P + "Name", P + "Type"}},
			{"*Generator", "generateMethodCallerFunc", []string{M + "Name", M + "CRC", M + "Parameters", M + "Response", R + "Type", R + "IsList"}},
			{"*Generator", "generateMethodFunction", []string{M + "Name", M + "Parameters", M + "Response", R + "Type", R + "IsList", P + "Name", P + "Type", P + "IsVector"}},
			{"", "createParamsStructFromMethod", []string{M + "Name", M + "CRC", M + "Parameters"}},
			{"*Generator", "getAllConstructors", []string{I + "Types", I + "SingleInterfaceTypes", I + "Methods", I + "Enums", O + "Name", O + "Interface", M + "Name", E + "Name"}},
			{"*Generator", "generateInterfaces", []string{I + "Types", O + "Name", O + "Interface"}},
			{"", "createInternalSchema", []string{"tlparser.Schema.Objects", "tlparser.Schema.Methods", O + "Interface", O + "Name", O + "CRC", O + "Parameters"}},
			{"", "maxBitflag", []string{P + "BitToTrigger"}},
			{"", "interfaceIsEnum", []string{O + "Parameters"}},
		}
		fr := c.fieldReads()
		for _, rq := range required {
			f := c.P.Func(load.GenPkg, rq.recv, rq.fn)
			if f == nil {
				r.Undecide("R14.U", "reads:"+rq.fn, "", "emitter not found in the generator package (renamed or removed): its row of the coverage table cannot be checked")
				continue
			}
			var missing []string
			for _, fld := range rq.fields {
				if !fr[f][fld] {
					missing = append(missing, fld)
				}
			}
			r.Check(len(missing) == 0, "R14.U", "reads:"+rq.fn, c.pos(f.Pos()), sprintf("%d fields required; not read any more: %s", len(rq.fields), strings.Join(missing, ", ")))
		}
	}
	// ---- R14.G -----------------------------------------------------------------------------------
	r.Rule("R14.G", "positional-argument grouping: two neighbouring parameters share one type only if every parameter field that determines the emitted Go type (Type, IsVector) is equal", 1)
	if ga := c.fn("R14.G", load.GenPkg, "*Generator", "generateArgumentsForMethod"); ga != nil {
		tr := an.NewTracer()
		cmp, use := map[string]bool{}, map[string]bool{}
		fieldOf := func(v ssa.Value) string {
			o := tr.OriginString(v)
			if i := strings.LastIndex(o, "tlparser.Parameter."); i >= 0 {
				f := o[i+len("tlparser.Parameter."):]
				if !strings.ContainsAny(f, ".[(| ") {
					return f
				}
			}
			return ""
		}
		for _, i := range an.Ifs(ga) {
			cd, ok := an.Classify(i)
			if !ok {
				continue
			}
			fx, fy := "", ""
			if cd.X != nil {
				fx = fieldOf(cd.X)
			}
			if cd.Y != nil {
				fy = fieldOf(cd.Y)
			}
			switch {
			case cd.Kind == "eq" && fx != "" && fx == fy:
				cmp[fx] = true // p.F compared with next.F
			case fx != "":
				if _, isConst := cd.Y.(*ssa.Const); cd.Kind == "bool" || !isConst {
					use[fx] = true
				}
			}
		}
		for _, cs := range an.Calls(ga) {
			if strings.HasSuffix(cs.Name, "typeIdFromSchemaType") && len(cs.Common.Args) == 2 {
				if f := fieldOf(cs.Common.Args[1]); f != "" {
					use[f] = true
				}
			}
		}
		var missing []string
		for f := range use {
			if !cmp[f] {
				missing = append(missing, f)
			}
		}
		sort.Strings(missing)
		r.Check(len(use) >= 2 && len(missing) == 0, "R14.G", "argument-grouping:key", c.pos(ga.Pos()),
			sprintf("fields that shape the argument type: %v; fields compared with the next parameter before omitting the type: %v; not compared: %v — e.g. `a:string b:Vector<string>` would be emitted as `a, b []string`", an.SortedKeys(use), an.SortedKeys(cmp), missing))
	}

	plits := stringLiteralsOf(ppk, "parseDefinition")
	r.Check(contains(plits, "flags") && contains(plits, "#") && contains(plits, "bitflags"), "R14.F", "flagindex:parser-marks-flags-word", "", "the parser turns `flags:#` into the pseudo-type bitflags")
	// … and only that: the re-typing is reachable only through the equal edge of Type == "#" and of a test of the name
	// (a parameter that merely is called flags — flags:int in the shipped schema — keeps its type)
	if pd := c.fn("R14.F", load.ParsePkg, "", "parseDefinition"); pd != nil {
		trn := an.NewTracerNoAlloc()
		var marks []ssa.Instruction
		for _, b := range pd.Blocks {
			for _, in := range b.Instrs {
				if st, ok := in.(*ssa.Store); ok {
					if k, ok := st.Val.(*ssa.Const); ok && k.Value != nil && k.Value.Kind() == constant.String && constant.StringVal(k.Value) == "bitflags" {
						marks = append(marks, st)
					}
				}
			}
		}
		if len(marks) == 0 {
			r.Undecide("R14.F", "flagindex:only-hash-typed-flags", c.pos(pd.Pos()), "the store of \"bitflags\" was not found in parseDefinition")
		} else {
			cutType, cutName := map[an.Edge]bool{}, map[an.Edge]bool{}
			for _, i := range an.Ifs(pd) {
				cd, ok := an.Classify(i)
				if !ok || cd.Kind != "eq" {
					continue
				}
				lit, other := "", ssa.Value(nil)
				for _, pr := range [][2]ssa.Value{{cd.X, cd.Y}, {cd.Y, cd.X}} {
					if k, ok := pr[0].(*ssa.Const); ok && k.Value != nil && k.Value.Kind() == constant.String {
						lit, other = constant.StringVal(k.Value), pr[1]
					}
				}
				if other == nil {
					continue
				}
				o := trn.OriginString(other)
				switch {
				case lit == "#" && strings.Contains(o, "Parameter.Type"):
					cutType[cd.EdgeWhen(true)] = true
				case strings.Contains(o, "Parameter.Name"):
					cutName[cd.EdgeWhen(true)] = true
				}
			}
			okT := len(cutType) > 0 && !blocksReachable(an.Reach(pd, cutType), marks)
			okN := len(cutName) > 0 && !blocksReachable(an.Reach(pd, cutName), marks)
			r.Check(okT && okN, "R14.F", "flagindex:only-hash-typed-flags", c.pos(marks[0].Pos()),
				sprintf("the re-typing to bitflags requires Type == \"#\" (%v) and a matching name (%v): otherwise a parameter such as flags:int disappears from the generated struct", okT, okN))
		}
	}
}

func contains(xs []string, s string) bool {
	for _, x := range xs {
		if x == s {
			return true
		}
	}
	return false
}

func findDecl(pk *packages.Package, name string) *ast.FuncDecl {
	if pk == nil {
		return nil
	}
	for _, f := range pk.Syntax {
		for _, d := range f.Decls {
			if fd, ok := d.(*ast.FuncDecl); ok && fd.Name.Name == name {
				return fd
			}
		}
	}
	return nil
}

func stringLiteralsOf(pk *packages.Package, fn string) []string {
	// the function and the package-level functions of the same package it calls (a helper split off the function
	// keeps its literals in the set)
	var out []string
	seen := map[string]bool{}
	var visit func(name string, d int)
	visit = func(name string, d int) {
		if seen[name] || d > 4 {
			return
		}
		seen[name] = true
		fd := findDecl(pk, name)
		if fd == nil || fd.Body == nil {
			return
		}
		ast.Inspect(fd.Body, func(n ast.Node) bool {
			if bl, ok := n.(*ast.BasicLit); ok && bl.Kind == token.STRING {
				if tv, ok := pk.TypesInfo.Types[bl]; ok && tv.Value != nil {
					out = append(out, constant.StringVal(tv.Value))
				}
			}
			if id, ok := n.(*ast.Ident); ok {
				if k, ok := pk.TypesInfo.Uses[id].(*types.Const); ok && k.Val().Kind() == constant.String {
					out = append(out, constant.StringVal(k.Val()))
				}
			}
			if call, ok := n.(*ast.CallExpr); ok {
				if id, ok := call.Fun.(*ast.Ident); ok {
					if f, ok := pk.TypesInfo.Uses[id].(*types.Func); ok && f.Pkg() == pk.Types {
						visit(f.Name(), d+1)
					}
				}
			}
			return true
		})
	}
	visit(fn, 0)
	return out
}

// jenChain renders jen.Index().Byte() as "Index.Byte".
func jenChain(e ast.Expr) string {
	var parts []string
	for {
		call, ok := e.(*ast.CallExpr)
		if !ok {
			break
		}
		sel, ok := call.Fun.(*ast.SelectorExpr)
		if !ok {
			break
		}
		parts = append([]string{sel.Sel.Name}, parts...)
		e = sel.X
	}
	return strings.Join(parts, ".")
}

// c14Order: R14.O.
func c14Order(c *Ctx) {
	r := c.R
	var fns []*ssa.Function
	for f := range c.P.AllFunctions() {
		if load.FuncPkgPath(f) == load.GenPkg && f.Synthetic == "" && len(f.Blocks) > 0 {
			fns = append(fns, f)
		}
	}
	sortFuncs(fns)
	if len(fns) < 10 {
		r.Undecide("R14.O", "functions", "", "generator package functions not found")
		return
	}
	c14SortComparators(c, fns)
	taintVal := map[ssa.Value]bool{}
	taintField := map[string]bool{}
	taintRet := map[*ssa.Function]map[int]bool{}
	taintParam := map[*ssa.Parameter]bool{}
	isSliceT := func(v ssa.Value) bool { _, ok := v.Type().Underlying().(*types.Slice); return ok }
	// blocks on a cycle that contains a Next over a map
	mapLoopBlocks := func(f *ssa.Function) map[*ssa.BasicBlock]bool {
		out := map[*ssa.BasicBlock]bool{}
		for _, b := range f.Blocks {
			for _, in := range b.Instrs {
				nx, ok := in.(*ssa.Next)
				if !ok || nx.IsString {
					continue
				}
				if rg, ok := nx.Iter.(*ssa.Range); !ok {
					continue
				} else if _, isMap := rg.X.Type().Underlying().(*types.Map); !isMap {
					continue
				}
				for _, x := range f.Blocks {
					if reachesBlock(b, x, map[*ssa.BasicBlock]bool{}) && reachesBlock(x, b, map[*ssa.BasicBlock]bool{}) {
						out[x] = true
					}
				}
			}
		}
		return out
	}
	nMapLoops := 0
	changed := true
	mark := func(v ssa.Value) {
		if v != nil && isSliceT(v) && !taintVal[v] {
			taintVal[v] = true
			changed = true
		}
	}
	for iter := 0; changed && iter < 20; iter++ {
		changed = false
		for _, f := range fns {
			loopB := mapLoopBlocks(f)
			if iter == 0 && len(loopB) > 0 {
				nMapLoops++
			}
			for _, b := range f.Blocks {
				for _, in := range b.Instrs {
					switch x := in.(type) {
					case *ssa.Call:
						name := an.CalleeName(x.Common())
						if name == "builtin:append" {
							if loopB[b] {
								mark(x)
							}
							// appending to / from a tainted slice keeps the taint
							if taintVal[x.Call.Args[0]] {
								mark(x)
							}
							// element data read from a tainted slice inside a loop
							if elementOfTainted(x.Call.Args, taintVal, taintField) {
								mark(x)
							}
						}
						if callee := an.StaticCallee(x.Common()); callee != nil {
							for i, a := range x.Call.Args {
								if (taintVal[a] || loadsTaintedField(a, taintField)) && i < len(callee.Params) && !taintParam[callee.Params[i]] && load.FuncPkgPath(callee) == load.GenPkg {
									taintParam[callee.Params[i]] = true
									changed = true
								}
							}
							if tr := taintRet[callee]; tr != nil {
								if tr[0] && isSliceT(x) {
									mark(x)
								}
							}
						}
					case *ssa.Extract:
						if call, ok := x.Tuple.(*ssa.Call); ok {
							if callee := an.StaticCallee(call.Common()); callee != nil && taintRet[callee][x.Index] {
								mark(x)
							}
						}
					case *ssa.Phi:
						for _, e := range x.Edges {
							if taintVal[e] {
								mark(x)
							}
						}
					case *ssa.Slice:
						if taintVal[x.X] {
							mark(x)
						}
					case *ssa.UnOp:
						if x.Op == token.MUL {
							if fa, ok := x.X.(*ssa.FieldAddr); ok && taintField[an.FieldName(fa.X.Type(), fa.Field)] {
								mark(x)
							}
							if al, ok := x.X.(*ssa.Alloc); ok {
								for _, rf := range *al.Referrers() {
									if st, ok := rf.(*ssa.Store); ok && st.Addr == al && taintVal[st.Val] {
										mark(x)
									}
								}
							}
						}
					case *ssa.Store:
						if !taintVal[x.Val] {
							// slot store inside a map loop: enumTypes[i] = key
							if ia, ok := x.Addr.(*ssa.IndexAddr); ok && loopB[b] && isSliceT(ia.X) {
								mark(ia.X)
							}
							continue
						}
						if fa, ok := x.Addr.(*ssa.FieldAddr); ok {
							fn := an.FieldName(fa.X.Type(), fa.Field)
							if !taintField[fn] {
								taintField[fn] = true
								changed = true
							}
						}
					case *ssa.Return:
						for i, rv := range x.Results {
							if taintVal[rv] {
								if taintRet[f] == nil {
									taintRet[f] = map[int]bool{}
								}
								if !taintRet[f][i] {
									taintRet[f][i] = true
									changed = true
								}
							}
						}
					}
				}
			}
			for _, p := range f.Params {
				if taintParam[p] {
					mark(p)
				}
			}
		}
	}
	r.Extra["map_range_loops"] = nMapLoops
	var tf []string
	for k := range taintField {
		tf = append(tf, k)
	}
	sort.Strings(tf)
	r.Extra["unordered_fields"] = tf
	// uses: element reads of a tainted slice whose data reaches a jen call, not dominated by a sort of that slice
	n := 0
	for _, f := range fns {
		var sorts []ssa.CallInstruction
		for _, cs := range an.Calls(f) {
			if cs.Name == "sort.Strings" || cs.Name == "sort.Slice" || cs.Name == "sort.SliceStable" || cs.Name == "sort.Sort" || cs.Name == "sort.Ints" {
				sorts = append(sorts, cs.Instr)
			}
		}
		emits := false
		for _, cs := range an.Calls(f) {
			if strings.Contains(cs.Name, "jennifer/jen") {
				emits = true
			}
		}
		seen := map[string]bool{}
		for _, b := range f.Blocks {
			for _, in := range b.Instrs {
				ia, ok := in.(*ssa.IndexAddr)
				if !ok || !taintVal[ia.X] {
					continue
				}
				isRead := false
				for _, rf := range *ia.Referrers() {
					if st, isStore := rf.(*ssa.Store); isStore && st.Addr == ia {
						continue
					}
					isRead = true
				}
				if !isRead {
					continue // the fill itself
				}
				desc := simplifyOrigin(an.NewTracer().OriginString(ia.X))
				if seen[desc] {
					continue
				}
				seen[desc] = true
				sorted := false
				for _, s := range sorts {
					arg := s.Common().Args[0]
					if mi, ok := arg.(*ssa.MakeInterface); ok {
						arg = mi.X
					}
					if (arg == ia.X || sameSliceStorage(arg, ia.X)) && an.InstrDominates(s, ia) {
						sorted = true
					}
				}
				n++
				key := sprintf("unordered-read:%s/%s", an.ShortName(f), desc)
				switch {
				case sorted:
					r.Hold("R14.O", key, c.pos(ia.Pos()), "the slice is sorted before it is read")
				case !emits:
					r.Hold("R14.O", key, c.pos(ia.Pos()), "read in map-iteration order, but this function emits nothing: the order is passed on (the receiving slice is tracked)")
				case orderExceptions[an.ShortName(f)] != "":
					r.Hold("R14.O", key, c.pos(ia.Pos()), "exception: "+orderExceptions[an.ShortName(f)])
				default:
					r.Violate("R14.O", key, c.pos(ia.Pos()), "elements of "+desc+" (filled in map-iteration order) are read here and this function emits code, but no sort of that slice dominates the read: two runs can produce different files")
				}
			}
		}
	}
	if n == 0 {
		r.Undecide("R14.O", "unordered-reads", "", "no read of a map-ordered slice was found (the taint analysis matched nothing)")
	}
}

func sameSliceStorage(a, b ssa.Value) bool {
	la, ok1 := a.(*ssa.UnOp)
	lb, ok2 := b.(*ssa.UnOp)
	if ok1 && ok2 {
		if la.X == lb.X {
			return true
		}
		fa, ok1 := la.X.(*ssa.FieldAddr)
		fb, ok2 := lb.X.(*ssa.FieldAddr)
		if ok1 && ok2 && fa.Field == fb.Field && an.FieldName(fa.X.Type(), fa.Field) == an.FieldName(fb.X.Type(), fb.Field) {
			return true
		}
	}
	// the same value through phis of a loop (x and append(x, …) chains are different values: be strict)
	return false
}

func loadsTaintedField(v ssa.Value, tf map[string]bool) bool {
	if ld, ok := v.(*ssa.UnOp); ok && ld.Op == token.MUL {
		if fa, ok := ld.X.(*ssa.FieldAddr); ok {
			return tf[an.FieldName(fa.X.Type(), fa.Field)]
		}
	}
	return false
}

// elementOfTainted: some appended argument derives from an element of a tainted slice.
func elementOfTainted(args []ssa.Value, tv map[ssa.Value]bool, tf map[string]bool) bool {
	for _, a := range args[1:] {
		seen := map[ssa.Value]bool{}
		var walk func(v ssa.Value, d int) bool
		walk = func(v ssa.Value, d int) bool {
			if d > 8 || seen[v] {
				return false
			}
			seen[v] = true
			switch x := v.(type) {
			case *ssa.UnOp:
				return walk(x.X, d+1)
			case *ssa.IndexAddr:
				return tv[x.X] || loadsTaintedField(x.X, tf)
			case *ssa.FieldAddr:
				return walk(x.X, d+1)
			case *ssa.Field:
				return walk(x.X, d+1)
			case *ssa.Call:
				for _, y := range x.Call.Args {
					if walk(y, d+1) {
						return true
					}
				}
			case *ssa.BinOp:
				return walk(x.X, d+1) || walk(x.Y, d+1)
			case *ssa.Phi:
				for _, e := range x.Edges {
					if walk(e, d+1) {
						return true
					}
				}
			case *ssa.Slice:
				return walk(x.X, d+1)
			case *ssa.Alloc:
				for _, rf := range *x.Referrers() {
					if st, ok := rf.(*ssa.Store); ok && st.Addr == x && walk(st.Val, d+1) {
						return true
					}
				}
			}
			return false
		}
		if walk(a, 0) {
			return true
		}
	}
	return false
}

func blocksReachable(reach map[*ssa.BasicBlock]bool, ins []ssa.Instruction) bool {
	for _, in := range ins {
		if reach[in.Block()] {
			return true
		}
	}
	return false
}

// fieldReads: for every function of the generator package, the tlparser / internal-schema fields it reads, directly or
// through generator callees.
func (c *Ctx) fieldReads() map[*ssa.Function]map[string]bool {
	direct := map[*ssa.Function]map[string]bool{}
	var fns []*ssa.Function
	for f := range c.P.AllFunctions() {
		if strings.HasPrefix(load.FuncPkgPath(f), load.GenPkg) && len(f.Blocks) > 0 {
			fns = append(fns, f)
		}
	}
	want := func(n string) bool {
		return strings.HasPrefix(n, "tlparser.") || strings.HasPrefix(n, "gen.enum.") || strings.HasPrefix(n, "gen.internalSchema.")
	}
	for _, f := range fns {
		m := map[string]bool{}
		for _, b := range f.Blocks {
			for _, in := range b.Instrs {
				switch x := in.(type) {
				case *ssa.FieldAddr:
					// a read: the address is loaded somewhere (not only stored to)
					n := an.FieldName(x.X.Type(), x.Field)
					if !want(n) || x.Referrers() == nil {
						continue
					}
					for _, rf := range *x.Referrers() {
						if st, isSt := rf.(*ssa.Store); isSt && st.Addr == ssa.Value(x) {
							continue
						}
						m[n] = true
					}
				case *ssa.Field:
					if n := an.FieldName(x.X.Type(), x.Field); want(n) {
						m[n] = true
					}
				}
			}
		}
		direct[f] = m
	}
	// transitive over generator callees (including function literals)
	out := map[*ssa.Function]map[string]bool{}
	var visit func(f *ssa.Function, seen map[*ssa.Function]bool, acc map[string]bool)
	visit = func(f *ssa.Function, seen map[*ssa.Function]bool, acc map[string]bool) {
		if seen[f] {
			return
		}
		seen[f] = true
		for k := range direct[f] {
			acc[k] = true
		}
		for _, a := range f.AnonFuncs {
			visit(a, seen, acc)
		}
		for _, cs := range an.Calls(f) {
			if g := an.StaticCallee(cs.Common); g != nil && direct[g] != nil {
				visit(g, seen, acc)
			}
		}
	}
	for _, f := range fns {
		acc := map[string]bool{}
		visit(f, map[*ssa.Function]bool{}, acc)
		out[f] = acc
	}
	return out
}

// FieldReadsDebug prints the table (debug aid).
func FieldReadsDebug(p *load.Program) []string {
	c := &Ctx{P: p}
	fr := c.fieldReads()
	var out []string
	for f, m := range fr {
		if f.Parent() != nil || len(m) == 0 {
			continue
		}
		out = append(out, an.ShortName(f)+": "+strings.Join(an.SortedKeys(m), " "))
	}
	sort.Strings(out)
	return out
}

// c14ObjSuffix (R14.N): a constructor whose name clashes with its type gets the suffix "Obj". The decision is
// taken twice - where the struct is declared and where it is listed for registration - and the two deciders
// must be one function of the definition, or init() names a type the package does not declare.
func c14ObjSuffix(c *Ctx) {
	r := c.R
	// "the parser extracts exactly the declared names": a definition is skipped as a builtin line (int ? = Int;)
	// only when its whole first token is one of the excluded type names - a prefix test drops integerValue#..,
	// stringEntry#.., longPollResult#.. without an error
	if pd := c.fn("R14.C", load.ParsePkg, "", "parseDefinition"); pd != nil {
		n := 0
		var bad []string
		// every place where the "excluded" error is made (it is returned from there, directly or through a result
		// variable of a helper that was inlined)
		var made []ssa.Instruction
		for _, b := range pd.Blocks {
			for _, in := range b.Instrs {
				if mi, ok := in.(*ssa.MakeInterface); ok && strings.HasSuffix(mi.X.Type().String(), "errExcluded") {
					made = append(made, mi)
				}
			}
		}
		for _, ret := range made {
			n++
			guarded := an.DominatingGuard(pd, ret, func(cd *an.Cond) int {
				ex, ok := cd.X.(*ssa.Extract)
				if cd.Kind != "bool" || !ok || ex.Index != 1 {
					return -1
				}
				lk, ok := ex.Tuple.(*ssa.Lookup)
				if !ok || !lk.CommaOk {
					return -1
				}
				ld, ok := lk.X.(*ssa.UnOp)
				if !ok {
					return -1
				}
				if g, ok := ld.X.(*ssa.Global); !ok || (g.Name() != "excludedTypes" && g.Name() != "excludedDefinitions") {
					return -1
				}
				// the key is a token the cursor read up to a delimiter (directly, or kept in def.Name meanwhile)
				if o := an.NewTracer().OriginString(lk.Index); !strings.Contains(o, "Cursor).ReadAt#0") || strings.Contains(o, " | ") {
					return -1
				}
				return cd.EdgeWhen(true).Succ
			})
			if !guarded {
				bad = append(bad, "the exit at "+c.pos(ret.Pos())+" skips a line as excluded without a lookup of its whole first token (or whole name) in excludedTypes / excludedDefinitions")
			}
		}
		if n == 0 {
			r.Undecide("R14.C", "excluded-by-whole-token", c.pos(pd.Pos()), "no exit of parseDefinition returns errExcluded")
		} else {
			r.Check(len(bad) == 0, "R14.C", "excluded-by-whole-token", c.pos(pd.Pos()), sprintf("%d exit(s) skip a builtin line; %s", n, strings.Join(bad, "; ")))
		}
	}
	// "the schema file shipped as the generator's input is accepted": schemes/api_latest.tl is a symbolic link, so
	// the tool reads its input the way the OS resolves the path - no probe that looks at the link itself
	{
		noFollow := map[string]bool{"os.Lstat": true, "os.Readlink": true, "os.ReadDir": true, "io/ioutil.ReadDir": true, "path/filepath.Walk": true, "path/filepath.WalkDir": true}
		n, probes := 0, 0
		for f := range c.P.AllFunctions() {
			pp := load.FuncPkgPath(f)
			if !(strings.HasPrefix(pp, load.GenPkg[:strings.LastIndex(load.GenPkg, "/")])) || len(f.Blocks) == 0 {
				continue
			}
			n++
			for _, cs := range an.Calls(f) {
				if noFollow[cs.Name] {
					probes++
					r.Violate("R14.C", "input-read-through-links:"+an.ShortName(f)+"/"+shortCallee(cs.Name), c.pos(cs.Pos()), cs.Name+" looks at the path without following a symbolic link: the shipped input schemes/api_latest.tl is a link to api_121.tl and would be treated differently from its target")
				}
			}
		}
		if probes == 0 {
			r.Hold("R14.C", "input-read-through-links", "", sprintf("%d functions of the generator tool, no no-follow probe of a path", n))
		}
	}
	// the positional / params-struct decision is taken where the wrapper's parameter list is written and again
	// where its body builds the request: both must put the same question to the same quantity
	// enum or struct: a type is emitted as an enum (uint32 constants) only when NO constructor of it has
	// parameters; deciding on one constructor (the last, the first) drops the structs of the others
	// which fields live in the flags word: exactly the parameters of TL type `true`.  A flags.N?Bool is a bit plus
	// a Bool word on the wire; marking it encoded_in_bitflags makes the codec drop the word
	// where the flags word sits is declared by FlagIndex(): a struct gets the method as soon as one of its parameters
	// is conditional - whatever bit it uses (bit 0 included)
	// a function's result is a type or a vector of it: a decision about how the wrapper represents the result (nil
	// or a zero literal on the error branch, pointer or value) that looks the element type up in the schema tables
	// must know which of the two it is
	// a section marker names the section that follows: after ---functions--- definitions are functions, after
	// ---types--- they are constructors, whatever section the parser was in before
	c.sharedBitsAccepted("R14.D")
	r.Rule("R14.S", "in ParseSchema the flag that files a definition under Methods is true after the ---functions--- marker and false after the ---types--- marker on every path (the markers set the section, they do not toggle it)", 2)
	if f := c.fn("R14.S", load.ParsePkg, "", "ParseSchema"); f != nil {
		// the guard that routes a definition: the If whose true edge dominates the append to methods
		var route *ssa.If
		for _, b := range f.Blocks {
			for _, in := range b.Instrs {
				call, ok := in.(*ssa.Call)
				if !ok || an.CalleeName(call.Common()) != "builtin:append" || !strings.Contains(call.Type().String(), "tlparser.Method") {
					continue
				}
				for _, i := range an.Ifs(f) {
					if i.Block().Succs[0].Dominates(b) && !i.Block().Succs[1].Dominates(b) && len(i.Block().Succs[0].Preds) == 1 {
						if route == nil || route.Block().Dominates(i.Block()) {
							route = i
						}
					}
				}
			}
		}
		marker := func(lit string) []an.Edge {
			var out []an.Edge
			for _, i := range an.Ifs(f) {
				cd, ok := an.Classify(i)
				if ok && strings.HasSuffix(cd.Kind, "Cursor).IsNext") && isConstString(cd.Y, lit) {
					out = append(out, cd.EdgeWhen(true))
				}
			}
			return out
		}
		if route == nil {
			r.Undecide("R14.S", "section:set-by-marker", c.pos(f.Pos()), "the branch that files a definition under Methods was not found")
		} else {
			for _, m := range []struct{ lit, want string }{{"---functions---", "true"}, {"---types---", "false"}} {
				edges := marker(m.lit)
				if len(edges) == 0 {
					r.Undecide("R14.S", "section:set-by-marker:"+m.lit, c.pos(f.Pos()), "no test for the marker "+m.lit+" found")
					continue
				}
				bad := ""
				// ... until the next marker: the paths stop where another marker is recognised
				cut := map[an.Edge]bool{}
				for _, e2 := range append(marker("---functions---"), marker("---types---")...) {
					cut[e2] = true
				}
				for _, e := range edges {
					if v := boolAfterCut(f, e, route.Cond, route.Block(), cut); v != m.want && v != "" {
						bad = "after the marker " + m.lit + " the flag may be " + v + " (it depends on the section the parser was in before)"
					}
				}
				r.Check(bad == "", "R14.S", "section:set-by-marker:"+m.lit, c.pos(route.Pos()), bad)
			}
		}
	}
	r.Rule("R14.V", "in generateMethodFunction every lookup of the result's element type in the schema tables (Enums, Types, SingleInterfaceTypes) lies behind a test of Response.IsList: what is right for an enum is not right for a vector of enums", 1)
	if f := c.fn("R14.V", load.GenPkg, "*Generator", "generateMethodFunction"); f != nil {
		isListTest := func(i *ssa.If) bool {
			v := unNot(i.Cond)
			ld, ok := v.(*ssa.UnOp)
			if !ok {
				return false
			}
			fa, ok := ld.X.(*ssa.FieldAddr)
			return ok && strings.HasSuffix(an.FieldName(fa.X.Type(), fa.Field), "tlparser.MethodResponse.IsList")
		}
		var tests []*ssa.If
		for _, i := range an.Ifs(f) {
			if isListTest(i) {
				tests = append(tests, i)
			}
		}
		n := 0
		for _, b := range f.Blocks {
			for _, in := range b.Instrs {
				lk, ok := in.(*ssa.Lookup)
				if !ok {
					continue
				}
				tbl := ""
				if ld, ok := lk.X.(*ssa.UnOp); ok {
					if fa, ok := ld.X.(*ssa.FieldAddr); ok {
						tbl = an.FieldName(fa.X.Type(), fa.Field)
					}
				}
				key := ""
				idx := lk.Index
				for {
					if cv, ok := idx.(*ssa.Convert); ok {
						idx = cv.X
						continue
					}
					if ct, ok := idx.(*ssa.ChangeType); ok {
						idx = ct.X
						continue
					}
					break
				}
				if ld, ok := idx.(*ssa.UnOp); ok {
					if fa, ok := ld.X.(*ssa.FieldAddr); ok {
						key = an.FieldName(fa.X.Type(), fa.Field)
					}
				}
				if !strings.Contains(tbl, "internalSchema.") || !strings.HasSuffix(key, "MethodResponse.Type") {
					continue
				}
				n++
				guarded := false
				for _, t := range tests {
					// inside one arm of the test: dominated by that arm's first block, which the other arm
					// cannot reach (the join block after an if without else is dominated too, but by both ways)
					for k := 0; k < 2; k++ {
						arm, other := t.Block().Succs[k], t.Block().Succs[1-k]
						if t.Block() != b && arm.Dominates(b) && !reachesBlock(other, arm, map[*ssa.BasicBlock]bool{}) {
							guarded = true
						}
					}
				}
				r.Check(guarded, "R14.V", sprintf("result-representation:knows-list-ness#%d", n), c.pos(lk.Pos()), "the element type of the result is looked up in "+tbl+" on a path that has not asked whether the result is a vector")
			}
		}
		if n == 0 {
			r.Hold("R14.V", "result-representation:no-direct-lookup", c.pos(f.Pos()), "generateMethodFunction decides nothing from the schema tables by the element type alone")
		}
	}
	r.Rule("R14.I", "generateStructTypeAndMethods emits FlagIndex() whenever a parameter is conditional: once the true edge of a test of Parameter.IsOptional was taken, the condition guarding the emission evaluates to true", 1)
	if f := c.fn("R14.I", load.GenPkg, "*Generator", "generateStructTypeAndMethods"); f != nil {
		// the guard: the If whose true edge dominates the block that names the method
		var guard *ssa.If
		for _, b := range f.Blocks {
			for _, in := range b.Instrs {
				ci, ok := in.(ssa.CallInstruction)
				if !ok {
					continue
				}
				for _, a := range ci.Common().Args {
					if isConstString(a, "FlagIndex") {
						for _, i := range an.Ifs(f) {
							if i.Block().Succs[0].Dominates(b) && (guard == nil || guard.Block().Dominates(i.Block())) {
								if guard == nil {
									guard = i
								}
							}
						}
					}
				}
			}
		}
		var edges []an.Edge
		for _, i := range an.Ifs(f) {
			v := unNot(i.Cond)
			if ld, ok := v.(*ssa.UnOp); ok {
				if fa, ok := ld.X.(*ssa.FieldAddr); ok && strings.HasSuffix(an.FieldName(fa.X.Type(), fa.Field), "tlparser.Parameter.IsOptional") {
					s := 0
					if v != i.Cond {
						s = 1
					}
					edges = append(edges, an.Edge{From: i.Block(), Succ: s})
				}
			}
		}
		switch {
		case guard == nil:
			r.Undecide("R14.I", "flagindex:emitted-iff-conditional", c.pos(f.Pos()), "no condition guarding the emission of FlagIndex found")
		case len(edges) == 0:
			r.Violate("R14.I", "flagindex:emitted-iff-conditional", c.pos(guard.Pos()), "the emission of FlagIndex() is not decided by a test of Parameter.IsOptional (a struct whose conditional fields all use bit 0 must still declare where its flags word is)")
		default:
			var bad []string
			for _, e := range edges {
				if v := boolAfter(f, e, guard.Cond, guard.Block()); v != "true" && v != "" {
					bad = append(bad, "after a conditional parameter was seen the condition guarding the emission may be "+v)
				}
			}
			r.Check(len(bad) == 0, "R14.I", "flagindex:emitted-iff-conditional", c.pos(guard.Pos()), strings.Join(bad, "; "))
		}
	}
	r.Rule("R14.K", "generateStructParameter appends the encoded_in_bitflags option exactly on the equal edge of the test param.Type == \"true\" (the TL type, not the Go type it maps to)", 1)
	if f := c.fn("R14.K", load.GenPkg, "*Generator", "generateStructParameter"); f != nil {
		n := 0
		for _, b := range f.Blocks {
			for _, in := range b.Instrs {
				bo, ok := in.(*ssa.BinOp)
				if !ok || bo.Op != token.ADD {
					continue
				}
				k, isK := bo.Y.(*ssa.Const)
				if !isK || k.Value == nil || !strings.Contains(k.Value.ExactString(), "encoded_in_bitflags") {
					continue
				}
				n++
				okG := false
				for _, i := range an.Ifs(f) {
					cd, okc := an.Classify(i)
					if !okc || cd.Kind != "eq" {
						continue
					}
					isType := func(v ssa.Value) bool {
						ld, ok := v.(*ssa.UnOp)
						if !ok {
							return false
						}
						fa, ok := ld.X.(*ssa.FieldAddr)
						return ok && strings.HasSuffix(an.FieldName(fa.X.Type(), fa.Field), "tlparser.Parameter.Type")
					}
					if ((isType(cd.X) && isConstString(cd.Y, "true")) || (isType(cd.Y) && isConstString(cd.X, "true"))) && cd.EdgeWhen(true).To() == bo.Block() && len(bo.Block().Preds) == 1 {
						okG = true
					}
				}
				r.Check(okG, "R14.K", sprintf("tag:bitflag-option-iff-true#%d", n), c.pos(bo.Pos()), "the option is appended in the block entered only by the equal edge of param.Type == \"true\"")
			}
		}
		if n == 0 {
			r.Undecide("R14.K", "tag:bitflag-option-iff-true", c.pos(f.Pos()), "no `+ \",encoded_in_bitflags\"` found in generateStructParameter")
		}
	}
	r.Rule("R14.E", "the enum classification is a universal over the type's constructors: createInternalSchema fills Enums only behind the true result of a predicate over the group, and in that predicate every path that has seen a constructor with parameters returns false", 2)
	if f := c.fn("R14.E", load.GenPkg, "", "createInternalSchema"); f != nil {
		var stores []ssa.Instruction
		for _, b := range f.Blocks {
			for _, in := range b.Instrs {
				if mu, ok := in.(*ssa.MapUpdate); ok {
					if ld, ok := mu.Map.(*ssa.UnOp); ok {
						if fa, ok := ld.X.(*ssa.FieldAddr); ok && strings.HasSuffix(an.FieldName(fa.X.Type(), fa.Field), "internalSchema.Enums") {
							stores = append(stores, in)
						}
					}
				}
			}
		}
		// the guards: Ifs of f whose condition is the result of a gen-package predicate
		var pass []an.Edge
		var preds []*ssa.Function
		for _, i := range an.Ifs(f) {
			cd, ok := an.Classify(i)
			if !ok || !strings.HasPrefix(cd.Kind, "call:"+load.GenPkg+".") {
				continue
			}
			if call, isCall := unNot(i.Cond).(*ssa.Call); isCall {
				if g := an.StaticCallee(call.Common()); g != nil && len(g.Blocks) > 0 {
					pass = append(pass, cd.EdgeWhen(true))
					preds = append(preds, g)
				}
			}
		}
		switch {
		case len(stores) == 0:
			r.Undecide("R14.E", "enum:filled-behind-the-predicate", c.pos(f.Pos()), "no store into internalSchema.Enums found in createInternalSchema")
		case len(pass) == 0:
			r.Undecide("R14.E", "enum:filled-behind-the-predicate", c.pos(stores[0].Pos()), "the store into Enums is not guarded by the result of a predicate function over the group's constructors (classification shape not recognised)")
		default:
			un := an.Guarded(f, pass, stores)
			r.Check(len(un) == 0, "R14.E", "enum:filled-behind-the-predicate", c.pos(stores[0].Pos()), sprintf("%d store(s) into Enums, %d reachable without the true edge of the predicate", len(stores), len(un)))
		}
		seenP := map[*ssa.Function]bool{}
		for _, g := range preds {
			if seenP[g] {
				continue
			}
			seenP[g] = true
			n := 0
			var bad []string
			for _, i := range an.Ifs(g) {
				cd, ok := an.Classify(i)
				if !ok || (cd.Kind != "ord" && cd.Kind != "eq") {
					continue
				}
				lenOf := func(v ssa.Value) bool {
					call, ok := v.(*ssa.Call)
					if !ok || an.CalleeName(call.Common()) != "builtin:len" {
						return false
					}
					return strings.Contains(tr14e.OriginString(call.Call.Args[0]), "tlparser.Object.Parameters")
				}
				var hasFields an.Edge
				switch {
				case cd.Kind == "ord" && lenOf(cd.X) && isConstInt(cd.Y, 0) && cd.Rel == ">":
					hasFields = an.Edge{From: i.Block(), Succ: 0}
				case cd.Kind == "ord" && lenOf(cd.X) && isConstInt(cd.Y, 0) && cd.Rel == "<=":
					hasFields = an.Edge{From: i.Block(), Succ: 1}
				case cd.Kind == "eq" && lenOf(cd.X) && isConstInt(cd.Y, 0):
					hasFields = cd.EdgeWhen(false)
				default:
					continue
				}
				n++
				for _, b := range g.Blocks {
					for _, in := range b.Instrs {
						ret, ok := an.AsReturn(in)
						if !ok || len(ret.Results) != 1 {
							continue
						}
						if v := boolAfter(g, hasFields, an.RetVal(ret, 0), b); v != "false" && v != "" {
							bad = append(bad, "after a constructor with parameters was seen ("+c.pos(i.Cond.Pos())+") the return at "+c.pos(ret.Pos())+" may answer "+v)
						}
					}
				}
			}
			// ... and "true" is answered only after the whole group was looked at: with the loops' exhausted
			// edges cut, no return may answer anything but false
			{
				cut := map[an.Edge]bool{}
				for _, i := range an.Ifs(g) {
					cd, ok := an.Classify(i)
					if !ok {
						continue
					}
					lenOfParam := func(v ssa.Value) bool {
						call, ok := v.(*ssa.Call)
						return ok && an.CalleeName(call.Common()) == "builtin:len" && len(g.Params) > 0 && call.Call.Args[0] == ssa.Value(g.Params[0])
					}
					switch {
					case cd.Kind == "ord" && lenOfParam(cd.Y) && cd.Rel == "<":
						cut[an.Edge{From: i.Block(), Succ: 1}] = true
					case cd.Kind == "ord" && lenOfParam(cd.Y) && cd.Rel == ">=":
						cut[an.Edge{From: i.Block(), Succ: 0}] = true
					}
				}
				if len(cut) > 0 {
					reach, exec := an.ReachExec(g, cut, nil)
					for _, b := range g.Blocks {
						if !reach[b] {
							continue
						}
						for _, in := range b.Instrs {
							if ret, ok := an.AsReturn(in); ok && len(ret.Results) == 1 {
								if v := boolAlong(an.RetVal(ret, 0), exec, 0); v != "false" {
									bad = append(bad, "the return at "+c.pos(ret.Pos())+" may answer "+v+" before every constructor of the group was looked at")
								}
							}
						}
					}
				} else {
					bad = append(bad, "no loop over the whole group found in the predicate")
				}
			}
			if n == 0 {
				r.Undecide("R14.E", "enum:any-fields-means-struct:"+g.Name(), c.pos(g.Pos()), "no test of len(constructor.Parameters) against 0 found in the predicate")
			} else {
				r.Check(len(bad) == 0, "R14.E", "enum:any-fields-means-struct:"+g.Name(), c.pos(g.Pos()), strings.Join(bad, "; "))
			}
		}
	}
	r.Rule("R14.A", "every comparison with maximumPositionalArguments in the generator relates the same quantity to it with the same operator (the signature and the body of a wrapper agree on positional vs params struct)", 2)
	{
		trA := an.NewTracer()
		type site struct {
			pos  token.Pos
			desc string
		}
		var sites []site
		var gfns []*ssa.Function
		for f := range c.P.AllFunctions() {
			if load.FuncPkgPath(f) == load.GenPkg && f.Synthetic == "" && len(f.Blocks) > 0 {
				gfns = append(gfns, f)
			}
		}
		sort.Slice(gfns, func(i, j int) bool { return gfns[i].Pos() < gfns[j].Pos() })
		isMax := func(v ssa.Value) bool {
			ld, ok := v.(*ssa.UnOp)
			if !ok || ld.Op != token.MUL {
				return false
			}
			g, ok := ld.X.(*ssa.Global)
			return ok && g.Name() == "maximumPositionalArguments"
		}
		describe := func(v ssa.Value) string {
			if call, ok := v.(*ssa.Call); ok && an.CalleeName(call.Common()) == "builtin:len" && len(call.Call.Args) == 1 {
				return "len(" + paramOrdinal.ReplaceAllString(trA.OriginString(call.Call.Args[0]), "") + ")"
			}
			return trA.OriginString(v)
		}
		flip := map[token.Token]token.Token{token.LSS: token.GTR, token.GTR: token.LSS, token.LEQ: token.GEQ, token.GEQ: token.LEQ, token.EQL: token.EQL, token.NEQ: token.NEQ}
		for _, f := range gfns {
			for _, b := range f.Blocks {
				for _, in := range b.Instrs {
					bo, ok := in.(*ssa.BinOp)
					if !ok {
						continue
					}
					if _, cmp := flip[bo.Op]; !cmp {
						continue
					}
					switch {
					case isMax(bo.Y):
						sites = append(sites, site{bo.Pos(), describe(bo.X) + " " + bo.Op.String() + " max"})
					case isMax(bo.X):
						sites = append(sites, site{bo.Pos(), describe(bo.Y) + " " + flip[bo.Op].String() + " max"})
					}
				}
			}
		}
		if len(sites) < 2 {
			r.Undecide("R14.A", "arity-predicate", "", sprintf("%d comparison(s) with maximumPositionalArguments found, expected the signature's and the body's", len(sites)))
		}
		for i, st := range sites {
			r.Check(st.desc == sites[0].desc, "R14.A", sprintf("arity-predicate#%d", i+1), c.pos(st.pos), "`"+st.desc+"` (the first site asks `"+sites[0].desc+"`)")
		}
	}
	r.Rule("R14.N", "the Obj suffix is decided by the same predicate over (constructor name, type name) where the struct is declared (generateInterfaces) and where it is listed for registration (getAllConstructors)", 1)
	tr := an.NewTracer()
	var descr func(v ssa.Value, d int) string
	descr = func(v ssa.Value, d int) string {
		if d > 6 {
			return "…"
		}
		switch x := v.(type) {
		case *ssa.Const:
			if x.Value == nil {
				return "nil"
			}
			return x.Value.ExactString()
		case *ssa.Call:
			var as []string
			for _, a := range x.Call.Args {
				as = append(as, descr(a, d+1))
			}
			n := an.CalleeName(x.Common())
			return n[strings.LastIndex(n, "/")+1:] + "(" + strings.Join(as, ",") + ")"
		case *ssa.UnOp:
			if x.Op == token.NOT {
				return "!" + descr(x.X, d+1)
			}
		case *ssa.BinOp:
			a, b := descr(x.X, d+1), descr(x.Y, d+1)
			if (x.Op == token.EQL || x.Op == token.NEQ) && b < a {
				a, b = b, a
			}
			return "(" + a + " " + x.Op.String() + " " + b + ")"
		}
		if f := objField(v); f != "" {
			return "def." + f
		}
		if typesKey(v, 0, map[ssa.Value]bool{}) == 1 {
			// a key of schema.Types (directly or through the sorted key slice): createInternalSchema files every
			// definition under its Interface, which the lemma below checks
			return "def.Interface"
		}
		return "?" + tr.OriginString(v)
	}
	got := map[string]string{}
	for _, fn := range []string{"generateInterfaces", "getAllConstructors"} {
		f := c.fn("R14.N", load.GenPkg, "*Generator", fn)
		if f == nil {
			continue
		}
		var conds []string
		for _, b := range f.Blocks {
			for _, in := range b.Instrs {
				bo, ok := in.(*ssa.BinOp)
				if !ok || bo.Op != token.ADD {
					continue
				}
				if k, ok := bo.Y.(*ssa.Const); !ok || k.Value == nil || k.Value.ExactString() != `"Obj"` {
					continue
				}
				if len(b.Preds) != 1 {
					conds = append(conds, "?the Obj concatenation is not under a single test")
					continue
				}
				i, ok := b.Preds[0].Instrs[len(b.Preds[0].Instrs)-1].(*ssa.If)
				if !ok {
					conds = append(conds, "?unconditional")
					continue
				}
				d := descr(i.Cond, 0)
				if b.Preds[0].Succs[1] == b {
					d = "!" + d
				}
				conds = append(conds, d)
			}
		}
		if len(conds) != 1 {
			r.Undecide("R14.N", "obj-suffix:"+fn, c.pos(f.Pos()), sprintf("expected one guarded `+ \"Obj\"` in %s, found %d", fn, len(conds)))
			continue
		}
		got[fn] = conds[0]
	}
	if len(got) == 2 {
		a, b := got["generateInterfaces"], got["getAllConstructors"]
		r.Check(a == b && !strings.Contains(a, "?"), "R14.N", "obj-suffix:same-predicate", "", sprintf("declared under %s, registered under %s: a definition on which the two differ is declared under one Go name and registered under another (the package does not compile)", a, b))
	}
	// lemma: schema.Types files a definition under its Interface
	if f := c.fn("R14.N", load.GenPkg, "", "createInternalSchema"); f != nil {
		ok := false
		for _, b := range f.Blocks {
			for _, in := range b.Instrs {
				if mu, isMU := in.(*ssa.MapUpdate); isMU && strings.Contains(tr.OriginString(mu.Value), "tlparser.Object") || isMU && strings.Contains(mu.Value.Type().String(), "tlparser.Object") {
					if strings.HasSuffix(tr.OriginString(mu.Key), "tlparser.Object.Interface") {
						ok = true
					}
				}
			}
		}
		r.Check(ok, "R14.N", "obj-suffix:types-keyed-by-interface", c.pos(f.Pos()), "createInternalSchema groups the definitions in a map keyed by their Interface field")
	}
}

// objField: v is a load of a field of a tlparser.Object (through a pointer or from a struct value).
func objField(v ssa.Value) string {
	isObj := func(t types.Type) (*types.Struct, bool) {
		if p, ok := t.Underlying().(*types.Pointer); ok {
			t = p.Elem()
		}
		st, ok := t.Underlying().(*types.Struct)
		return st, ok && strings.HasSuffix(t.String(), "tlparser.Object")
	}
	switch x := v.(type) {
	case *ssa.UnOp:
		if fa, ok := x.X.(*ssa.FieldAddr); ok && x.Op == token.MUL {
			if st, ok := isObj(fa.X.Type()); ok {
				return st.Field(fa.Field).Name()
			}
		}
	case *ssa.Field:
		if st, ok := isObj(x.X.Type()); ok {
			return st.Field(x.Field).Name()
		}
	}
	return ""
}

// typesKey: 1 = the string is a key of a map[...][]tlparser.Object (taken from a range over it, possibly
// collected in a slice first), 0 = nothing (an empty slice), 2 = something else.
func typesKey(v ssa.Value, d int, seen map[ssa.Value]bool) int {
	if d > 12 || seen[v] {
		return 0
	}
	seen[v] = true
	join := func(a, b int) int {
		if a == 2 || b == 2 {
			return 2
		}
		if a == 1 || b == 1 {
			return 1
		}
		return 0
	}
	switch x := v.(type) {
	case *ssa.Extract:
		if nx, ok := x.Tuple.(*ssa.Next); ok && x.Index == 1 {
			if rg, ok := nx.Iter.(*ssa.Range); ok {
				if m, ok := rg.X.Type().Underlying().(*types.Map); ok && strings.HasSuffix(m.Elem().String(), "tlparser.Object") {
					return 1
				}
			}
		}
		return 2
	case *ssa.UnOp:
		if x.Op == token.MUL {
			if ia, ok := x.X.(*ssa.IndexAddr); ok {
				return typesKey(ia.X, d+1, seen)
			}
		}
		return 2
	case *ssa.Phi:
		res := 0
		for _, e := range x.Edges {
			res = join(res, typesKey(e, d+1, seen))
		}
		return res
	case *ssa.Slice:
		return typesKey(x.X, d+1, seen)
	case *ssa.MakeSlice:
		return 0
	case *ssa.Alloc:
		res := 0
		for _, rf := range *x.Referrers() {
			if ia, ok := rf.(*ssa.IndexAddr); ok {
				for _, r2 := range *ia.Referrers() {
					if st, ok := r2.(*ssa.Store); ok && st.Addr == ssa.Value(ia) {
						res = join(res, typesKey(st.Val, d+1, seen))
					}
				}
			}
		}
		return res
	case *ssa.Call:
		if an.CalleeName(x.Common()) == "builtin:append" && len(x.Call.Args) == 2 {
			return join(typesKey(x.Call.Args[0], d+1, seen), typesKey(x.Call.Args[1], d+1, seen))
		}
	}
	return 2
}

// c14SortComparators (R14.O): a sort makes the output independent of map order only if its comparator looks at
// the elements being sorted.  For every sort.Slice / sort.SliceStable in the generator, each slice the less
// function indexes with its i / j arguments must be the very slice handed to the sort (same variable, or the same
// field path from the same root): a comparator that indexes another slice - the original of a copy being sorted -
// compares positions that the sort is not moving, and the result follows the incoming (map) order.
func c14SortComparators(c *Ctx, fns []*ssa.Function) {
	r := c.R
	n := 0
	for _, f := range fns {
		k := 0
		for _, cs := range an.Calls(f) {
			if cs.Name != "sort.Slice" && cs.Name != "sort.SliceStable" || len(cs.Common.Args) != 2 {
				continue
			}
			n++
			k++
			key := sprintf("sort-comparator:%s#%d", an.ShortName(f), k)
			sorted := cs.Common.Args[0]
			if mi, ok := sorted.(*ssa.MakeInterface); ok {
				sorted = mi.X
			}
			mc, ok := cs.Common.Args[1].(*ssa.MakeClosure)
			if !ok {
				r.Undecide("R14.O", key, c.pos(cs.Pos()), "the less function is not a function literal")
				continue
			}
			less := mc.Fn.(*ssa.Function)
			bind := map[*ssa.FreeVar]ssa.Value{}
			for i, fv := range less.FreeVars {
				if i < len(mc.Bindings) {
					bind[fv] = mc.Bindings[i]
				}
			}
			var path func(v ssa.Value, d int) string
			path = func(v ssa.Value, d int) string {
				if d > 8 {
					return "…"
				}
				switch x := v.(type) {
				case *ssa.Parameter:
					return "param:" + x.Name()
				case *ssa.FreeVar:
					if b, ok := bind[x]; ok {
						return path(b, d+1)
					}
					return "freevar:" + x.Name()
				case *ssa.Alloc:
					return sprintf("var:%s@%d", x.Comment, x.Pos())
				case *ssa.UnOp:
					if x.Op == token.MUL {
						return "*" + path(x.X, d+1)
					}
				case *ssa.FieldAddr:
					return path(x.X, d+1) + "." + an.FieldName(x.X.Type(), x.Field)
				case *ssa.Slice:
					if x.Low == nil && x.High == nil {
						return path(x.X, d+1)
					}
				}
				return sprintf("%s@%d", v.Name(), v.Pos())
			}
			want := path(sorted, 0)
			var bad []string
			reads := 0
			for _, b := range less.Blocks {
				for _, in := range b.Instrs {
					ia, ok := in.(*ssa.IndexAddr)
					if !ok {
						continue
					}
					if p, isP := ia.Index.(*ssa.Parameter); !isP || p.Parent() != less {
						continue
					}
					reads++
					if got := path(ia.X, 0); got != want {
						bad = append(bad, sprintf("indexes %s at %s", got, c.pos(ia.Pos())))
					}
				}
			}
			if reads == 0 {
				r.Undecide("R14.O", key, c.pos(cs.Pos()), "the less function indexes nothing with its arguments")
				continue
			}
			r.Check(len(bad) == 0, "R14.O", key, c.pos(cs.Pos()), sprintf("the sort is over %s; its less function %s: it compares elements the sort is not moving, so the order of the result follows the incoming order", want, strings.Join(bad, "; ")))
		}
	}
	if n == 0 {
		r.Undecide("R14.O", "sort-comparator", "", "no sort.Slice call found in the generator")
	}
}

var paramOrdinal = regexp.MustCompile(`param#\d+\.`)

var tr14e = an.NewTracer()

func unNot(v ssa.Value) ssa.Value {
	for {
		u, ok := v.(*ssa.UnOp)
		if !ok || u.Op != token.NOT {
			return v
		}
		v = u.X
	}
}

func isConstInt(v ssa.Value, k int64) bool {
	x, ok := an.ConstInt(v)
	return ok && x == k
}

// boolAlong: the boolean a value may have when only the edges in exec were taken: "true", "false" or "either".
// A loop-carried flag refers to itself through the back edge: a phi under evaluation contributes nothing new.
func boolAlong(v ssa.Value, exec map[an.Edge]bool, depth int) string {
	r := boolAlongV(v, exec, map[*ssa.Phi]bool{})
	if r == "" {
		return "either"
	}
	return r
}

func boolAlongV(v ssa.Value, exec map[an.Edge]bool, visiting map[*ssa.Phi]bool) string {
	switch x := v.(type) {
	case *ssa.Const:
		if x.Value != nil && x.Value.Kind() == constant.Bool {
			if constant.BoolVal(x.Value) {
				return "true"
			}
			return "false"
		}
	case *ssa.UnOp:
		if x.Op == token.NOT {
			switch boolAlongV(x.X, exec, visiting) {
			case "true":
				return "false"
			case "false":
				return "true"
			case "":
				return ""
			}
		}
	case *ssa.Phi:
		if visiting[x] {
			return "" // nothing new
		}
		visiting[x] = true
		defer delete(visiting, x)
		res := ""
		for _, e := range an.PhiValues(x, exec) {
			b := boolAlongV(e, exec, visiting)
			if b == "" {
				continue
			}
			if res == "" {
				res = b
			} else if res != b {
				return "either"
			}
		}
		return res
	}
	return "either"
}

// boolAfter: the boolean value v may have at the end of block `at` on the paths that begin with the edge start - a
// forward propagation over the CFG in the lattice {true, false, either}: every phi holds "either" (whatever it
// held before the edge was taken) until an edge taken after start gives it a value; values meeting at a block are
// joined.  Branches are not pruned.  Returns "" when `at` is not reachable from the edge.
func boolAfter(fn *ssa.Function, start an.Edge, v ssa.Value, at *ssa.BasicBlock) string {
	return boolAfterCut(fn, start, v, at, nil)
}

// boolAfterCut is boolAfter with a set of edges the paths may not take.
func boolAfterCut(fn *ssa.Function, start an.Edge, v ssa.Value, at *ssa.BasicBlock, cut map[an.Edge]bool) string {
	type state map[*ssa.Phi]string
	eval := func(x ssa.Value, st state) string {
		neg := false
		for {
			u, ok := x.(*ssa.UnOp)
			if !ok || u.Op != token.NOT {
				break
			}
			neg = !neg
			x = u.X
		}
		res := "either"
		switch y := x.(type) {
		case *ssa.Const:
			if y.Value != nil && y.Value.Kind() == constant.Bool {
				if constant.BoolVal(y.Value) {
					res = "true"
				} else {
					res = "false"
				}
			}
		case *ssa.Phi:
			if val, ok := st[y]; ok {
				res = val
			}
		}
		if neg {
			switch res {
			case "true":
				res = "false"
			case "false":
				res = "true"
			}
		}
		return res
	}
	in := map[*ssa.BasicBlock]state{}
	transfer := func(e an.Edge, st state) state {
		to := e.To()
		// which predecessor slot of `to` is this edge?
		slot := -1
		k := 0
		for si, s2 := range e.From.Succs {
			if s2 == to {
				if si == e.Succ {
					break
				}
				k++
			}
		}
		for pi, p := range to.Preds {
			if p == e.From {
				if k == 0 {
					slot = pi
					break
				}
				k--
			}
		}
		out := state{}
		for ph, val := range st {
			out[ph] = val
		}
		for _, instr := range to.Instrs {
			ph, ok := instr.(*ssa.Phi)
			if !ok {
				break
			}
			if slot >= 0 && slot < len(ph.Edges) {
				out[ph] = eval(ph.Edges[slot], st)
			} else {
				out[ph] = "either"
			}
		}
		return out
	}
	join := func(a, b state) (state, bool) {
		changed := false
		for ph, vb := range b {
			va, ok := a[ph]
			switch {
			case !ok:
				a[ph] = vb
				changed = true
			case va != vb && va != "either":
				a[ph] = "either"
				changed = true
			}
		}
		return a, changed
	}
	first := transfer(start, state{})
	in[start.To()] = first
	work := []*ssa.BasicBlock{start.To()}
	for len(work) > 0 {
		b := work[0]
		work = work[1:]
		for si := range b.Succs {
			e := an.Edge{From: b, Succ: si}
			if cut[e] {
				continue
			}
			nst := transfer(e, in[b])
			if cur, ok := in[e.To()]; !ok {
				in[e.To()] = nst
				work = append(work, e.To())
			} else if merged, changed := join(cur, nst); changed {
				in[e.To()] = merged
				work = append(work, e.To())
			}
		}
	}
	st, ok := in[at]
	if !ok {
		return ""
	}
	return eval(v, st)
}
