package props

import (
	"go/token"
	"go/types"
	"strconv"
	"strings"

	"verif/checker/internal/an"
	"verif/checker/internal/load"

	"golang.org/x/tools/go/ssa"
)

func init() { register("C07", c07) }

// hsRow is one row of the handshake obligation table: a comparison between two values identified by origin.
type hsRow struct {
	name string
	kind string   // "cmp" | "bytes.Equal" | "eq" | "assert"
	a    []string // substrings that one operand's origin must contain
	b    []string // substrings that the other operand's origin must contain (or its transitive deps, when bDeps)
	// bDeps: the b-substrings are matched against the transitive dependencies of the operand (derived values)
	bDeps  bool
	assert string // asserted type for kind "assert"
}

var handshakeRows = []hsRow{
	{name: "resPQ.nonce", kind: "cmp", a: []string{"call:" + load.TLPkg + ".RandomInt128"}, b: []string{"reqPQ#0", "objects.ResPQ.Nonce"}},
	{name: "resPQ.fingerprint", kind: "eq", a: []string{"objects.ResPQ.Fingerprints["}, b: []string{load.KeysPkg + ".RSAFingerprint"}, bDeps: true},
	{name: "server_DH_params_ok.kind", kind: "assert", a: []string{"reqDHParams#0"}, assert: "*objects.ServerDHParamsOk"},
	{name: "server_DH_params_ok.nonce", kind: "cmp", a: []string{"call:" + load.TLPkg + ".RandomInt128"}, b: []string{"objects.ServerDHParamsOk.Nonce"}},
	{name: "server_DH_params_ok.server_nonce", kind: "cmp", a: []string{"objects.ResPQ.ServerNonce"}, b: []string{"objects.ServerDHParamsOk.ServerNonce"}},
	{name: "server_DH_inner_data.kind", kind: "assert", a: []string{"DecodeUnknownObject#0"}, assert: "*objects.ServerDHInnerData"},
	{name: "server_DH_inner_data.nonce", kind: "cmp", a: []string{"call:" + load.TLPkg + ".RandomInt128"}, b: []string{"objects.ServerDHInnerData.Nonce"}},
	{name: "server_DH_inner_data.server_nonce", kind: "cmp", a: []string{"objects.ResPQ.ServerNonce"}, b: []string{"objects.ServerDHInnerData.ServerNonce"}},
	{name: "dh_gen_ok.kind", kind: "assert", a: []string{"setClientDHParams#0"}, assert: "*objects.DHGenOk"},
	{name: "dh_gen_ok.nonce", kind: "cmp", a: []string{"call:" + load.TLPkg + ".RandomInt128"}, b: []string{"objects.DHGenOk.Nonce"}},
	{name: "dh_gen_ok.server_nonce", kind: "cmp", a: []string{"objects.ResPQ.ServerNonce"}, b: []string{"objects.DHGenOk.ServerNonce"}},
	{name: "dh_gen_ok.new_nonce_hash1", kind: "bytes.Equal", a: []string{"objects.DHGenOk.NewNonceHash1"}, b: []string{load.TLPkg + ".RandomInt256", "field:mtproto.MTProto.authKey"}, bDeps: true},
}

// hsGuard is a comparison or comma-ok assertion that gates the rest of makeAuthKey: either a branch of makeAuthKey
// itself, or a guard inside a repository helper whose result makeAuthKey branches on (the check extracted into
// `func checkNonce(a, b) error` / `func sameNonce(a, b) bool`).
type hsGuard struct {
	kind    string // "equal" | "assert"
	assertT string
	xo, yo  []string  // origins of the operands, expressed in makeAuthKey's terms
	xv, yv  ssa.Value // the operands (values of makeAuthKey or of the helper)
	pass    an.Edge   // the edge of makeAuthKey taken when the operands agree
	pos     token.Pos
	helper  *ssa.Function
	args    []ssa.Value // helper: actual arguments in makeAuthKey
	via     string
}

// deps: transitive dependencies of an operand; a helper's parameter continues in the actual argument.
func (g hsGuard) deps(v ssa.Value, descend func(*ssa.Function) bool) *an.Deps {
	d := an.NewDeps(descend).Of(v)
	if g.helper != nil {
		for i, a := range g.args {
			suffix := "#" + strconv.Itoa(i)
			for k := range d.Roots {
				if strings.HasPrefix(k, "param:") && strings.HasSuffix(k, suffix) {
					d.Of(a)
					break
				}
			}
		}
	}
	return d
}

func equalityCond(cd *an.Cond) bool {
	switch cd.Kind {
	case "cmp":
		return cd.Rel == "==" || cd.Rel == "!="
	case "eq", "bytes.Equal":
		return true
	}
	return false
}

// substParams rewrites helper-relative origins (root param#i) into the caller's origins of argument i.
func substParams(os []string, args []ssa.Value, tr *an.Tracer) []string {
	var out []string
	for _, o := range os {
		if !strings.HasPrefix(o, "param#") {
			out = append(out, o)
			continue
		}
		j := len("param#")
		for j < len(o) && o[j] >= '0' && o[j] <= '9' {
			j++
		}
		idx, err := strconv.Atoi(o[len("param#"):j])
		if err != nil || idx >= len(args) {
			out = append(out, o)
			continue
		}
		for _, ao := range tr.Origins(args[idx]) {
			out = append(out, ao+o[j:])
		}
	}
	return out
}

// knownNonNilError: values that are certainly a non-nil error.
func knownNonNilError(v ssa.Value) bool {
	switch x := v.(type) {
	case *ssa.MakeInterface:
		return true
	case *ssa.Call:
		switch an.CalleeName(x.Common()) {
		case "errors.New", "fmt.Errorf", "github.com/pkg/errors.New", "github.com/pkg/errors.Errorf":
			return true
		}
	}
	return false
}

// expandPhis lists the non-phi values a value may take along executable edges.
func expandPhis(v ssa.Value, exec map[an.Edge]bool, seen map[ssa.Value]bool, out *[]ssa.Value) {
	if seen[v] {
		return
	}
	seen[v] = true
	if phi, ok := v.(*ssa.Phi); ok {
		for _, e := range an.PhiValues(phi, exec) {
			expandPhis(e, exec, seen, out)
		}
		return
	}
	*out = append(*out, v)
}

// mayReturn: can helper h, with the given edges cut, return a value at result idx that means "fine"
// (nil for an error result, the boolean p for a bool result)?
func mayReturn(h *ssa.Function, idx int, isErr, p bool, cut map[an.Edge]bool) bool {
	reach, exec := an.ReachExec(h, cut, nil)
	for _, b := range h.Blocks {
		if !reach[b] {
			continue
		}
		ret, ok := an.AsReturn(b.Instrs[len(b.Instrs)-1])
		if !ok || idx >= len(ret.Results) {
			continue
		}
		var vals []ssa.Value
		expandPhis(an.RetVal(ret, idx), exec, map[ssa.Value]bool{}, &vals)
		for _, v := range vals {
			if isErr {
				if !knownNonNilError(v) {
					return true
				}
				continue
			}
			if k, ok := v.(*ssa.Const); ok && k.Value != nil {
				if (k.Value.String() == "true") == p {
					return true
				}
				continue
			}
			return true
		}
	}
	return false
}

// hsGuards collects the guards of mk: its own classified branches and the guards of helpers it branches on.
func (c *Ctx) hsGuards(mk *ssa.Function, tr *an.Tracer) (out []hsGuard, nbranches int) {
	for _, i := range an.Ifs(mk) {
		nbranches++
		cd, ok := an.Classify(i)
		if !ok {
			continue
		}
		switch {
		case cd.Kind == "assert":
			out = append(out, hsGuard{kind: "assert", assertT: typeString(cd.Assert.AssertedType), xo: tr.Origins(cd.X), xv: cd.X, pass: cd.EdgeWhen(true), pos: i.Cond.Pos()})
			continue
		case equalityCond(cd):
			out = append(out, hsGuard{kind: "equal", xo: tr.Origins(cd.X), yo: tr.Origins(cd.Y), xv: cd.X, yv: cd.Y, pass: cd.EdgeWhen(true), pos: i.Cond.Pos()})
			continue
		}
		// a branch on a flag that accumulates a comparison (`found = found || a == b`, `found = a == b` in a loop):
		// the flag can only be true when the comparison held for some element
		if cd.Kind == "bool" {
			if fl, isPhi := cd.X.(*ssa.Phi); isPhi {
				done := false
				for _, b := range mk.Blocks {
					for _, in := range b.Instrs {
						bv, ok := in.(*ssa.BinOp)
						if !ok {
							continue
						}
						vcd, ok := an.ClassifyValue(bv)
						if !ok || !equalityCond(vcd) || !vcd.TrueIsEqual {
							continue
						}
						acc := flagAccumulators(bv)
						if !acc[fl] || !flagTrueImplies(mk, acc, bv) {
							continue
						}
						out = append(out, hsGuard{kind: "equal", xo: tr.Origins(vcd.X), yo: tr.Origins(vcd.Y), xv: vcd.X, yv: vcd.Y, pass: cd.EdgeWhen(true), pos: i.Cond.Pos(), via: " (through a flag)"})
						done = true
					}
				}
				if done {
					continue
				}
			}
		}
		// a branch on the result of a repository helper
		var res ssa.Value
		isErr := false
		switch {
		case cd.Kind == "nil":
			res, isErr = cd.X, true
		case cd.Kind == "bool":
			res = cd.X
		case strings.HasPrefix(cd.Kind, "call:"):
			res = an.StripBoolWrappers(i.Cond)
		default:
			continue
		}
		idx := 0
		if ex, ok := res.(*ssa.Extract); ok {
			res, idx = ex.Tuple, ex.Index
		}
		call, ok := res.(*ssa.Call)
		if !ok {
			continue
		}
		h := an.StaticCallee(call.Common())
		if h == nil || !c.P.InRepo(h) || len(h.Blocks) == 0 || isRequestBarrier(h) || h == mk {
			continue
		}
		rt := h.Signature.Results()
		if idx >= rt.Len() {
			continue
		}
		if isErr && typeString(rt.At(idx).Type()) != "error" {
			continue
		}
		if !isErr {
			if b, ok := rt.At(idx).Type().Underlying().(*types.Basic); !ok || b.Kind() != types.Bool {
				continue
			}
		}
		args := call.Call.Args
		pols := []bool{true}
		if !isErr {
			pols = []bool{true, false}
		}
		for _, p := range pols {
			pass := cd.EdgeWhen(p)
			if cd.Kind != "nil" && cd.Kind != "bool" {
				// call:<name> — TrueIsEqual means "the true branch is taken when the call returns true"
				pass = cd.EdgeWhen(p)
			}
			via := sprintf(" (inside helper %s, result %v)", an.ShortName(h), map[bool]string{true: "nil", false: "bool"}[isErr])
			// form 1: a branch of the helper whose agree edge is on every path to a "fine" return
			for _, hi := range an.Ifs(h) {
				hcd, ok := an.Classify(hi)
				if !ok || !(hcd.Kind == "assert" || equalityCond(hcd)) {
					continue
				}
				if mayReturn(h, idx, isErr, p, map[an.Edge]bool{hcd.EdgeWhen(true): true}) {
					continue
				}
				g := hsGuard{pass: pass, pos: i.Cond.Pos(), helper: h, args: args, via: via, xv: hcd.X, yv: hcd.Y}
				g.xo = substParams(tr.Origins(hcd.X), args, tr)
				if hcd.Kind == "assert" {
					g.kind, g.assertT = "assert", typeString(hcd.Assert.AssertedType)
				} else {
					g.kind, g.yo = "equal", substParams(tr.Origins(hcd.Y), args, tr)
				}
				out = append(out, g)
			}
			// form 2: the helper returns the comparison itself
			if isErr {
				continue
			}
			_, exec := an.ReachExec(h, nil, nil)
			var cmp ssa.Value
			okForm := true
			for _, b := range h.Blocks {
				ret, ok := an.AsReturn(b.Instrs[len(b.Instrs)-1])
				if !ok || idx >= len(ret.Results) {
					continue
				}
				var vals []ssa.Value
				expandPhis(an.RetVal(ret, idx), exec, map[ssa.Value]bool{}, &vals)
				for _, v := range vals {
					if k, ok := v.(*ssa.Const); ok && k.Value != nil {
						if (k.Value.String() == "true") == p {
							okForm = false
						}
						continue
					}
					if cmp != nil && cmp != v {
						okForm = false
					}
					cmp = v
				}
			}
			if !okForm || cmp == nil {
				continue
			}
			hcd, ok := an.ClassifyValue(cmp)
			if !ok || !equalityCond(hcd) || hcd.TrueIsEqual != p {
				continue
			}
			out = append(out, hsGuard{kind: "equal", pass: pass, pos: i.Cond.Pos(), helper: h, args: args, via: via, xv: hcd.X, yv: hcd.Y,
				xo: substParams(tr.Origins(hcd.X), args, tr), yo: substParams(tr.Origins(hcd.Y), args, tr)})
		}
	}
	return
}

func originHasAll(os []string, subs []string) bool {
	for _, o := range os {
		ok := true
		for _, s := range subs {
			if !strings.Contains(o, s) {
				ok = false
				break
			}
		}
		if ok {
			return true
		}
	}
	return false
}

func depsHasAll(d *an.Deps, subs []string) bool {
	for _, s := range subs {
		if !d.Has(s) {
			return false
		}
	}
	return true
}

// sessionEffects: the instructions of fn that persist the session or switch to encrypted mode.
func (c *Ctx) sessionEffects(fn *ssa.Function) (effects []ssa.Instruction, desc []string) {
	g := c.Graph()
	isStore := func(f *ssa.Function) bool {
		// any concrete SessionLoader.Store implementation, or the interface method itself
		return f.Name() == "Store" && f.Signature.Recv() != nil && strings.Contains(f.String(), "/internal/session.")
	}
	for _, cs := range an.Calls(fn) {
		hit := false
		if cs.Common.IsInvoke() && cs.Common.Method.Name() == "Store" && strings.Contains(cs.Name, "session.SessionLoader") {
			hit = true
		}
		for _, callee := range g.CalleesAt(fn, cs.Instr) {
			if !c.P.InRepo(callee) || isRequestBarrier(callee) {
				continue
			}
			if isStore(callee) || g.Reaches(callee, func(f *ssa.Function) bool { return c.P.InRepo(f) && !isRequestBarrier(f) }, func(f *ssa.Function) bool {
				if isStore(f) {
					return true
				}
				for _, x := range an.Calls(f) {
					if x.Common.IsInvoke() && x.Common.Method.Name() == "Store" && strings.Contains(x.Name, "session.SessionLoader") {
						return true
					}
				}
				return false
			}) {
				hit = true
			}
		}
		if hit {
			effects = append(effects, cs.Instr)
			desc = append(desc, "call "+shortCallee(cs.Name)+" (reaches SessionLoader.Store)")
		}
	}
	for _, b := range fn.Blocks {
		for _, in := range b.Instrs {
			st, ok := in.(*ssa.Store)
			if !ok {
				continue
			}
			fa, ok := st.Addr.(*ssa.FieldAddr)
			if !ok || an.FieldName(fa.X.Type(), fa.Field) != "mtproto.MTProto.encrypted" {
				continue
			}
			if k, ok := st.Val.(*ssa.Const); ok && k.Value != nil && k.Value.String() == "false" {
				continue
			}
			effects = append(effects, st)
			desc = append(desc, "store MTProto.encrypted = "+st.Val.String())
		}
	}
	// leaving service mode hands every later server message to processResponse, whose new_session_created /
	// bad_server_salt arms save the session: the reset belongs to the success path only.  A deferred closure
	// that resets the flag (or saves) runs on every exit after the defer statement.
	leavesServiceMode := func(f *ssa.Function) bool {
		for _, b := range f.Blocks {
			for _, in := range b.Instrs {
				switch x := in.(type) {
				case *ssa.Store:
					if fa, ok := x.Addr.(*ssa.FieldAddr); ok && an.FieldName(fa.X.Type(), fa.Field) == "mtproto.MTProto.serviceModeActivated" {
						if k, ok := x.Val.(*ssa.Const); !ok || k.Value == nil || k.Value.String() != "true" {
							return true
						}
					}
				case ssa.CallInstruction:
					if strings.HasSuffix(an.CalleeName(x.Common()), "MTProto).SaveSession") {
						return true
					}
				}
			}
		}
		return false
	}
	for _, b := range fn.Blocks {
		for _, in := range b.Instrs {
			switch x := in.(type) {
			case *ssa.Store:
				if fa, ok := x.Addr.(*ssa.FieldAddr); ok && an.FieldName(fa.X.Type(), fa.Field) == "mtproto.MTProto.serviceModeActivated" {
					if k, ok := x.Val.(*ssa.Const); !ok || k.Value == nil || k.Value.String() != "true" {
						effects = append(effects, x)
						desc = append(desc, "store MTProto.serviceModeActivated = "+x.Val.String())
					}
				}
			case *ssa.Defer:
				var callee *ssa.Function
				if mc, ok := x.Call.Value.(*ssa.MakeClosure); ok {
					callee, _ = mc.Fn.(*ssa.Function)
				} else {
					callee = an.StaticCallee(&x.Call)
				}
				if callee != nil && c.P.InRepo(callee) && leavesServiceMode(callee) {
					effects = append(effects, x)
					desc = append(desc, "defer of "+an.ShortName(callee)+" (leaves service mode / saves on every exit)")
				}
			}
		}
	}
	return
}

// isRequestBarrier: a network request is not a persistence operation by itself.  (makeRequest can re-enter the
// key exchange through the PHONE_MIGRATE reconnect path; that nested exchange is analysed as its own run of
// makeAuthKey, not as an effect of the outer one.)
func isRequestBarrier(f *ssa.Function) bool {
	n := an.ShortName(f)
	return n == "(*mtproto.MTProto).makeRequest" || n == "(*mtproto.MTProto).MakeRequest" || n == "(*mtproto.MTProto).sendPacket"
}

func shortCallee(n string) string {
	n = strings.ReplaceAll(n, load.RootMod+"/", "")
	n = strings.ReplaceAll(n, load.RootMod, "mtproto")
	return n
}

func c07(c *Ctx) {
	r := c.R
	r.Explanation = "For-all-paths fact about the key exchange: in (*MTProto).makeAuthKey every entry→effect path (effect = a call that reaches " +
		"SessionLoader.Store, or the store m.encrypted = true) passes the 'agree' edge of each of the 12 comparisons/assertions of the obligation table " +
		"(operands identified by SSA origin, not by name), and the only non-panicking return of DecryptMessageWithTempKeys is dominated by the SHA-1 " +
		"prefix comparison. Decided by cutting the agree edge, folding boolean phis (the fingerprint `found` loop) and requiring every effect to be " +
		"unreachable. Also: reply-kind assertions in the request helpers, who may write `encrypted` / call SaveSession, and a panic census of the abort paths."
	r.NotDecided = []string{"the trusted base: big.Int.Cmp, bytes.Equal and the TL decoder deliver the reply's fields faithfully (C01/C15)"}
	c.errorsKept("R07.X", "the key exchange (makeAuthKey, its three requests, CreateConnection): an abort stays an abort", 6, rootMethods("makeAuthKey", "reqPQ", "reqDHParams", "setClientDHParams", "CreateConnection", "connect"))
	r.Rule("R07.I", "every reply read while the exchange runs is handed to the exchange, whatever its kind (= R06.I filed under C07): a reader that passes on only the success constructors leaves makeAuthKey waiting for ever on a failure / retry reply instead of aborting", 2)
	c.everyMessageDispatched("R07.I")
	r.Rule("R07.G", "each row of the handshake table has a guard whose operands have the row's origins, whose differ-edge reaches no effect and whose agree-edge is on every entry→effect path", 13)
	// the verdict on one reply depends on that reply and on this client's own values only: a fingerprint, nonce or
	// key remembered in a package variable (cache, sync.Once, pool) from an earlier exchange makes the second client
	// of the process accept what the first one's server offered
	r.Rule("R07.S", "nothing reachable from makeAuthKey writes a package-level variable, locked or not: the exchange keeps no state that outlives it or is shared between clients", 1)
	if f := c.fn("R07.S", load.RootMod, "*MTProto", "makeAuthKey"); f != nil {
		c.noGlobalWrites("R07.S", []*ssa.Function{f}, "the key exchange: two clients of one process (different keys, different servers) would share it")
	}
	r.Rule("R07.T", "ReqPQ / ReqDHParams / SetClientDHParams assert the reply kind with comma-ok and return a non-nil value only on the ok edge", 3)
	r.Rule("R07.W", "MTProto.encrypted is written only in NewMTProto and at the guarded point; SaveSession is called only from makeAuthKey and processResponse; Store only from SaveSession", 3)
	r.Rule("R07.P", "a mismatch is reported as an error: no panic site on the abort paths of the server-reply checks", 1)
	r.Rule("R07.H", "the value new_nonce_hash1 is compared with is SHA1(new_nonce | 0x01 | SHA1(auth_key)[0:8])[4:20] of this exchange's new_nonce and key", 1)
	if c.verifySummaries("R07.H") {
		c.handshakeFormulas("R07.H", map[string]bool{"new_nonce_hash1": true})
	}

	fn := c.fn("R07.G", load.RootMod, "*MTProto", "makeAuthKey")
	if fn == nil {
		return
	}
	effects, edesc := c.sessionEffects(fn)
	if len(effects) < 2 {
		r.Undecide("R07.G", "effects", c.pos(fn.Pos()), sprintf("expected the SaveSession call and the encrypted=true store in makeAuthKey, found %d effect(s): %v", len(effects), edesc))
		return
	}
	r.Extra["effects"] = edesc
	tr := an.NewTracer()
	guards, nbranches := c.hsGuards(fn, tr)
	r.Extra["branches_in_makeAuthKey"] = nbranches
	nh := 0
	for _, g := range guards {
		if g.helper != nil {
			nh++
		}
	}
	r.Extra["guards_found_in_helpers"] = nh
	descend := c.inRepoOrDry
	for _, row := range handshakeRows {
		key := "guard:" + row.name
		want := "equal"
		if row.kind == "assert" {
			want = "assert"
		}
		var cands []hsGuard
		for _, g := range guards {
			if g.kind != want {
				continue
			}
			if want == "assert" {
				if g.assertT != row.assert || !originHasAll(g.xo, row.a) {
					continue
				}
			} else {
				match := func(ao, bo []string, bv ssa.Value) bool {
					if !originHasAll(ao, row.a) {
						return false
					}
					if row.bDeps {
						return depsHasAll(g.deps(bv, descend), row.b)
					}
					return originHasAll(bo, row.b)
				}
				if !(match(g.xo, g.yo, g.yv) || match(g.yo, g.xo, g.xv)) {
					continue
				}
			}
			cands = append(cands, g)
		}
		if len(cands) == 0 {
			r.Violate("R07.G", key, c.pos(fn.Pos()), sprintf("no %s guard in makeAuthKey (or in a helper whose result it tests) compares [%s] with [%s]%s: the check was deleted, weakened or re-pointed",
				row.kind, strings.Join(row.a, " & "), strings.Join(row.b, " & "), row.assert))
			continue
		}
		ok := false
		var why string
		for _, g := range cands {
			un := an.Guarded(fn, []an.Edge{g.pass}, effects)
			// "abandoned with an error": the differ edge does not lead back to the comparison (a loop that waits
			// for a better reply is neither an abort nor an error)
			// (the fingerprint row is a search through the offered list: its differ edge goes on to the next entry)
			if len(un) == 0 && g.helper == nil && len(g.pass.From.Succs) == 2 && row.name != "resPQ.fingerprint" {
				differ := g.pass.From.Succs[1-g.pass.Succ]
				if differ != g.pass.From && reachesBlock(differ, g.pass.From, map[*ssa.BasicBlock]bool{}) {
					why = sprintf("guard at %s: the differ edge b%d→b%d leads back to the comparison - an inconsistent reply is waited out (another reply is read and compared again) instead of ending the exchange with an error", c.pos(g.pos), g.pass.From.Index, differ.Index)
					continue
				}
			}
			if len(un) == 0 {
				ok = true
				r.Hold("R07.G", key, c.pos(g.pos), sprintf("agree edge b%d→b%d dominates %d effects%s", g.pass.From.Index, g.pass.To().Index, len(effects), g.via))
				break
			}
			why = sprintf("guard at %s%s: with its agree edge b%d→b%d removed, %d effect(s) stay reachable (first at %s) — wrong polarity, effect before the check, or the differ branch does not abort",
				c.pos(g.pos), g.via, g.pass.From.Index, g.pass.To().Index, len(un), c.pos(un[0].Pos()))
		}
		if !ok {
			r.Violate("R07.G", key, c.pos(cands[0].pos), why)
		}
	}

	// the fingerprint that is matched (and the one that is sent) is computed from the configured public key
	nfp := 0
	for _, cs := range an.CallsNamed(fn, load.KeysPkg+".RSAFingerprint") {
		nfp++
		r.Check(len(cs.Common.Args) == 1 && tr.AllOrigins(cs.Common.Args[0], "mtproto.MTProto.publicKey"), "R07.G", sprintf("fingerprint-key#%d", nfp), c.pos(cs.Pos()),
			"RSAFingerprint is applied to m.publicKey: "+tr.OriginString(cs.Common.Args[0]))
	}
	if nfp == 0 {
		r.Violate("R07.G", "fingerprint-key", c.pos(fn.Pos()), "makeAuthKey no longer computes keys.RSAFingerprint(m.publicKey)")
	}

	// row 6/13: the encrypted DH answer — SHA-1 prefix check inside DecryptMessageWithTempKeys, and the decoded
	// inner data must come from that function's result.
	c07Decrypt(c, fn, tr)

	// R07.T request helpers
	for _, h := range []struct{ fn, typ string }{{"ReqPQ", "*objects.ResPQ"}, {"ReqDHParams", "objects.ServerDHParams"}, {"SetClientDHParams", "objects.SetClientDHParamsAnswer"}} {
		hf := c.fn("R07.T", load.ObjPkg, "", h.fn)
		if hf == nil {
			continue
		}
		var rets []ssa.Instruction
		for _, b := range hf.Blocks {
			for _, in := range b.Instrs {
				if ret, ok := an.AsReturn(in); ok && len(ret.Results) == 2 && !an.MayReturnNil(ret, 0) {
					rets = append(rets, ret)
				}
			}
		}
		found := false
		for _, i := range an.Ifs(hf) {
			cd, ok := an.Classify(i)
			if !ok || cd.Kind != "assert" || typeString(cd.Assert.AssertedType) != h.typ {
				continue
			}
			if !tr.HasOrigin(cd.X, "MakeRequest#0") {
				continue
			}
			found = true
			un := an.Guarded(hf, []an.Edge{cd.EdgeWhen(true)}, rets)
			r.Check(len(un) == 0 && len(rets) > 0, "R07.T", "reply-kind:"+h.fn, c.pos(i.Cond.Pos()),
				sprintf("%d value-returning exits; %d reachable without the ok edge of .(%s)", len(rets), len(un), h.typ))
		}
		if !found {
			r.Violate("R07.T", "reply-kind:"+h.fn, c.pos(hf.Pos()), "no comma-ok assertion of the MakeRequest result to "+h.typ)
		}
	}

	// R07.W who may write
	c07Writers(c)
}

func c07Decrypt(c *Ctx, mk *ssa.Function, tr *an.Tracer) {
	r := c.R
	key := "guard:server_DH_inner_data.sha1_prefix"
	df := c.fn("R07.G", load.IgePkg, "", "DecryptMessageWithTempKeys")
	if df == nil {
		return
	}
	// (a) data dependence in makeAuthKey: asserted inner data <- DecodeUnknownObject(<- DecryptMessageWithTempKeys(EncryptedAnswer, new_nonce, server_nonce))
	okFlow := false
	for _, cs := range an.CallsNamed(mk, load.TLPkg+".DecodeUnknownObject") {
		if len(cs.Common.Args) > 0 && tr.HasOrigin(cs.Common.Args[0], "call:"+load.IgePkg+".DecryptMessageWithTempKeys") {
			for _, ds := range an.CallsNamed(mk, load.IgePkg+".DecryptMessageWithTempKeys") {
				a := ds.Common.Args
				if len(a) == 3 && tr.HasOrigin(a[0], "objects.ServerDHParamsOk.EncryptedAnswer") &&
					tr.HasOrigin(a[1], "call:"+load.TLPkg+".RandomInt256") && tr.HasOrigin(a[2], "objects.ResPQ.ServerNonce") {
					okFlow = true
				}
			}
		}
	}
	r.Check(okFlow, "R07.G", "flow:server_DH_inner_data<-DecryptMessageWithTempKeys", c.pos(mk.Pos()),
		"the object asserted to *ServerDHInnerData is decoded from DecryptMessageWithTempKeys(EncryptedAnswer, new_nonce, server_nonce)")
	// (b) inside: every return is dominated by bytes.Equal(prefix[:20] of the decrypted buffer, Sha1(candidate)) and returns that candidate
	var rets []ssa.Instruction
	for _, b := range df.Blocks {
		for _, in := range b.Instrs {
			if ret, ok := an.AsReturn(in); ok {
				rets = append(rets, ret)
			}
		}
	}
	if len(rets) == 0 {
		r.Undecide("R07.G", key, c.pos(df.Pos()), "DecryptMessageWithTempKeys has no return")
		return
	}
	found := false
	for _, i := range an.Ifs(df) {
		cd, ok := an.Classify(i)
		if !ok || cd.Kind != "bytes.Equal" {
			continue
		}
		xo, yo := tr.Origins(cd.X), tr.Origins(cd.Y)
		isPrefix := func(os []string) bool {
			return originHasAll(os, []string{"[:20]"}) || originHasAll(os, []string{"[0:20]"})
		}
		isHash := func(os []string) bool {
			return originHasAll(os, []string{"Sha1Byte"}) || originHasAll(os, []string{"sha1.Sum"}) || originHasAll(os, []string{"dry.Sha1"})
		}
		var hashV ssa.Value
		switch {
		case isPrefix(xo) && isHash(yo):
			hashV = cd.Y
		case isPrefix(yo) && isHash(xo):
			hashV = cd.X
		default:
			continue
		}
		found = true
		un := an.Guarded(df, []an.Edge{cd.EdgeWhen(true)}, rets)
		// the hashed candidate is the returned value
		sameCand := false
		if call, ok := hashV.(*ssa.Call); ok && len(call.Call.Args) == 1 {
			ho := tr.Origins(call.Call.Args[0])
			for _, ret := range rets {
				ro := tr.Origins(ret.(*ssa.Return).Results[0])
				if strings.Join(ho, "|") == strings.Join(ro, "|") {
					sameCand = true
				}
				// the result travels through a variable that is nil on the path that does not return it
				// (a helper's `return nil, false` after inlining): every origin of the hashed candidate is an
				// origin of the result and the remaining ones are constants
				if len(ho) > 0 && len(ro) > len(ho) {
					in := map[string]bool{}
					for _, o := range ho {
						in[o] = true
					}
					all, hit := true, 0
					for _, o := range ro {
						if in[o] {
							hit++
						} else if !strings.HasPrefix(o, "const:") && !strings.HasPrefix(o, "nil") {
							all = false
						}
					}
					if all && hit == len(in) {
						sameCand = true
					}
				}
			}
		}
		r.Check(len(un) == 0 && sameCand, "R07.G", key, c.pos(i.Cond.Pos()),
			sprintf("%d return(s), %d reachable without the equal edge; returned value is the hashed candidate: %v (hash: %s)", len(rets), len(un), sameCand, tr.OriginString(hashV)))
	}
	if !found {
		r.Violate("R07.G", key, c.pos(df.Pos()), "no bytes.Equal(decrypted[:20], SHA1(candidate)) guard before the return of DecryptMessageWithTempKeys")
	}
	// R07.P: abort by panic instead of error
	for _, b := range df.Blocks {
		for _, in := range b.Instrs {
			switch x := in.(type) {
			case *ssa.Panic:
				r.Violate("R07.P", "abort-by-panic:ige.DecryptMessageWithTempKeys/panic", c.pos(x.Pos()), "a DH answer whose SHA-1 prefix matches no cut point ends in panic(), not in an error return")
			case *ssa.Call:
				if f := an.StaticCallee(x.Common()); f != nil && an.IsPanicHelper(f) {
					r.Violate("R07.P", "abort-by-panic:ige.DecryptMessageWithTempKeys/"+f.Name(), c.pos(x.Pos()), "an encrypted answer of bad length ends in "+f.Name()+"(err) → panic, not in an error return")
				}
			}
		}
	}
	// a reply of the wrong kind has to reach the assertion that refuses it: the request helper below the typed
	// helpers re-issues a request only on the retry marker or a handled migrate, never on a dh_gen_retry
	c.reissueOnlyWhenAsked("R07.T")
	// the fingerprint is a 64-bit number and is compared as one: a comparison narrowed to 32 bits accepts an offered
	// fingerprint that differs from the configured key's in its other half
	if mk := c.P.Func(load.RootMod, "*MTProto", "makeAuthKey"); mk != nil {
		trw := an.NewTracer()
		n := 0
		var bad []string
		for _, f := range append([]*ssa.Function{mk}, mk.AnonFuncs...) {
			for _, i := range an.Ifs(f) {
				cd, ok := an.Classify(i)
				if !ok || cd.Kind != "eq" || cd.X == nil || cd.Y == nil {
					continue
				}
				ox := trw.OriginString(cd.X) + " " + strings.Join(an.SortedKeys(an.NewDeps(c.inRepo).Of(cd.X).Roots), " ")
				oy := trw.OriginString(cd.Y) + " " + strings.Join(an.SortedKeys(an.NewDeps(c.inRepo).Of(cd.Y).Roots), " ")
				if !(strings.Contains(ox+oy, "ResPQ.Fingerprints") && strings.Contains(ox+oy, "RSAFingerprint")) {
					continue
				}
				n++
				for _, v := range []ssa.Value{cd.X, cd.Y} {
					if b, isB := v.Type().Underlying().(*types.Basic); !isB || (b.Kind() != types.Int64 && b.Kind() != types.Uint64) {
						bad = append(bad, sprintf("an operand of the comparison at %s has type %s", c.pos(i.Cond.Pos()), v.Type()))
					}
				}
			}
		}
		if n > 0 {
			r.Check(len(bad) == 0, "R07.G", "guard:resPQ.fingerprint/all-64-bits", c.pos(mk.Pos()), "the offered fingerprint and the configured key's are compared as 64-bit numbers; "+strings.Join(bad, "; "))
		} else {
			r.Hold("R07.G", "guard:resPQ.fingerprint/all-64-bits", c.pos(mk.Pos()), "the fingerprint comparison is not a direct == in makeAuthKey (helper or bytes.Equal form: the guard row checks its operands)")
		}
	}
	// resPQ.pq is a reply field like the nonces: a value that is not a product of two primes (zero makes SplitPQ
	// divide by zero, a prime makes it search for ever) has to end the exchange with an error, so the SplitPQ call
	// lies behind the not-prime edge of a primality test and behind a lower bound, both on the value it is given
	if mk := c.P.Func(load.RootMod, "*MTProto", "makeAuthKey"); mk != nil {
		n := 0
		for _, cs := range an.CallsNamed(mk, load.MathPkg+".SplitPQ") {
			if len(cs.Common.Args) != 1 {
				continue
			}
			n++
			pq := cs.Common.Args[0]
			prime := an.DominatingGuard(mk, cs.Instr, func(cd *an.Cond) int {
				if cd.Kind == "call:(*math/big.Int).ProbablyPrime" && cd.X == pq {
					return cd.EdgeWhen(false).Succ
				}
				return -1
			})
			low := an.DominatingGuard(mk, cs.Instr, func(cd *an.Cond) int {
				if cd.Kind != "cmp" || cd.X != pq {
					return -1
				}
				k, ok := bigConst(cd.Y)
				if !ok {
					return -1
				}
				// the true successor is the one on which "pq Rel k" holds; we want the edge on which pq > 1
				switch {
				case cd.Rel == "<=" && k >= 1, cd.Rel == "<" && k >= 2:
					return 1
				case cd.Rel == ">" && k >= 1, cd.Rel == ">=" && k >= 2:
					return 0
				}
				return -1
			})
			var missing []string
			if !prime {
				missing = append(missing, "no primality test of the value on the way to SplitPQ (a prime pq is searched for ever)")
			}
			if !low {
				missing = append(missing, "no lower bound pq > 1 on the way to SplitPQ (0 and 1 divide by zero)")
			}
			r.Check(len(missing) == 0, "R07.G", sprintf("guard:resPQ.pq#%d", n), c.pos(cs.Pos()), "pq is split only when it can be: "+strings.Join(missing, "; "))
		}
		if n == 0 {
			r.Undecide("R07.G", "guard:resPQ.pq", c.pos(mk.Pos()), "no SplitPQ call in makeAuthKey")
		}
	}
	// "abandoned with an error": every way out of makeAuthKey other than the one behind `encrypted = true` hands
	// back a certainly non-nil error (errors.Wrap of an err that is nil at that point is a nil return)
	if mk := c.P.Func(load.RootMod, "*MTProto", "makeAuthKey"); mk != nil {
		var done ssa.Instruction
		for _, b := range mk.Blocks {
			for _, in := range b.Instrs {
				if st, ok := in.(*ssa.Store); ok {
					if fa, ok := st.Addr.(*ssa.FieldAddr); ok && strings.HasSuffix(an.FieldName(fa.X.Type(), fa.Field), "MTProto.encrypted") {
						if k, isK := st.Val.(*ssa.Const); isK && k.Value != nil && k.Value.ExactString() == "true" {
							done = in
						}
					}
				}
			}
		}
		if done == nil {
			r.Undecide("R07.P", "abort-returns-error", c.pos(mk.Pos()), "the store encrypted = true was not found in makeAuthKey")
		} else {
			var bad []string
			n := 0
			for _, b := range mk.Blocks {
				ret, ok := an.AsReturn(b.Instrs[len(b.Instrs)-1])
				if !ok || len(ret.Results) != 1 || b == mk.Recover {
					continue // the exit after a recovered panic is the recover-reports-error obligation's
				}
				if an.InstrDominates(done, ret) {
					continue // the completed exchange: its result is the result of saving the session
				}
				n++
				if !an.NonNilError(an.RetVal(ret, 0), b) {
					bad = append(bad, "the exit at "+c.pos(ret.Pos())+" may return nil")
				}
			}
			r.Check(len(bad) == 0 && n > 0, "R07.P", "abort-returns-error", c.pos(mk.Pos()), sprintf("%d exits of makeAuthKey before the exchange is complete, each returns a certainly non-nil error; %s", n, strings.Join(bad, "; ")))
		}
	}
	// a recover() on the exchange path must not turn the panic into a normal return
	// with the results as they stand (a nil error) - the deferred function has to store a non-nil error into the
	// function's result on the way out of the recovered panic
	if cc := c.P.Func(load.RootMod, "*MTProto", "CreateConnection"); cc != nil {
		nrec := 0
		for _, f := range c.censusRegion([]*ssa.Function{cc}, nil) {
			if f.Recover == nil {
				continue
			}
			ok, why := recoverReportsError(f)
			if why == "no recover" {
				continue // a function with defer statements, none of which recovers
			}
			nrec++
			r.Check(ok, "R07.P", "recover-reports-error:"+an.ShortName(f), c.pos(f.Pos()), "a recovered panic leaves "+f.Name()+" through a non-nil error; "+why)
		}
		r.Extra["recover_sites_on_exchange_path"] = nrec
	}
	if len(r.Obls) > 0 {
		// make sure the rule has at least one instance even when clean
		n := 0
		for _, o := range r.Obls {
			if o.Rule == "R07.P" {
				n++
			}
		}
		if n == 0 {
			r.Hold("R07.P", "abort-by-panic:ige.DecryptMessageWithTempKeys", c.pos(df.Pos()), "no panic site")
		}
	}
}

func c07Writers(c *Ctx) {
	r := c.R
	allowedEnc := map[string]bool{"NewMTProto": true, "makeAuthKey": true}
	allowedSave := map[string]bool{"makeAuthKey": true, "processResponse": true}
	nEnc, nSave, nStore := 0, 0, 0
	for f := range c.P.AllFunctions() {
		if !c.P.InRepo(f) || strings.Contains(load.FuncPkgPath(f), "/examples/") || f.Synthetic != "" {
			continue
		}
		top := f
		for top.Parent() != nil {
			top = top.Parent()
		}
		for _, b := range f.Blocks {
			for _, in := range b.Instrs {
				switch x := in.(type) {
				case *ssa.Store:
					if fa, ok := x.Addr.(*ssa.FieldAddr); ok && an.FieldName(fa.X.Type(), fa.Field) == "mtproto.MTProto.encrypted" {
						nEnc++
						r.Check(allowedEnc[top.Name()], "R07.W", "writer:encrypted@"+an.ShortName(top), c.pos(x.Pos()), "store to MTProto.encrypted")
					}
				case ssa.CallInstruction:
					name := an.CalleeName(x.Common())
					if name == "(*"+load.RootMod+".MTProto).SaveSession" {
						nSave++
						r.Check(allowedSave[top.Name()], "R07.W", "caller:SaveSession@"+an.ShortName(top), c.pos(x.Pos()), "call of SaveSession")
					}
					if x.Common().IsInvoke() && x.Common().Method.Name() == "Store" && strings.Contains(name, "session.SessionLoader") {
						nStore++
						r.Check(top.Name() == "SaveSession", "R07.W", "caller:SessionLoader.Store@"+an.ShortName(top), c.pos(x.Pos()), "call of SessionLoader.Store")
					}
				}
			}
		}
	}
	if nEnc == 0 || nSave == 0 || nStore == 0 {
		r.Undecide("R07.W", "writers", "", sprintf("expected writers not found (encrypted stores %d, SaveSession calls %d, Store calls %d)", nEnc, nSave, nStore))
	}
}

// recoverReportsError: every deferred function literal of f that calls recover() stores, on each path that
// follows a non-nil recover() result, a certainly non-nil error through a captured variable of type error (the
// function's named result).
func recoverReportsError(f *ssa.Function) (bool, string) {
	found := false
	for _, g := range f.AnonFuncs {
		var rc *ssa.Call
		for _, cs := range an.Calls(g) {
			if cs.Name == "builtin:recover" {
				if call, ok := cs.Instr.(*ssa.Call); ok {
					rc = call
				}
			}
		}
		if rc == nil {
			continue
		}
		found = true
		var test *an.Cond
		for _, i := range an.Ifs(g) {
			cd, ok := an.Classify(i)
			if ok && cd.Kind == "nil" && cd.X == ssa.Value(rc) {
				test = cd
			}
		}
		if test == nil {
			return false, "the result of recover() is not tested: the panic is swallowed unconditionally"
		}
		cut := map[an.Edge]bool{}
		good := map[*ssa.BasicBlock]bool{}
		for _, b := range g.Blocks {
			for _, in := range b.Instrs {
				st, ok := in.(*ssa.Store)
				if !ok {
					continue
				}
				fv, ok := st.Addr.(*ssa.FreeVar)
				if !ok {
					continue
				}
				if pt, ok := fv.Type().Underlying().(*types.Pointer); !ok || pt.Elem().String() != "error" {
					continue
				}
				if an.NonNilError(st.Val, b) {
					good[b] = true
					for k := range b.Succs {
						cut[an.Edge{From: b, Succ: k}] = true
					}
				}
			}
		}
		reach := an.ReachFrom(g, test.EdgeWhen(false), cut)
		for _, b := range g.Blocks {
			if _, isRet := an.AsReturn(b.Instrs[len(b.Instrs)-1]); isRet && reach[b] && !good[b] {
				return false, "after a recovered panic the deferred function returns without storing an error into the result (a `err :=` inside the closure declares a new variable)"
			}
		}
	}
	if !found {
		return true, "no recover"
	}
	return true, ""
}

// bigConst: v is big.NewInt(k) for a constant k.
func bigConst(v ssa.Value) (int64, bool) {
	call, ok := v.(*ssa.Call)
	if !ok || an.CalleeName(call.Common()) != "math/big.NewInt" || len(call.Call.Args) != 1 {
		return 0, false
	}
	return an.ConstInt(call.Call.Args[0])
}
