package props

import (
	"strings"

	"verif/checker/internal/an"
	"verif/checker/internal/load"

	"golang.org/x/tools/go/ssa"
)

func init() { register("C07", c07) }

// hsRow is one row of the handshake obligation table: a comparison between two values identified by origin.
type hsRow struct {
	name string
	kind string   // "cmp" | "bytes.Equal" | "eq" | "assert"
	a    []string // substrings that one operand's origin must contain
	b    []string // substrings that the other operand's origin must contain (or its transitive deps, when bDeps)
	// bDeps: the b-substrings are matched against the transitive dependencies of the operand (derived values)
	bDeps  bool
	assert string // asserted type for kind "assert"
}

var handshakeRows = []hsRow{
	{name: "resPQ.nonce", kind: "cmp", a: []string{"call:" + load.TLPkg + ".RandomInt128"}, b: []string{"reqPQ#0", "objects.ResPQ.Nonce"}},
	{name: "resPQ.fingerprint", kind: "eq", a: []string{"objects.ResPQ.Fingerprints["}, b: []string{load.KeysPkg + ".RSAFingerprint"}, bDeps: true},
	{name: "server_DH_params_ok.kind", kind: "assert", a: []string{"reqDHParams#0"}, assert: "*objects.ServerDHParamsOk"},
	{name: "server_DH_params_ok.nonce", kind: "cmp", a: []string{"call:" + load.TLPkg + ".RandomInt128"}, b: []string{"objects.ServerDHParamsOk.Nonce"}},
	{name: "server_DH_params_ok.server_nonce", kind: "cmp", a: []string{"objects.ResPQ.ServerNonce"}, b: []string{"objects.ServerDHParamsOk.ServerNonce"}},
	{name: "server_DH_inner_data.kind", kind: "assert", a: []string{"DecodeUnknownObject#0"}, assert: "*objects.ServerDHInnerData"},
	{name: "server_DH_inner_data.nonce", kind: "cmp", a: []string{"call:" + load.TLPkg + ".RandomInt128"}, b: []string{"objects.ServerDHInnerData.Nonce"}},
	{name: "server_DH_inner_data.server_nonce", kind: "cmp", a: []string{"objects.ResPQ.ServerNonce"}, b: []string{"objects.ServerDHInnerData.ServerNonce"}},
	{name: "dh_gen_ok.kind", kind: "assert", a: []string{"setClientDHParams#0"}, assert: "*objects.DHGenOk"},
	{name: "dh_gen_ok.nonce", kind: "cmp", a: []string{"call:" + load.TLPkg + ".RandomInt128"}, b: []string{"objects.DHGenOk.Nonce"}},
	{name: "dh_gen_ok.server_nonce", kind: "cmp", a: []string{"objects.ResPQ.ServerNonce"}, b: []string{"objects.DHGenOk.ServerNonce"}},
	{name: "dh_gen_ok.new_nonce_hash1", kind: "bytes.Equal", a: []string{"objects.DHGenOk.NewNonceHash1"}, b: []string{load.TLPkg + ".RandomInt256", "field:mtproto.MTProto.authKey"}, bDeps: true},
}

func originHasAll(os []string, subs []string) bool {
	for _, o := range os {
		ok := true
		for _, s := range subs {
			if !strings.Contains(o, s) {
				ok = false
				break
			}
		}
		if ok {
			return true
		}
	}
	return false
}

func depsHasAll(d *an.Deps, subs []string) bool {
	for _, s := range subs {
		if !d.Has(s) {
			return false
		}
	}
	return true
}

// sessionEffects: the instructions of fn that persist the session or switch to encrypted mode.
func (c *Ctx) sessionEffects(fn *ssa.Function) (effects []ssa.Instruction, desc []string) {
	g := c.Graph()
	isStore := func(f *ssa.Function) bool {
		// any concrete SessionLoader.Store implementation, or the interface method itself
		return f.Name() == "Store" && f.Signature.Recv() != nil && strings.Contains(f.String(), "/internal/session.")
	}
	for _, cs := range an.Calls(fn) {
		hit := false
		if cs.Common.IsInvoke() && cs.Common.Method.Name() == "Store" && strings.Contains(cs.Name, "session.SessionLoader") {
			hit = true
		}
		for _, callee := range g.CalleesAt(fn, cs.Instr) {
			if !c.P.InRepo(callee) || isRequestBarrier(callee) {
				continue
			}
			if isStore(callee) || g.Reaches(callee, func(f *ssa.Function) bool { return c.P.InRepo(f) && !isRequestBarrier(f) }, func(f *ssa.Function) bool {
				if isStore(f) {
					return true
				}
				for _, x := range an.Calls(f) {
					if x.Common.IsInvoke() && x.Common.Method.Name() == "Store" && strings.Contains(x.Name, "session.SessionLoader") {
						return true
					}
				}
				return false
			}) {
				hit = true
			}
		}
		if hit {
			effects = append(effects, cs.Instr)
			desc = append(desc, "call "+shortCallee(cs.Name)+" (reaches SessionLoader.Store)")
		}
	}
	for _, b := range fn.Blocks {
		for _, in := range b.Instrs {
			st, ok := in.(*ssa.Store)
			if !ok {
				continue
			}
			fa, ok := st.Addr.(*ssa.FieldAddr)
			if !ok || an.FieldName(fa.X.Type(), fa.Field) != "mtproto.MTProto.encrypted" {
				continue
			}
			if k, ok := st.Val.(*ssa.Const); ok && k.Value != nil && k.Value.String() == "false" {
				continue
			}
			effects = append(effects, st)
			desc = append(desc, "store MTProto.encrypted = "+st.Val.String())
		}
	}
	return
}

// isRequestBarrier: a network request is not a persistence operation by itself.  (makeRequest can re-enter the
// key exchange through the PHONE_MIGRATE reconnect path; that nested exchange is analysed as its own run of
// makeAuthKey, not as an effect of the outer one.)
func isRequestBarrier(f *ssa.Function) bool {
	n := an.ShortName(f)
	return n == "(*mtproto.MTProto).makeRequest" || n == "(*mtproto.MTProto).MakeRequest" || n == "(*mtproto.MTProto).sendPacket"
}

func shortCallee(n string) string {
	n = strings.ReplaceAll(n, load.RootMod+"/", "")
	n = strings.ReplaceAll(n, load.RootMod, "mtproto")
	return n
}

func c07(c *Ctx) {
	r := c.R
	r.Explanation = "For-all-paths fact about the key exchange: in (*MTProto).makeAuthKey every entry→effect path (effect = a call that reaches " +
		"SessionLoader.Store, or the store m.encrypted = true) passes the 'agree' edge of each of the 12 comparisons/assertions of the obligation table " +
		"(operands identified by SSA origin, not by name), and the only non-panicking return of DecryptMessageWithTempKeys is dominated by the SHA-1 " +
		"prefix comparison. Decided by cutting the agree edge, folding boolean phis (the fingerprint `found` loop) and requiring every effect to be " +
		"unreachable. Also: reply-kind assertions in the request helpers, who may write `encrypted` / call SaveSession, and a panic census of the abort paths."
	r.NotDecided = []string{"the trusted base: big.Int.Cmp, bytes.Equal and the TL decoder deliver the reply's fields faithfully (C01/C15)"}
	r.Rule("R07.G", "each row of the handshake table has a guard whose operands have the row's origins, whose differ-edge reaches no effect and whose agree-edge is on every entry→effect path", 13)
	r.Rule("R07.T", "ReqPQ / ReqDHParams / SetClientDHParams assert the reply kind with comma-ok and return a non-nil value only on the ok edge", 3)
	r.Rule("R07.W", "MTProto.encrypted is written only in NewMTProto and at the guarded point; SaveSession is called only from makeAuthKey and processResponse; Store only from SaveSession", 3)
	r.Rule("R07.P", "a mismatch is reported as an error: no panic site on the abort paths of the server-reply checks", 1)

	fn := c.fn("R07.G", load.RootMod, "*MTProto", "makeAuthKey")
	if fn == nil {
		return
	}
	effects, edesc := c.sessionEffects(fn)
	if len(effects) < 2 {
		r.Undecide("R07.G", "effects", c.pos(fn.Pos()), sprintf("expected the SaveSession call and the encrypted=true store in makeAuthKey, found %d effect(s): %v", len(effects), edesc))
		return
	}
	r.Extra["effects"] = edesc
	tr := an.NewTracer()
	type guard struct {
		cond *an.Cond
		xo   []string
		yo   []string
	}
	var guards []guard
	unclassified := 0
	for _, i := range an.Ifs(fn) {
		cd, ok := an.Classify(i)
		if !ok {
			unclassified++
			continue
		}
		g := guard{cond: cd}
		if cd.X != nil {
			g.xo = tr.Origins(cd.X)
		}
		if cd.Y != nil {
			g.yo = tr.Origins(cd.Y)
		}
		guards = append(guards, g)
	}
	r.Extra["branches_in_makeAuthKey"] = len(guards) + unclassified
	descend := c.inRepoOrDry
	for _, row := range handshakeRows {
		key := "guard:" + row.name
		var cands []guard
		for _, g := range guards {
			cd := g.cond
			if cd.Kind != row.kind {
				continue
			}
			switch row.kind {
			case "assert":
				if typeString(cd.Assert.AssertedType) != row.assert || !originHasAll(g.xo, row.a) {
					continue
				}
			case "cmp":
				if cd.Rel != "==" && cd.Rel != "!=" {
					continue
				}
				fallthrough
			default:
				match := func(ao, bo []string, bv ssa.Value) bool {
					if !originHasAll(ao, row.a) {
						return false
					}
					if row.bDeps {
						return depsHasAll(an.NewDeps(descend).Of(bv), row.b)
					}
					return originHasAll(bo, row.b)
				}
				if !(match(g.xo, g.yo, cd.Y) || match(g.yo, g.xo, cd.X)) {
					continue
				}
			}
			cands = append(cands, g)
		}
		if len(cands) == 0 {
			r.Violate("R07.G", key, c.pos(fn.Pos()), sprintf("no %s guard in makeAuthKey compares [%s] with [%s]%s: the check was deleted, weakened or re-pointed",
				row.kind, strings.Join(row.a, " & "), strings.Join(row.b, " & "), row.assert))
			continue
		}
		ok := false
		var why string
		for _, g := range cands {
			pass := g.cond.EdgeWhen(true)
			un := an.Guarded(fn, []an.Edge{pass}, effects)
			if len(un) == 0 {
				ok = true
				r.Hold("R07.G", key, c.pos(g.cond.If.Cond.Pos()), sprintf("agree edge b%d→b%d dominates %d effects", pass.From.Index, pass.To().Index, len(effects)))
				break
			}
			why = sprintf("guard at %s: with its agree edge b%d→b%d removed, %d effect(s) stay reachable (first at %s) — wrong polarity, effect before the check, or the differ branch does not abort",
				c.pos(g.cond.If.Cond.Pos()), pass.From.Index, pass.To().Index, len(un), c.pos(un[0].Pos()))
		}
		if !ok {
			r.Violate("R07.G", key, c.pos(cands[0].cond.If.Cond.Pos()), why)
		}
	}

	// the fingerprint that is matched (and the one that is sent) is computed from the configured public key
	nfp := 0
	for _, cs := range an.CallsNamed(fn, load.KeysPkg+".RSAFingerprint") {
		nfp++
		r.Check(len(cs.Common.Args) == 1 && tr.AllOrigins(cs.Common.Args[0], "mtproto.MTProto.publicKey"), "R07.G", sprintf("fingerprint-key#%d", nfp), c.pos(cs.Pos()),
			"RSAFingerprint is applied to m.publicKey: "+tr.OriginString(cs.Common.Args[0]))
	}
	if nfp == 0 {
		r.Violate("R07.G", "fingerprint-key", c.pos(fn.Pos()), "makeAuthKey no longer computes keys.RSAFingerprint(m.publicKey)")
	}

	// row 6/13: the encrypted DH answer — SHA-1 prefix check inside DecryptMessageWithTempKeys, and the decoded
	// inner data must come from that function's result.
	c07Decrypt(c, fn, tr)

	// R07.T request helpers
	for _, h := range []struct{ fn, typ string }{{"ReqPQ", "*objects.ResPQ"}, {"ReqDHParams", "objects.ServerDHParams"}, {"SetClientDHParams", "objects.SetClientDHParamsAnswer"}} {
		hf := c.fn("R07.T", load.ObjPkg, "", h.fn)
		if hf == nil {
			continue
		}
		var rets []ssa.Instruction
		for _, b := range hf.Blocks {
			for _, in := range b.Instrs {
				if ret, ok := in.(*ssa.Return); ok && len(ret.Results) == 2 && !an.IsNilConst(ret.Results[0]) {
					rets = append(rets, ret)
				}
			}
		}
		found := false
		for _, i := range an.Ifs(hf) {
			cd, ok := an.Classify(i)
			if !ok || cd.Kind != "assert" || typeString(cd.Assert.AssertedType) != h.typ {
				continue
			}
			if !tr.HasOrigin(cd.X, "MakeRequest#0") {
				continue
			}
			found = true
			un := an.Guarded(hf, []an.Edge{cd.EdgeWhen(true)}, rets)
			r.Check(len(un) == 0 && len(rets) > 0, "R07.T", "reply-kind:"+h.fn, c.pos(i.Cond.Pos()),
				sprintf("%d value-returning exits; %d reachable without the ok edge of .(%s)", len(rets), len(un), h.typ))
		}
		if !found {
			r.Violate("R07.T", "reply-kind:"+h.fn, c.pos(hf.Pos()), "no comma-ok assertion of the MakeRequest result to "+h.typ)
		}
	}

	// R07.W who may write
	c07Writers(c)
}

func c07Decrypt(c *Ctx, mk *ssa.Function, tr *an.Tracer) {
	r := c.R
	key := "guard:server_DH_inner_data.sha1_prefix"
	df := c.fn("R07.G", load.IgePkg, "", "DecryptMessageWithTempKeys")
	if df == nil {
		return
	}
	// (a) data dependence in makeAuthKey: asserted inner data <- DecodeUnknownObject(<- DecryptMessageWithTempKeys(EncryptedAnswer, new_nonce, server_nonce))
	okFlow := false
	for _, cs := range an.CallsNamed(mk, load.TLPkg+".DecodeUnknownObject") {
		if len(cs.Common.Args) > 0 && tr.HasOrigin(cs.Common.Args[0], "call:"+load.IgePkg+".DecryptMessageWithTempKeys") {
			for _, ds := range an.CallsNamed(mk, load.IgePkg+".DecryptMessageWithTempKeys") {
				a := ds.Common.Args
				if len(a) == 3 && tr.HasOrigin(a[0], "objects.ServerDHParamsOk.EncryptedAnswer") &&
					tr.HasOrigin(a[1], "call:"+load.TLPkg+".RandomInt256") && tr.HasOrigin(a[2], "objects.ResPQ.ServerNonce") {
					okFlow = true
				}
			}
		}
	}
	r.Check(okFlow, "R07.G", "flow:server_DH_inner_data<-DecryptMessageWithTempKeys", c.pos(mk.Pos()),
		"the object asserted to *ServerDHInnerData is decoded from DecryptMessageWithTempKeys(EncryptedAnswer, new_nonce, server_nonce)")
	// (b) inside: every return is dominated by bytes.Equal(prefix[:20] of the decrypted buffer, Sha1(candidate)) and returns that candidate
	var rets []ssa.Instruction
	for _, b := range df.Blocks {
		for _, in := range b.Instrs {
			if ret, ok := in.(*ssa.Return); ok {
				rets = append(rets, ret)
			}
		}
	}
	if len(rets) == 0 {
		r.Undecide("R07.G", key, c.pos(df.Pos()), "DecryptMessageWithTempKeys has no return")
		return
	}
	found := false
	for _, i := range an.Ifs(df) {
		cd, ok := an.Classify(i)
		if !ok || cd.Kind != "bytes.Equal" {
			continue
		}
		xo, yo := tr.Origins(cd.X), tr.Origins(cd.Y)
		isPrefix := func(os []string) bool {
			return originHasAll(os, []string{"[:20]"}) || originHasAll(os, []string{"[0:20]"})
		}
		isHash := func(os []string) bool {
			return originHasAll(os, []string{"Sha1Byte"}) || originHasAll(os, []string{"sha1.Sum"}) || originHasAll(os, []string{"dry.Sha1"})
		}
		var hashV ssa.Value
		switch {
		case isPrefix(xo) && isHash(yo):
			hashV = cd.Y
		case isPrefix(yo) && isHash(xo):
			hashV = cd.X
		default:
			continue
		}
		found = true
		un := an.Guarded(df, []an.Edge{cd.EdgeWhen(true)}, rets)
		// the hashed candidate is the returned value
		sameCand := false
		if call, ok := hashV.(*ssa.Call); ok && len(call.Call.Args) == 1 {
			ho := tr.Origins(call.Call.Args[0])
			for _, ret := range rets {
				ro := tr.Origins(ret.(*ssa.Return).Results[0])
				if strings.Join(ho, "|") == strings.Join(ro, "|") {
					sameCand = true
				}
			}
		}
		r.Check(len(un) == 0 && sameCand, "R07.G", key, c.pos(i.Cond.Pos()),
			sprintf("%d return(s), %d reachable without the equal edge; returned value is the hashed candidate: %v", len(rets), len(un), sameCand))
	}
	if !found {
		r.Violate("R07.G", key, c.pos(df.Pos()), "no bytes.Equal(decrypted[:20], SHA1(candidate)) guard before the return of DecryptMessageWithTempKeys")
	}
	// R07.P: abort by panic instead of error
	for _, b := range df.Blocks {
		for _, in := range b.Instrs {
			switch x := in.(type) {
			case *ssa.Panic:
				r.Violate("R07.P", "abort-by-panic:ige.DecryptMessageWithTempKeys/panic", c.pos(x.Pos()), "a DH answer whose SHA-1 prefix matches no cut point ends in panic(), not in an error return")
			case *ssa.Call:
				if f := an.StaticCallee(x.Common()); f != nil && an.IsPanicHelper(f) {
					r.Violate("R07.P", "abort-by-panic:ige.DecryptMessageWithTempKeys/"+f.Name(), c.pos(x.Pos()), "an encrypted answer of bad length ends in "+f.Name()+"(err) → panic, not in an error return")
				}
			}
		}
	}
	if len(r.Obls) > 0 {
		// make sure the rule has at least one instance even when clean
		n := 0
		for _, o := range r.Obls {
			if o.Rule == "R07.P" {
				n++
			}
		}
		if n == 0 {
			r.Hold("R07.P", "abort-by-panic:ige.DecryptMessageWithTempKeys", c.pos(df.Pos()), "no panic site")
		}
	}
}

func c07Writers(c *Ctx) {
	r := c.R
	allowedEnc := map[string]bool{"NewMTProto": true, "makeAuthKey": true}
	allowedSave := map[string]bool{"makeAuthKey": true, "processResponse": true}
	nEnc, nSave, nStore := 0, 0, 0
	for f := range c.P.AllFunctions() {
		if !c.P.InRepo(f) || strings.Contains(load.FuncPkgPath(f), "/examples/") || f.Synthetic != "" {
			continue
		}
		top := f
		for top.Parent() != nil {
			top = top.Parent()
		}
		for _, b := range f.Blocks {
			for _, in := range b.Instrs {
				switch x := in.(type) {
				case *ssa.Store:
					if fa, ok := x.Addr.(*ssa.FieldAddr); ok && an.FieldName(fa.X.Type(), fa.Field) == "mtproto.MTProto.encrypted" {
						nEnc++
						r.Check(allowedEnc[top.Name()], "R07.W", "writer:encrypted@"+an.ShortName(top), c.pos(x.Pos()), "store to MTProto.encrypted")
					}
				case ssa.CallInstruction:
					name := an.CalleeName(x.Common())
					if name == "(*"+load.RootMod+".MTProto).SaveSession" {
						nSave++
						r.Check(allowedSave[top.Name()], "R07.W", "caller:SaveSession@"+an.ShortName(top), c.pos(x.Pos()), "call of SaveSession")
					}
					if x.Common().IsInvoke() && x.Common().Method.Name() == "Store" && strings.Contains(name, "session.SessionLoader") {
						nStore++
						r.Check(top.Name() == "SaveSession", "R07.W", "caller:SessionLoader.Store@"+an.ShortName(top), c.pos(x.Pos()), "call of SessionLoader.Store")
					}
				}
			}
		}
	}
	if nEnc == 0 || nSave == 0 || nStore == 0 {
		r.Undecide("R07.W", "writers", "", sprintf("expected writers not found (encrypted stores %d, SaveSession calls %d, Store calls %d)", nEnc, nSave, nStore))
	}
}
