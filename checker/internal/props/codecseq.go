package props

import (
	"strings"

	"verif/checker/internal/an"
	"verif/checker/internal/load"

	"golang.org/x/tools/go/ssa"
)

// codecOp is one Put*/Pop* call on a tl.Encoder / tl.Decoder along a path (engine E5).
// altSep separates the alternative origins of one value in a label.
const altSep = " ‖ "

type codecOp struct {
	cs     an.CallSite
	method string
	width  string // constant width in bytes, or a symbolic description
	label  string // writer: where the bytes come from; reader: where they go
	stream string // identity of the encoder/decoder (origin of the receiver)
}

func (o codecOp) String() string { return o.method + ":" + o.width + " " + o.label }

func (c *Ctx) valueLabel(tr *an.Tracer, v ssa.Value) string {
	if call, ok := v.(*ssa.Call); ok && an.CalleeName(call.Common()) == "builtin:len" {
		return "len(" + c.valueLabel(tr, call.Call.Args[0]) + ")"
	}
	if cv, ok := v.(*ssa.Convert); ok {
		return c.valueLabel(tr, cv.X)
	}
	o := strings.Join(tr.Origins(v), altSep)
	if strings.HasPrefix(o, "alloc:") || strings.HasPrefix(o, "make:") {
		// a local buffer: describe it by what was written into it
		d := an.NewDeps(nil).Of(v)
		var parts []string
		for _, r := range an.SortedKeys(d.Roots) {
			if strings.HasPrefix(r, "call:invoke:") || strings.HasPrefix(r, "param:") || strings.HasPrefix(r, "field:") {
				parts = append(parts, r)
			}
		}
		if len(parts) > 0 {
			return "buf{" + simplifyOrigin(strings.Join(parts, ",")) + "}"
		}
	}
	return simplifyOrigin(o)
}

func (c *Ctx) widthOf(tr *an.Tracer, method string, args []ssa.Value) string {
	if w := an.FixedWidth(method); w > 0 {
		return sprintf("%d", w)
	}
	switch method {
	case "PopRawBytes":
		if len(args) > 1 {
			if k, ok := an.ConstInt(args[1]); ok {
				return sprintf("%d", k)
			}
			return c.valueLabel(tr, args[1])
		}
	case "PutRawBytes":
		if len(args) > 1 {
			if n := bufLen(args[1]); n >= 0 {
				return sprintf("%d", n)
			}
			return "len(" + c.valueLabel(tr, args[1]) + ")"
		}
	case "GetRestOfMessage":
		return "rest"
	}
	return "var"
}

// bufLen: constant length of make([]byte, k) / new([k]byte)[:]; -1 otherwise.
func bufLen(v ssa.Value) int64 {
	for {
		switch x := v.(type) {
		case *ssa.Slice:
			if x.Low != nil || x.High != nil {
				lo, hi := int64(0), int64(-1)
				if x.Low != nil {
					k, ok := an.ConstInt(x.Low)
					if !ok {
						return -1
					}
					lo = k
				}
				if x.High != nil {
					k, ok := an.ConstInt(x.High)
					if !ok {
						return -1
					}
					hi = k
				}
				if hi >= 0 {
					return hi - lo
				}
			}
			v = x.X
		case *ssa.MakeSlice:
			if k, ok := an.ConstInt(x.Len); ok {
				return k
			}
			return -1
		case *ssa.Alloc:
			if k := arrayLen(x); k >= 0 {
				return k
			}
			return -1
		default:
			return -1
		}
	}
}

// destLabel: where the result of a Pop* call goes.
func (c *Ctx) destLabel(tr *an.Tracer, call *ssa.Call) string {
	var labels []string
	for _, u := range an.NewForward(nil).Uses(call) {
		switch u.Kind {
		case "store":
			labels = append(labels, "→"+u.Field)
		case "arg":
			labels = append(labels, "→"+shortCallee(u.Callee)+sprintf("#%d", u.ArgIdx))
		case "cmp":
			labels = append(labels, "→expr")
		case "slice", "index", "len", "range":
			labels = append(labels, "→"+u.Kind)
		}
	}
	if len(labels) == 0 {
		return "→discarded"
	}
	return strings.Join(labels, ",")
}

// codecOps lists the codec operations on a path.
func (c *Ctx) codecOps(tr *an.Tracer, p an.Path) []codecOp {
	var out []codecOp
	for _, cs := range p.CallsOn(func(cs an.CallSite) bool { return an.CodecMethod(cs.Name, load.TLPkg) != "" }) {
		m := an.CodecMethod(cs.Name, load.TLPkg)
		op := codecOp{cs: cs, method: m, width: c.widthOf(tr, m, cs.Common.Args), stream: cs.Common.Args[0].Name()}
		if strings.HasPrefix(m, "Put") {
			if len(cs.Common.Args) > 1 {
				op.label = c.valueLabel(tr, onPath(cs.Common.Args[1], p))
			}
		} else if call, ok := cs.Instr.(*ssa.Call); ok {
			op.label = c.destLabel(tr, call)
		}
		out = append(out, op)
	}
	return out
}

func opsString(ops []codecOp) string {
	var s []string
	for _, o := range ops {
		s = append(s, o.String())
	}
	return strings.Join(s, " | ")
}

// specItem is one row of a layout table.
type specItem struct {
	name   string
	width  string   // "8", "4", "16", or "" for any
	labels []string // substrings, all of which the op's label must contain
}

// matchSpec compares a codec sequence with a layout table; returns the list of disagreements.
func matchSpec(ops []codecOp, spec []specItem) []string {
	var diffs []string
	if len(ops) != len(spec) {
		diffs = append(diffs, sprintf("%d fields on the wire, layout has %d", len(ops), len(spec)))
	}
	for i := 0; i < len(ops) && i < len(spec); i++ {
		if spec[i].width != "" && ops[i].width != spec[i].width {
			diffs = append(diffs, sprintf("position %d (%s): width %s, layout says %s", i, spec[i].name, ops[i].width, spec[i].width))
		}
		for _, l := range spec[i].labels {
			// the label lists every origin of the value (" | "-separated): each of them must be the specified one
			for _, alt := range strings.Split(ops[i].label, altSep) {
				if !strings.Contains(alt, l) {
					diffs = append(diffs, sprintf("position %d should be %s (%s) but is %s", i, spec[i].name, l, ops[i].label))
					break
				}
			}
		}
	}
	return diffs
}

func arrayLen(a *ssa.Alloc) int64 {
	return arrayLenOfType(a)
}

// onPath resolves a join to the value it has on this path: the incoming value of the edge the path takes into the
// join's block (`x := a; if c { x |= 1 }; Put(x)` writes `a|1` on one path and `a` on the other).
func onPath(v ssa.Value, p an.Path) ssa.Value {
	for n := 0; n < 8; n++ {
		phi, ok := v.(*ssa.Phi)
		if !ok {
			return v
		}
		k := -1
		for i, b := range p.Blocks {
			if b == phi.Block() {
				k = i
			}
		}
		if k <= 0 {
			return v
		}
		pred := p.Blocks[k-1]
		found := false
		for i, pb := range phi.Block().Preds {
			if pb == pred {
				v = phi.Edges[i]
				found = true
				break
			}
		}
		if !found {
			return v
		}
	}
	return v
}
