package props

import (
	"go/constant"
	"go/token"
	"go/types"
	"sort"
	"strings"

	"verif/checker/internal/an"
	"verif/checker/internal/load"
	"verif/checker/internal/tlschema"

	"golang.org/x/tools/go/ssa"
)

func init() { register("C02", c02) }

// builtin TL lines (TL language definition / MTProto service schema) for the ids that are hard-coded in package tl.
var builtinLines = map[string]string{
	"CrcVector": "vector#1cb5c415 {t:Type} # [ t ] = Vector t",
	"CrcFalse":  "boolFalse#bc799737 = Bool",
	"CrcTrue":   "boolTrue#997275b5 = Bool",
	"CrcNull":   "null#56730bcc = Null",
}

// evalAt evaluates v in fn for the given atoms, forcing evaluable branches and resolving phis along executable edges.
func evalAt(fn *ssa.Function, v ssa.Value, atom func(ssa.Value) (int64, bool)) (int64, bool, map[*ssa.BasicBlock]bool) {
	var exec map[an.Edge]bool
	var reach map[*ssa.BasicBlock]bool
	depth := 0
	var at func(x ssa.Value) (int64, bool)
	at = func(x ssa.Value) (int64, bool) {
		if k, ok := atom(x); ok {
			return k, true
		}
		if phi, ok := x.(*ssa.Phi); ok && depth < 8 && exec != nil {
			vals := an.PhiValues(phi, exec)
			if len(vals) == 1 {
				depth++
				defer func() { depth-- }()
				return an.EvalInt(vals[0], at)
			}
		}
		return 0, false
	}
	// iterate: branches decided in one round fix the phis that later branches depend on
	for round := 0; round < 4; round++ {
		reach, exec = an.ReachExec(fn, nil, func(i *ssa.If) (int, bool) {
			b, ok := an.EvalCond(i.Cond, at)
			if !ok {
				return 0, false
			}
			if b {
				return 0, true
			}
			return 1, true
		})
	}
	k, ok := an.EvalInt(v, at)
	return k, ok, reach
}

func c02(c *Ctx) {
	r := c.R
	r.Explanation = "The bytes are a function of the struct layout, the walk and the primitive writers. The walk and primitives are C01's rules; here the " +
		"layout of every shipped struct is compared field by field with its schema line (order, TL→Go type, flag bit, position of the flags word — the " +
		"field-level half of C13), the hard-coded builtin ids are the CRC-32 of their TL lines, the string header constants and sizes are tabulated by " +
		"evaluating the SSA of the writers and the reader for every length 0..600 and around 2^16 / 2^24, and the 2^24 refusal is checked on the boundary."
	r.NotDecided = []string{"that the walk emits fields in declaration order for all values (the structural half is R02.G / C01 R01.F)",
		"decoding of reference-built bytes as values"}
	r.Rule("R02.L", "every shipped struct is the image of its schema line: order, types, flag bit, encoded_in_bitflags ⇔ true, FlagIndex = position of flags:#, mandatory fields before the flags word are untagged", 1100)
	r.Rule("R02.B", "builtin ids equal the CRC-32 of their TL lines", 7)
	r.Rule("R02.S", "string headers: tiny/large switch at 254, 1- and 4-byte headers, 4-byte alignment, same constants in writer and reader (tabulated)", 4)
	r.Rule("R02.M", "byte strings of 2^24 bytes or more are refused; 2^24-1 is accepted", 1)
	r.Rule("R02.X", "the flags word is written / read at the position FlagIndex() says: the PutUint / PopUint of the struct walk is reachable only through the equal edge of a comparison with the FlagIndex() result", 2)
	tr := an.NewTracer()
	c02FlagsPosition(c, tr, "R02.X")
	r.Rule("R02.O", "the bytes tl.Marshal returns stay what they were: they belong to a buffer made by the call and kept by nobody else (no pool, no package variable)", 1)
	c.marshalOwnsResult("R02.O")

	// ---- R02.L ----------------------------------------------------------------------------------
	pp, err := c.Pop()
	if err != nil {
		r.Undecide("R02.L", "population", "", err.Error())
		return
	}
	// a vector of many elements is as much the schema's serialisation as a vector of two: the nesting level the
	// decoder counts is given back after every value, so siblings are read at their parent's level plus one
	r.Rule("R02.I", "a container of n messages decodes to n messages (= the container-item rule of C09, filed under C02): the element appended per item is created in that iteration", 1)
	c.containerItemsDistinct("R02.I")
	r.Rule("R02.W", "nothing reachable from tl.Marshal writes a package-level variable or appends / copies into the storage of one (a shared zero-padding array filled by one value shows through the leading zeros of the next)", 1)
	if f := c.P.Func(load.TLPkg, "", "Marshal"); f != nil {
		c.noGlobalWrites("R02.W", []*ssa.Function{f}, "the encoding path: the bytes of one value would depend on the values encoded before it")
	}
	r.Rule("R02.D", "the nesting level counted by the decoder is given back on every exit (= R01.V depth:balanced, filed under C02): the k-th element of a vector is not refused as k levels deep", 1)
	c.depthBalanced("R02.D")
	r.Rule("R02.R", "the encoder walks nested values recursively: no list kept in a field of the Encoder and filled by one activation is read after a call that may re-enter it (the nested object would overwrite its parent's list)", 1)
	c.noScratchAcrossReentry("R02.R", "Encoder")
	r.Rule("R02.G", "a present conditional group contains every one of its fields: the decoder reads a tagged field iff its bit is set, the encoder sets the bit and emits the field under that bit and nothing else (a flags.N?Bool is a bit plus a Bool word, only flags.N?true is the bit alone)", 3)
	c01Presence(c, pp, tr, "R02.G")
	api, mt, err := c.Schemas()
	if err != nil {
		r.Undecide("R02.L", "schema", "", err.Error())
		return
	}
	for _, sch := range []struct {
		si  *schemaInfo
		pkg string
		tag string
	}{{api, load.TgPkg, "api"}, {mt, load.ObjPkg, "mtproto"}} {
		tm := &typeMatcher{c: c, pp: pp, sch: sch.si}
		for _, d := range sch.si.S.Defs {
			if !d.HasID {
				continue
			}
			for _, m := range pp.ByCRC[d.ID] {
				if m.Pkg != sch.pkg || m.IsEnum || m.Struct == nil || m.Marshaler || m.Unmarshaler {
					continue
				}
				diffs, _ := tm.compareFields(d, m)
				// the encoder inserts the flags word by emitted-object index: fields before it must be unconditional
				if m.HasFlagIx && m.FlagIxOK {
					for i := 0; i < m.FlagIndex && i < len(m.Fields); i++ {
						if m.Fields[i].Tag.HasFlag {
							diffs = append(diffs, sprintf("field %d %s precedes the flags word but is conditional", i, m.Fields[i].Name))
						}
					}
				}
				key := "layout:" + sch.tag + "." + d.Name
				if len(diffs) > 0 {
					r.Violate("R02.L", key, c.pos(m.Pos), m.Name+": "+strings.Join(diffs, "; "))
				} else {
					r.Hold("R02.L", key, c.pos(m.Pos), sprintf("%s: %d fields", m.Name, len(m.Fields)))
				}
			}
		}
	}

	// ---- R02.B ----------------------------------------------------------------------------------
	constVal := func(pkg, name string) (uint32, bool) {
		pk := c.P.Pkg(pkg)
		if pk == nil {
			return 0, false
		}
		k, ok := pk.Types.Scope().Lookup(name).(*types.Const)
		if !ok {
			return 0, false
		}
		u, ok := constant.Uint64Val(constant.ToInt(k.Val()))
		return uint32(u), ok
	}
	for name, line := range builtinLines {
		got, ok := constVal(load.TLPkg, name)
		want := tlschema.CanonicalCRC(line)
		d, _, _ := parseLine(line)
		r.Check(ok && got == want && d == want, "R02.B", "builtin:"+name, "", sprintf("tl.%s = %#08x, CRC-32 of %q = %#08x", name, got, tlschema.Canonical(line), want))
	}
	for _, b := range []struct{ constName, def string }{{"CrcRpcResult", "rpc_result"}, {"CrcGzipPacked", "gzip_packed"}} {
		got, ok := constVal(load.ObjPkg, b.constName)
		d := mt.ByName[b.def]
		if d == nil {
			r.Undecide("R02.B", "builtin:"+b.constName, "", "schemes/mtproto.tl has no "+b.def)
			continue
		}
		r.Check(ok && got == d.ID && canonCRC(mt, d) == d.ID, "R02.B", "builtin:"+b.constName, sprintf("schemes/mtproto.tl:%d", d.Line), sprintf("objects.%s = %#08x, schema id %#08x, CRC-32 of the line %#08x", b.constName, got, d.ID, canonCRC(mt, d)))
	}
	if d := mt.ByName["msg_container"]; d != nil {
		ok := false
		for _, m := range pp.ByCRC[d.ID] {
			if m.Name == "MessageContainer" {
				ok = canonCRC(mt, d) == d.ID
			}
		}
		r.Check(ok, "R02.B", "builtin:msg_container", sprintf("schemes/mtproto.tl:%d", d.Line), sprintf("MessageContainer.CRC() = schema id %#08x = CRC-32 of its line", d.ID))
	}

	// ---- R02.S / R02.M --------------------------------------------------------------------------
	c02Strings(c, tr, "R02.S", "R02.M", "")
}

func parseLine(line string) (uint32, string, bool) {
	i := strings.IndexByte(line, '#')
	if i < 0 {
		return 0, "", false
	}
	j := strings.IndexByte(line[i:], ' ')
	if j < 0 {
		return 0, "", false
	}
	var id uint32
	for _, ch := range line[i+1 : i+j] {
		id <<= 4
		switch {
		case ch >= '0' && ch <= '9':
			id |= uint32(ch - '0')
		case ch >= 'a' && ch <= 'f':
			id |= uint32(ch-'a') + 10
		}
	}
	return id, line[:i], true
}

func roundUp4(n int64) int64 { return (n + 3) &^ 3 }

func c02Strings(c *Ctx, tr *an.Tracer, RS, RM, kp string) {
	r := c.R
	pm := c.fn(RS, load.TLPkg, "*Encoder", "PutMessage")
	tiny := c.fn(RS, load.TLPkg, "*Encoder", "putTinyBytes")
	large := c.fn(RS, load.TLPkg, "*Encoder", "putLargeBytes")
	pop := c.fn(RS, load.TLPkg, "*Decoder", "PopMessage")
	if pm == nil || tiny == nil || large == nil || pop == nil {
		return
	}
	lenAtom := func(f *ssa.Function, n int64) func(ssa.Value) (int64, bool) {
		return func(v ssa.Value) (int64, bool) {
			if an.IsLenOf(v, func(x ssa.Value) bool { return isParam(x, f, 1) }) {
				return n, true
			}
			return 0, false
		}
	}
	// PutMessage: which writer is reached for which length
	{
		var bad []string
		for _, n := range c.grid([]int64{0, 1, 252, 253, 254, 255, 1 << 16}, 0, 600, 1) {
			_, _, reach := evalAt(pm, pm.Params[1], lenAtom(pm, n))
			toTiny, toLarge := false, false
			for _, cs := range an.Calls(pm) {
				if !reach[cs.Block] {
					continue
				}
				if strings.HasSuffix(cs.Name, ".putTinyBytes") {
					toTiny = true
				}
				if strings.HasSuffix(cs.Name, ".putLargeBytes") {
					toLarge = true
				}
			}
			if toTiny != (n < 254) || toLarge != (n >= 254) {
				bad = append(bad, sprintf("len=%d → tiny=%v large=%v", n, toTiny, toLarge))
			}
		}
		r.Check(len(bad) == 0, RS, kp+"switch:PutMessage@254", c.pos(pm.Pos()), "lengths below 254 use the 1-byte header, 254 and above the 4-byte header: "+strings.Join(bad, "; "))
	}
	writeSite := func(f *ssa.Function) (ssa.Instruction, *ssa.MakeSlice) {
		for _, cs := range an.Calls(f) {
			if strings.HasSuffix(cs.Name, "Encoder).write") {
				if ms, ok := baseAlloc(cs.Common.Args[1]).(*ssa.MakeSlice); ok {
					return cs.Instr, ms
				}
			}
		}
		return nil, nil
	}
	// putTinyBytes: buffer size and header byte for every n in 0..253
	if w, ms := writeSite(tiny); w == nil {
		r.Undecide(RS, kp+"tiny:layout", c.pos(tiny.Pos()), "the buffer handed to write() was not found")
	} else {
		var bad []string
		for n := int64(0); n < 254; n++ {
			atom := lenAtom(tiny, n)
			size, ok, reach := evalAt(tiny, ms.Len, atom)
			if !ok || !reach[w.Block()] || size != roundUp4(1+n) {
				bad = append(bad, sprintf("len=%d: buffer %d (reachable %v), format says %d", n, size, reach[w.Block()], roundUp4(1+n)))
				continue
			}
			hdr, okh := sliceStores(ms, atom)
			if !okh || hdr[0] != n&0xff {
				bad = append(bad, sprintf("len=%d: header byte %d", n, hdr[0]))
			}
		}
		okCopy := false
		for _, cs := range an.CallsNamed(tiny, "builtin:copy") {
			if sl, ok := cs.Common.Args[0].(*ssa.Slice); ok && baseAlloc(sl) == ssa.Value(ms) {
				if k, ok := an.ConstInt(sl.Low); ok && k == 1 && isParam(cs.Common.Args[1], tiny, 1) {
					okCopy = true
				}
			}
		}
		if !okCopy {
			bad = append(bad, "the payload is not copied to offset 1")
		}
		if len(bad) > 4 {
			bad = append(bad[:4], sprintf("…(%d)", len(bad)))
		}
		r.Check(len(bad) == 0, RS, kp+"tiny:layout", c.pos(tiny.Pos()), "tabulated for len 0..253: "+strings.Join(bad, "; "))
	}
	// putLargeBytes
	if w, ms := writeSite(large); w == nil {
		r.Undecide(RS, kp+"large:layout", c.pos(large.Pos()), "the buffer handed to write() was not found")
	} else {
		var bad []string
		for _, n := range c.grid([]int64{254, 255, 256, 257, 258, 65535, 65536, 1<<24 - 2, 1<<24 - 1}, 254, 2100, 1) {
			atom := lenAtom(large, n)
			size, ok, reach := evalAt(large, ms.Len, atom)
			if !ok || !reach[w.Block()] || size != roundUp4(4+n) {
				bad = append(bad, sprintf("len=%d: buffer %d (write reachable %v), format says %d", n, size, reach[w.Block()], roundUp4(4+n)))
			}
		}
		// header bytes: 0xfe then the three low-order bytes of a little-endian uint32(len)
		hdrOK := false
		var le *ssa.Alloc
		for _, cs := range an.Calls(large) {
			if strings.HasSuffix(cs.Name, "littleEndian).PutUint32") && bufLen(cs.Common.Args[1]) == 4 && strings.Contains(c.valueLabel(tr, cs.Common.Args[2]), "len(param#1)") {
				le, _ = baseAlloc(cs.Common.Args[1]).(*ssa.Alloc)
			}
		}
		if le != nil {
			got := map[int64]string{}
			for _, rf := range *ms.Referrers() {
				if ia, ok := rf.(*ssa.IndexAddr); ok {
					k, _ := an.ConstInt(ia.Index)
					for _, r2 := range *ia.Referrers() {
						if st, ok := r2.(*ssa.Store); ok && st.Addr == ia {
							if kk, ok := an.ConstInt(an.Unconv(st.Val)); ok {
								got[k] = sprintf("const %d", kk)
							} else if ld, ok := st.Val.(*ssa.UnOp); ok {
								if src, ok := ld.X.(*ssa.IndexAddr); ok && baseAlloc(src.X) == ssa.Value(le) {
									j, _ := an.ConstInt(src.Index)
									got[k] = sprintf("le[%d]", j)
								}
							}
						}
					}
				}
			}
			hdrOK = got[0] == "const 254" && got[1] == "le[0]" && got[2] == "le[1]" && got[3] == "le[2]"
			if !hdrOK {
				bad = append(bad, sprintf("header bytes are %v, format says [0xfe, len&0xff, len>>8&0xff, len>>16&0xff]", got))
			}
		} else {
			bad = append(bad, "the length is not laid out with LittleEndian.PutUint32")
		}
		okCopy := false
		for _, cs := range an.CallsNamed(large, "builtin:copy") {
			if sl, ok := cs.Common.Args[0].(*ssa.Slice); ok && baseAlloc(sl) == ssa.Value(ms) {
				if k, ok := an.ConstInt(sl.Low); ok && k == 4 && isParam(cs.Common.Args[1], large, 1) {
					okCopy = true
				}
			}
		}
		if !okCopy {
			bad = append(bad, "the payload is not copied to offset 4")
		}
		r.Check(len(bad) == 0, RS, kp+"large:layout", c.pos(large.Pos()), "tabulated for 9 lengths up to 2^24-1: "+strings.Join(bad, "; "))

		// ---- R02.M ------------------------------------------------------------------------------
		var mbad []string
		for _, tc := range []struct {
			n      int64
			accept bool
		}{{1<<24 - 1, true}, {1 << 24, false}, {1<<24 + 1, false}, {1 << 30, false}} {
			_, _, reach := evalAt(large, ms.Len, lenAtom(large, tc.n))
			if reach[w.Block()] != tc.accept {
				mbad = append(mbad, sprintf("a %d-byte string is %s (3 length bytes hold at most 2^24-1)", tc.n, map[bool]string{true: "written", false: "refused"}[reach[w.Block()]]))
			}
		}
		if RM != "" {
			r.Check(len(mbad) == 0, RM, kp+"refuse-at-2^24", c.pos(large.Pos()), strings.Join(mbad, "; "))
		}
	}
	// PopMessage: marker constant, sizes
	{
		var bad []string
		// first byte compared with 254
		marker := false
		for _, i := range an.Ifs(pop) {
			cd, ok := an.Classify(i)
			if ok && cd.Kind == "eq" {
				if k, okk := an.ConstInt(cd.Y); okk && k == 254 {
					marker = true
				}
			}
		}
		if !marker {
			bad = append(bad, "the first byte is not compared with 254")
		}
		// the large form reads 3 more bytes, appends one zero and decodes little-endian
		ok3 := false
		for _, cs := range an.CallsNamed(pop, "(*"+load.TLPkg+".Decoder).read") {
			if bufLen(cs.Common.Args[1]) == 3 {
				ok3 = true
			}
		}
		if !ok3 || len(an.CallsNamed(pop, "(encoding/binary.littleEndian).Uint32")) != 1 {
			bad = append(bad, "the large header is not 3 bytes decoded little-endian")
		}
		// padding read: 4 - (lenNumberSize+realSize) % 4, only when non-zero — tabulate
		var padMake *ssa.MakeSlice
		for _, b := range pop.Blocks {
			for _, in := range b.Instrs {
				if ms, ok := in.(*ssa.MakeSlice); ok {
					if _, isConst := an.ConstInt(ms.Len); !isConst {
						if bo, ok := ms.Len.(*ssa.BinOp); ok && bo.Op.String() == "-" {
							padMake = ms
						}
					}
				}
			}
		}
		if padMake == nil {
			bad = append(bad, "the padding read was not found")
		} else {
			// atoms: realSize and lenNumberSize are phis; evaluate by assigning the first byte
			for _, tc := range []struct{ first, size, hdr int64 }{{0, 0, 1}, {1, 1, 1}, {2, 2, 1}, {3, 3, 1}, {4, 4, 1}, {253, 253, 1}, {254, 254, 4}, {254, 255, 4}, {254, 256, 4}, {254, 257, 4}} {
				atom := func(v ssa.Value) (int64, bool) {
					// the first byte: load of val[0]
					if ld, ok := v.(*ssa.UnOp); ok {
						if ia, ok := ld.X.(*ssa.IndexAddr); ok {
							if k, ok := an.ConstInt(ia.Index); ok && k == 0 && ld.Type().Underlying().(*types.Basic).Kind() == types.Uint8 {
								return tc.first, true
							}
						}
					}
					if call, ok := v.(*ssa.Call); ok && strings.HasSuffix(an.CalleeName(call.Common()), "littleEndian).Uint32") {
						return tc.size, true
					}
					return 0, false
				}
				want := (4 - (tc.hdr+tc.size)%4) % 4
				// admission: with exactly the string and its padding left in the input, nothing refuses it
				inner := atom
				left := tc.size + want
				atom = func(v ssa.Value) (int64, bool) {
					if call, ok := v.(*ssa.Call); ok {
						if n := an.CalleeName(call.Common()); n == "(*bytes.Reader).Len" || n == "(*bytes.Buffer).Len" {
							return left, true
						}
					}
					return inner(v)
				}
				pad, ok, reach := evalAt(pop, padMake.Len, atom)
				for _, b := range pop.Blocks {
					for _, in := range b.Instrs {
						if ms, isMs := in.(*ssa.MakeSlice); isMs && ms != padMake {
							if _, isConst := an.ConstInt(ms.Len); !isConst && !reach[b] {
								bad = append(bad, sprintf("first=%d size=%d with exactly %d bytes left: the string is refused before it is read (a bound stricter than its own length plus padding)", tc.first, tc.size, left))
							}
						}
					}
				}
				if want == 0 {
					if reach[padMake.Block()] {
						bad = append(bad, sprintf("first=%d size=%d: padding is read although the string is aligned", tc.first, tc.size))
					}
				} else if !ok || !reach[padMake.Block()] || pad != want {
					bad = append(bad, sprintf("first=%d size=%d: reads %d padding bytes, format says %d", tc.first, tc.size, pad, want))
				}
			}
		}
		r.Check(len(bad) == 0, RS, kp+"reader:PopMessage", c.pos(pop.Pos()), strings.Join(bad, "; "))
	}
}

// sliceStores evaluates constant-index byte stores into a make([]byte, n) buffer.
func sliceStores(ms *ssa.MakeSlice, atom func(ssa.Value) (int64, bool)) (map[int64]int64, bool) {
	out := map[int64]int64{}
	for _, rf := range *ms.Referrers() {
		ia, ok := rf.(*ssa.IndexAddr)
		if !ok {
			continue
		}
		k, ok := an.ConstInt(ia.Index)
		if !ok {
			continue
		}
		for _, r2 := range *ia.Referrers() {
			if st, ok := r2.(*ssa.Store); ok && st.Addr == ia {
				v, ok := an.EvalInt(st.Val, atom)
				if !ok {
					return nil, false
				}
				out[k] = v & 0xff
			}
		}
	}
	return out, true
}

// c02FlagsPosition: R02.X.  R02.L proves FlagIndex() = position of flags:# in the schema line for every struct; this rule
// ties the walk to that number on both sides.
func c02FlagsPosition(c *Ctx, tr *an.Tracer, rule string) {
	r := c.R
	for _, side := range []struct{ recv, fn, prim, key string }{
		{"*Encoder", "encodeStruct", "(*" + load.TLPkg + ".Encoder).PutUint", "flags-position:encoder"},
		{"*Decoder", "decodeObject", "(*" + load.TLPkg + ".Decoder).PopUint", "flags-position:decoder"},
	} {
		f := c.fn(rule, load.TLPkg, side.recv, side.fn)
		if f == nil {
			continue
		}
		var fi []ssa.Value
		for _, cs := range an.Calls(f) {
			if cs.Common.IsInvoke() && cs.Common.Method.Name() == "FlagIndex" && cs.Value() != nil {
				fi = append(fi, cs.Value())
			}
		}
		if len(fi) == 0 {
			r.Violate(rule, side.key, c.pos(f.Pos()), side.fn+" does not call FlagIndex(): the flags word cannot be at the position the schema gives it for types whose flags are not first")
			continue
		}
		var prims []ssa.Instruction
		for _, cs := range an.CallsNamed(f, side.prim) {
			prims = append(prims, cs.Instr)
		}
		// the encoder reserves the slot of the flags word with a placeholder value while it collects the fields: the
		// placeholder must be inserted at that same position (a placeholder always put first is wrong for the types
		// whose flags word is not the first field)
		for _, cs := range an.CallsNamed(f, "reflect.ValueOf") {
			if len(cs.Common.Args) == 1 && side.recv == "*Encoder" {
				if mi, ok := cs.Common.Args[0].(*ssa.MakeInterface); ok {
					if _, isConst := mi.X.(*ssa.Const); isConst {
						prims = append(prims, cs.Instr)
					}
				}
			}
		}
		if len(prims) == 0 {
			r.Undecide(rule, side.key, c.pos(f.Pos()), "no "+side.prim+" in "+side.fn)
			continue
		}
		// every access is guarded by some comparison with the FlagIndex() result
		var guards []*an.Cond
		for _, i := range an.Ifs(f) {
			cd, cok := an.Classify(i)
			if !cok || cd.Kind != "eq" {
				continue
			}
			if tr.HasOrigin(cd.X, "FlagIndexGetter).FlagIndex") || tr.HasOrigin(cd.Y, "FlagIndexGetter).FlagIndex") {
				guards = append(guards, cd)
			}
		}
		ok := len(guards) > 0
		detail := "no comparison with the FlagIndex() result"
		if ok {
			detail = sprintf("%d flags-word access(es), each reachable only through the equal edge of a comparison with FlagIndex()", len(prims))
			for _, p := range prims {
				guarded := false
				for _, g := range guards {
					if len(an.Guarded(f, []an.Edge{g.EdgeWhen(true)}, []ssa.Instruction{p})) == 0 {
						guarded = true
					}
				}
				if !guarded {
					ok = false
					detail = sprintf("the flags-word access at %s is reachable without the equal edge of any comparison with FlagIndex(): the word (or its placeholder) is not put at the position the schema gives it", c.pos(p.Pos()))
				}
			}
		}
		r.Check(ok, rule, side.key, c.pos(f.Pos()), detail)
	}
}

// noScratchAcrossReentry: the codec walks values recursively (a struct's field is a struct, a vector's element an
// object).  A work list kept in a field of the Encoder / Decoder and filled by one activation is overwritten by
// the nested activation that fills the same storage - the parent then emits (or stores) the child's values.  Per
// method of the receiver type that can re-enter itself: no slice derived from a receiver field (load, reslice,
// append onto it) that this function fills (append / element store) is read after a call that may re-enter the
// function.  A scratch byte buffer used between two non-re-entrant calls is not affected.
func (c *Ctx) noScratchAcrossReentry(rule, recv string) {
	r := c.R
	g := c.Graph()
	var fns []*ssa.Function
	for f := range c.P.AllFunctions() {
		if load.FuncPkgPath(f) != load.TLPkg || f.Synthetic != "" || len(f.Blocks) == 0 || f.Signature.Recv() == nil {
			continue
		}
		if !strings.HasSuffix(f.Signature.Recv().Type().String(), "."+recv) {
			continue
		}
		fns = append(fns, f)
	}
	sort.Slice(fns, func(i, j int) bool { return fns[i].String() < fns[j].String() })
	// a field nothing ever assigns stays nil: append onto it allocates, nothing is shared
	assigned := map[int]bool{}
	for f := range c.P.AllFunctions() {
		if load.FuncPkgPath(f) != load.TLPkg {
			continue
		}
		for _, b := range f.Blocks {
			for _, in := range b.Instrs {
				if st, ok := in.(*ssa.Store); ok {
					if fa, ok := st.Addr.(*ssa.FieldAddr); ok && strings.HasSuffix(fa.X.Type().String(), "."+recv) {
						if k, isK := st.Val.(*ssa.Const); !isK || !k.IsNil() {
							assigned[fa.Field] = true
						}
					}
				}
			}
		}
	}
	n := 0
	for _, f := range fns {
		f := f
		// call sites of f that may come back to f
		var reentry []ssa.Instruction
		for _, b := range f.Blocks {
			for _, in := range b.Instrs {
				ci, ok := in.(ssa.CallInstruction)
				if !ok {
					continue
				}
				for _, callee := range g.CalleesAt(f, ci) {
					if callee == f || g.Reaches(callee, c.inRepo, func(h *ssa.Function) bool { return h == f }) {
						reentry = append(reentry, in)
						break
					}
				}
			}
		}
		if len(reentry) == 0 {
			continue
		}
		n++
		recvParam := f.Params[0]
		// the receiver itself, or the load of the cell go/ssa spills it into when a closure captures it
		isRecv := func(v ssa.Value) bool {
			if v == ssa.Value(recvParam) {
				return true
			}
			ld, ok := v.(*ssa.UnOp)
			if !ok || ld.Op != token.MUL {
				return false
			}
			cell, ok := ld.X.(*ssa.Alloc)
			if !ok {
				return false
			}
			n := 0
			for _, ref := range *cell.Referrers() {
				if st, ok := ref.(*ssa.Store); ok && st.Addr == ssa.Value(cell) {
					n++
					if st.Val != ssa.Value(recvParam) {
						return false
					}
				}
			}
			return n > 0
		}
		memo := map[ssa.Value]bool{}
		var derived func(v ssa.Value) bool
		derived = func(v ssa.Value) bool {
			if d, ok := memo[v]; ok {
				return d
			}
			memo[v] = false
			res := false
			switch x := v.(type) {
			case *ssa.UnOp:
				if fa, ok := x.X.(*ssa.FieldAddr); ok && x.Op == token.MUL && isRecv(fa.X) && assigned[fa.Field] {
					_, isSlice := x.Type().Underlying().(*types.Slice)
					res = isSlice
				}
				// a local captured by a closure lives in a cell: what is loaded is what was stored
				if cell, ok := x.X.(*ssa.Alloc); ok && x.Op == token.MUL {
					for _, ref := range *cell.Referrers() {
						if st, ok := ref.(*ssa.Store); ok && st.Addr == ssa.Value(cell) && derived(st.Val) {
							res = true
						}
					}
				}
			case *ssa.Slice:
				res = derived(x.X)
			case *ssa.ChangeType:
				res = derived(x.X)
			case *ssa.Phi:
				for _, e := range x.Edges {
					if derived(e) {
						res = true
					}
				}
			case *ssa.Call:
				if an.CalleeName(x.Common()) == "builtin:append" && len(x.Call.Args) > 0 {
					res = derived(x.Call.Args[0])
				}
			}
			memo[v] = res
			return res
		}
		var filled, reads []ssa.Instruction
		for _, b := range f.Blocks {
			for _, in := range b.Instrs {
				switch x := in.(type) {
				case *ssa.Call:
					if an.CalleeName(x.Common()) == "builtin:append" && len(x.Call.Args) > 0 && derived(x.Call.Args[0]) {
						filled = append(filled, in)
					}
				case *ssa.Store:
					if ia, ok := x.Addr.(*ssa.IndexAddr); ok && derived(ia.X) {
						filled = append(filled, in)
					}
				case *ssa.UnOp:
					if ia, ok := x.X.(*ssa.IndexAddr); ok && x.Op == token.MUL && derived(ia.X) {
						reads = append(reads, in)
					}
				case *ssa.Range:
					if derived(x.X) {
						reads = append(reads, in)
					}
				}
			}
		}
		var bad []string
		if len(filled) > 0 {
			for _, rd := range reads {
				for _, ce := range reentry {
					if instrAfter(ce, rd) {
						bad = append(bad, sprintf("a list kept in a field of the %s and filled here (%s) is read at %s after the call at %s, which may re-enter %s and fill it again",
							recv, c.pos(filled[0].Pos()), c.pos(rd.Pos()), c.pos(ce.Pos()), f.Name()))
						break
					}
				}
				if len(bad) > 0 {
					break
				}
			}
		}
		r.Check(len(bad) == 0, rule, "no-scratch-across-reentry:"+an.ShortName(f), c.pos(f.Pos()), strings.Join(bad, "; "))
	}
	if n == 0 {
		r.Undecide(rule, "no-scratch-across-reentry", "", "no re-entrant method of "+recv+" found")
	}
}

// instrAfter: b may execute after a (same block later, or b's block reachable from a's block, loops included).
func instrAfter(a, b ssa.Instruction) bool {
	if a.Block() == b.Block() {
		ia, ib := -1, -1
		for i, in := range a.Block().Instrs {
			if in == a {
				ia = i
			}
			if in == b {
				ib = i
			}
		}
		if ib > ia {
			return true
		}
	}
	for _, s := range a.Block().Succs {
		if s == b.Block() || reachesBlock(s, b.Block(), map[*ssa.BasicBlock]bool{}) {
			return true
		}
	}
	return false
}
