package props

import (
	"go/token"
	"os"
	"sort"
	"strings"

	"verif/checker/internal/an"
	"verif/checker/internal/load"

	"golang.org/x/tools/go/ssa"
)

func init() { register("C18", c18) }

// variadicElems returns the values stored into the backing array of a variadic argument.
func variadicElems(arg ssa.Value) []ssa.Value {
	s, ok := arg.(*ssa.Slice)
	if !ok {
		return nil
	}
	al, ok := s.X.(*ssa.Alloc)
	if !ok {
		return nil
	}
	out := map[int64]ssa.Value{}
	max := int64(-1)
	if r := al.Referrers(); r != nil {
		for _, in := range *r {
			ia, ok := in.(*ssa.IndexAddr)
			if !ok {
				continue
			}
			k, ok := an.ConstInt(ia.Index)
			if !ok {
				continue
			}
			if rr := ia.Referrers(); rr != nil {
				for _, in2 := range *rr {
					if st, ok := in2.(*ssa.Store); ok && st.Addr == ia {
						out[k] = st.Val
						if k > max {
							max = k
						}
					}
				}
			}
		}
	}
	var res []ssa.Value
	for i := int64(0); i <= max; i++ {
		res = append(res, out[i])
	}
	return res
}

func c18(c *Ctx) {
	r := c.R
	r.Explanation = "Structural necessary conditions of the SRP answer: (W) every big-integer → bytes conversion on the path to a hash input or to the " +
		"returned A passes the 256-byte left-padding helper, whose body is verified; the server value B is padded before it is hashed; (V) every arithmetic " +
		"step is reachable only through the nil edge of validateCurrentAlgo, whose accepting exit is dominated by 0 < B, B < p and 248 <= len(B) <= 256; the " +
		"empty password returns before anything else and maps to the 'no password' answer; (N) t += p exactly on t < 0; (R) the ephemeral comes from crypto/rand."
	r.NotDecided = []string{"that M1 verifies for the right password and only for it (numerical: needs the SRP equations evaluated)",
		"the PBKDF2 / SHA-256 compositions of x, u, k beyond which values are hashed in which order"}
	r.Rule("R18.W", "every big.Int.Bytes() in the SRP code is left-padded to 256 bytes before it is hashed or returned; B is padded before hashing", 6)
	r.Rule("R18.V", "validation dominates use; its comparisons are 0<B, B<p, 248<=len(B)<=256; empty password returns first and maps to InputCheckPasswordEmpty", 7)
	r.Rule("R18.N", "t.Add(t, p) is executed exactly on the t < 0 edge", 1)
	// a refusal stays a refusal on its way to the caller: in every function between the validation and the exported
	// entry point, once a callee has returned a non-nil error no exit with a nil error is reachable
	r.Rule("R18.X", "per call of the SRP path whose error result is tested: with that error non-nil, no return with a nil error is reachable after the call (the refusal of an out-of-range B is not turned into the 'no password' answer)", 2)
	{
		var fns []*ssa.Function
		for f := range c.P.AllFunctions() {
			if f.Synthetic != "" || len(f.Blocks) == 0 {
				continue
			}
			if load.FuncPkgPath(f) == load.SrpPkg || (load.FuncPkgPath(f) == load.TgPkg && f.Name() == "GetInputCheckPassword") {
				fns = append(fns, f)
			}
		}
		sort.Slice(fns, func(i, j int) bool { return fns[i].String() < fns[j].String() })
		n := 0
		for _, f := range fns {
			n += c.errorsNotDropped("R18.X", f)
		}
		if n == 0 {
			r.Undecide("R18.X", "error-kept", "", "no tested error result found on the SRP path")
		}
		if os.Getenv("VERIF_PROBE_ERRDROP") != "" {
			for f := range c.P.AllFunctions() {
				if c.inRepo(f) && len(f.Blocks) > 0 && f.Synthetic == "" {
					c.errorsNotDropped("R18.X", f)
				}
			}
		}
	}
	// "group parameters that pass the validity checks": whatever else the check of (g, p) tests, it admits every
	// generator the specification allows
	// the 'no password' answer means the password was empty, and nothing else: the (nil, nil) exit of
	// getInputCheckPassword lies behind the equal edge of password == "" (a second disjunct - an empty B, a missing
	// algorithm - would answer 'no password' for values that have to be refused)
	r.Rule("R18.Y", "every return of getInputCheckPassword with a nil answer and a nil error is reachable only through the equal edge of the test password == \"\"", 1)
	if f := c.fn("R18.Y", load.SrpPkg, "", "getInputCheckPassword"); f != nil && len(f.Params) >= 1 {
		var pass []an.Edge
		for _, i := range an.Ifs(f) {
			cd, ok := an.Classify(i)
			if ok && cd.Kind == "eq" && ((cd.X == ssa.Value(f.Params[0]) && isConstString(cd.Y, "")) || (cd.Y == ssa.Value(f.Params[0]) && isConstString(cd.X, ""))) {
				pass = append(pass, cd.EdgeWhen(true))
			}
		}
		var exits []ssa.Instruction
		for _, b := range f.Blocks {
			for _, in := range b.Instrs {
				if ret, ok := an.AsReturn(in); ok && len(ret.Results) == 2 && an.MayReturnNil(ret, 0) && an.MayReturnNil(ret, 1) {
					exits = append(exits, in)
				}
			}
		}
		if len(pass) == 0 || len(exits) == 0 {
			r.Undecide("R18.Y", "no-password:only-for-the-empty-password", c.pos(f.Pos()), sprintf("%d test(s) of password == \"\", %d (nil, nil) exit(s)", len(pass), len(exits)))
		} else {
			un := an.Guarded(f, pass, exits)
			r.Check(len(un) == 0, "R18.Y", "no-password:only-for-the-empty-password", c.pos(exits[0].Pos()), sprintf("%d (nil, nil) exit(s), %d reachable without the password having been found empty", len(exits), len(un)))
		}
	}
	r.Rule("R18.G", "for g = 2..7 the group check dhHandshakeCheckConfigIsError can answer false (not an error) when its tests of g against constants are decided for that value", 6)
	if f := c.fn("R18.G", load.SrpPkg, "", "dhHandshakeCheckConfigIsError"); f != nil && len(f.Params) >= 1 {
		isG := func(v ssa.Value) bool {
			for {
				cv, ok := v.(*ssa.Convert)
				if !ok {
					break
				}
				v = cv.X
			}
			return v == ssa.Value(f.Params[0])
		}
		for g := int64(2); g <= 7; g++ {
			g := g
			decide := func(i *ssa.If) (int, bool) {
				cd, ok := an.Classify(i)
				if !ok || (cd.Kind != "eq" && cd.Kind != "ord") {
					return 0, false
				}
				x, y, rel := cd.X, cd.Y, cd.Rel
				k, isK := an.ConstInt(y)
				if !(isG(x) && isK) {
					k2, isK2 := an.ConstInt(x)
					if !(isK2 && isG(y)) {
						return 0, false
					}
					k = k2
					rel = map[string]string{"<": ">", "<=": ">=", ">": "<", ">=": "<=", "": ""}[rel]
				}
				if cd.Kind == "eq" {
					return cd.EdgeWhen(g == k).Succ, true
				}
				holds := map[string]bool{"<": g < k, "<=": g <= k, ">": g > k, ">=": g >= k}[rel]
				if holds {
					return 0, true
				}
				return 1, true
			}
			reach, exec := an.ReachExec(f, nil, decide)
			admits := false
			for _, b := range f.Blocks {
				if !reach[b] {
					continue
				}
				for _, in := range b.Instrs {
					if ret, ok := an.AsReturn(in); ok && len(ret.Results) == 1 {
						if v := boolAlong(an.RetVal(ret, 0), exec, 0); v != "true" {
							admits = true
						}
					}
				}
			}
			r.Check(admits, "R18.G", sprintf("generator:g=%d", g), c.pos(f.Pos()), sprintf("with the tests of g decided for g = %d every reachable return answers true (invalid): an account on a group with this generator gets no SRP answer", g))
		}
	}
	r.Rule("R18.B", "no function of package srp writes through a []byte parameter (salts, the password, B come from the caller's objects and are used again): no element store, copy, append onto it, nor a callee that does", 8)
	c.paramsUntouched("R18.B", load.SrpPkg, nil)
	r.Rule("R18.R", "the SRP ephemeral is drawn from crypto/rand", 1)
	r.Rule("R18.E", "SRP formulas: the expressions extracted for A and M1 (through x, v, k, k_v, t, u, s_a, k_a) are the ones of the SRP document, operand for operand", 2)
	if c.verifySummaries("R18.E") {
		c.srpFormulas("R18.E")
		c.srpWrapper("R18.E")
	}

	in := c.fn("R18.W", load.SrpPkg, "", "getInputCheckPassword")
	if in == nil {
		return
	}
	tr := an.NewTracer()
	// ---- W -----------------------------------------------------------------------------------------
	sites := c.widthSites(func(f *ssa.Function) bool { return pkgIn(f, load.SrpPkg) })
	c.reportWidth("R18.W", sites)
	if pad := c.fn("R18.W", load.SrpPkg, "", "pad256"); pad != nil {
		c.checkPadHelper("R18.W", pad)
		// width constant of pad256 = 256 everywhere
		okK := true
		for _, b := range pad.Blocks {
			for _, ins := range b.Instrs {
				var ops []*ssa.Value
				for _, op := range ins.Operands(ops) {
					if k, ok := an.ConstInt(*op); ok && k != 256 && k != 0 && k != 1 {
						okK = false
					}
				}
			}
		}
		r.Check(okK, "R18.W", "sanitiser-width:srp.pad256", c.pos(pad.Pos()), "every width constant in pad256 is 256")
	}
	// hash inputs derived from a big integer or from the server's B are padded
	nHash := 0
	for _, cs := range an.CallsNamed(in, load.SrpPkg+".calcSHA256") {
		if len(cs.Common.Args) != 1 {
			continue
		}
		for k, el := range variadicElems(cs.Common.Args[0]) {
			if el == nil {
				continue
			}
			d := an.NewDeps(nil).Of(el)
			fromBig := d.Has("(*math/big.Int).Bytes")
			fromB := d.Has("param:" + load.SrpPkg + ".getInputCheckPassword#1")
			if !fromBig && !fromB {
				continue
			}
			nHash++
			key := sprintf("hash-input#%d", nHash)
			r.Check(fixedWidthValue(el, 0), "R18.W", key, c.pos(cs.Pos()), sprintf("element %d of the hash input: %s", k, simplifyOrigin(tr.OriginString(el))))
		}
	}
	// returned A
	for _, b := range in.Blocks {
		for _, ins := range b.Instrs {
			if st, ok := ins.(*ssa.Store); ok {
				if fa, ok := st.Addr.(*ssa.FieldAddr); ok && an.FieldName(fa.X.Type(), fa.Field) == "srp.SrpAnswer.GA" {
					o := tr.OriginString(st.Val)
					r.Check(fixedWidthValue(st.Val, 0), "R18.W", "answer:GA", c.pos(st.Pos()), simplifyOrigin(o))
				}
			}
		}
	}

	// ---- V -----------------------------------------------------------------------------------------
	var effects []ssa.Instruction
	for _, cs := range an.Calls(in) {
		if strings.HasPrefix(cs.Name, load.SrpPkg+".") && cs.Name != load.SrpPkg+".validateCurrentAlgo" || strings.HasPrefix(cs.Name, "(*math/big.Int).") {
			effects = append(effects, cs.Instr)
		}
	}
	var vGuard, emptyGuard *an.Cond
	for _, i := range an.Ifs(in) {
		cd, ok := an.Classify(i)
		if !ok {
			continue
		}
		if cd.Kind == "nil" && tr.HasOrigin(cd.X, "call:"+load.SrpPkg+".validateCurrentAlgo") {
			vGuard = cd
		}
		if cd.Kind == "eq" && (isParam(cd.X, in, 0) && isConstString(cd.Y, "") || isParam(cd.Y, in, 0) && isConstString(cd.X, "")) {
			emptyGuard = cd
		}
	}
	if vGuard == nil {
		r.Violate("R18.V", "validate-first", c.pos(in.Pos()), "no `validateCurrentAlgo(...) == nil` test in getInputCheckPassword")
	} else {
		un := an.Guarded(in, []an.Edge{vGuard.EdgeWhen(true)}, effects)
		r.Check(len(un) == 0 && len(effects) > 10, "R18.V", "validate-first", c.pos(vGuard.If.Cond.Pos()), sprintf("%d arithmetic/hash steps, %d reachable without the nil edge of validateCurrentAlgo", len(effects), len(un)))
		// the validated values are the used ones
		for _, cs := range an.CallsNamed(in, load.SrpPkg+".validateCurrentAlgo") {
			ok := len(cs.Common.Args) == 2 && isParam(cs.Common.Args[0], in, 1) && isParam(cs.Common.Args[1], in, 2)
			r.Check(ok, "R18.V", "validate-args", c.pos(cs.Pos()), "validateCurrentAlgo(srpB, mp) is applied to the same B and group that are used")
		}
	}
	if emptyGuard == nil {
		r.Violate("R18.V", "empty-password-first", c.pos(in.Pos()), "no `password == \"\"` test")
	} else {
		all := append([]ssa.Instruction{}, effects...)
		for _, cs := range an.CallsNamed(in, load.SrpPkg+".validateCurrentAlgo") {
			all = append(all, cs.Instr)
		}
		un := an.Guarded(in, []an.Edge{emptyGuard.EdgeWhen(false)}, all)
		r.Check(len(un) == 0, "R18.V", "empty-password-first", c.pos(emptyGuard.If.Cond.Pos()), sprintf("%d steps reachable with an empty password", len(un)))
	}
	if v := c.fn("R18.V", load.SrpPkg, "", "validateCurrentAlgo"); v != nil {
		c18Validate(c, v, tr)
	}
	// the 'no password' mapping in package telegram
	if g := c.fn("R18.V", load.TgPkg, "", "GetInputCheckPassword"); g != nil {
		found := false
		for _, i := range an.Ifs(g) {
			cd, ok := an.Classify(i)
			if !ok || cd.Kind != "nil" || !tr.HasOrigin(cd.X, "call:"+load.SrpPkg+".GetInputCheckPassword#0") {
				continue
			}
			found = true
			blk := cd.EdgeWhen(true).To()
			okRet := false
			for _, ins := range blk.Instrs {
				if ret, ok := an.AsReturn(ins); ok && len(ret.Results) == 2 && strings.Contains(tr.OriginString(an.RetVal(ret, 0)), "alloc:telegram.InputCheckPasswordEmpty") {
					okRet = true
				}
			}
			r.Check(okRet, "R18.V", "empty-password-answer", c.pos(i.Cond.Pos()), "a nil SRP answer is returned as &InputCheckPasswordEmpty{}")
		}
		if !found {
			r.Violate("R18.V", "empty-password-answer", c.pos(g.Pos()), "no `res == nil` test on the SRP answer")
		}
	}

	// ---- N -----------------------------------------------------------------------------------------
	foundN := false
	for _, i := range an.Ifs(in) {
		cd, ok := an.Classify(i)
		if !ok || cd.Kind != "cmp" {
			continue
		}
		// t.Sub(t,kv).Cmp(0): relation of t to 0
		rel := cd.Rel
		zeroY := strings.HasPrefix(tr.OriginString(cd.Y), "const:0")
		zeroX := strings.HasPrefix(tr.OriginString(cd.X), "const:0")
		if !zeroY && !zeroX {
			continue
		}
		if zeroX {
			rel = map[string]string{"<": ">", "<=": ">=", ">": "<", ">=": "<=", "==": "==", "!=": "!="}[rel]
		}
		var negEdge an.Edge
		switch rel {
		case "<":
			negEdge = an.Edge{From: i.Block(), Succ: 0}
		case ">=":
			negEdge = an.Edge{From: i.Block(), Succ: 1}
		default:
			continue
		}
		var adds []ssa.Instruction
		for _, ins := range negEdge.To().Instrs {
			if call, ok := ins.(ssa.CallInstruction); ok && an.CalleeName(call.Common()) == "(*math/big.Int).Add" {
				adds = append(adds, ins)
			}
		}
		if len(adds) == 0 {
			continue
		}
		foundN = true
		un := an.Guarded(in, []an.Edge{negEdge}, adds)
		a := adds[0].(ssa.CallInstruction).Common().Args
		sameT := len(a) == 3 && a[0] == a[1]
		r.Check(len(un) == 0 && sameT, "R18.N", "normalise-negative-t", c.pos(i.Cond.Pos()), "t.Add(t, p) sits on the t < 0 edge only")
	}
	if !foundN {
		r.Violate("R18.N", "normalise-negative-t", c.pos(in.Pos()), "no `t < 0 → t += p` normalisation found")
	}

	// ---- R -----------------------------------------------------------------------------------------
	if pub := c.fn("R18.R", load.SrpPkg, "", "GetInputCheckPassword"); pub != nil {
		okR := false
		for _, cs := range an.CallsNamed(pub, load.SrpPkg+".getInputCheckPassword") {
			if len(cs.Common.Args) == 4 {
				d := an.NewDeps(c.inRepoOrDry).Of(cs.Common.Args[3])
				okR = d.Has("crypto/rand.") && !d.Has("math/rand")
			}
		}
		r.Check(okR, "R18.R", "ephemeral-source", c.pos(pub.Pos()), "the random argument derives from crypto/rand only (details under C19)")
	}
}

// fixedWidthValue: a pad256 result, a SHA-256 digest, or a byte-wise combination (go-dry BytesXor) of such values.
func fixedWidthValue(v ssa.Value, depth int) bool {
	call, ok := v.(*ssa.Call)
	if !ok || depth > 4 {
		return false
	}
	switch n := an.CalleeName(call.Common()); {
	case n == load.SrpPkg+".pad256", n == load.SrpPkg+".calcSHA256":
		return true
	case strings.HasSuffix(n, "go-dry.BytesXor"):
		for _, a := range call.Call.Args {
			if !fixedWidthValue(a, depth+1) {
				return false
			}
		}
		return true
	}
	return false
}

func isParam(v ssa.Value, f *ssa.Function, idx int) bool {
	return idx < len(f.Params) && v == ssa.Value(f.Params[idx])
}

func isConstString(v ssa.Value, s string) bool {
	k, ok := v.(*ssa.Const)
	return ok && k.Value != nil && k.Value.ExactString() == `"`+s+`"`
}

func c18Validate(c *Ctx, v *ssa.Function, tr *an.Tracer) {
	r := c.R
	var nilRets []ssa.Instruction
	for _, b := range v.Blocks {
		for _, in := range b.Instrs {
			if ret, ok := an.AsReturn(in); ok && len(ret.Results) == 1 && an.MayReturnNil(ret, 0) {
				nilRets = append(nilRets, ret)
			}
		}
	}
	isB := func(val ssa.Value) bool { // bytesToBig(srpB)
		call, ok := val.(*ssa.Call)
		return ok && an.CalleeName(call.Common()) == load.SrpPkg+".bytesToBig" && isParam(call.Call.Args[0], v, 0)
	}
	isP := func(val ssa.Value) bool {
		call, ok := val.(*ssa.Call)
		return ok && an.CalleeName(call.Common()) == load.SrpPkg+".bytesToBig" && strings.Contains(tr.OriginString(call.Call.Args[0]), "srp.ModPow.P")
	}
	isZero := func(val ssa.Value) bool { return strings.HasPrefix(tr.OriginString(val), "const:0") }
	isLenB := func(val ssa.Value) bool { return an.IsLenOf(val, func(x ssa.Value) bool { return isParam(x, v, 0) }) }
	type row struct {
		name string
		edge *an.Edge
	}
	rows := []*row{{name: "0<B"}, {name: "B<p"}, {name: "len(B)>=248"}, {name: "len(B)<=256"}}
	// edgeWhere returns the edge of `i` on which `X rel Y` holds, given the relation that holds when the condition is true
	edgeWhere := func(i *ssa.If, relTrue, want string) *an.Edge {
		if relTrue == want {
			return &an.Edge{From: i.Block(), Succ: 0}
		}
		neg := map[string]string{"<": ">=", ">=": "<", ">": "<=", "<=": ">"}
		if neg[relTrue] == want {
			return &an.Edge{From: i.Block(), Succ: 1}
		}
		return nil
	}
	flip := map[string]string{"<": ">", ">": "<", "<=": ">=", ">=": "<=", "==": "==", "!=": "!="}
	for _, i := range an.Ifs(v) {
		cd, ok := an.Classify(i)
		if !ok {
			continue
		}
		switch cd.Kind {
		case "cmp":
			switch {
			case isZero(cd.X) && isB(cd.Y):
				rows[0].edge = edgeWhere(i, cd.Rel, "<")
			case isB(cd.X) && isZero(cd.Y):
				rows[0].edge = edgeWhere(i, flip[cd.Rel], "<")
			case isB(cd.X) && isP(cd.Y):
				rows[1].edge = edgeWhere(i, cd.Rel, "<")
			case isP(cd.X) && isB(cd.Y):
				rows[1].edge = edgeWhere(i, flip[cd.Rel], "<")
			}
		case "ord":
			if !isLenB(cd.X) {
				continue
			}
			k, ok := an.ConstInt(cd.Y)
			if !ok {
				continue
			}
			switch {
			case k == 248 && (cd.Rel == "<" || cd.Rel == ">="):
				rows[2].edge = edgeWhere(i, cd.Rel, ">=")
			case k == 247 && (cd.Rel == "<=" || cd.Rel == ">"):
				rows[2].edge = edgeWhere(i, cd.Rel, ">")
			case k == 256 && (cd.Rel == ">" || cd.Rel == "<="):
				rows[3].edge = edgeWhere(i, cd.Rel, "<=")
			case k == 257 && (cd.Rel == ">=" || cd.Rel == "<"):
				rows[3].edge = edgeWhere(i, cd.Rel, "<")
			}
		}
	}
	for _, rw := range rows {
		if rw.edge == nil {
			r.Violate("R18.V", "range:"+rw.name, c.pos(v.Pos()), "validateCurrentAlgo has no test "+rw.name)
			continue
		}
		un := an.Guarded(v, []an.Edge{*rw.edge}, nilRets)
		r.Check(len(un) == 0 && len(nilRets) > 0, "R18.V", "range:"+rw.name, c.pos(v.Pos()), sprintf("%d accepting exits, %d reachable without %s", len(nilRets), len(un), rw.name))
	}
}

// errorsNotDropped: for every call in f whose last result is an error that f tests against nil: on the paths that
// leave the call with the tests of that error answering "non-nil", no return whose error result is the nil constant
// is reachable.
func (c *Ctx) errorsNotDropped(rule string, f *ssa.Function) int {
	r := c.R
	n := 0
	if fr := f.Signature.Results(); fr.Len() == 0 || fr.At(fr.Len()-1).Type().String() != "error" {
		return 0 // nothing to report success with
	}
	for _, cs := range an.Calls(f) {
		call, ok := cs.Instr.(*ssa.Call)
		if !ok {
			continue
		}
		res := call.Call.Signature().Results()
		if res.Len() == 0 || res.At(res.Len()-1).Type().String() != "error" {
			continue
		}
		var errv ssa.Value
		if res.Len() == 1 {
			errv = call
		} else {
			for _, ref := range *call.Referrers() {
				if ex, ok := ref.(*ssa.Extract); ok && ex.Index == res.Len()-1 {
					errv = ex
				}
			}
		}
		if errv == nil {
			continue
		}
		// the edges taken when the error is nil (the error itself, or its reload from the cell a named result
		// lives in when a deferred closure captures it)
		sameErr := func(x ssa.Value) bool {
			if x == errv {
				return true
			}
			ld, ok := x.(*ssa.UnOp)
			if !ok || ld.Op != token.MUL {
				return false
			}
			cell, ok := ld.X.(*ssa.Alloc)
			if !ok {
				return false
			}
			var last ssa.Value
			for _, in := range ld.Block().Instrs {
				if in == ssa.Instruction(ld) {
					break
				}
				if st, ok := in.(*ssa.Store); ok && st.Addr == ssa.Value(cell) {
					last = st.Val
				}
			}
			return last == errv
		}
		cut := map[an.Edge]bool{}
		for _, i := range an.Ifs(f) {
			cd, ok := an.Classify(i)
			if ok && cd.Kind == "nil" && sameErr(cd.X) {
				cut[cd.EdgeWhen(true)] = true
			}
		}
		if len(cut) == 0 {
			continue
		}
		n++
		var bad []string
		for _, ret := range an.NilReturnsAfterFailure(f, call.Block(), sameErr, cut) {
			bad = append(bad, "the return at "+c.pos(ret.Pos())+" reports success although "+shortCallee(cs.Name)+" has failed")
		}
		key := an.ShortName(f) + "/" + shortCallee(cs.Name)
		if why, ok := absorbedErrors[key]; ok && len(bad) > 0 {
			r.Hold(rule, sprintf("error-kept:%s#%d", key, n), c.pos(cs.Pos()), "absorbed on purpose: "+why)
			continue
		}
		r.Check(len(bad) == 0, rule, sprintf("error-kept:%s#%d", key, n), c.pos(cs.Pos()), strings.Join(bad, "; "))
	}
	return n
}

// absorbedErrors: the call sites of the repository where a failure of the callee is, by design, not a failure of the
// caller (read and confirmed one by one; every other tested error must reach the caller).
var absorbedErrors = map[string]string{
	"internal/encoding/tl.parseTag/(*github.com/fatih/structtag.Tags).Get":                "a field without a tl tag has no options: not an error",
	"(*mtproto.MTProto).processResponse/(*mtproto.MTProto).SaveSession":                   "new_session_created: a failed save is reported on the Warnings channel and the loop goes on (C16)",
	"(*telegram.Client).IsSessionRegistred/(*telegram.Client).UsersGetFullUser":           "a 401 answer is the negative answer of the question asked",
	"internal/cmd/tlgen/tlparser.ParseSchema/internal/cmd/tlgen/tlparser.parseDefinition": "io.EOF ends the schema, errExcluded skips a built-in definition",
	"mtproto.NewMTProto/invoke:(internal/session.SessionLoader).Load":                     "NotFound means a fresh client without a stored session",
	"internal/keys.pemBytesToRsa/crypto/x509.ParsePKCS1PublicKey":                         "falls back to the PKIX form of the key",
}

// errorsKept: the error-propagation rule over a region: one obligation per call of a region function whose error
// result the function tests - with that error present, no exit of the function reports success.
func (c *Ctx) errorsKept(rule, what string, floor int, pred func(f *ssa.Function) bool) {
	r := c.R
	r.Rule(rule, "error discipline of "+what+": for every call whose error result is tested, no return with a nil error is reachable on the paths where that error is non-nil (the absorbed errors are an explicit table of six call sites with reasons)", floor)
	var fns []*ssa.Function
	for f := range c.P.AllFunctions() {
		if f.Synthetic != "" || len(f.Blocks) == 0 || !c.inRepo(f) || !pred(f) {
			continue
		}
		fns = append(fns, f)
	}
	sort.Slice(fns, func(i, j int) bool { return fns[i].String() < fns[j].String() })
	n := 0
	for _, f := range fns {
		n += c.errorsNotDropped(rule, f)
	}
	if n == 0 {
		r.Undecide(rule, "error-kept", "", "no tested error result found in "+what)
	}
}

func inPkgs(pkgs ...string) func(f *ssa.Function) bool {
	return func(f *ssa.Function) bool {
		pp := load.FuncPkgPath(f)
		for _, p := range pkgs {
			if pp == p {
				return true
			}
		}
		return false
	}
}

func rootMethods(names ...string) func(f *ssa.Function) bool {
	return func(f *ssa.Function) bool {
		if load.FuncPkgPath(f) != load.RootMod {
			return false
		}
		top := f
		for top.Parent() != nil {
			top = top.Parent()
		}
		for _, n := range names {
			if top.Name() == n {
				return true
			}
		}
		return false
	}
}
