package props

import (
	"strings"

	"verif/checker/internal/an"
	"verif/checker/internal/load"
	"verif/checker/internal/rep"

	"golang.org/x/tools/go/ssa"
)

func init() { register("C04", c04) }

// residueReach: for each residue r of (value & 3), force the branches whose condition is evaluable under
// atom(v)=r and report whether target stays reachable.
func residueReach(fn *ssa.Function, isAtom func(ssa.Value) bool, target ssa.Instruction) (map[int64]bool, bool) {
	any, _, used := residueReachSigned(fn, isAtom, target)
	return any, used
}

// residueReachSigned evaluates the function's control skeleton for msg_ids of every residue class of the two low
// bits, positive, small negative and with only the top bit set (a msg_id of 2038 and later is negative as int64):
// any[r]: the target is reachable for some id of class r; all[r]: for every id of class r.
func residueReachSigned(fn *ssa.Function, isAtom func(ssa.Value) bool, target ssa.Instruction) (any, all map[int64]bool, used bool) {
	any, all = map[int64]bool{}, map[int64]bool{}
	for r := int64(0); r < 4; r++ {
		all[r] = true
		for _, id := range []int64{r, r + 4, r - 4, r - 1<<32, -1<<63 + r, 1<<62 + r} {
			id := id
			reach := an.ReachWith(fn, nil, func(i *ssa.If) (int, bool) {
				v, ok := an.EvalCond(i.Cond, func(x ssa.Value) (int64, bool) {
					if isAtom(x) {
						return id, true
					}
					return 0, false
				})
				if !ok {
					return 0, false
				}
				used = true
				if v {
					return 0, true
				}
				return 1, true
			})
			if reach[target.Block()] {
				any[r] = true
			} else {
				all[r] = false
			}
		}
	}
	return
}

func c04(c *Ctx) {
	r := c.R
	r.Explanation = "Acceptance of an incoming packet is a dominance fact: in DeserializeEncrypted the only value-returning exit is edge-dominated by the key-id " +
		"comparison, by the msg_key comparison over exactly decrypted[0:32+len] with the packet's own msg_key, and is reachable only for msg_id residues {1,3}; " +
		"every allocation or slice sized by packet data (ciphertext length len(data)-24, digest window 32+len, body length) is checked on a boundary grid of " +
		"(len(data), len(decrypted), declared length) by forcing the function's evaluable branches and requiring the bound wherever the site stays reachable " +
		"(int32 wrap-around modelled). The unencrypted reader and transport.ReadMsg are checked the same way."
	r.NotDecided = []string{"'every single-bit flip is refused' beyond the fact that acceptance requires the SHA-1 comparison over exactly the returned bytes (modulo SHA-1 collisions)",
		"the sticky decoder error after the inner Pop*s is never consulted: with the length bound in place it cannot cause acceptance (recorded as an assumption)"}
	c.errorsKept("R04.X", "the packet path (messages, transport, mode, aes_ige): a refusal stays a refusal", 8, inPkgs(load.MsgPkg, load.TransPkg, load.ModePkg, load.IgePkg))
	// which parser a frame goes to is decided by the frame: a packet with a non-zero key id is never read as a plain
	// message (the plain parser does not look at the key id at all), whatever state the session is in
	r.Rule("R04.R", "transport.ReadMsg hands a frame to DeserializeUnencrypted only behind the false result of isPacketEncrypted(frame): session state (no key yet) does not route an altered or foreign key id to the parser that ignores it", 1)
	if f := c.fn("R04.R", load.TransPkg, "*transport", "ReadMsg"); f != nil {
		var pass []an.Edge
		for _, i := range an.Ifs(f) {
			cd, ok := an.Classify(i)
			if ok && cd.Kind == "call:"+load.TransPkg+".isPacketEncrypted" {
				pass = append(pass, cd.EdgeWhen(false))
			}
		}
		var plain []ssa.Instruction
		for _, cs := range an.Calls(f) {
			if strings.HasSuffix(cs.Name, "messages.DeserializeUnencrypted") {
				plain = append(plain, cs.Instr)
			}
		}
		if len(pass) == 0 || len(plain) == 0 {
			r.Undecide("R04.R", "route:by-the-packet", c.pos(f.Pos()), sprintf("%d test(s) of isPacketEncrypted, %d call(s) of the plain parser", len(pass), len(plain)))
		} else {
			un := an.Guarded(f, pass, plain)
			r.Check(len(un) == 0, "R04.R", "route:by-the-packet", c.pos(plain[0].Pos()), sprintf("%d call(s) of the plain parser, %d reachable without the packet having been found unencrypted", len(plain), len(un)))
		}
	}

	r.Rule("R04.G", "acceptance guards: key id, msg_key over decrypted[0:32+len], msg_id parity {1,3} (encrypted, plain, transport), exact length of plain packets, errors propagated, body = declared-length bytes", 9)
	r.Rule("R04.B", "every allocation / slice sized by packet data is bounded on all reachable grid points (negative, oversized, truncated)", 3)
	r.Rule("R04.E", "every exit of the three readers that returns no message returns a certainly non-nil error", 12)
	tr := an.NewTracer()
	c04Refusals(c)
	r.Rule("R04.P", "every panic-capable operation (slice, index, allocation, assertion, explicit panic) reachable from the packet readers — transport.ReadMsg, both deserialisers, the IGE wrappers and block loops — is discharged by a checked side condition or accepted with a reason", 5)
	defer c04Census(c)

	f := c.fn("R04.G", load.MsgPkg, "", "DeserializeEncrypted")
	if f != nil {
		var succ []ssa.Instruction
		for _, p := range successPaths(f, 0) {
			succ = append(succ, p.Ret)
		}
		succ = dedupInstr(succ)
		if len(succ) == 0 {
			r.Undecide("R04.G", "enc:success-exit", c.pos(f.Pos()), "no value-returning exit")
		}
		g1, g2 := false, false
		for _, i := range an.Ifs(f) {
			cd, ok := an.Classify(i)
			if !ok || cd.Kind != "bytes.Equal" {
				continue
			}
			xo, yo := tr.OriginString(cd.X), tr.OriginString(cd.Y)
			un := an.Guarded(f, []an.Edge{cd.EdgeWhen(true)}, succ)
			switch {
			case strings.Contains(xo+yo, "utils.AuthKeyHash"):
				// the other operand: first 8 bytes of the packet; AuthKeyHash of the authKey parameter
				okOps := false
				for _, pair := range [][2]ssa.Value{{cd.X, cd.Y}, {cd.Y, cd.X}} {
					if call, ok := pair[0].(*ssa.Call); ok && an.CalleeName(call.Common()) == load.UtilsPkg+".AuthKeyHash" && isParam(call.Call.Args[0], f, 1) {
						if pc, ok := pair[1].(*ssa.Call); ok && strings.HasSuffix(an.CalleeName(pc.Common()), ".PopRawBytes") {
							if k, ok := an.ConstInt(pc.Call.Args[1]); ok && k == 8 {
								okOps = true
							}
						}
					}
				}
				g1 = true
				r.Check(okOps && len(un) == 0, "R04.G", "enc:key-id", c.pos(i.Cond.Pos()), sprintf("first 8 bytes vs AuthKeyHash(authKey): operands ok=%v, %d exits reachable without the equal edge", okOps, len(un)))
			case strings.Contains(xo+yo, "Sha1") || strings.Contains(xo+yo, "aes_ige.MessageKey"):
				w := ""
				for _, pair := range [][2]ssa.Value{{cd.X, cd.Y}, {cd.Y, cd.X}} {
					if s := shaWindow(pair[0], tr, f); s != "" {
						w = s
						if !strings.Contains(tr.OriginString(pair[1]), "PopRawBytes") {
							w = "the digest is not compared with the packet's msg_key: " + tr.OriginString(pair[1])
						}
					}
				}
				g2 = true
				r.Check(strings.HasPrefix(w, "ok") && len(un) == 0, "R04.G", "enc:msg-key", c.pos(i.Cond.Pos()), sprintf("%s; %d exits reachable without the equal edge", w, len(un)))
			}
		}
		if !g1 {
			r.Violate("R04.G", "enc:key-id", c.pos(f.Pos()), "no comparison of the packet's key id with AuthKeyHash(authKey)")
		}
		if !g2 {
			r.Violate("R04.G", "enc:msg-key", c.pos(f.Pos()), "no comparison of SHA1(decrypted[0:32+len])[4:20] with the packet's msg_key")
		}
		// the returned body is the declared-length slice of the verified window: PopRawBytes(int(messageLen)) after 32 bytes of header
		// parity
		if len(succ) > 0 {
			isID := func(v ssa.Value) bool {
				call, ok := v.(*ssa.Call)
				if ok && strings.HasSuffix(an.CalleeName(call.Common()), ".PopLong") {
					return strings.Contains(c.destLabel(tr, call), "messages.Encrypted.MsgID")
				}
				if ld, ok := v.(*ssa.UnOp); ok {
					return strings.Contains(tr.OriginString(ld), "PopLong") && strings.Contains(an.NewTracerNoAlloc().OriginString(ld), "messages.Encrypted.MsgID")
				}
				return false
			}
			res, used := residueReach(f, isID, succ[0])
			okPar := used && !res[0] && res[1] && !res[2] && res[3]
			r.Check(okPar, "R04.G", "enc:msg-id-parity", c.pos(f.Pos()), sprintf("accepting exit reachable for msg_id mod 4 = %v (must be exactly {1,3})", residues(res)))
		}
		// the body handed out is exactly the declared-length part of the window msg_key covers (not "the rest")
		nBody := 0
		for _, b := range f.Blocks {
			for _, in := range b.Instrs {
				st, ok := in.(*ssa.Store)
				if !ok {
					continue
				}
				fa, ok := st.Addr.(*ssa.FieldAddr)
				if !ok || an.FieldName(fa.X.Type(), fa.Field) != "messages.Encrypted.Msg" {
					continue
				}
				nBody++
				okBody := false
				detail := tr.OriginString(st.Val)
				if call, ok := st.Val.(*ssa.Call); ok && strings.HasSuffix(an.CalleeName(call.Common()), "tl.Decoder).PopRawBytes") && len(call.Call.Args) == 2 {
					so := tr.OriginString(call.Call.Args[1])
					okBody = strings.Contains(so, "tl.Decoder).PopInt") || strings.Contains(so, "tl.Decoder).PopUint")
					detail = "PopRawBytes(" + simplifyOrigin(so) + ")"
				}
				r.Check(okBody, "R04.G", "enc:body-is-declared-length", c.pos(st.Pos()), "Encrypted.Msg ← "+simplifyOrigin(detail)+": the body must be the declared number of bytes after the header — everything behind 32+len (padding, appended blocks) is not covered by msg_key")
			}
		}
		if nBody == 0 {
			r.Undecide("R04.G", "enc:body-is-declared-length", c.pos(f.Pos()), "no store to Encrypted.Msg in DeserializeEncrypted")
		}
		c04Bounds(c, f, tr)
	}
	if f := c.fn("R04.G", load.MsgPkg, "", "DeserializeUnencrypted"); f != nil {
		var succ []ssa.Instruction
		for _, p := range successPaths(f, 0) {
			succ = append(succ, p.Ret)
		}
		succ = dedupInstr(succ)
		if len(succ) > 0 {
			isID := func(v ssa.Value) bool {
				call, ok := v.(*ssa.Call)
				if ok && strings.HasSuffix(an.CalleeName(call.Common()), ".PopLong") {
					return true
				}
				if ld, ok := v.(*ssa.UnOp); ok {
					return strings.Contains(tr.OriginString(ld), "PopLong")
				}
				return false
			}
			res, used := residueReach(f, isID, succ[0])
			r.Check(used && !res[0] && res[1] && !res[2] && res[3], "R04.G", "plain:msg-id-parity", c.pos(f.Pos()), sprintf("accepting exit reachable for msg_id mod 4 = %v", residues(res)))
			// exact length
			grid := [][2]int64{{20, 0}, {24, 4}, {24, 0}, {24, 8}, {20, -1}, {1 << 20, 1<<20 - 20}, {100, 1 << 31}}
			var bad []string
			for _, g := range grid {
				n, m := g[0], g[1]
				reach := an.ReachWith(f, nil, func(i *ssa.If) (int, bool) {
					v, ok := an.EvalCond(i.Cond, func(x ssa.Value) (int64, bool) {
						if an.IsLenOf(x, func(y ssa.Value) bool { return isParam(y, f, 0) }) {
							return n, true
						}
						if call, ok := x.(*ssa.Call); ok && strings.HasSuffix(an.CalleeName(call.Common()), ".PopUint") {
							return int64(uint32(m)), true
						}
						return 0, false
					})
					if !ok {
						return 0, false
					}
					if v {
						return 0, true
					}
					return 1, true
				})
				accepted := reach[succ[0].Block()]
				if accepted != (n-20 == int64(uint32(m))) {
					bad = append(bad, sprintf("len(data)=%d declared=%d accepted=%v", n, m, accepted))
				}
			}
			r.Check(len(bad) == 0, "R04.G", "plain:exact-length", c.pos(f.Pos()), "grid of (len(data), declared): "+strings.Join(bad, "; "))
		}
	}
	if f := c.fn("R04.G", load.TransPkg, "*transport", "ReadMsg"); f != nil {
		var succ []ssa.Instruction
		for _, p := range successPaths(f, 0) {
			succ = append(succ, p.Ret)
		}
		succ = dedupInstr(succ)
		if len(succ) == 0 {
			r.Undecide("R04.G", "transport:success-exit", c.pos(f.Pos()), "no value-returning exit")
		} else {
			isID := func(v ssa.Value) bool {
				call, ok := v.(*ssa.Call)
				return ok && call.Common().IsInvoke() && call.Common().Method.Name() == "GetMsgID"
			}
			res, used := residueReach(f, isID, succ[0])
			r.Check(used && !res[0] && res[1] && !res[2] && res[3], "R04.G", "transport:msg-id-parity", c.pos(f.Pos()), sprintf("accepting exit reachable for msg_id mod 4 = %v", residues(res)))
			// parse errors are propagated: the success exit is guarded by the nil edge of the Deserialize* error
			okErr := false
			for _, i := range an.Ifs(f) {
				cd, ok := an.Classify(i)
				if !ok || cd.Kind != "nil" {
					continue
				}
				o := tr.OriginString(cd.X)
				if strings.Contains(o, "DeserializeEncrypted#1") && strings.Contains(o, "DeserializeUnencrypted#1") {
					un := an.Guarded(f, []an.Edge{cd.EdgeWhen(true)}, succ)
					okErr = len(un) == 0
				}
			}
			r.Check(okErr, "R04.G", "transport:parse-error-propagated", c.pos(f.Pos()), "the accepting exit is reachable only when both deserialisers returned a nil error")
			// the encrypted/plain choice and the key
			for _, cs := range an.CallsNamed(f, load.MsgPkg+".DeserializeEncrypted") {
				a := cs.Common.Args
				ok := len(a) == 2 && strings.Contains(tr.OriginString(a[1]), "GetAuthKey")
				r.Check(ok, "R04.G", "transport:session-key", c.pos(cs.Pos()), "DeserializeEncrypted is given the session's auth key: "+tr.OriginString(a[1]))
			}
		}
	}
}

// c04Census: R04.P.
func c04Census(c *Ctx) {
	r := c.R
	var entries []*ssa.Function
	for _, t := range []struct{ pkg, recv, name string }{{load.TransPkg, "*transport", "ReadMsg"}, {load.MsgPkg, "", "DeserializeEncrypted"}, {load.MsgPkg, "", "DeserializeUnencrypted"}} {
		if f := c.fn("R04.P", t.pkg, t.recv, t.name); f != nil {
			entries = append(entries, f)
		}
	}
	stop := func(f *ssa.Function) bool {
		p := load.FuncPkgPath(f)
		// the TL decoder is C15's region; the frame readers (length of a frame, not of a packet) are C08's
		return p == load.TLPkg || p == load.ObjPkg || p == load.TgPkg || p == load.RootMod || p == load.ModePkg
	}
	fns := c.censusRegion(entries, stop)
	conds := map[string]bool{}
	// ige-input-validated: both block loops are entered only through the nil edge of isCorrectData(in)
	okV := true
	for _, name := range []string{"doAES256IGEencrypt", "doAES256IGEdecrypt"} {
		f := c.P.Func(load.IgePkg, "*Cipher", name)
		if f == nil {
			okV = false
			continue
		}
		var effects []ssa.Instruction
		for _, cs := range an.Calls(f) {
			if strings.HasPrefix(cs.Name, "invoke:(crypto/cipher.Block).") || cs.Name == load.IgePkg+".xor" || cs.Name == "builtin:copy" {
				effects = append(effects, cs.Instr)
			}
		}
		guarded := false
		for _, i := range an.Ifs(f) {
			cd, ok := an.Classify(i)
			if !ok || cd.Kind != "nil" {
				continue
			}
			call, ok := cd.X.(*ssa.Call)
			if ok && an.CalleeName(call.Common()) == load.IgePkg+".isCorrectData" && len(call.Call.Args) == 1 && len(f.Params) > 1 && call.Call.Args[0] == ssa.Value(f.Params[1]) {
				if len(effects) >= 3 && len(an.Guarded(f, []an.Edge{cd.EdgeWhen(true)}, effects)) == 0 {
					guarded = true
				}
			}
		}
		okV = okV && guarded
	}
	conds["ige-input-validated"] = okV
	// iv-is-32-bytes: the iv expressions of both key schedules have length 32
	okIV := false
	if g := c.P.Func(load.IgePkg, "", "generateAESIGE"); g != nil {
		okIV = true
		for _, d := range []string{"false", "true"} {
			e := c.termEval([]string{"msg_key", "auth_key", "decode"}, map[int]*an.T{2: an.Sym(d)})
			res, ok := e.Eval(g)
			if !ok || len(res.Results) != 2 {
				okIV = false
				continue
			}
			if n, known := an.TermLen(res.Results[1]); !known || n != 32 {
				okIV = false
			}
		}
		if t := c.P.Func(load.IgePkg, "", "generateTempKeys"); t != nil {
			e := c.termEval([]string{"new_nonce", "server_nonce"}, nil)
			res, ok := e.Eval(t)
			if !ok || len(res.Results) != 2 {
				okIV = false
			} else if n, known := an.TermLen(res.Results[1]); !known || n != 32 {
				okIV = false
			}
		}
	}
	conds["iv-is-32-bytes"] = okIV
	// r04b-window-bounded: R04.B held in this run
	okB, nB := true, 0
	for _, o := range r.Obls {
		if o.Rule == "R04.B" {
			nB++
			if o.Verdict != rep.Holds {
				okB = false
			}
		}
	}
	conds["r04b-window-bounded"] = okB && nB > 0
	n, d, a := c.runCensus("R04.P", fns, nil, conds, "C15/R15.C", "C16/R16.P")
	r.Extra["census_functions"] = len(fns)
	r.Extra["census_sites"] = n
	r.Extra["census_discharged"] = d
	r.Extra["census_accepted"] = a
	r.Extra["census_conditions"] = conds
}

// c04Refusals: R04.E — an exit that hands back no message must hand back an error (a refusal that returns
// (nil, nil) is read by the caller as "accepted" and the nil message is dereferenced).
func c04Refusals(c *Ctx) {
	r := c.R
	for _, t := range []struct{ pkg, recv, name string }{{load.MsgPkg, "", "DeserializeEncrypted"}, {load.MsgPkg, "", "DeserializeUnencrypted"}, {load.TransPkg, "*transport", "ReadMsg"}} {
		f := c.fn("R04.E", t.pkg, t.recv, t.name)
		if f == nil {
			continue
		}
		n := 0
		for _, b := range f.Blocks {
			ret, ok := an.AsReturn(b.Instrs[len(b.Instrs)-1])
			if !ok || len(ret.Results) != 2 || !an.MayReturnNil(ret, 0) {
				continue
			}
			n++
			key := sprintf("refusal:%s#%d", t.name, n)
			r.Check(an.NonNilError(an.RetVal(ret, 1), b), "R04.E", key, c.pos(ret.Pos()),
				"exit without a message: the error returned with it is certainly non-nil (fresh error, wrapper of a tested error, or the tested error itself)")
		}
		if n == 0 {
			r.Undecide("R04.E", "refusal:"+t.name, c.pos(f.Pos()), "no refusing exit found")
		}
	}
}

func residues(m map[int64]bool) []int64 {
	var out []int64
	for r := int64(0); r < 4; r++ {
		if m[r] {
			out = append(out, r)
		}
	}
	return out
}

func dedupInstr(in []ssa.Instruction) []ssa.Instruction {
	seen := map[ssa.Instruction]bool{}
	var out []ssa.Instruction
	for _, i := range in {
		if !seen[i] {
			seen[i] = true
			out = append(out, i)
		}
	}
	return out
}

// c04Bounds: R04.B on DeserializeEncrypted.
func c04Bounds(c *Ctx, f *ssa.Function, tr *an.Tracer) {
	r := c.R
	// atoms
	isLenData := func(v ssa.Value) bool { return an.IsLenOf(v, func(x ssa.Value) bool { return isParam(x, f, 0) }) }
	isLenDec := func(v ssa.Value) bool {
		return an.IsLenOf(v, func(x ssa.Value) bool { return strings.Contains(tr.OriginString(x), "aes_ige.Decrypt#0") })
	}
	var lenCall *ssa.Call // the PopInt whose result is the declared length (not stored into SeqNo)
	for _, cs := range an.Calls(f) {
		if strings.HasSuffix(cs.Name, ".PopInt") || strings.HasSuffix(cs.Name, ".PopUint") {
			if call, ok := cs.Instr.(*ssa.Call); ok && !strings.Contains(c.destLabel(tr, call), "messages.Encrypted.") {
				lenCall = call
			}
		}
	}
	if lenCall == nil {
		r.Undecide("R04.B", "declared-length", c.pos(f.Pos()), "the declared body length (a PopInt not stored into a header field) was not found")
		return
	}
	unsignedLen := strings.HasSuffix(an.CalleeName(lenCall.Common()), ".PopUint")
	// sites
	type site struct {
		key   string
		instr ssa.Instruction
		// obligation evaluated at a grid point; returns "" when it holds
		oblig func(atom func(ssa.Value) (int64, bool), N, D, M int64) string
	}
	var sites []site
	for _, cs := range an.Calls(f) {
		if !strings.HasSuffix(cs.Name, ".PopRawBytes") || len(cs.Common.Args) < 2 {
			continue
		}
		if _, isConst := an.ConstInt(cs.Common.Args[1]); isConst {
			continue
		}
		arg := cs.Common.Args[1]
		label := simplifyOrigin(c.valueLabel(tr, arg))
		sites = append(sites, site{key: "alloc:PopRawBytes(" + label + ")", instr: cs.Instr, oblig: func(atom func(ssa.Value) (int64, bool), N, D, M int64) string {
			v, ok := an.EvalInt(arg, atom)
			if !ok {
				return "size not evaluable"
			}
			if v < 0 {
				return sprintf("make([]byte, %d)", v)
			}
			return ""
		}})
	}
	for _, b := range f.Blocks {
		for _, in := range b.Instrs {
			sl, ok := in.(*ssa.Slice)
			if !ok || sl.High == nil {
				continue
			}
			if _, isConst := an.ConstInt(sl.High); isConst {
				continue
			}
			if !strings.Contains(tr.OriginString(sl.X), "aes_ige.Decrypt#0") {
				continue
			}
			high := sl.High
			sites = append(sites, site{key: "slice:decrypted[0:32+len]", instr: sl, oblig: func(atom func(ssa.Value) (int64, bool), N, D, M int64) string {
				h, ok := an.EvalInt(high, atom)
				if !ok {
					return "bound not evaluable"
				}
				if h < 0 || h > D {
					return sprintf("decrypted[0:%d] with len(decrypted)=%d", h, D)
				}
				return ""
			}})
		}
	}
	if len(sites) < 3 {
		r.Undecide("R04.B", "sites", c.pos(f.Pos()), sprintf("expected the ciphertext read, the digest window and the body read; found %d packet-sized sites", len(sites)))
	}
	// Grid.  len(data) >= 8: the key-id comparison can only pass when 8 bytes were read.  Sites after the call of
	// ige.Decrypt are evaluated only for lengths the cipher accepts (len(data)-24 a positive multiple of 16), with
	// len(decrypted) = len(data)-24.
	var decryptBlock *ssa.BasicBlock
	for _, cs := range an.CallsNamed(f, load.IgePkg+".Decrypt") {
		decryptBlock = cs.Block
	}
	Ns := c.grid([]int64{8, 9, 16, 23, 24, 25, 39, 40, 56, 88, 1048}, 0, 600, 1)
	for _, s := range sites {
		var bad []string
		points := 0
		inner := decryptBlock != nil && s.instr.Block() != decryptBlock && decryptBlock.Dominates(s.instr.Block())
		for _, N := range Ns {
			D := N - 24
			if inner && (D < 16 || D%16 != 0) {
				continue
			}
			{
				Ms := []int64{-1 << 31, -65, -33, -32, -1, 0, 1, D - 33, D - 32, D - 31, D, D + 32, 1<<31 - 33, 1<<31 - 1}
				if !inner {
					Ms = []int64{0}
				}
				for _, M := range Ms {
					m := M
					if unsignedLen {
						m = int64(uint32(M))
					}
					atom := func(v ssa.Value) (int64, bool) {
						switch {
						case isLenData(v):
							return N, true
						case isLenDec(v):
							return D, true
						case v == ssa.Value(lenCall):
							return m, true
						}
						return 0, false
					}
					reach := an.ReachWith(f, nil, func(i *ssa.If) (int, bool) {
						v, ok := an.EvalCond(i.Cond, atom)
						if !ok {
							return 0, false
						}
						if v {
							return 0, true
						}
						return 1, true
					})
					if !reach[s.instr.Block()] {
						continue
					}
					points++
					if why := s.oblig(atom, N, D, m); why != "" && len(bad) < 4 {
						bad = append(bad, sprintf("len(data)=%d len(decrypted)=%d declared=%d: %s", N, D, M, why))
					}
				}
			}
		}
		r.Check(len(bad) == 0, "R04.B", s.key, c.pos(s.instr.Pos()), sprintf("reachable at %d grid points; counterexamples: %s", points, strings.Join(bad, " | ")))
	}
}

// honestLengthsAdmitted: for packets a conformant peer seals — ciphertext a positive multiple of 16, declared body
// length M with 0..15 bytes of padding after it (32 + M + pad = len(decrypted)), msg_id of server parity — the success
// exit of DeserializeEncrypted is reachable: no length test refuses them.  Returns the refused grid points.
func honestLengthsAdmitted(c *Ctx, f *ssa.Function, tr *an.Tracer) (bad []string, points int, ok bool) {
	isLenData := func(v ssa.Value) bool { return an.IsLenOf(v, func(x ssa.Value) bool { return isParam(x, f, 0) }) }
	isLenDec := func(v ssa.Value) bool {
		return an.IsLenOf(v, func(x ssa.Value) bool { return strings.Contains(tr.OriginString(x), "aes_ige.Decrypt#0") })
	}
	var lenCall *ssa.Call
	for _, cs := range an.Calls(f) {
		if strings.HasSuffix(cs.Name, ".PopInt") || strings.HasSuffix(cs.Name, ".PopUint") {
			if call, isCall := cs.Instr.(*ssa.Call); isCall && !strings.Contains(c.destLabel(tr, call), "messages.Encrypted.") {
				lenCall = call
			}
		}
	}
	var succ []ssa.Instruction
	for _, p := range successPaths(f, 0) {
		succ = append(succ, p.Ret)
	}
	succ = dedupInstr(succ)
	if lenCall == nil || len(succ) == 0 {
		return nil, 0, false
	}
	isID := func(v ssa.Value) bool {
		if call, isCall := v.(*ssa.Call); isCall && strings.HasSuffix(an.CalleeName(call.Common()), ".PopLong") {
			return strings.Contains(c.destLabel(tr, call), "messages.Encrypted.MsgID")
		}
		if ld, isLd := v.(*ssa.UnOp); isLd {
			return strings.Contains(tr.OriginString(ld), "PopLong") && strings.Contains(an.NewTracerNoAlloc().OriginString(ld), "messages.Encrypted.MsgID")
		}
		return false
	}
	for _, N := range c.grid([]int64{40, 56, 72, 88, 1048, 1<<20 + 24}, 40, 2048, 16) {
		D := N - 24
		if D < 32 || D%16 != 0 {
			continue
		}
		for pad := int64(0); pad < 16; pad++ {
			M := D - 32 - pad
			if M < 0 {
				continue
			}
			points++
			atom := func(v ssa.Value) (int64, bool) {
				switch {
				case isLenData(v):
					return N, true
				case isLenDec(v):
					return D, true
				case v == ssa.Value(lenCall):
					return M, true
				case isID(v):
					return 5, true
				}
				return 0, false
			}
			reach := an.ReachWith(f, nil, func(i *ssa.If) (int, bool) {
				v, evaluable := an.EvalCond(i.Cond, atom)
				if !evaluable {
					return 0, false
				}
				if v {
					return 0, true
				}
				return 1, true
			})
			got := false
			for _, ret := range succ {
				if reach[ret.Block()] {
					got = true
				}
			}
			if !got && len(bad) < 4 {
				bad = append(bad, sprintf("len(data)=%d declared=%d (%d padding bytes)", N, M, pad))
			}
		}
	}
	return bad, points, true
}
