package props

import (
	"go/token"
	"strings"

	"verif/checker/internal/an"
	"verif/checker/internal/load"

	"golang.org/x/tools/go/ssa"
)

// Engine E10 in use: the looping helpers of the formulas are replaced by summaries, each of which is verified
// structurally against the helper's body (verifySummaries) before any term that uses it is trusted.

const dryPkg = "github.com/xelaj/go-dry"

func (c *Ctx) termEval(paramNames []string, force map[int]*an.T) *an.TermEval {
	e := &an.TermEval{
		Inline: func(f *ssa.Function) bool {
			// helper packages only: the client object, the request helpers and the TL codec stay opaque
			return pkgIn(f, load.MathPkg, load.KeysPkg, load.IgePkg, load.SrpPkg, load.UtilsPkg, dryPkg)
		},
		AllowRootLoops: true,
		OpaqueName: func(call *ssa.Call, i int) string {
			if f := an.StaticCallee(call.Common()); f != nil && c.P.InRepo(f) {
				return sprintf("%s#%d", f.Name(), i)
			}
			return ""
		},
		ParamNames: paramNames,
		ForceParam: force,
		WatchCalls: map[string]bool{},
	}
	e.Summaries = map[string]an.TermSummary{
		load.SrpPkg + ".calcSHA256": func(e *an.TermEval, st an.TermStore, args []an.TermValue) (an.TermValue, bool) {
			parts, ok := e.VariadicParts(st, args[0])
			if !ok {
				return an.TermValue{}, false
			}
			return an.NewByteValue(st, "calcSHA256", an.Fn("sha256", an.Fn("cat", parts...))), true
		},
		load.SrpPkg + ".pad256": func(e *an.TermEval, st an.TermStore, args []an.TermValue) (an.TermValue, bool) {
			return an.NewByteValue(st, "pad256", an.Fn("pad256", e.ReadArg(st, args[0]))), true
		},
		load.MathPkg + ".BigIntFixedBytes": func(e *an.TermEval, st an.TermStore, args []an.TermValue) (an.TermValue, bool) {
			return an.NewByteValue(st, "fixed", an.Fn("fixed", e.ReadArg(st, args[0]), e.ReadArg(st, args[1]))), true
		},
		dryPkg + ".BytesXor": func(e *an.TermEval, st an.TermStore, args []an.TermValue) (an.TermValue, bool) {
			return an.NewByteValue(st, "xor", an.Fn("xor", e.ReadArg(st, args[0]), e.ReadArg(st, args[1]))), true
		},
		load.MathPkg + ".Xor": func(e *an.TermEval, st an.TermStore, args []an.TermValue) (an.TermValue, bool) {
			an.SetContent(st, args[0], an.Fn("xor", e.ReadArg(st, args[0]), e.ReadArg(st, args[1])))
			return an.TermOf(an.Sym("void")), true
		},
	}
	return e
}

// verifySummaries checks that each helper replaced by a summary has the body the summary stands for.
func (c *Ctx) verifySummaries(rule string) bool {
	ok := true
	chk := func(key string, f *ssa.Function, cond bool, what string) {
		if f == nil {
			return // helper absent: its summary is never used
		}
		c.R.Check(cond, rule, "summary:"+key, c.pos(f.Pos()), what)
		if !cond {
			ok = false
		}
	}
	// calcSHA256(parts...) = SHA256(parts[0] | parts[1] | …): sha256.New, one range loop writing every part in order, Sum(nil)
	if f := c.P.Func(load.SrpPkg, "", "calcSHA256"); f != nil {
		names := map[string]int{}
		for _, cs := range an.Calls(f) {
			names[cs.Name]++
		}
		writesElem := false
		tr := an.NewTracer()
		for _, cs := range an.Calls(f) {
			if cs.Common.IsInvoke() && cs.Common.Method.Name() == "Write" && len(cs.Common.Args) == 1 {
				if o := tr.OriginString(cs.Common.Args[0]); o == "param#0[_]" { // an element of the parameter itself, not of a sub-slice
					writesElem = true
				}
			}
		}
		sumNil := false
		for _, cs := range an.Calls(f) {
			if cs.Common.IsInvoke() && cs.Common.Method.Name() == "Sum" && len(cs.Common.Args) == 1 && an.IsNilConst(cs.Common.Args[0]) {
				sumNil = true
			}
		}
		chk("calcSHA256", f, names["crypto/sha256.New"] == 1 && writesElem && sumNil && len(an.Calls(f))-names["builtin:len"] == 3 && countedUp(f),
			"calcSHA256 = sha256.New; for each part in order: Write(part); Sum(nil)")
	}
	for _, x := range []struct{ pkg, name string }{{dryPkg, "BytesXor"}, {load.MathPkg, "Xor"}} {
		f := c.P.Func(x.pkg, "", x.name)
		if f == nil {
			continue
		}
		// an element-wise xor: a store to dst[i] of (dst[i] ^ src[i]) with the same index, inside a loop over the length
		found := false
		for _, b := range f.Blocks {
			for _, in := range b.Instrs {
				st, isSt := in.(*ssa.Store)
				if !isSt {
					continue
				}
				bo, isBo := st.Val.(*ssa.BinOp)
				ia, isIA := st.Addr.(*ssa.IndexAddr)
				if !isBo || !isIA || bo.Op != token.XOR {
					continue
				}
				lx, ok1 := bo.X.(*ssa.UnOp)
				ly, ok2 := bo.Y.(*ssa.UnOp)
				if !ok1 || !ok2 {
					continue
				}
				ax, ok1 := lx.X.(*ssa.IndexAddr)
				ay, ok2 := ly.X.(*ssa.IndexAddr)
				if ok1 && ok2 && ax.Index == ia.Index && ay.Index == ia.Index && ax.X == ia.X && ay.X != ia.X {
					found = true
				}
			}
		}
		chk(x.name, f, found && countedUp(f), x.name+" xors the second operand into the first element by element")
	}
	return ok
}

// countedUp: the function has exactly one loop and its induction variable goes 0,1,2,… (range loop or i++).
func countedUp(f *ssa.Function) bool {
	n := 0
	for _, b := range f.Blocks {
		for _, in := range b.Instrs {
			phi, ok := in.(*ssa.Phi)
			if !ok {
				continue
			}
			if l, ok := an.LoopOf(phi); ok && l != nil {
				if bo, ok := l.Step.(*ssa.BinOp); ok && bo.Op == token.ADD {
					if k, ok := an.ConstInt(bo.Y); ok && k == 1 && bo.X == ssa.Value(phi) {
						n++
						continue
					}
				}
				return false
			}
		}
	}
	return n == 1
}

// TermsDebug prints the extracted terms of a function (debug aid for writing formula tables).
func TermsDebug(p *load.Program, fn *ssa.Function, force map[int]*an.T) []string {
	c := &Ctx{P: p}
	var names []string
	for _, prm := range fn.Params {
		names = append(names, prm.Name())
	}
	e := c.termEval(names, force)
	e.WatchAll = true
	res, ok := e.Eval(fn)
	var out []string
	for _, w := range e.Seen {
		var as []string
		for _, a := range w.Args {
			as = append(as, a.String())
		}
		out = append(out, sprintf("call %s %s(%s)", p.Pos(w.Pos), shortCallee(w.Name), strings.Join(as, " ; ")))
	}
	if !ok {
		return append(out, "not evaluable: "+strings.Join(e.Notes, "; "))
	}
	for i, r := range res.Results {
		out = append(out, sprintf("result %d (merged): %s", i, r))
	}
	for k, rt := range res.Each {
		for i, r := range rt.Results {
			out = append(out, sprintf("return#%d %s result %d: %s", k+1, p.Pos(rt.Pos), i, r))
			for f, t := range rt.Fields[i] {
				out = append(out, sprintf("    .%s = %s", f, t))
			}
		}
	}
	for _, n := range e.Notes {
		out = append(out, "note: "+n)
	}
	return out
}

// ---- formula tables ------------------------------------------------------------------------------------

func tcat(p ...*an.T) *an.T              { return an.Fn("cat", p...) }
func tslice(x *an.T, lo, hi int64) *an.T { return an.Fn("slice", x, an.Num(lo), an.Num(hi)) }
func tsha1(p ...*an.T) *an.T             { return an.Fn("sha1", tcat(p...)) }
func tsha256(p ...*an.T) *an.T           { return an.Fn("sha256", tcat(p...)) }

// opaqueAtoms lists the markers of values the extraction could not express.
func opaqueAtoms(t string) []string {
	var out []string
	for _, m := range []string{"written:", "?loop", "?phi", "alloc:", "make:", "extract", "?t"} {
		if strings.Contains(t, m) {
			out = append(out, m)
		}
	}
	return out
}

// compareTerm records the verdict for one formula: equal → holds; different and fully expressed → violated;
// different and containing unevaluated parts the formula does not have → undecided.
func (c *Ctx) compareTerm(rule, key, pos string, got *an.T, want *an.T, what string) {
	g, w := "<none>", want.String()
	if got != nil {
		g = got.String()
	}
	if g == w {
		c.R.Hold(rule, key, pos, what+" = "+clip(w, 300))
		return
	}
	var extra []string
	for _, m := range opaqueAtoms(g) {
		if !strings.Contains(w, m) {
			extra = append(extra, m)
		}
	}
	if got == nil || len(extra) > 0 {
		c.R.Undecide(rule, key, pos, sprintf("%s could not be extracted as a closed expression (unevaluated parts: %v): computed %s", what, extra, clip(g, 400)))
		return
	}
	c.R.Violate(rule, key, pos, sprintf("%s: the code computes %s — the protocol says %s", what, clip(g, 600), clip(w, 600)))
}

func clip(s string, n int) string {
	if len(s) > n {
		return s[:n] + "…"
	}
	return s
}

// keySchedule: R03.K — aes_key / aes_iv of MTProto 1.0 (https://core.telegram.org/mtproto/description_v1):
//
//	sha1_a = SHA1(msg_key + substr(auth_key, x, 32))
//	sha1_b = SHA1(substr(auth_key, 32+x, 16) + msg_key + substr(auth_key, 48+x, 16))
//	sha1_c = SHA1(substr(auth_key, 64+x, 32) + msg_key)
//	sha1_d = SHA1(msg_key + substr(auth_key, 96+x, 32))
//	aes_key = substr(sha1_a, 0, 8) + substr(sha1_b, 8, 12) + substr(sha1_c, 4, 12)
//	aes_iv  = substr(sha1_a, 8, 12) + substr(sha1_b, 0, 8) + substr(sha1_c, 16, 4) + substr(sha1_d, 0, 8)
//
// x = 0 for messages from client to server, 8 for server to client.
func (c *Ctx) keySchedule(rule string) {
	f := c.fn(rule, load.IgePkg, "", "generateAESIGE")
	if f == nil {
		return
	}
	mk, ak := an.Sym("$msg_key"), an.Sym("$auth_key")
	for _, dir := range []struct {
		name   string
		decode string
		x      int64
	}{{"client-to-server", "false", 0}, {"server-to-client", "true", 8}} {
		x := dir.x
		wantKey, wantIV := specAESKeyIV(mk, ak, x)
		e := c.termEval([]string{"msg_key", "auth_key", "decode"}, map[int]*an.T{2: an.Sym(dir.decode)})
		res, ok := e.Eval(f)
		var gk, gi *an.T
		if ok && len(res.Results) == 2 {
			gk, gi = res.Results[0], res.Results[1]
		}
		c.compareTerm(rule, "key-schedule:"+dir.name+"/aes_key", c.pos(f.Pos()), gk, wantKey, "aes_key ("+dir.name+", x="+sprintf("%d", x)+")")
		c.compareTerm(rule, "key-schedule:"+dir.name+"/aes_iv", c.pos(f.Pos()), gi, wantIV, "aes_iv ("+dir.name+", x="+sprintf("%d", x)+")")
	}
}

func specAESKeyIV(mk, ak *an.T, x int64) (key, iv *an.T) {
	sub := func(off, n int64) *an.T { return tslice(ak, off+x, off+x+n) }
	a := tsha1(mk, sub(0, 32))
	b := tsha1(sub(32, 16), mk, sub(48, 16))
	cc := tsha1(sub(64, 32), mk)
	d := tsha1(mk, sub(96, 32))
	return tcat(tslice(a, 0, 8), tslice(b, 8, 20), tslice(cc, 4, 16)), tcat(tslice(a, 8, 20), tslice(b, 0, 8), tslice(cc, 16, 20), tslice(d, 0, 8))
}

// cipherKeying: the cipher of each wrapper is created with the key and IV the schedule gives for that wrapper's
// direction and message key (Encrypt: msg_key = SHA1(plaintext)[4:20] of the unpadded message, x = 0; Decrypt: the
// packet's msg_key, x = 8; the temp-key wrappers: tmp_aes_key / tmp_aes_iv of their two nonces).
func (c *Ctx) cipherKeying(rule string, temp bool) {
	type w struct {
		fn     string
		params []string
		key    *an.T
		iv     *an.T
	}
	var ws []w
	if !temp {
		k0, i0 := specAESKeyIV(tslice(tsha1(an.Sym("$msg")), 4, 20), an.Sym("$key"), 0)
		k8, i8 := specAESKeyIV(an.Sym("$msg_key"), an.Sym("$key"), 8)
		ws = []w{{"Encrypt", []string{"msg", "key"}, k0, i0}, {"Decrypt", []string{"msg", "key", "msg_key"}, k8, i8}}
	} else {
		nn := an.Fn("fixed", an.Sym("$new_nonce"), an.Num(32))
		sn := an.Fn("fixed", an.Sym("$server_nonce"), an.Num(16))
		tk := tcat(tsha1(nn, sn), tslice(tsha1(sn, nn), 0, 12))
		ti := tcat(tslice(tsha1(sn, nn), 12, 20), tsha1(nn, nn), tslice(nn, 0, 4))
		ws = []w{{"EncryptMessageWithTempKeys", []string{"msg", "new_nonce", "server_nonce"}, tk, ti}, {"DecryptMessageWithTempKeys", []string{"msg", "new_nonce", "server_nonce"}, tk, ti}}
	}
	name := load.IgePkg + ".NewCipher"
	for _, x := range ws {
		f := c.fn(rule, load.IgePkg, "", x.fn)
		if f == nil {
			continue
		}
		e := c.termEval(x.params, nil)
		e.WatchCalls[name] = true
		e.Eval(f) // the wrappers with a strip loop are evaluated with the loop opaque; the keying precedes it
		var gk, gi *an.T
		pos := c.pos(f.Pos())
		n := 0
		for _, sc := range e.Seen {
			if sc.Name == name && len(sc.Args) == 2 {
				gk, gi, pos = sc.Args[0], sc.Args[1], c.pos(sc.Pos)
				n++
			}
		}
		if n != 1 {
			c.R.Undecide(rule, "cipher-keying:"+x.fn, pos, sprintf("expected one NewCipher(key, iv) call in %s, found %d", x.fn, n))
			continue
		}
		c.compareTerm(rule, "cipher-keying:"+x.fn+"/key", pos, gk, x.key, "cipher key of "+x.fn)
		c.compareTerm(rule, "cipher-keying:"+x.fn+"/iv", pos, gi, x.iv, "cipher IV of "+x.fn)
	}
}

// tempKeys: tmp_aes_key / tmp_aes_iv of the key exchange (https://core.telegram.org/mtproto/auth_key, step 5):
//
//	tmp_aes_key = SHA1(new_nonce + server_nonce) + substr(SHA1(server_nonce + new_nonce), 0, 12)
//	tmp_aes_iv  = substr(SHA1(server_nonce + new_nonce), 12, 8) + SHA1(new_nonce + new_nonce) + substr(new_nonce, 0, 4)
func (c *Ctx) tempKeys(rule string) {
	f := c.fn(rule, load.IgePkg, "", "generateTempKeys")
	if f == nil {
		return
	}
	nn := an.Fn("fixed", an.Sym("$new_nonce"), an.Num(32))
	sn := an.Fn("fixed", an.Sym("$server_nonce"), an.Num(16))
	wantKey := tcat(tsha1(nn, sn), tslice(tsha1(sn, nn), 0, 12))
	wantIV := tcat(tslice(tsha1(sn, nn), 12, 20), tsha1(nn, nn), tslice(nn, 0, 4))
	e := c.termEval([]string{"new_nonce", "server_nonce"}, nil)
	res, ok := e.Eval(f)
	var gk, gi *an.T
	if ok && len(res.Results) == 2 {
		gk, gi = res.Results[0], res.Results[1]
	}
	c.compareTerm(rule, "temp-keys:tmp_aes_key", c.pos(f.Pos()), gk, wantKey, "tmp_aes_key")
	c.compareTerm(rule, "temp-keys:tmp_aes_iv", c.pos(f.Pos()), gi, wantIV, "tmp_aes_iv")
}

// srpFormulas: R18.E — https://core.telegram.org/api/srp#checking-the-password-with-srp
//
//	H = SHA256, SH(d, s) = H(s|d|s), PH1 = SH(SH(password, salt1), salt2), PH2 = SH(pbkdf2(sha512, PH1, salt1, 100000), salt2)
//	g_a = pad(g^a mod p), g_b = pad(B), u = H(g_a|g_b), x = PH2, v = g^x mod p, k = H(p|pad(g)), k_v = k·v mod p,
//	t = (g_b − k_v) mod p (p added when negative), s_a = t^(a + u·x) mod p, k_a = H(pad(s_a)),
//	M1 = H(H(p) xor H(pad(g)) | H(salt1) | H(salt2) | g_a | g_b | k_a)
func (c *Ctx) srpFormulas(rule string) {
	f := c.fn(rule, load.SrpPkg, "", "getInputCheckPassword")
	if f == nil {
		return
	}
	S := an.Sym
	P, G, s1, s2, pw, B, rnd := S("$mp.P"), S("$mp.G"), S("$mp.Salt1"), S("$mp.Salt2"), S("$password"), S("$B"), S("$random")
	I := func(b *an.T) *an.T { return an.Fn("int", b) }
	pad := func(b *an.T) *an.T { return an.Fn("pad256", b) }
	bytesOf := func(i *an.T) *an.T { return an.Fn("bytes", i) }
	SH := func(d, s *an.T) *an.T { return tsha256(s, d, s) }
	ph1 := SH(SH(pw, s1), s2)
	ph2 := SH(an.Fn("pbkdf2", ph1, s1, an.Num(100000), an.Num(64)), s2)
	p := I(P)
	a := I(rnd)
	gBytes := pad(bytesOf(G))
	ga := pad(bytesOf(an.Fn("exp", G, a, p)))
	gb := pad(B)
	u := I(tsha256(ga, gb))
	x := I(ph2)
	v := an.Fn("exp", G, x, p)
	k := I(tsha256(P, gBytes))
	kv := an.Fn("mod", an.Fn("mul", k, v), p)
	t0 := an.Fn("sub", I(B), kv)
	t := an.Fn("phi", t0, an.Fn("add", t0, p))
	sa := pad(bytesOf(an.Fn("exp", t, an.Fn("add", an.Fn("mul", u, x), a), p)))
	ka := tsha256(sa)
	m1 := tsha256(an.Fn("xor", tsha256(P), tsha256(gBytes)), tsha256(s1), tsha256(s2), ga, gb, ka)

	e := c.termEval([]string{"password", "B", "mp", "random"}, nil)
	res, ok := e.Eval(f)
	var gGA, gM1 *an.T
	pos := c.pos(f.Pos())
	if ok {
		for _, rt := range res.Each {
			if len(rt.Results) == 2 && rt.Results[1].String() == "nil" && len(rt.Fields[0]) > 0 {
				gGA, gM1 = rt.Fields[0]["GA"], rt.Fields[0]["M1"]
				pos = c.pos(rt.Pos)
			}
		}
	}
	c.compareTerm(rule, "srp:A", pos, gGA, ga, "A = pad(g^a mod p)")
	c.compareTerm(rule, "srp:M1", pos, gM1, m1, "M1")
}

// srpWrapper: the exported telegram.GetInputCheckPassword hands the caller's password, the account's B and the four
// parameters of the current algorithm to the SRP computation unchanged.
func (c *Ctx) srpWrapper(rule string) {
	f := c.fn(rule, load.TgPkg, "", "GetInputCheckPassword")
	if f == nil {
		return
	}
	name := load.SrpPkg + ".GetInputCheckPassword"
	e := c.termEval([]string{"password", "account"}, nil)
	e.WatchCalls[name] = true
	e.Eval(f)
	var w *an.WatchedCall
	n := 0
	for i := range e.Seen {
		if e.Seen[i].Name == name && e.Seen[i].Fn == f {
			w = &e.Seen[i]
			n++
		}
	}
	if n != 1 || len(w.Args) != 3 {
		c.R.Undecide(rule, "srp-wrapper:arguments", c.pos(f.Pos()), sprintf("expected one call of srp.GetInputCheckPassword(password, B, params), found %d", n))
		return
	}
	S := an.Sym
	algo := "$account.CurrentAlgo"
	want := []*an.T{S("$password"), S("$account.SRPB"),
		{Op: "struct", Args: []*an.T{
			{Op: "field:G", Args: []*an.T{S(algo + ".G")}}, {Op: "field:P", Args: []*an.T{S(algo + ".P")}},
			{Op: "field:Salt1", Args: []*an.T{S(algo + ".Salt1")}}, {Op: "field:Salt2", Args: []*an.T{S(algo + ".Salt2")}}}}}
	for i, nm := range []string{"password", "B", "params"} {
		c.compareTerm(rule, "srp-wrapper:"+nm, c.pos(w.Pos), w.Args[i], want[i], "argument '"+nm+"' of the SRP computation")
	}
}

// handshakeFormulas: the values makeAuthKey derives from the exchanged numbers (auth_key, step 6–9):
//
//	data_with_hash = SHA1(data) + data + padding (255 bytes)        → RSA
//	auth_key = pad256(g_a^b mod dh_prime), g_b = g^b mod dh_prime
//	new_nonce_hash1 = substr(SHA1(new_nonce + 0x01 + substr(SHA1(auth_key), 0, 8)), 4, 16)
//	server_salt = substr(new_nonce, 0, 8) XOR substr(server_nonce, 0, 8)
func (c *Ctx) handshakeFormulas(rule string, only map[string]bool) {
	f := c.fn(rule, load.RootMod, "*MTProto", "makeAuthKey")
	if f == nil {
		return
	}
	e := c.termEval(nil, nil)
	e.WatchAll = true
	if _, ok := e.Eval(f); !ok {
		c.R.Undecide(rule, "formula:makeAuthKey", c.pos(f.Pos()), "makeAuthKey could not be evaluated: "+strings.Join(e.Notes, "; "))
		return
	}
	S := an.Sym
	nn := an.Fn("fixed", S("RandomInt256#0.Int"), an.Num(32))
	sn := an.Fn("fixed", S("reqPQ#0.ServerNonce.Int"), an.Num(16))
	find := func(name string, pred func(w an.WatchedCall) bool) *an.WatchedCall {
		for i := range e.Seen {
			if strings.HasSuffix(e.Seen[i].Name, name) && (pred == nil || pred(e.Seen[i])) {
				return &e.Seen[i]
			}
		}
		return nil
	}
	arg := func(w *an.WatchedCall, i int) (*an.T, string) {
		if w == nil || i >= len(w.Args) {
			return nil, c.pos(f.Pos())
		}
		return w.Args[i], c.pos(w.Pos)
	}
	if only == nil || only["new_nonce_hash1"] {
		w := find("bytes.Equal", func(w an.WatchedCall) bool {
			return len(w.Args) == 2 && (strings.Contains(w.Args[0].String(), "NewNonceHash1") || strings.Contains(w.Args[1].String(), "NewNonceHash1"))
		})
		var got *an.T
		pos := c.pos(f.Pos())
		if w != nil {
			got, pos = w.Args[0], c.pos(w.Pos)
			if strings.Contains(got.String(), "NewNonceHash1") {
				got = w.Args[1]
			}
		}
		auth := S("GetAuthKey#0")
		want := tslice(tsha1(nn, an.Fn("byte", an.Num(1)), tslice(tsha1(auth), 0, 8)), 4, 20)
		if got == nil || got.String() != want.String() {
			// the comparison may be spelled differently (hex strings, a helper): the expected value is right when
			// some call of makeAuthKey receives exactly the protocol's expression
			for i := range e.Seen {
				for _, a := range e.Seen[i].Args {
					if a.String() == want.String() {
						got, pos = a, c.pos(e.Seen[i].Pos)
					}
				}
			}
		}
		c.compareTerm(rule, "formula:new_nonce_hash1", pos, got, want, "the value dh_gen_ok.new_nonce_hash1 is compared with")
	}
	if only == nil || only["server_salt"] {
		w := find("littleEndian).Uint64", func(w an.WatchedCall) bool { return len(w.Args) == 2 && strings.Contains(w.Args[1].String(), "xor") })
		got, pos := arg(w, 1)
		want := an.Fn("xor", tslice(nn, 0, 8), tslice(sn, 0, 8))
		c.compareTerm(rule, "formula:server_salt", pos, got, want, "server_salt")
	}
	if only == nil || only["auth_key"] {
		w := find("MTProto).SetAuthKey", nil)
		got, pos := arg(w, 1)
		if got != nil {
			// the exponent is the fresh secret b: any closed subterm is accepted in its place
			want := "fixed(exp(int(DecodeUnknownObject#0.GA), "
			gs := got.String()
			ok := strings.HasPrefix(gs, want) && strings.HasSuffix(gs, ", int(DecodeUnknownObject#0.DhPrime)), 256)")
			c.R.Check(ok, rule, "formula:auth_key", pos, "auth_key = pad256(g_a^b mod dh_prime): "+clip(gs, 300))
		} else {
			c.R.Undecide(rule, "formula:auth_key", pos, "SetAuthKey call not found")
		}
	}
	if only == nil {
		// RSA with the server's key and the two Diffie-Hellman powers with one and the same fresh exponent
		if g := c.P.Func(load.MathPkg, "", "DoRSAencrypt"); g != nil {
			e2 := c.termEval([]string{"block", "key"}, nil)
			res, ok := e2.Eval(g)
			var got *an.T
			if ok && len(res.Results) == 1 {
				got = res.Results[0]
			}
			c.compareTerm(rule, "formula:rsa", c.pos(g.Pos()), got, an.Fn("fixed", an.Fn("exp", an.Fn("int", S("$block")), S("$key.E"), S("$key.N")), an.Num(256)), "RSA(data_with_hash)")
		}
		if g := c.P.Func(load.MathPkg, "", "MakeGAB"); g != nil {
			e2 := c.termEval([]string{"g", "g_a", "dh_prime"}, nil)
			res, ok := e2.Eval(g)
			okF, detail := false, "not evaluable"
			if ok && len(res.Results) == 3 {
				b := res.Results[0]
				okF = res.Results[1].String() == an.Fn("exp", S("$g"), b, S("$dh_prime")).String() &&
					res.Results[2].String() == an.Fn("exp", S("$g_a"), b, S("$dh_prime")).String() && !b.IsNum() && !strings.HasPrefix(b.String(), "$")
				detail = sprintf("b = %s; g_b = %s; g_ab = %s", clip(b.String(), 80), clip(res.Results[1].String(), 120), clip(res.Results[2].String(), 120))
			}
			c.R.Check(okF, rule, "formula:dh-powers", c.pos(g.Pos()), "g_b = g^b mod dh_prime and auth_key = g_a^b mod dh_prime with one fresh b: "+detail)
		}
	}
	if only == nil || only["rsa_payload"] {
		w := find("math.DoRSAencrypt", nil)
		got, pos := arg(w, 0)
		msg := S("Marshal#0")
		want := tslice(an.Fn("put", an.Fn("zeros", an.Num(255)), an.Num(0), tcat(tsha1(msg), msg)), 0, 255)
		c.compareTerm(rule, "formula:rsa_payload", pos, got, want, "data_with_hash handed to RSA")
	}
}

// tempKeyPlaintext: what EncryptMessageWithTempKeys hands to the cipher is SHA1(payload) ++ payload ++ padding - the
// digest covers the payload and nothing else (a digest taken after the padding was appended matches no cut point a
// conformant peer tries, and the client's own decrypt then returns payload + padding).  Checked on the extracted
// term of the plaintext: it contains SHA-1 digests, and every one of them is sha1($msg) exactly.
func (c *Ctx) tempKeyPlaintext(rule string) {
	f := c.fn(rule, load.IgePkg, "", "EncryptMessageWithTempKeys")
	if f == nil {
		return
	}
	name := load.IgePkg + ".encryptMessageWithTempKeys"
	e := c.termEval([]string{"msg", "new_nonce", "server_nonce"}, nil)
	e.WatchCalls[name] = true
	e.Eval(f)
	var plain *an.T
	pos := c.pos(f.Pos())
	n := 0
	for _, sc := range e.Seen {
		if sc.Name == name && len(sc.Args) >= 1 {
			plain, pos = sc.Args[0], c.pos(sc.Pos)
			n++
		}
	}
	if n != 1 || plain == nil {
		c.R.Undecide(rule, "tempkeys:digest-covers-the-payload", pos, sprintf("expected one call of encryptMessageWithTempKeys in EncryptMessageWithTempKeys, found %d", n))
		return
	}
	// (calls the evaluator does not interpret - bytes.Join - keep their arguments as text: scan the printed term)
	var digests []string
	txt := plain.String()
	for i := 0; i+5 <= len(txt); i++ {
		if txt[i:i+5] != "sha1(" || (i > 0 && (txt[i-1] >= 'a' && txt[i-1] <= 'z' || txt[i-1] >= '0' && txt[i-1] <= '9')) {
			continue
		}
		depth, j := 0, i+4
		for ; j < len(txt); j++ {
			if txt[j] == '(' {
				depth++
			} else if txt[j] == ')' {
				depth--
				if depth == 0 {
					break
				}
			}
		}
		if j < len(txt) {
			digests = append(digests, txt[i:j+1])
		}
	}
	bad := ""
	for _, d := range digests {
		if d != "sha1($msg)" {
			bad = d
		}
	}
	c.R.Check(len(digests) > 0 && bad == "", rule, "tempkeys:digest-covers-the-payload", pos, sprintf("%d SHA-1 digest(s) in the plaintext handed to the cipher; %s", len(digests), clip(bad, 160)))
}
