package props

import (
	"go/ast"
	"go/constant"
	"go/types"
	"sort"
	"strings"

	"golang.org/x/tools/go/packages"
)

// kindArm is the class of one arm of a `switch <v>.Kind()` statement in the TL encoder / decoder.
type kindArm struct {
	class string   // primitive | recurse | error | panic | none
	calls []string // method names called on the encoder/decoder receiver in the arm
}

var reflectKindNames = []string{"Invalid", "Bool", "Int", "Int8", "Int16", "Int32", "Int64", "Uint", "Uint8", "Uint16", "Uint32", "Uint64", "Uintptr",
	"Float32", "Float64", "Complex64", "Complex128", "Array", "Chan", "Func", "Interface", "Map", "Ptr", "Slice", "String", "Struct", "UnsafePointer"}

// kindSwitches extracts every switch over a reflect.Kind expression in fd: kind name -> arm, plus the default arm under "default".
func kindSwitches(pk *packages.Package, fd *ast.FuncDecl) []map[string]kindArm {
	var out []map[string]kindArm
	if fd == nil || fd.Body == nil {
		return nil
	}
	ast.Inspect(fd.Body, func(n ast.Node) bool {
		sw, ok := n.(*ast.SwitchStmt)
		if !ok || sw.Tag == nil {
			return true
		}
		tv := pk.TypesInfo.Types[sw.Tag]
		named, ok := tv.Type.(*types.Named)
		if !ok || named.Obj().Pkg() == nil || named.Obj().Pkg().Path() != "reflect" || named.Obj().Name() != "Kind" {
			return true
		}
		tab := map[string]kindArm{}
		for _, st := range sw.Body.List {
			cc := st.(*ast.CaseClause)
			arm := classifyArm(pk, cc.Body)
			if cc.List == nil {
				tab["default"] = arm
				continue
			}
			for _, e := range cc.List {
				v := pk.TypesInfo.Types[e].Value
				if v == nil {
					continue
				}
				k, _ := constant.Int64Val(v)
				if k >= 0 && int(k) < len(reflectKindNames) {
					tab[reflectKindNames[k]] = arm
				}
			}
		}
		out = append(out, tab)
		return true
	})
	return out
}

func classifyArm(pk *packages.Package, body []ast.Stmt) kindArm {
	arm := kindArm{class: "none"}
	seen := map[string]bool{}
	hasPanic, setsErr := false, false
	for _, st := range body {
		ast.Inspect(st, func(n ast.Node) bool {
			switch x := n.(type) {
			case *ast.CallExpr:
				switch f := x.Fun.(type) {
				case *ast.Ident:
					if f.Name == "panic" {
						hasPanic = true
					}
				case *ast.SelectorExpr:
					if recv, ok := f.X.(*ast.Ident); ok {
						if obj := pk.TypesInfo.Uses[recv]; obj != nil {
							t := obj.Type()
							if p, ok := t.(*types.Pointer); ok {
								t = p.Elem()
							}
							if n, ok := t.(*types.Named); ok && (n.Obj().Name() == "Encoder" || n.Obj().Name() == "Decoder") {
								if !seen[f.Sel.Name] {
									seen[f.Sel.Name] = true
									arm.calls = append(arm.calls, f.Sel.Name)
								}
							}
						}
					}
				}
			case *ast.AssignStmt:
				for _, l := range x.Lhs {
					if se, ok := l.(*ast.SelectorExpr); ok && se.Sel.Name == "err" {
						setsErr = true
					}
				}
			}
			return true
		})
	}
	sort.Strings(arm.calls)
	prims, rec := 0, 0
	for _, c := range arm.calls {
		switch {
		case strings.HasPrefix(c, "Put") || strings.HasPrefix(c, "Pop"):
			prims++
		case strings.HasPrefix(c, "encode") || strings.HasPrefix(c, "decode"):
			rec++
		}
	}
	switch {
	case hasPanic && prims == 0 && rec == 0:
		arm.class = "panic"
	case prims > 0 || rec > 0:
		arm.class = "codec"
	case setsErr:
		arm.class = "error"
	}
	return arm
}

// kindOfType maps a go/types type to the reflect.Kind name the walks will see.
func kindOfType(t types.Type) string {
	switch u := t.Underlying().(type) {
	case *types.Basic:
		switch u.Kind() {
		case types.Bool:
			return "Bool"
		case types.Int:
			return "Int"
		case types.Int8:
			return "Int8"
		case types.Int16:
			return "Int16"
		case types.Int32:
			return "Int32"
		case types.Int64:
			return "Int64"
		case types.Uint:
			return "Uint"
		case types.Uint8:
			return "Uint8"
		case types.Uint16:
			return "Uint16"
		case types.Uint32:
			return "Uint32"
		case types.Uint64:
			return "Uint64"
		case types.Uintptr:
			return "Uintptr"
		case types.Float32:
			return "Float32"
		case types.Float64:
			return "Float64"
		case types.Complex64:
			return "Complex64"
		case types.Complex128:
			return "Complex128"
		case types.String:
			return "String"
		case types.UnsafePointer:
			return "UnsafePointer"
		}
	case *types.Pointer:
		return "Ptr"
	case *types.Slice:
		return "Slice"
	case *types.Array:
		return "Array"
	case *types.Struct:
		return "Struct"
	case *types.Interface:
		return "Interface"
	case *types.Map:
		return "Map"
	case *types.Chan:
		return "Chan"
	case *types.Signature:
		return "Func"
	}
	return "Invalid"
}
