// Package tlschema is an independent reader of .tl schema text, written for the checker.  It shares no code
// with /repo's tlparser: the point of translation validation is two independent readings.
package tlschema

import (
	"bufio"
	"fmt"
	"hash/crc32"
	"os"
	"regexp"
	"strconv"
	"strings"
)

type Param struct {
	Name    string
	Type    string // full TL type expression after ':' with the flags prefix removed, e.g. Vector<long>, InputPeer, #, true
	IsFlags bool   // type is '#'
	Cond    bool   // flags.N?T
	FlagVar string // name of the flags field for conditional params
	Bit     int
	Generic bool // {X:Type}
}

type Def struct {
	Name   string
	ID     uint32
	HasID  bool
	Params []Param
	Result string
	IsFunc bool
	Line   int
	Raw    string // the line without trailing ';'
	File   string
}

type Schema struct {
	File  string
	Defs  []*Def
	Lines int
	// comment lines (text after //), for C14's comment-kind rule
	Comments []Comment
}

type Comment struct {
	Line int
	Text string
}

var identRe = regexp.MustCompile(`^[A-Za-z_][A-Za-z0-9_.]*$`)

// Parse reads a schema file.  Lines that are not definitions with a '=' are returned in skipped.
func Parse(path string) (*Schema, []string, error) {
	f, err := os.Open(path)
	if err != nil {
		return nil, nil, err
	}
	defer f.Close()
	s := &Schema{File: path}
	var skipped []string
	sc := bufio.NewScanner(f)
	sc.Buffer(make([]byte, 1<<20), 1<<20)
	isFunc := false
	ln := 0
	for sc.Scan() {
		ln++
		line := strings.TrimSpace(sc.Text())
		if line == "" {
			continue
		}
		if strings.HasPrefix(line, "//") {
			s.Comments = append(s.Comments, Comment{ln, strings.TrimSpace(strings.TrimPrefix(line, "//"))})
			continue
		}
		if strings.HasPrefix(line, "---") {
			switch strings.Trim(line, "- ") {
			case "functions":
				isFunc = true
			case "types":
				isFunc = false
			default:
				return nil, nil, fmt.Errorf("%s:%d: unknown section %q", path, ln, line)
			}
			continue
		}
		if !strings.HasSuffix(line, ";") {
			return nil, nil, fmt.Errorf("%s:%d: definition does not end in ';': %q", path, ln, line)
		}
		raw := strings.TrimSpace(strings.TrimSuffix(line, ";"))
		d, err := parseDef(raw)
		if err != nil {
			skipped = append(skipped, fmt.Sprintf("%d: %s (%v)", ln, raw, err))
			continue
		}
		d.IsFunc = isFunc
		d.Line = ln
		d.File = path
		s.Defs = append(s.Defs, d)
	}
	s.Lines = ln
	return s, skipped, sc.Err()
}

func parseDef(raw string) (*Def, error) {
	eq := strings.LastIndex(raw, "=")
	if eq < 0 {
		return nil, fmt.Errorf("no '='")
	}
	lhs := strings.Fields(raw[:eq])
	res := strings.TrimSpace(raw[eq+1:])
	if len(lhs) == 0 || res == "" {
		return nil, fmt.Errorf("empty side")
	}
	d := &Def{Raw: raw, Result: res}
	head := lhs[0]
	if i := strings.IndexByte(head, '#'); i >= 0 {
		id, err := strconv.ParseUint(head[i+1:], 16, 32)
		if err != nil {
			return nil, fmt.Errorf("bad id %q", head[i+1:])
		}
		d.ID = uint32(id)
		d.HasID = true
		head = head[:i]
	}
	if !identRe.MatchString(head) {
		return nil, fmt.Errorf("bad name %q", head)
	}
	d.Name = head
	for _, tok := range lhs[1:] {
		if strings.HasPrefix(tok, "{") && strings.HasSuffix(tok, "}") {
			in := strings.Trim(tok, "{}")
			c := strings.IndexByte(in, ':')
			if c < 0 {
				return nil, fmt.Errorf("bad generic %q", tok)
			}
			d.Params = append(d.Params, Param{Name: in[:c], Type: in[c+1:], Generic: true})
			continue
		}
		c := strings.IndexByte(tok, ':')
		if c <= 0 {
			return nil, fmt.Errorf("not name:type: %q", tok)
		}
		p := Param{Name: tok[:c], Type: tok[c+1:]}
		if !identRe.MatchString(p.Name) {
			return nil, fmt.Errorf("bad param name %q", p.Name)
		}
		if p.Type == "#" {
			p.IsFlags = true
		} else if q := strings.IndexByte(p.Type, '?'); q >= 0 {
			cond := p.Type[:q]
			dot := strings.IndexByte(cond, '.')
			if dot < 0 {
				return nil, fmt.Errorf("bad condition %q", cond)
			}
			bit, err := strconv.Atoi(cond[dot+1:])
			if err != nil || bit < 0 || bit > 31 {
				return nil, fmt.Errorf("bad bit %q", cond)
			}
			p.Cond, p.FlagVar, p.Bit, p.Type = true, cond[:dot], bit, p.Type[q+1:]
		}
		if p.Type == "" {
			return nil, fmt.Errorf("empty type")
		}
		d.Params = append(d.Params, p)
	}
	return d, nil
}

var (
	idRe       = regexp.MustCompile(`#[0-9a-fA-F]+`)
	trueFlagRe = regexp.MustCompile(` [A-Za-z0-9_]+:flags\.[0-9]+\?true`)
)

// CanonicalCRC is the CRC-32 (IEEE) of the canonical form of a schema line, the rule TL uses to name constructors.
func CanonicalCRC(raw string) uint32 {
	return crc32.ChecksumIEEE([]byte(Canonical(raw)))
}

func Canonical(raw string) string {
	s := strings.TrimSuffix(strings.TrimSpace(raw), ";")
	// strip the #id of the combinator name only (first token)
	if sp := strings.IndexByte(s, ' '); sp >= 0 {
		s = idRe.ReplaceAllString(s[:sp], "") + s[sp:]
	} else {
		s = idRe.ReplaceAllString(s, "")
	}
	s = strings.ReplaceAll(s, ":bytes", ":string")
	s = strings.ReplaceAll(s, "?bytes", "?string")
	s = trueFlagRe.ReplaceAllString(s, "")
	s = strings.ReplaceAll(s, "<", " ")
	for _, c := range []string{">", "{", "}", "%"} {
		s = strings.ReplaceAll(s, c, "")
	}
	return strings.Join(strings.Fields(s), " ")
}

// VectorElem returns the element type of Vector<T> / vector<T> / vector<%T>.
func VectorElem(t string) (elem string, bare bool, ok bool) {
	for _, pre := range []string{"Vector<", "vector<"} {
		if strings.HasPrefix(t, pre) && strings.HasSuffix(t, ">") {
			e := t[len(pre) : len(t)-1]
			if strings.HasPrefix(e, "%") {
				return e[1:], true, true
			}
			return e, pre == "vector<", true
		}
	}
	return "", false, false
}
