// Package pop enumerates the constructor population from the type-checked program (engine E1):
// every argument of tl.RegisterObjects / tl.RegisterEnums, its CRC() constant, fields, tags, FlagIndex().
package pop

import (
	"fmt"
	"go/ast"
	"go/constant"
	"go/token"
	"go/types"
	"reflect"
	"sort"
	"strconv"
	"strings"

	"verif/checker/internal/load"

	"golang.org/x/tools/go/packages"
)

type Tag struct {
	Present   bool
	Ignore    bool
	HasFlag   bool
	Bit       int
	InBitflag bool
	OmitEmpty bool
	Raw       string
	Err       string
}

type Field struct {
	Name     string
	Type     types.Type
	Tag      Tag
	Exported bool
	Pos      token.Pos
}

type Member struct {
	Name      string // Go type name (or constant name for enum values)
	Pkg       string
	Named     *types.Named // the Go named type (struct type, or enum type for enum values)
	IsEnum    bool         // registered through RegisterEnums
	EnumConst *types.Const
	CRC       uint32
	CRCKnown  bool
	CRCWhy    string // reason when !CRCKnown
	Struct    *types.Struct
	Fields    []Field
	HasFlagIx bool
	FlagIndex int
	FlagIxOK  bool // FlagIndex is a constant
	Pos       token.Pos
	RegPos    token.Pos
	RegCount  int
	ByValue   bool // registered as a value, not as &T{}
	// hand-written codec methods
	Marshaler, Unmarshaler bool
}

type Population struct {
	Members []*Member
	ByCRC   map[uint32][]*Member
	ByType  map[*types.TypeName]*Member // struct / non-enum members
	// Extra: types that have a CRC() method on their pointer receiver but are not registered
	Unregistered []*Member
	Problems     []string
	tlObject     *types.Interface
	tlMarshaler  *types.Interface
	tlUnmarsh    *types.Interface
	tlFlagIx     *types.Interface
}

// ParseTag is an independent statement of the tag grammar of package tl:
//
//	tl:"-" | tl:"flag:N[,encoded_in_bitflags][,omitempty]" | tl:"[,omitempty]"
func ParseTag(raw string) Tag {
	t := Tag{Raw: raw}
	v, ok := reflect.StructTag(raw).Lookup("tl")
	if !ok {
		return t
	}
	t.Present = true
	parts := strings.Split(v, ",")
	name := parts[0]
	if name == "-" {
		t.Ignore = true
		return t
	}
	if strings.HasPrefix(name, "flag:") {
		n, err := strconv.Atoi(strings.TrimPrefix(name, "flag:"))
		if err != nil {
			t.Err = "flag index is not a number: " + name
			return t
		}
		t.HasFlag, t.Bit = true, n
	} else if name != "" {
		t.Err = "unknown tag name " + strconv.Quote(name)
	}
	for _, o := range parts[1:] {
		switch o {
		case "encoded_in_bitflags":
			t.InBitflag = true
		case "omitempty":
			t.OmitEmpty = true
		default:
			t.Err = "unknown option " + strconv.Quote(o)
		}
	}
	if t.InBitflag && !t.HasFlag {
		t.Err = "encoded_in_bitflags without flag index"
	}
	return t
}

// Build collects the population.
func Build(p *load.Program) (*Population, error) {
	tlp := p.Pkg(load.TLPkg)
	if tlp == nil {
		return nil, fmt.Errorf("package %s not loaded", load.TLPkg)
	}
	pp := &Population{ByCRC: map[uint32][]*Member{}, ByType: map[*types.TypeName]*Member{}}
	iface := func(n string) *types.Interface {
		o := tlp.Types.Scope().Lookup(n)
		if o == nil {
			return nil
		}
		i, _ := o.Type().Underlying().(*types.Interface)
		return i
	}
	pp.tlObject, pp.tlMarshaler, pp.tlUnmarsh, pp.tlFlagIx = iface("Object"), iface("Marshaler"), iface("Unmarshaler"), iface("FlagIndexGetter")
	if pp.tlObject == nil || pp.tlMarshaler == nil || pp.tlUnmarsh == nil || pp.tlFlagIx == nil {
		return nil, fmt.Errorf("tl.Object/Marshaler/Unmarshaler/FlagIndexGetter not found")
	}
	regObj := tlp.Types.Scope().Lookup("RegisterObjects")
	regEnum := tlp.Types.Scope().Lookup("RegisterEnums")
	if regObj == nil || regEnum == nil {
		return nil, fmt.Errorf("tl.RegisterObjects / tl.RegisterEnums not found")
	}
	seen := map[string]*Member{}
	for _, pk := range p.Initial {
		if !strings.HasPrefix(pk.PkgPath, load.RootMod) || strings.Contains(pk.PkgPath, "/examples/") {
			continue
		}
		for _, file := range pk.Syntax {
			ast.Inspect(file, func(n ast.Node) bool {
				call, ok := n.(*ast.CallExpr)
				if !ok {
					return true
				}
				var callee types.Object
				switch f := call.Fun.(type) {
				case *ast.SelectorExpr:
					callee = pk.TypesInfo.Uses[f.Sel]
				case *ast.Ident:
					callee = pk.TypesInfo.Uses[f]
				}
				if callee != regObj && callee != regEnum {
					return true
				}
				args := call.Args
				if call.Ellipsis.IsValid() && len(call.Args) == 1 {
					// RegisterObjects(list...): the list is a slice literal - written in place, kept in a variable that
					// is assigned once, or returned by a function of the package whose body is that literal
					if el := spreadElements(pk, file, call.Args[0]); el != nil {
						args = el
					}
				}
				for _, a := range args {
					m := pp.memberFromArg(p, pk, a, callee == regEnum)
					if m == nil {
						pp.Problems = append(pp.Problems, fmt.Sprintf("%s: unrecognised registration argument %s", p.Pos(a.Pos()), types.ExprString(a)))
						continue
					}
					key := m.Pkg + "." + m.Name
					if prev, ok := seen[key]; ok {
						prev.RegCount++
						continue
					}
					m.RegCount = 1
					m.RegPos = a.Pos()
					seen[key] = m
					pp.Members = append(pp.Members, m)
				}
				return true
			})
		}
	}
	sort.Slice(pp.Members, func(i, j int) bool {
		if pp.Members[i].Pkg != pp.Members[j].Pkg {
			return pp.Members[i].Pkg < pp.Members[j].Pkg
		}
		return pp.Members[i].Name < pp.Members[j].Name
	})
	for _, m := range pp.Members {
		if m.CRCKnown {
			pp.ByCRC[m.CRC] = append(pp.ByCRC[m.CRC], m)
		}
		if !m.IsEnum && m.Named != nil {
			pp.ByType[m.Named.Obj()] = m
		}
	}
	// unregistered types with CRC() in the same packages (hand-written wrappers etc.)
	for _, pk := range p.Initial {
		if pk.PkgPath != load.TgPkg && pk.PkgPath != load.ObjPkg && pk.PkgPath != load.RootMod && pk.PkgPath != load.TLPkg {
			continue
		}
		sc := pk.Types.Scope()
		for _, n := range sc.Names() {
			tn, ok := sc.Lookup(n).(*types.TypeName)
			if !ok || tn.IsAlias() {
				continue
			}
			named, ok := tn.Type().(*types.Named)
			if !ok {
				continue
			}
			if _, isIface := named.Underlying().(*types.Interface); isIface {
				continue
			}
			if _, reg := pp.ByType[tn]; reg {
				continue
			}
			if !types.Implements(types.NewPointer(named), pp.tlObject) {
				continue
			}
			if b, ok := named.Underlying().(*types.Basic); ok && b.Kind() == types.Uint32 {
				continue // enum type; its values are the members
			}
			m := pp.memberFromNamed(p, pk, named, false)
			pp.Unregistered = append(pp.Unregistered, m)
		}
	}
	return pp, nil
}

func (pp *Population) memberFromArg(p *load.Program, pk *packages.Package, a ast.Expr, enum bool) *Member {
	a = ast.Unparen(a)
	if u, ok := a.(*ast.UnaryExpr); ok && u.Op == token.AND {
		cl, ok := ast.Unparen(u.X).(*ast.CompositeLit)
		if !ok {
			return nil
		}
		tv := pk.TypesInfo.Types[cl]
		named, ok := tv.Type.(*types.Named)
		if !ok {
			return nil
		}
		m := pp.memberFromNamed(p, p.Pkg(named.Obj().Pkg().Path()), named, enum)
		return m
	}
	// constant of a named type (enum value) or a value expression
	tv, ok := pk.TypesInfo.Types[a]
	if !ok {
		return nil
	}
	named, ok := tv.Type.(*types.Named)
	if !ok {
		return nil
	}
	m := &Member{Pkg: named.Obj().Pkg().Path(), Named: named, IsEnum: enum, ByValue: true, Pos: a.Pos()}
	var id *ast.Ident
	switch e := a.(type) {
	case *ast.Ident:
		id = e
	case *ast.SelectorExpr:
		id = e.Sel
	}
	if id != nil {
		if c, ok := pk.TypesInfo.Uses[id].(*types.Const); ok {
			m.EnumConst = c
			m.Name = c.Name()
			m.Pos = c.Pos()
		}
	}
	if m.Name == "" {
		m.Name = types.ExprString(a)
	}
	// CRC of a value-registered member: the method must be `return uint32(recv)`.
	if tv.Value != nil {
		if crc, why := crcOfValueType(p, named, tv.Value); why == "" {
			m.CRC, m.CRCKnown = crc, true
		} else {
			m.CRCWhy = why
		}
	} else {
		m.CRCWhy = "registration argument is not a constant"
	}
	return m
}

func findMethodDecl(p *load.Program, named *types.Named, name string) (*ast.FuncDecl, *packages.Package) {
	pk := p.Pkg(named.Obj().Pkg().Path())
	if pk == nil {
		return nil, nil
	}
	for _, f := range pk.Syntax {
		for _, d := range f.Decls {
			fd, ok := d.(*ast.FuncDecl)
			if !ok || fd.Recv == nil || fd.Name.Name != name || len(fd.Recv.List) != 1 {
				continue
			}
			t := fd.Recv.List[0].Type
			if s, ok := t.(*ast.StarExpr); ok {
				t = s.X
			}
			if id, ok := t.(*ast.Ident); ok && pk.TypesInfo.Uses[id] == named.Obj() {
				return fd, pk
			}
		}
	}
	return nil, nil
}

// constReturn evaluates a method whose body is a single `return <constant expr>`.
func constReturn(pk *packages.Package, fd *ast.FuncDecl) (constant.Value, string) {
	if fd == nil || fd.Body == nil {
		return nil, "method not found"
	}
	if len(fd.Body.List) != 1 {
		return nil, "body is not a single return statement"
	}
	rs, ok := fd.Body.List[0].(*ast.ReturnStmt)
	if !ok || len(rs.Results) != 1 {
		return nil, "body is not a single return statement"
	}
	tv := pk.TypesInfo.Types[rs.Results[0]]
	if tv.Value == nil {
		return nil, "returned expression is not a constant: " + types.ExprString(rs.Results[0])
	}
	return tv.Value, ""
}

func crcOfValueType(p *load.Program, named *types.Named, v constant.Value) (uint32, string) {
	fd, pk := findMethodDecl(p, named, "CRC")
	if fd == nil {
		return 0, "no CRC method"
	}
	// accept `return uint32(e)` where e is the receiver
	if len(fd.Body.List) == 1 {
		if rs, ok := fd.Body.List[0].(*ast.ReturnStmt); ok && len(rs.Results) == 1 {
			if call, ok := ast.Unparen(rs.Results[0]).(*ast.CallExpr); ok && len(call.Args) == 1 {
				if tv := pk.TypesInfo.Types[call.Fun]; tv.IsType() {
					if id, ok := ast.Unparen(call.Args[0]).(*ast.Ident); ok && len(fd.Recv.List[0].Names) == 1 &&
						pk.TypesInfo.Uses[id] == pk.TypesInfo.Defs[fd.Recv.List[0].Names[0]] {
						u, ok := constant.Uint64Val(constant.ToInt(v))
						if !ok || u > 0xffffffff {
							return 0, "constant does not fit uint32"
						}
						return uint32(u), ""
					}
				}
			}
		}
	}
	cv, why := constReturn(pk, fd)
	if why != "" {
		return 0, "CRC(): " + why
	}
	u, _ := constant.Uint64Val(constant.ToInt(cv))
	return uint32(u), ""
}

func (pp *Population) memberFromNamed(p *load.Program, pk *packages.Package, named *types.Named, enum bool) *Member {
	m := &Member{Name: named.Obj().Name(), Pkg: named.Obj().Pkg().Path(), Named: named, IsEnum: enum, Pos: named.Obj().Pos()}
	ptr := types.NewPointer(named)
	m.Marshaler = types.Implements(ptr, pp.tlMarshaler)
	m.Unmarshaler = types.Implements(ptr, pp.tlUnmarsh)
	fd, mpk := findMethodDecl(p, named, "CRC")
	if fd == nil {
		m.CRCWhy = "no CRC method declared on the type"
	} else if cv, why := constReturn(mpk, fd); why != "" {
		m.CRCWhy = "CRC(): " + why
	} else if u, ok := constant.Uint64Val(constant.ToInt(cv)); ok && u <= 0xffffffff {
		m.CRC, m.CRCKnown = uint32(u), true
	} else {
		m.CRCWhy = "CRC constant does not fit uint32"
	}
	if st, ok := named.Underlying().(*types.Struct); ok {
		m.Struct = st
		for i := 0; i < st.NumFields(); i++ {
			f := st.Field(i)
			m.Fields = append(m.Fields, Field{Name: f.Name(), Type: f.Type(), Tag: ParseTag(st.Tag(i)), Exported: f.Exported(), Pos: f.Pos()})
		}
	}
	if types.Implements(ptr, pp.tlFlagIx) {
		m.HasFlagIx = true
		fd, fpk := findMethodDecl(p, named, "FlagIndex")
		if cv, why := constReturn(fpk, fd); why == "" {
			if n, ok := constant.Int64Val(constant.ToInt(cv)); ok {
				m.FlagIndex, m.FlagIxOK = int(n), true
			}
		}
	}
	return m
}

// Implementers returns the registered non-enum members whose pointer type implements the named interface type.
func (pp *Population) Implementers(iface *types.Named) []*Member {
	it, ok := iface.Underlying().(*types.Interface)
	if !ok {
		return nil
	}
	var out []*Member
	for _, m := range pp.Members {
		if m.IsEnum || m.Named == nil {
			continue
		}
		if types.Implements(types.NewPointer(m.Named), it) {
			out = append(out, m)
		}
	}
	return out
}

// EnumValues returns the registered enum members of a named uint32 type.
func (pp *Population) EnumValues(t *types.Named) []*Member {
	var out []*Member
	for _, m := range pp.Members {
		if m.IsEnum && m.Named == t {
			out = append(out, m)
		}
	}
	return out
}

func (pp *Population) IsObject(t types.Type) bool      { return types.Implements(t, pp.tlObject) }
func (pp *Population) IsMarshaler(t types.Type) bool   { return types.Implements(t, pp.tlMarshaler) }
func (pp *Population) IsUnmarshaler(t types.Type) bool { return types.Implements(t, pp.tlUnmarsh) }
func (pp *Population) ObjectIface() *types.Interface   { return pp.tlObject }

// spreadElements resolves the argument of a variadic call written `f(list...)` to the elements of the slice literal
// it denotes; nil when it is anything else.
func spreadElements(pk *packages.Package, file *ast.File, arg ast.Expr) []ast.Expr {
	lit := func(e ast.Expr) []ast.Expr {
		if cl, ok := ast.Unparen(e).(*ast.CompositeLit); ok {
			if _, isSlice := pk.TypesInfo.TypeOf(cl).Underlying().(*types.Slice); isSlice {
				return cl.Elts
			}
		}
		return nil
	}
	switch a := ast.Unparen(arg).(type) {
	case *ast.CompositeLit:
		return lit(a)
	case *ast.Ident:
		obj := pk.TypesInfo.Uses[a]
		if obj == nil {
			return nil
		}
		var found []ast.Expr
		n := 0
		ast.Inspect(file, func(nd ast.Node) bool {
			switch st := nd.(type) {
			case *ast.AssignStmt:
				for i, l := range st.Lhs {
					id, ok := l.(*ast.Ident)
					if !ok || (pk.TypesInfo.Defs[id] != obj && pk.TypesInfo.Uses[id] != obj) {
						continue
					}
					n++
					if len(st.Rhs) == len(st.Lhs) {
						found = lit(st.Rhs[i])
					} else {
						found = nil
					}
				}
			case *ast.ValueSpec:
				for i, id := range st.Names {
					if pk.TypesInfo.Defs[id] == obj && i < len(st.Values) {
						n++
						found = lit(st.Values[i])
					}
				}
			}
			return true
		})
		if n == 1 {
			return found
		}
	case *ast.CallExpr:
		var fobj types.Object
		switch f := a.Fun.(type) {
		case *ast.Ident:
			fobj = pk.TypesInfo.Uses[f]
		case *ast.SelectorExpr:
			fobj = pk.TypesInfo.Uses[f.Sel]
		}
		if fobj == nil || len(a.Args) != 0 {
			return nil
		}
		for _, f := range pk.Syntax {
			for _, d := range f.Decls {
				fd, ok := d.(*ast.FuncDecl)
				if !ok || fd.Body == nil || pk.TypesInfo.Defs[fd.Name] != fobj || len(fd.Body.List) != 1 {
					continue
				}
				if rs, ok := fd.Body.List[0].(*ast.ReturnStmt); ok && len(rs.Results) == 1 {
					return lit(rs.Results[0])
				}
			}
		}
	}
	return nil
}
