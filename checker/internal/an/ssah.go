// Package an holds the analysis engines over go/ssa: call-site resolution, cut-edge guard dominance (E3),
// origin / def-use tracing (E4), panic census (E7), lock scopes (E8), small interval evaluation (E9).
package an

import (
	"go/constant"
	"go/token"
	"go/types"
	"sort"
	"strings"

	"golang.org/x/tools/go/ssa"
)

// CalleeName is a stable name for the target of a call: a static callee's full name
// ("bytes.Equal", "(*math/big.Int).Cmp"), "invoke:(pkg.Iface).Method" for interface calls,
// "builtin:copy" for builtins, "dynamic" otherwise.
func CalleeName(c *ssa.CallCommon) string {
	if c.IsInvoke() {
		return "invoke:" + c.Method.FullName()
	}
	switch f := c.Value.(type) {
	case *ssa.Function:
		return funcFullName(f)
	case *ssa.Builtin:
		return "builtin:" + f.Name()
	case *ssa.MakeClosure:
		if fn, ok := f.Fn.(*ssa.Function); ok {
			return funcFullName(fn)
		}
	}
	return "dynamic"
}

func funcFullName(f *ssa.Function) string {
	if f.Origin() != nil {
		f = f.Origin()
	}
	if o := f.Object(); o != nil {
		if fo, ok := o.(*types.Func); ok {
			return fo.FullName()
		}
	}
	return f.String()
}

// StaticCallee returns the function called, for static calls and closures.
func StaticCallee(c *ssa.CallCommon) *ssa.Function {
	if c.IsInvoke() {
		return nil
	}
	switch f := c.Value.(type) {
	case *ssa.Function:
		return f
	case *ssa.MakeClosure:
		fn, _ := f.Fn.(*ssa.Function)
		return fn
	}
	return nil
}

// CallArgs returns receiver+arguments uniformly (receiver first for invoke calls too).
func CallArgs(c *ssa.CallCommon) []ssa.Value {
	if c.IsInvoke() {
		return append([]ssa.Value{c.Value}, c.Args...)
	}
	return c.Args
}

// CallSite is one call instruction.
type CallSite struct {
	Instr  ssa.CallInstruction
	Common *ssa.CallCommon
	Name   string
	Block  *ssa.BasicBlock
	Idx    int
}

func (c CallSite) Pos() token.Pos {
	if p := c.Instr.Pos(); p.IsValid() {
		return p
	}
	return c.Common.Pos()
}

// Value returns the call's result value (nil for go/defer).
func (c CallSite) Value() ssa.Value {
	if v, ok := c.Instr.(*ssa.Call); ok {
		return v
	}
	return nil
}

// Calls lists the call instructions of fn (including go and defer), in block/instruction order.
// Anonymous functions nested in fn are NOT included; use WithAnon.
func Calls(fn *ssa.Function) []CallSite {
	var out []CallSite
	for _, b := range fn.Blocks {
		for i, in := range b.Instrs {
			if ci, ok := in.(ssa.CallInstruction); ok {
				out = append(out, CallSite{Instr: ci, Common: ci.Common(), Name: CalleeName(ci.Common()), Block: b, Idx: i})
			}
		}
	}
	return out
}

// WithAnon returns fn and all function literals nested in it.
func WithAnon(fn *ssa.Function) []*ssa.Function {
	out := []*ssa.Function{fn}
	for _, a := range fn.AnonFuncs {
		out = append(out, WithAnon(a)...)
	}
	return out
}

// CallsNamed filters Calls by callee name.
func CallsNamed(fn *ssa.Function, names ...string) []CallSite {
	var out []CallSite
	for _, c := range Calls(fn) {
		for _, n := range names {
			if c.Name == n {
				out = append(out, c)
			}
		}
	}
	return out
}

// ConstInt returns the integer value of a constant SSA value.
func ConstInt(v ssa.Value) (int64, bool) {
	c, ok := v.(*ssa.Const)
	if !ok || c.Value == nil {
		return 0, false
	}
	if c.Value.Kind() != constant.Int {
		return 0, false
	}
	n, ok := constant.Int64Val(c.Value)
	if !ok {
		if u, ok2 := constant.Uint64Val(c.Value); ok2 {
			return int64(u), true
		}
	}
	return n, ok
}

func IsNilConst(v ssa.Value) bool {
	c, ok := v.(*ssa.Const)
	return ok && c.Value == nil
}

// Unconv strips value-preserving wrappers (conversions between named/unnamed forms, interface boxing).
func Unconv(v ssa.Value) ssa.Value {
	for {
		switch x := v.(type) {
		case *ssa.ChangeType:
			v = x.X
		case *ssa.MakeInterface:
			v = x.X
		case *ssa.ChangeInterface:
			v = x.X
		default:
			return v
		}
	}
}

// FieldName gives Type.Field for a FieldAddr / Field instruction.
func FieldName(structT types.Type, idx int) string {
	t := structT
	if p, ok := t.Underlying().(*types.Pointer); ok {
		t = p.Elem()
	}
	name := "?"
	if st, ok := t.Underlying().(*types.Struct); ok && idx < st.NumFields() {
		name = st.Field(idx).Name()
	}
	tn := "struct"
	if n, ok := t.(*types.Named); ok {
		tn = n.Obj().Name()
		if n.Obj().Pkg() != nil {
			tn = n.Obj().Pkg().Name() + "." + tn
		}
	}
	return tn + "." + name
}

// SortedKeys of a string set.
func SortedKeys(m map[string]bool) []string {
	var out []string
	for k := range m {
		out = append(out, k)
	}
	sort.Strings(out)
	return out
}

// Referrers that are instructions of a given kind.
func refs(v ssa.Value) []ssa.Instruction {
	r := v.Referrers()
	if r == nil {
		return nil
	}
	return *r
}

// HasSuffixAny reports whether s ends with one of the suffixes.
func HasSuffixAny(s string, suf ...string) bool {
	for _, x := range suf {
		if strings.HasSuffix(s, x) {
			return true
		}
	}
	return false
}

// IsPanicHelper recognises functions whose only purpose is to panic when an argument signals failure:
// every path either returns without effect or ends in panic, and some path panics (check, dry.PanicIf,
// dry.PanicIfErr).  Found, not listed.
func IsPanicHelper(f *ssa.Function) bool {
	if f == nil || len(f.Blocks) == 0 || len(f.Blocks) > 6 || len(f.Params) == 0 {
		return false
	}
	hasPanic := false
	for _, b := range f.Blocks {
		for _, in := range b.Instrs {
			switch x := in.(type) {
			case *ssa.Panic:
				hasPanic = true
			case *ssa.Store, *ssa.Send, *ssa.Go, *ssa.Defer, *ssa.MapUpdate:
				return false
			case *ssa.Return:
				if len(x.Results) != 0 {
					return false
				}
			}
		}
	}
	return hasPanic
}

// RetVal: the value a return statement hands back as its idx-th result.  In a function with defers go/ssa spills
// the results into slots - `store slot <- v; rundefers; return *slot` - so the operand of the Return is a load
// that merges every exit; the value returned by THIS exit is the last store to the slot in the returning block.
func RetVal(ret *ssa.Return, idx int) ssa.Value {
	v := ret.Results[idx]
	ld, ok := v.(*ssa.UnOp)
	if !ok || ld.Op != token.MUL {
		return v
	}
	slot, ok := ld.X.(*ssa.Alloc)
	if !ok {
		return v
	}
	b := ret.Block()
	for i := len(b.Instrs) - 1; i >= 0; i-- {
		if st, ok := b.Instrs[i].(*ssa.Store); ok && st.Addr == ssa.Value(slot) {
			return st.Val
		}
	}
	return v
}

var recoversMemo = map[*ssa.Function]bool{}

// Recovers reports whether some deferred call of fn (a function literal or a named function) calls recover().
func Recovers(fn *ssa.Function) bool {
	if v, ok := recoversMemo[fn]; ok {
		return v
	}
	res := false
	for _, b := range fn.Blocks {
		for _, in := range b.Instrs {
			df, ok := in.(*ssa.Defer)
			if !ok {
				continue
			}
			var g *ssa.Function
			switch x := df.Call.Value.(type) {
			case *ssa.MakeClosure:
				g, _ = x.Fn.(*ssa.Function)
			case *ssa.Function:
				g = x
			}
			if g == nil {
				if !df.Call.IsInvoke() {
					res = true // unknown callee: assume it may recover
				}
				continue
			}
			for _, gb := range g.Blocks {
				for _, gin := range gb.Instrs {
					if c, ok := gin.(ssa.CallInstruction); ok {
						if bi, ok := c.Common().Value.(*ssa.Builtin); ok && bi.Name() == "recover" {
							res = true
						}
					}
				}
			}
		}
	}
	recoversMemo[fn] = res
	return res
}

// AsReturn is in.(*ssa.Return), except that the return of a function's recover block counts only when the
// function can actually recover: go/ssa gives every function with a defer statement a recover block (load the
// result slots, return), which is dead unless a deferred call calls recover().
func AsReturn(in ssa.Instruction) (*ssa.Return, bool) {
	ret, ok := in.(*ssa.Return)
	if !ok {
		return nil, false
	}
	if fn := ret.Parent(); fn != nil && fn.Recover != nil && ret.Block() == fn.Recover && !Recovers(fn) {
		return nil, false
	}
	return ret, true
}

// MayBeNilConst: v is the nil constant, or a join (phi, transitively) at least one way into which carries the nil
// constant.  A `return err` whose err is nil on the good path and an error on the others - the shape a helper's
// result takes once the helper is inlined, or a hand-written `var err error; if …{ err = … }; return err` - is a
// successful exit just as `return nil` is.
func MayBeNilConst(v ssa.Value) bool {
	seen := map[ssa.Value]bool{}
	var walk func(v ssa.Value) bool
	walk = func(v ssa.Value) bool {
		if seen[v] {
			return false
		}
		seen[v] = true
		if IsNilConst(v) {
			return true
		}
		if p, ok := v.(*ssa.Phi); ok {
			for _, e := range p.Edges {
				if walk(e) {
					return true
				}
			}
		}
		return false
	}
	return walk(v)
}

// MayReturnNil: the idx-th result of this return may be nil (MayBeNilConst) and the return does not sit behind the
// not-nil edge of a test of that very value (`if err != nil { return err }` on a variable that carries nil or an
// error is not a successful exit).
func MayReturnNil(ret *ssa.Return, idx int) bool {
	v := RetVal(ret, idx)
	if !MayBeNilConst(v) {
		return false
	}
	if IsNilConst(v) {
		return true
	}
	b := ret.Block()
	for d := b.Idom(); d != nil; d = d.Idom() {
		if len(d.Instrs) == 0 {
			continue
		}
		i, ok := d.Instrs[len(d.Instrs)-1].(*ssa.If)
		if !ok {
			continue
		}
		cd, ok := Classify(i)
		if !ok || cd.Kind != "nil" || cd.X != v {
			continue
		}
		t := cd.EdgeWhen(false).To() // the value is not nil
		if len(t.Preds) == 1 && (t == b || t.Dominates(b)) {
			return false
		}
	}
	return true
}
