package an

import (
	"go/token"
	"go/types"
	"sort"
	"strconv"
	"strings"

	"golang.org/x/tools/go/ssa"
)

// PPO is a panic-capable operation (engine E7).
type PPO struct {
	Fn      *ssa.Function
	Instr   ssa.Instruction
	Kind    string // panic | helper | assert | reflect | make | slice | index | div
	Desc    string
	Key     string
	Operand ssa.Value
	// Discharged is set when a machine-checked side condition removes the obligation; Why says which.
	Discharged bool
	Why        string
	// LiftParam: the operand is this parameter of Fn — the obligation belongs to the callers.
	LiftParam *ssa.Parameter
}

// reflectPanicky: reflect methods documented to panic on the wrong kind / unsettable / out of range,
// with the kinds that make them safe ("" = cannot be discharged by a Kind test).
var reflectPanicky = map[string][]string{
	"(reflect.Value).Elem":           {"Ptr", "Interface", "Pointer"},
	"(reflect.Value).NumField":       {"Struct"},
	"(reflect.Value).Field":          {"Struct"},
	"(reflect.Value).Index":          {"Slice", "Array", "String"},
	"(reflect.Value).Len":            {"Slice", "Array", "String", "Map", "Chan"},
	"(reflect.Value).Convert":        nil,
	"(reflect.Value).Set":            nil,
	"(reflect.Value).Addr":           nil,
	"(reflect.Value).IsNil":          {"Ptr", "Interface", "Slice", "Map", "Chan", "Func", "Pointer"},
	"(reflect.Value).Pointer":        {"Ptr", "Slice", "Map", "Chan", "Func", "Pointer", "UnsafePointer"},
	"(reflect.Value).UnsafePointer":  {"Ptr", "Slice", "Map", "Chan", "Func", "Pointer", "UnsafePointer"},
	"(reflect.Value).Int":            {"Int", "Int8", "Int16", "Int32", "Int64"},
	"(reflect.Value).Uint":           {"Uint", "Uint8", "Uint16", "Uint32", "Uint64", "Uintptr"},
	"(reflect.Value).Float":          {"Float32", "Float64"},
	"(reflect.Value).Bool":           {"Bool"},
	"(reflect.Value).SetUint":        {"Uint", "Uint8", "Uint16", "Uint32", "Uint64", "Uintptr"},
	"(reflect.Value).SetInt":         {"Int", "Int8", "Int16", "Int32", "Int64"},
	"(reflect.Value).Interface":      nil,
	"(reflect.Value).Type":           nil,
	"(reflect.Value).IsZero":         nil,
	"invoke:(reflect.Type).Elem":     {"Ptr", "Slice", "Array", "Map", "Chan", "Pointer"},
	"invoke:(reflect.Type).Field":    {"Struct"},
	"invoke:(reflect.Type).NumField": {"Struct"},
	"reflect.MakeSlice":              nil,
	"reflect.Indirect":               nil,
}

// safeReflect: methods that only panic on the zero Value (not kind-dependent); excluded from the census.
var safeReflect = map[string]bool{"(reflect.Value).Interface": true, "(reflect.Value).Type": true, "(reflect.Value).IsZero": true, "reflect.Indirect": true}

// NonNeg is a small syntactic non-negativity judgement for integer SSA values.
func NonNeg(v ssa.Value, depth int) bool {
	if depth > 10 {
		return false
	}
	if k, ok := ConstInt(v); ok {
		return k >= 0
	}
	switch x := v.(type) {
	case *ssa.Call:
		n := CalleeName(x.Common())
		return n == "builtin:len" || n == "builtin:cap" || n == "builtin:copy" || n == "(reflect.Value).Len" || n == "(reflect.Value).NumField" || n == "invoke:(reflect.Type).NumField"
	case *ssa.Convert:
		// widening of an unsigned type of at most 32 bits, or of a non-negative value to a type at least as wide
		if b, ok := x.X.Type().Underlying().(*types.Basic); ok {
			switch b.Kind() {
			case types.Uint8, types.Uint16, types.Uint32:
				if d, ok := x.Type().Underlying().(*types.Basic); ok && (d.Kind() == types.Int || d.Kind() == types.Int64 || d.Kind() == types.Uint || d.Kind() == types.Uint64 || d.Kind() == types.Uint32) {
					return true
				}
			}
		}
		if d, ok := x.Type().Underlying().(*types.Basic); ok && (d.Kind() == types.Int || d.Kind() == types.Int64) {
			return NonNeg(x.X, depth+1) && typeBits(x.X.Type()) <= 64
		}
		return false
	case *ssa.BinOp:
		if x.Op == token.ADD {
			// range-loop induction variable: i' = phi(-1, i') + 1
			if phi, ok := x.X.(*ssa.Phi); ok {
				if c, ok := ConstInt(x.Y); ok && c >= 1 {
					okAll := true
					for _, e := range phi.Edges {
						if e == ssa.Value(x) {
							continue
						}
						if k, ok := ConstInt(e); !ok || k < -c {
							okAll = false
						}
					}
					if okAll {
						return true
					}
				}
			}
		}
		switch x.Op {
		case token.ADD, token.MUL, token.QUO, token.REM, token.SHR, token.AND, token.OR:
			return NonNeg(x.X, depth+1) && NonNeg(x.Y, depth+1)
		case token.SUB:
			// c - (e % c) with c > 0 constant
			if c, ok := ConstInt(x.X); ok && c > 0 {
				if r, ok := x.Y.(*ssa.BinOp); ok && r.Op == token.REM {
					if m, ok := ConstInt(r.Y); ok && m == c && NonNeg(r.X, depth+1) {
						return true
					}
				}
			}
		}
	case *ssa.Phi:
		for _, e := range x.Edges {
			if e == ssa.Value(x) {
				continue
			}
			// induction step i+1 / i+c
			if b, ok := e.(*ssa.BinOp); ok && b.Op == token.ADD && b.X == ssa.Value(x) {
				if c, ok := ConstInt(b.Y); ok && c >= 0 {
					continue
				}
			}
			if !NonNeg(e, depth+1) {
				return false
			}
		}
		return true
	case *ssa.UnOp:
		if x.Op == token.MUL {
			// load of a byte / unsigned element
			if b, ok := x.Type().Underlying().(*types.Basic); ok && b.Info()&types.IsUnsigned != 0 {
				return true
			}
		}
	case *ssa.Extract:
		if c, ok := x.Tuple.(*ssa.Call); ok {
			n := CalleeName(c.Common())
			if strings.HasSuffix(n, ").Read") || strings.HasSuffix(n, ").Write") || n == "io.ReadFull" {
				return x.Index == 0
			}
		}
	}
	if b, ok := v.Type().Underlying().(*types.Basic); ok && b.Info()&types.IsUnsigned != 0 {
		return true
	}
	return false
}

func typeBits(t types.Type) int {
	if b, ok := t.Underlying().(*types.Basic); ok {
		switch b.Kind() {
		case types.Int8, types.Uint8:
			return 8
		case types.Int16, types.Uint16:
			return 16
		case types.Int32, types.Uint32:
			return 32
		}
	}
	return 64
}

// Census enumerates the PPOs of the given functions.  kinds selects which kinds are collected (nil = all).
func Census(fns []*ssa.Function, kinds map[string]bool) []PPO {
	sort.Slice(fns, func(i, j int) bool { return fns[i].String() < fns[j].String() })
	tr := NewTracer()
	tr.MaxDepth = 6
	want := func(k string) bool { return kinds == nil || kinds[k] }
	var out []PPO
	for _, f := range fns {
		if IsPanicHelper(f) {
			continue // the obligation is carried by the helper's call sites
		}
		ord := map[string]int{}
		add := func(in ssa.Instruction, kind, desc string, op ssa.Value) {
			base := shortName(f) + "/" + kind + ":" + desc
			ord[base]++
			out = append(out, PPO{Fn: f, Instr: in, Kind: kind, Desc: desc, Operand: op, Key: base + "#" + strconv.Itoa(ord[base])})
		}
		for _, b := range f.Blocks {
			for _, in := range b.Instrs {
				switch x := in.(type) {
				case *ssa.Panic:
					if k, ok := x.X.(*ssa.MakeInterface); ok {
						if cst, ok := k.X.(*ssa.Const); ok && cst.Value != nil && strings.Contains(cst.Value.ExactString(), "blocking select matched no case") {
							continue // emitted by the SSA builder after a select without default: not source code
						}
					}
					if want("panic") {
						add(in, "panic", panicDesc(x.X, tr), x.X)
					}
				case *ssa.TypeAssert:
					if !x.CommaOk && want("assert") {
						add(in, "assert", "."+"("+typeName(x.AssertedType)+")", x.X)
					}
				case *ssa.MakeSlice:
					if _, c := ConstInt(x.Len); !c && want("make") {
						add(in, "make", "make("+typeName(x.Type())+")", x.Len)
					}
					// make(T, 0, n): the capacity panics (negative) and allocates (huge) just as a length does
					if _, c := ConstInt(x.Cap); !c && x.Cap != x.Len && want("make") {
						add(in, "make", "make("+typeName(x.Type())+", cap)", x.Cap)
					}
				case *ssa.Slice:
					if !want("slice") {
						continue
					}
					if sliceNeedsCheck(x) {
						lo, hi := "", ""
						if x.Low != nil {
							lo = boundString(x.Low)
						}
						if x.High != nil {
							hi = boundString(x.High)
						}
						add(in, "slice", "["+lo+":"+hi+"]", x.X)
					}
				case *ssa.IndexAddr:
					if want("index") && indexNeedsCheck(x.X, x.Index) {
						add(in, "index", "["+boundString(x.Index)+"]", x.Index)
					}
				case *ssa.Index:
					if want("index") && indexNeedsCheck(x.X, x.Index) {
						add(in, "index", "["+boundString(x.Index)+"]", x.Index)
					}
				case *ssa.BinOp:
					if (x.Op == token.QUO || x.Op == token.REM) && want("div") {
						if b, ok := x.Type().Underlying().(*types.Basic); ok && b.Info()&types.IsInteger != 0 {
							if k, c := ConstInt(x.Y); !c || k == 0 {
								add(in, "div", x.Op.String(), x.Y)
							}
						}
					}
				case ssa.CallInstruction:
					name := CalleeName(x.Common())
					if callee := StaticCallee(x.Common()); callee != nil && IsPanicHelper(callee) {
						if want("helper") {
							add(in, "helper", shortName(callee), nil)
						}
						continue
					}
					if libPanicky[name] && want("libpanic") {
						if args := CallArgs(x.Common()); len(args) >= 1 {
							op := args[len(args)-1]
							if k, isConst := ConstInt(op); !isConst || k <= 0 {
								add(in, "libpanic", strings.TrimPrefix(name[strings.LastIndex(name, "/")+1:], "invoke:"), op)
							}
						}
					}
					if need := binaryNeeds(name); need > 0 && want("binary") {
						if args := CallArgs(x.Common()); len(args) >= 2 {
							add(in, "binary", name[strings.LastIndex(name, ".")+1:], args[1])
						}
					}
					if _, ok := reflectPanicky[name]; ok && !safeReflect[name] && want("reflect") {
						var op ssa.Value
						if args := CallArgs(x.Common()); len(args) > 0 {
							op = args[0]
						}
						add(in, "reflect", strings.TrimPrefix(name, "invoke:"), op)
					}
				}
			}
		}
	}
	return out
}

func panicDesc(v ssa.Value, tr *Tracer) string {
	v = Unconv(v)
	if c, ok := v.(*ssa.Const); ok && c.Value != nil {
		s := strings.Trim(c.Value.ExactString(), "\"")
		var b strings.Builder
		for _, r := range s {
			switch {
			case r >= 'a' && r <= 'z' || r >= 'A' && r <= 'Z' || r >= '0' && r <= '9':
				b.WriteRune(r)
			case b.Len() > 0 && !strings.HasSuffix(b.String(), "_"):
				b.WriteByte('_')
			}
			if b.Len() >= 28 {
				break
			}
		}
		return "\"" + strings.Trim(b.String(), "_") + "\""
	}
	// a computed message / an error value: describe by its first constant string part or its root
	for _, o := range tr.Origins(v) {
		if i := strings.Index(o, "const:\""); i >= 0 {
			rest := o[i+7:]
			if j := strings.Index(rest, "\""); j > 0 {
				words := strings.Fields(rest[:j])
				if len(words) > 3 {
					words = words[:3]
				}
				clean := strings.Map(func(r rune) rune {
					if r >= 'a' && r <= 'z' || r >= 'A' && r <= 'Z' || r >= '0' && r <= '9' || r == '_' {
						return r
					}
					return -1
				}, strings.Join(words, "_"))
				if clean != "" {
					return "msg:" + clean
				}
			}
		}
	}
	o := tr.OriginString(v)
	o = strings.ReplaceAll(o, "github.com/xelaj/mtproto/", "")
	if i := strings.IndexAny(o, " |"); i > 0 {
		o = o[:i]
	}
	if len(o) > 48 {
		o = o[:48]
	}
	return "value:" + o
}

func sliceNeedsCheck(x *ssa.Slice) bool {
	// x[:] / x[0:] never panic; arrays with constant bounds are checked by the compiler
	if x.High == nil && x.Max == nil {
		if x.Low == nil {
			return false
		}
		if k, ok := ConstInt(x.Low); ok && k == 0 {
			return false
		}
	}
	lo, loC := int64(0), true
	if x.Low != nil {
		lo, loC = ConstInt(x.Low)
	}
	hi, hiC := int64(-1), x.High == nil
	if x.High != nil {
		hi, hiC = ConstInt(x.High)
	}
	if p, ok := x.X.Type().Underlying().(*types.Pointer); ok {
		if arr, ok := p.Elem().Underlying().(*types.Array); ok && loC && hiC {
			_ = arr
			return false
		}
	}
	if loC && hiC {
		// constant bounds on a slice/string whose length is a known constant
		if n := knownLen(x.X); n >= 0 && lo <= n && (x.High == nil || hi <= n) {
			return false
		}
	}
	return true
}

func indexNeedsCheck(base, idx ssa.Value) bool {
	if _, ok := base.Type().Underlying().(*types.Map); ok {
		return false
	}
	k, isC := ConstInt(idx)
	if p, ok := base.Type().Underlying().(*types.Pointer); ok {
		if arr, ok := p.Elem().Underlying().(*types.Array); ok {
			if isC {
				return false
			}
			_ = arr
		}
	}
	if arr, ok := base.Type().Underlying().(*types.Array); ok && isC {
		_ = arr
		return false
	}
	if isC {
		if n := knownLen(base); n >= 0 && k < n {
			return false
		}
	}
	return true
}

// knownLen: constant length of a slice built from a local array / make with constant size / SHA digest.
func knownLen(v ssa.Value) int64 {
	switch x := v.(type) {
	case *ssa.Slice:
		if x.Low == nil && x.High == nil {
			if a, ok := x.X.(*ssa.Alloc); ok {
				if p, ok := a.Type().Underlying().(*types.Pointer); ok {
					if arr, ok := p.Elem().Underlying().(*types.Array); ok {
						return arr.Len()
					}
				}
			}
			return knownLen(x.X)
		}
		lo := int64(0)
		if x.Low != nil {
			k, ok := ConstInt(x.Low)
			if !ok {
				return -1
			}
			lo = k
		}
		if x.High != nil {
			k, ok := ConstInt(x.High)
			if !ok {
				return -1
			}
			return k - lo
		}
		if n := knownLen(x.X); n >= 0 {
			return n - lo
		}
	case *ssa.MakeSlice:
		if k, ok := ConstInt(x.Len); ok {
			return k
		}
	case *ssa.Call:
		n := CalleeName(x.Common())
		if strings.HasSuffix(n, ".Sha1Byte") || strings.HasSuffix(n, "go-dry.Sha1") {
			return 20
		}
	case *ssa.Convert:
		return knownLen(x.X)
	case *ssa.Alloc:
		if p, ok := x.Type().Underlying().(*types.Pointer); ok {
			if arr, ok := p.Elem().Underlying().(*types.Array); ok {
				return arr.Len()
			}
		}
	}
	return -1
}

// DominatingGuard reports whether site is reachable only through an edge on which pred holds.
// pred receives a classified condition and returns the successor index on which the wanted fact holds (or -1).
func DominatingGuard(fn *ssa.Function, site ssa.Instruction, pred func(cd *Cond) int) bool {
	for _, i := range Ifs(fn) {
		cd, ok := Classify(i)
		if !ok {
			continue
		}
		s := pred(cd)
		if s < 0 {
			continue
		}
		if len(Guarded(fn, []Edge{{From: i.Block(), Succ: s}}, []ssa.Instruction{site})) == 0 {
			return true
		}
	}
	return false
}

// AutoDischarge applies the machine-checked side conditions.
func AutoDischarge(p *PPO) {
	f := p.Fn
	switch p.Kind {
	case "make":
		if prm, ok := stripConv(p.Operand).(*ssa.Parameter); ok {
			p.LiftParam = prm
		}
		nonNeg := NonNeg(p.Operand, 0) || DominatingGuard(f, p.Instr, func(cd *Cond) int { return ordEdge(cd, p.Operand, ">=", 0) })
		if !nonNeg {
			return
		}
		if !WireSized(p.Operand) {
			p.Discharged, p.Why = true, "size is non-negative and derives from lengths / constants / a single wire byte"
			return
		}
		if DominatingGuard(f, p.Instr, func(cd *Cond) int { return remainingBoundEdge(cd, p.Operand) }) {
			p.Discharged, p.Why = true, "size is non-negative and dominated by a comparison with the number of unread bytes"
			p.LiftParam = nil
		}
	case "index":
		idx := p.Operand
		var base ssa.Value
		switch x := p.Instr.(type) {
		case *ssa.IndexAddr:
			base = x.X
		case *ssa.Index:
			base = x.X
		}
		// i < len(base) on a dominating edge, and i non-negative
		if NonNeg(idx, 0) && DominatingGuard(f, p.Instr, func(cd *Cond) int { return ltLenEdge(cd, idx, base) }) {
			p.Discharged, p.Why = true, "index is non-negative and dominated by i < len(base)"
			return
		}
		if k, ok := ConstInt(idx); ok && DominatingGuard(f, p.Instr, func(cd *Cond) int { return lenGtEdge(cd, base, k) }) {
			p.Discharged, p.Why = true, "constant index dominated by a len(base) test"
			return
		}
		// i < len(A) and len(A) == len(base), both dominating
		if NonNeg(idx, 0) {
			for _, i := range Ifs(f) {
				cd, ok := Classify(i)
				if !ok || cd.Kind != "eq" {
					continue
				}
				var other ssa.Value
				lenArg := func(v ssa.Value) ssa.Value {
					if c, ok := stripConv(v).(*ssa.Call); ok && CalleeName(c.Common()) == "builtin:len" {
						return c.Call.Args[0]
					}
					return nil
				}
				a, b := lenArg(cd.X), lenArg(cd.Y)
				switch {
				case a != nil && b != nil && sameStorage(a, base):
					other = b
				case a != nil && b != nil && sameStorage(b, base):
					other = a
				default:
					continue
				}
				if len(Guarded(f, []Edge{cd.EdgeWhen(true)}, []ssa.Instruction{p.Instr})) != 0 {
					continue
				}
				if DominatingGuard(f, p.Instr, func(c2 *Cond) int { return ltLenEdge(c2, idx, other) }) {
					p.Discharged, p.Why = true, "index is below len(A) and a dominating test established len(A) == len(base)"
					return
				}
			}
		}
	case "assert":
		// dominated by a comma-ok assertion of the same value to the same type
		ta := p.Instr.(*ssa.TypeAssert)
		if DominatingGuard(f, p.Instr, func(cd *Cond) int {
			if cd.Kind == "assert" && cd.Assert.X == ta.X && types.Identical(cd.Assert.AssertedType, ta.AssertedType) {
				return cd.EdgeWhen(true).Succ
			}
			return -1
		}) {
			p.Discharged, p.Why = true, "dominated by a comma-ok assertion to the same type"
		}
	case "reflect":
		call := p.Instr.(ssa.CallInstruction)
		name := CalleeName(call.Common())
		if name == "reflect.MakeSlice" && len(call.Common().Args) == 3 {
			n := call.Common().Args[1]
			nonNeg := NonNeg(n, 0) || DominatingGuard(f, p.Instr, func(cd *Cond) int { return ordEdge(cd, n, ">=", 0) })
			if nonNeg && (!WireSized(n) || DominatingGuard(f, p.Instr, func(cd *Cond) int { return remainingBoundEdge(cd, n) })) {
				p.Discharged, p.Why = true, "vector length is non-negative and bounded by the number of unread bytes"
			}
			return
		}
		kinds := reflectPanicky[name]
		if name == "(reflect.Value).Elem" {
			// reflect.New always returns a pointer
			if c, ok := p.Operand.(*ssa.Call); ok && CalleeName(c.Common()) == "reflect.New" {
				p.Discharged, p.Why = true, "receiver is the result of reflect.New (always a pointer)"
				return
			}
		}
		if len(kinds) == 0 {
			return
		}
		recv := p.Operand
		if DominatingGuard(f, p.Instr, func(cd *Cond) int { return kindEdge(cd, recv, kinds) }) {
			p.Discharged, p.Why = true, "dominated by a Kind() test for "+strings.Join(kinds, "/")
		}
	case "slice":
		sl := p.Instr.(*ssa.Slice)
		// s[:i] / s[i:] with i = strings.Index*(s, …): in range exactly when i >= 0
		for _, bnd := range []ssa.Value{sl.Low, sl.High} {
			if bnd == nil {
				continue
			}
			if _, isConst := ConstInt(bnd); isConst {
				continue
			}
			call, ok := stripConv(bnd).(*ssa.Call)
			if !ok || !strings.HasPrefix(CalleeName(call.Common()), "strings.Index") && !strings.HasPrefix(CalleeName(call.Common()), "strings.LastIndex") && !strings.HasPrefix(CalleeName(call.Common()), "bytes.Index") {
				return
			}
			if len(call.Call.Args) == 0 || !sameStorage(call.Call.Args[0], sl.X) {
				return
			}
			if !DominatingGuard(f, p.Instr, func(cd *Cond) int { return ordEdge(cd, bnd, ">=", 0) }) {
				p.Why = "bound is the result of " + CalleeName(call.Common()) + ", which is -1 when nothing is found, and no i >= 0 test dominates the slice expression"
				return
			}
		}
		if (sl.Low == nil || !isConstV(sl.Low)) && (sl.High == nil || !isConstV(sl.High)) && !(sl.Low == nil && sl.High == nil) {
			p.Discharged, p.Why = true, "bounds are strings.Index results of the sliced string, each dominated by an i >= 0 test"
			return
		}
		if sl.High == nil && sl.Max == nil && sl.Low != nil {
			if k, ok := ConstInt(sl.Low); ok && k > 0 && DominatingGuard(f, p.Instr, func(cd *Cond) int { return lenGtEdge(cd, sl.X, k-1) }) {
				p.Discharged, p.Why = true, "constant low bound dominated by a len(base) test"
			}
		}
		// s[lo:k] with constants lo <= k, dominated by len(s) >= k
		if sl.High != nil && sl.Max == nil {
			if k, ok := ConstInt(sl.High); ok && k > 0 {
				lo := int64(0)
				loOK := sl.Low == nil
				if sl.Low != nil {
					lo, loOK = ConstInt(sl.Low)
				}
				if loOK && lo >= 0 && lo <= k && DominatingGuard(f, p.Instr, func(cd *Cond) int { return lenGtEdge(cd, sl.X, k-1) }) {
					p.Discharged, p.Why = true, "constant bounds dominated by a len(base) test"
				}
			}
		}
	case "binary":
		// encoding/binary's fixed-width accessors index their argument: it must be known to hold enough bytes
		call := p.Instr.(ssa.CallInstruction)
		need := binaryNeeds(CalleeName(call.Common()))
		buf := p.Operand
		if n, ok := constLen(buf); ok && n >= need {
			p.Discharged, p.Why = true, "buffer of constant length "+strconv.FormatInt(n, 10)
			return
		}
		if DominatingGuard(f, p.Instr, func(cd *Cond) int { return lenGtEdge(cd, buf, need-1) }) {
			p.Discharged, p.Why = true, "dominated by a len(buffer) test"
			return
		}
		if prm, ok := stripConv(buf).(*ssa.Parameter); ok {
			p.LiftParam = prm
		}
	case "div":
		if k, ok := ConstInt(p.Operand); ok && k != 0 {
			p.Discharged, p.Why = true, "constant divisor"
		}
	}
}

// ordEdge: successor on which `v rel k` holds (rel one of ">=", ">").
func ordEdge(cd *Cond, v ssa.Value, rel string, k int64) int {
	if cd.Kind != "ord" {
		return -1
	}
	x, y, r := cd.X, cd.Y, cd.Rel
	if Unconv(y) == Unconv(v) || stripConv(y) == stripConv(v) {
		x, y = y, x
		r = map[string]string{"<": ">", "<=": ">=", ">": "<", ">=": "<="}[r]
	}
	if stripConv(x) != stripConv(v) {
		return -1
	}
	c, ok := ConstInt(y)
	if !ok {
		return -1
	}
	// condition true means x r c
	switch {
	case (r == ">=" && c >= k) || (r == ">" && c >= k-1):
		return 0
	case (r == "<" && c <= k) || (r == "<=" && c <= k-1):
		return 1
	}
	return -1
}

func isConstV(v ssa.Value) bool { _, ok := ConstInt(v); return ok }

func stripConv(v ssa.Value) ssa.Value {
	for {
		switch x := v.(type) {
		case *ssa.Convert:
			v = x.X
		case *ssa.ChangeType:
			v = x.X
		default:
			return v
		}
	}
}

// ltLenEdge: successor on which idx < len(base) holds.
func ltLenEdge(cd *Cond, idx, base ssa.Value) int {
	if cd.Kind != "ord" {
		return -1
	}
	isLenBase := func(v ssa.Value) bool {
		if IsLenOf(stripConv(v), func(x ssa.Value) bool { return sameStorage(x, base) }) {
			return true
		}
		// base = make([]T, n): n itself is the length
		if ms, ok := base.(*ssa.MakeSlice); ok && stripConv(ms.Len) == stripConv(v) {
			return true
		}
		return false
	}
	x, y, r := cd.X, cd.Y, cd.Rel
	switch {
	case stripConv(x) == stripConv(idx) && isLenBase(y):
	case stripConv(y) == stripConv(idx) && isLenBase(x):
		r = map[string]string{"<": ">", "<=": ">=", ">": "<", ">=": "<="}[r]
	default:
		return -1
	}
	switch r {
	case "<":
		return 0
	case ">=":
		return 1
	}
	return -1
}

func lenCallOnReflect(v, base ssa.Value) bool { return false }

func sameStorage(a, b ssa.Value) bool {
	if a == b {
		return true
	}
	// loads of the same local variable / same value through phi-free copies
	la, ok1 := a.(*ssa.UnOp)
	lb, ok2 := b.(*ssa.UnOp)
	if ok1 && ok2 && la.Op == token.MUL && lb.Op == token.MUL {
		if la.X == lb.X {
			return true
		}
		// two loads of the same field of the same object, with no store to that field in the function
		fa, ok1 := la.X.(*ssa.FieldAddr)
		fb, ok2 := lb.X.(*ssa.FieldAddr)
		if ok1 && ok2 && fa.X == fb.X && fa.Field == fb.Field && !fieldStoredBefore(fa, la, lb) {
			return true
		}
	}
	return false
}

// fieldStoredBefore: some store to the same field of the same base can execute between the two loads
// (on a path from the first to the second).
func fieldStoredBefore(fa *ssa.FieldAddr, la, lb *ssa.UnOp) bool {
	f := fa.Parent()
	first, second := ssa.Instruction(la), ssa.Instruction(lb)
	if canFollow(second, first) && !canFollow(first, second) {
		first, second = second, first
	}
	for _, b := range f.Blocks {
		for _, in := range b.Instrs {
			st, ok := in.(*ssa.Store)
			if !ok {
				continue
			}
			x, ok := st.Addr.(*ssa.FieldAddr)
			if !ok || x.X != fa.X || x.Field != fa.Field {
				continue
			}
			if canFollow(first, st) && canFollow(st, second) {
				return true
			}
		}
	}
	return false
}

// canFollow: b can execute after a on some path.
func canFollow(a, b ssa.Instruction) bool {
	ba, bb := a.Block(), b.Block()
	if ba == bb {
		for _, in := range ba.Instrs {
			if in == a {
				return true
			}
			if in == b {
				// b precedes a in the block: b follows a only around a cycle
				return reaches(successorOrSelf(ba), ba, map[*ssa.BasicBlock]bool{}) && onCycle(ba)
			}
		}
		return false
	}
	for _, s := range ba.Succs {
		if reaches(s, bb, map[*ssa.BasicBlock]bool{}) {
			return true
		}
	}
	return false
}

func successorOrSelf(b *ssa.BasicBlock) *ssa.BasicBlock {
	if len(b.Succs) > 0 {
		return b.Succs[0]
	}
	return b
}

func onCycle(b *ssa.BasicBlock) bool {
	for _, s := range b.Succs {
		if reaches(s, b, map[*ssa.BasicBlock]bool{}) {
			return true
		}
	}
	return false
}

func instrBefore(a, b ssa.Instruction) bool {
	ba, bb := a.Block(), b.Block()
	if ba == bb {
		for _, in := range ba.Instrs {
			if in == a {
				return true
			}
			if in == b {
				return false
			}
		}
		return false
	}
	return ba.Dominates(bb) && !reaches(bb, ba, map[*ssa.BasicBlock]bool{})
}

// lenGtEdge: successor on which len(base) > k holds.
func lenGtEdge(cd *Cond, base ssa.Value, k int64) int {
	isLenBase := func(v ssa.Value) bool {
		return IsLenOf(stripConv(v), func(x ssa.Value) bool { return sameStorage(x, base) })
	}
	switch cd.Kind {
	case "ord":
		x, y, r := cd.X, cd.Y, cd.Rel
		if isLenBase(y) {
			x, y = y, x
			r = map[string]string{"<": ">", "<=": ">=", ">": "<", ">=": "<="}[r]
		}
		if !isLenBase(x) {
			return -1
		}
		c, ok := ConstInt(y)
		if !ok {
			return -1
		}
		switch {
		case (r == ">" && c >= k) || (r == ">=" && c >= k+1):
			return 0
		case (r == "<=" && c >= k) || (r == "<" && c >= k+1):
			return 1 // the false edge: len > c (resp. len >= c)
		}
	case "eq":
		// len(x) == 0 → on the not-equal edge len > 0
		x, y := cd.X, cd.Y
		if isLenBase(y) {
			x, y = y, x
		}
		if !isLenBase(x) {
			return -1
		}
		if c, ok := ConstInt(y); ok && c == 0 && k == 0 {
			return cd.EdgeWhen(false).Succ
		}
		if c, ok := ConstInt(y); ok && c > k {
			return cd.EdgeWhen(true).Succ
		}
	}
	return -1
}

// kindEdge: successor on which recv.Kind() is one of kinds.
func kindEdge(cd *Cond, recv ssa.Value, kinds []string) int {
	if cd.Kind != "eq" {
		return -1
	}
	isKindOf := func(v ssa.Value) bool {
		c, ok := v.(*ssa.Call)
		if !ok {
			return false
		}
		n := CalleeName(c.Common())
		if n != "(reflect.Value).Kind" && n != "invoke:(reflect.Type).Kind" {
			return false
		}
		args := CallArgs(c.Common())
		return len(args) > 0 && sameReflectValue(args[0], recv)
	}
	x, y := cd.X, cd.Y
	if isKindOf(y) {
		x, y = y, x
	}
	if !isKindOf(x) {
		return -1
	}
	k, ok := ConstInt(y)
	if !ok {
		return -1
	}
	name := reflectKindName(k)
	for _, want := range kinds {
		if want == name {
			return cd.EdgeWhen(true).Succ
		}
	}
	return -1
}

func sameReflectValue(a, b ssa.Value) bool {
	if a == b {
		return true
	}
	if sameStorage(a, b) {
		return true
	}
	// v.Kind() guards v.Type().Elem(): the Type of a Value has the Value's kind
	for _, pair := range [][2]ssa.Value{{a, b}, {b, a}} {
		if c, ok := pair[0].(*ssa.Call); ok && CalleeName(c.Common()) == "(reflect.Value).Type" && len(c.Call.Args) == 1 {
			if c.Call.Args[0] == pair[1] || sameStorage(c.Call.Args[0], pair[1]) {
				return true
			}
		}
	}
	return false
}

func reflectKindName(k int64) string {
	names := []string{"Invalid", "Bool", "Int", "Int8", "Int16", "Int32", "Int64", "Uint", "Uint8", "Uint16", "Uint32", "Uint64", "Uintptr",
		"Float32", "Float64", "Complex64", "Complex128", "Array", "Chan", "Func", "Interface", "Map", "Ptr", "Slice", "String", "Struct", "UnsafePointer"}
	if k >= 0 && int(k) < len(names) {
		return names[k]
	}
	return "?"
}

// WireSized: the value can exceed what three wire bytes encode: it derives from a 32/64-bit read of the input
// (Pop*/binary.Uint32/Uint64 results, or a parameter) rather than from len(), constants or single bytes.
func WireSized(v ssa.Value) bool { return wireSized(v, true) }

// WireSizedLocal is WireSized without counting parameters (whose provenance belongs to the callers).
func WireSizedLocal(v ssa.Value) bool { return wireSized(v, false) }

func wireSized(v ssa.Value, params bool) bool {
	seen := map[ssa.Value]bool{}
	var walk func(v ssa.Value, depth int) bool
	walk = func(v ssa.Value, depth int) bool {
		if depth > 12 || seen[v] {
			return false
		}
		seen[v] = true
		switch x := v.(type) {
		case *ssa.Const:
			return false
		case *ssa.Parameter:
			return params
		case *ssa.Convert:
			return walk(x.X, depth+1)
		case *ssa.ChangeType:
			return walk(x.X, depth+1)
		case *ssa.BinOp:
			// x % c and x & c with a constant c are bounded by c whatever x is
			if x.Op == token.REM || x.Op == token.AND {
				if _, isConst := ConstInt(x.Y); isConst {
					return false
				}
			}
			return walk(x.X, depth+1) || walk(x.Y, depth+1)
		case *ssa.Phi:
			for _, e := range x.Edges {
				if walk(e, depth+1) {
					return true
				}
			}
			return false
		case *ssa.UnOp:
			if x.Op == token.MUL {
				if b, ok := x.Type().Underlying().(*types.Basic); ok && (b.Kind() == types.Uint8 || b.Kind() == types.Int8) {
					return false
				}
				return true
			}
			return walk(x.X, depth+1)
		case *ssa.Call:
			n := CalleeName(x.Common())
			switch {
			case n == "builtin:len" || n == "builtin:cap", strings.HasSuffix(n, ".NumField"), strings.HasSuffix(n, "reflect.Value).Len"):
				return false
			case strings.HasSuffix(n, "littleEndian).Uint32"), strings.HasSuffix(n, "bigEndian).Uint32"):
				// three wire bytes (PopMessage's long form) are up to 16 MiB: out of proportion to a 4-byte input,
				// so wire sized like a full 4-byte read
				return true
			}
			return true
		case *ssa.Extract:
			return true
		}
		return true
	}
	return walk(v, 0)
}

// remainingBoundEdge: successor on which v <= f(unread bytes) holds, for a condition comparing v (or a widening
// of it) with an expression built from (*bytes.Reader).Len / (*bytes.Buffer).Len.
func remainingBoundEdge(cd *Cond, v ssa.Value) int {
	if cd.Kind != "ord" {
		return -1
	}
	fromRemaining := func(x ssa.Value) bool {
		ok := false
		var walk func(x ssa.Value, d int)
		walk = func(x ssa.Value, d int) {
			if d > 8 {
				return
			}
			switch y := x.(type) {
			case *ssa.Call:
				n := CalleeName(y.Common())
				if n == "(*bytes.Reader).Len" || n == "(*bytes.Buffer).Len" {
					ok = true
				}
			case *ssa.Convert:
				walk(y.X, d+1)
			case *ssa.BinOp:
				walk(y.X, d+1)
				walk(y.Y, d+1)
			}
		}
		walk(x, 0)
		return ok
	}
	x, y, r := cd.X, cd.Y, cd.Rel
	switch {
	case stripConv(x) == stripConv(v) && fromRemaining(y):
	case stripConv(y) == stripConv(v) && fromRemaining(x):
		r = map[string]string{"<": ">", "<=": ">=", ">": "<", ">=": "<="}[r]
	default:
		return -1
	}
	switch r {
	case ">", ">=":
		return 1 // v > remaining is the refusing branch; the bound holds on the other edge
	case "<", "<=":
		return 0
	}
	return -1
}

// binaryNeeds: bytes indexed by an encoding/binary fixed-width accessor (0: not one).
func binaryNeeds(name string) int64 {
	if !strings.HasPrefix(name, "(encoding/binary.littleEndian).") && !strings.HasPrefix(name, "(encoding/binary.bigEndian).") {
		return 0
	}
	switch name[strings.LastIndex(name, ".")+1:] {
	case "Uint16", "PutUint16":
		return 2
	case "Uint32", "PutUint32":
		return 4
	case "Uint64", "PutUint64":
		return 8
	}
	return 0
}

// constLen: the length of a byte slice when it is a constant: make([]byte, k), array[:], x[lo:hi] with constant
// bounds (the slice expression itself is checked as a site of its own).
func constLen(v ssa.Value) (int64, bool) {
	switch x := v.(type) {
	case *ssa.MakeSlice:
		return ConstIntOK(x.Len)
	case *ssa.Slice:
		lo := int64(0)
		if x.Low != nil {
			k, ok := ConstInt(x.Low)
			if !ok {
				return 0, false
			}
			lo = k
		}
		if x.High != nil {
			if k, ok := ConstInt(x.High); ok {
				return k - lo, true
			}
			return 0, false
		}
		// whole array / slice
		if pt, ok := x.X.Type().Underlying().(*types.Pointer); ok {
			if at, ok := pt.Elem().Underlying().(*types.Array); ok {
				return at.Len() - lo, true
			}
		}
		if n, ok := constLen(x.X); ok {
			return n - lo, true
		}
	case *ssa.Call:
		if CalleeName(x.Common()) == "builtin:append" && len(x.Call.Args) == 2 {
			a, ok1 := constLen(x.Call.Args[0])
			b, ok2 := constLen(x.Call.Args[1])
			if ok1 && ok2 {
				return a + b, true
			}
		}
	case *ssa.Phi:
		var m int64 = -1
		for _, e := range x.Edges {
			n, ok := constLen(e)
			if !ok {
				return 0, false
			}
			if m < 0 || n < m {
				m = n
			}
		}
		if m >= 0 {
			return m, true
		}
	case *ssa.UnOp:
		// a local slice variable: every store is a constant-length slice
		if a, ok := x.X.(*ssa.Alloc); ok && x.Op == token.MUL {
			var m int64 = -1
			for _, r := range refs(a) {
				if st, ok := r.(*ssa.Store); ok && st.Addr == ssa.Value(a) {
					n, ok := constLen(st.Val)
					if !ok {
						return 0, false
					}
					if m < 0 || n < m {
						m = n
					}
				}
			}
			if m >= 0 {
				return m, true
			}
		}
	}
	return 0, false
}

// ConstIntOK is ConstInt with the usual (value, ok) order for composition.
func ConstIntOK(v ssa.Value) (int64, bool) { return ConstInt(v) }

// libPanicky: standard-library calls that panic on a non-positive (last) argument.
var libPanicky = map[string]bool{
	"math/rand.Intn": true, "math/rand.Int31n": true, "math/rand.Int63n": true,
	"(*math/rand.Rand).Intn": true, "(*math/rand.Rand).Int31n": true, "(*math/rand.Rand).Int63n": true,
	"strings.Repeat": true, "bytes.Repeat": true,
}
