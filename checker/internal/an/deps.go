package an

import (
	"go/token"
	"go/types"
	"strings"

	"golang.org/x/tools/go/ssa"
)

// Deps computes the transitive data dependencies of a value (an interprocedural backward slice): the set of
// root descriptors that may flow into it through operands, arguments of library calls, the return values of
// repository/go-dry callees (descended context-sensitively: a callee parameter maps back to the actual
// argument of that call), local-variable spills, and *mutators* of fresh local objects (a buffer filled by
// copy / PutUint64 / rand.Read / a repository helper that writes through its parameter, a *big.Int set by
// SetBytes / Rand / Exp).
//
// Roots: call:<name> (library or non-descended call), field:<T.f> (field load), param:<fn>#i (parameter of
// the outermost function), const, nil, alloc, make, global:<n>, free:<n>, mut:<name> (a mutator call).
type Deps struct {
	Descend      func(f *ssa.Function) bool
	MaxCallDepth int
	Roots        map[string]bool
	Sites        map[string]ssa.Instruction // first instruction seen per call root
	seen         map[seenKey]bool
	budget       int
}

type frame struct {
	call   *ssa.CallCommon
	fn     *ssa.Function
	parent *frame
	depth  int
}

type seenKey struct {
	v ssa.Value
	f *frame
}

// libMutators: library callees that write into one of their arguments: name -> index of the written argument
// (receiver first).  Everything else from a library is treated as not modifying its arguments.
var libMutators = map[string]int{
	"builtin:copy": 0,
	"(encoding/binary.littleEndian).PutUint64": 1, "(encoding/binary.littleEndian).PutUint32": 1, "(encoding/binary.littleEndian).PutUint16": 1,
	"(encoding/binary.bigEndian).PutUint64": 1, "(encoding/binary.bigEndian).PutUint32": 1, "(encoding/binary.bigEndian).PutUint16": 1,
	"crypto/rand.Read": 0, "math/rand.Read": 0, "(*math/rand.Rand).Read": 1, "io.ReadFull": 1, "io.ReadAtLeast": 1,
	"(*math/big.Int).FillBytes": 1,
}

// bigIntSetters: (*big.Int) methods set their receiver from the arguments (all but the pure readers).
func isBigIntSetter(name string) bool {
	if !strings.HasPrefix(name, "(*math/big.Int).") {
		return false
	}
	switch strings.TrimPrefix(name, "(*math/big.Int).") {
	case "Cmp", "CmpAbs", "Bytes", "String", "Text", "BitLen", "Sign", "Int64", "Uint64", "IsInt64", "IsUint64", "Bit", "Bits",
		"FillBytes", "Append", "Format", "ProbablyPrime", "TrailingZeroBits", "MarshalText", "MarshalJSON", "GobEncode", "Float64":
		return false
	}
	return true
}

func NewDeps(descend func(*ssa.Function) bool) *Deps {
	return &Deps{Descend: descend, MaxCallDepth: 8, Roots: map[string]bool{}, Sites: map[string]ssa.Instruction{}, seen: map[seenKey]bool{}}
}

func (d *Deps) Of(v ssa.Value) *Deps { d.walk(v, nil); return d }

// Has reports whether a root containing sub was collected.
func (d *Deps) Has(sub string) bool {
	for k := range d.Roots {
		if strings.Contains(k, sub) {
			return true
		}
	}
	return false
}

func (d *Deps) root(name string, at ssa.Value) {
	d.Roots[name] = true
	if in, ok := at.(ssa.Instruction); ok {
		if _, have := d.Sites[name]; !have {
			d.Sites[name] = in
		}
	}
}

func hasIdentity(v ssa.Value) bool {
	switch v.Type().Underlying().(type) {
	case *types.Pointer, *types.Slice, *types.Map:
		return true
	}
	return false
}

func isFresh(v ssa.Value) bool {
	switch x := v.(type) {
	case *ssa.Alloc, *ssa.MakeSlice, *ssa.MakeMap:
		return true
	case *ssa.Call:
		_ = x
		return true
	case *ssa.Slice:
		return isFresh(x.X)
	}
	return false
}

func (d *Deps) walk(v ssa.Value, fr *frame) {
	if v == nil {
		return
	}
	k := seenKey{v, fr}
	if d.seen[k] {
		return
	}
	d.seen[k] = true
	d.budget++
	if d.budget > 50000 {
		d.Roots["?budget"] = true
		return
	}
	if isFresh(v) {
		d.mutators(v, fr)
	}
	switch x := v.(type) {
	case *ssa.Const:
		if x.Value == nil {
			d.Roots["nil"] = true
		} else {
			d.Roots["const"] = true
		}
	case *ssa.Parameter:
		idx := -1
		for i, p := range x.Parent().Params {
			if p == x {
				idx = i
			}
		}
		if fr != nil && fr.fn == x.Parent() && idx >= 0 {
			args := CallArgs(fr.call)
			if idx < len(args) {
				d.walk(args[idx], fr.parent)
				return
			}
		}
		d.Roots["param:"+funcFullName(x.Parent())+"#"+itoa(idx)] = true
	case *ssa.FreeVar:
		d.Roots["free:"+x.Name()] = true
	case *ssa.Global:
		d.Roots["global:"+x.Name()] = true
		// a package variable of an analysed package: whatever is stored into it (its initialiser runs in init)
		if x.Pkg != nil && d.Descend != nil {
			var fns []*ssa.Function
			for _, m := range x.Pkg.Members {
				if f, ok := m.(*ssa.Function); ok {
					fns = append(fns, WithAnon(f)...)
				}
			}
			for _, f := range fns {
				if !d.Descend(f) && f.Name() != "init" {
					continue
				}
				if f.Name() == "init" && len(fns) > 0 && !anyDescend(d, fns) {
					continue
				}
				for _, b := range f.Blocks {
					for _, in := range b.Instrs {
						if st, ok := in.(*ssa.Store); ok && st.Addr == ssa.Value(x) {
							d.walk(st.Val, nil)
						}
					}
				}
			}
		}
	case *ssa.Function:
		d.Roots["func:"+funcFullName(x)] = true
	case *ssa.Call:
		d.call(x, fr)
	case *ssa.Extract:
		d.walk(x.Tuple, fr)
	case *ssa.Phi:
		for _, e := range x.Edges {
			d.walk(e, fr)
		}
	case *ssa.ChangeType:
		d.walk(x.X, fr)
	case *ssa.ChangeInterface:
		d.walk(x.X, fr)
	case *ssa.MakeInterface:
		d.walk(x.X, fr)
	case *ssa.Convert:
		d.walk(x.X, fr)
	case *ssa.SliceToArrayPointer:
		d.walk(x.X, fr)
	case *ssa.TypeAssert:
		d.walk(x.X, fr)
	case *ssa.Slice:
		d.walk(x.X, fr)
	case *ssa.FieldAddr:
		d.Roots["field:"+FieldName(x.X.Type(), x.Field)] = true
		d.walk(x.X, fr)
	case *ssa.Field:
		d.Roots["field:"+FieldName(x.X.Type(), x.Field)] = true
		d.walk(x.X, fr)
	case *ssa.IndexAddr:
		d.walk(x.X, fr)
	case *ssa.Index:
		d.walk(x.X, fr)
	case *ssa.Lookup:
		d.walk(x.X, fr)
	case *ssa.UnOp:
		if x.Op == token.MUL {
			d.load(x.X, fr)
		} else {
			d.walk(x.X, fr)
		}
	case *ssa.BinOp:
		d.walk(x.X, fr)
		d.walk(x.Y, fr)
	case *ssa.Alloc:
		d.Roots["alloc"] = true
	case *ssa.MakeSlice:
		d.Roots["make"] = true
	case *ssa.MakeClosure:
		for _, b := range x.Bindings {
			d.walk(b, fr)
		}
	case *ssa.Next:
		d.walk(x.Iter, fr)
	case *ssa.Range:
		d.walk(x.X, fr)
	default:
		d.Roots["?"] = true
	}
}

func itoa(i int) string {
	if i < 0 {
		return "?"
	}
	if i < 10 {
		return string(rune('0' + i))
	}
	return itoa(i/10) + itoa(i%10)
}

func (d *Deps) call(x *ssa.Call, fr *frame) {
	c := x.Common()
	name := CalleeName(c)
	depth := 0
	if fr != nil {
		depth = fr.depth
	}
	if f := StaticCallee(c); f != nil && d.Descend != nil && d.Descend(f) && len(f.Blocks) > 0 && depth < d.MaxCallDepth && !onStack(fr, f) {
		d.root("via:"+name, x)
		nf := &frame{call: c, fn: f, parent: fr, depth: depth + 1}
		for _, b := range f.Blocks {
			for _, in := range b.Instrs {
				if r, ok := AsReturn(in); ok {
					for _, rv := range r.Results {
						d.walk(rv, nf)
					}
				}
			}
		}
		return
	}
	d.root("call:"+name, x)
	for _, a := range CallArgs(c) {
		d.walk(a, fr)
	}
}

func onStack(fr *frame, f *ssa.Function) bool {
	for x := fr; x != nil; x = x.parent {
		if x.fn == f {
			return true
		}
	}
	return false
}

func (d *Deps) load(addr ssa.Value, fr *frame) {
	switch a := addr.(type) {
	case *ssa.Alloc:
		d.walk(a, fr)
		for _, r := range refs(a) {
			if st, ok := r.(*ssa.Store); ok && st.Addr == a {
				d.walk(st.Val, fr)
			}
		}
	case *ssa.FieldAddr:
		d.Roots["field:"+FieldName(a.X.Type(), a.Field)] = true
		if base, ok := a.X.(*ssa.Alloc); ok {
			for _, r := range refs(base) {
				if fa, ok := r.(*ssa.FieldAddr); ok && fa.Field == a.Field {
					for _, r2 := range refs(fa) {
						if st, ok := r2.(*ssa.Store); ok && st.Addr == fa {
							d.walk(st.Val, fr)
						}
					}
				}
			}
		}
		d.walk(a.X, fr)
	case *ssa.IndexAddr:
		d.walk(a.X, fr)
	default:
		d.walk(addr, fr)
	}
}

// WritesParam reports whether f writes through its k-th parameter (element store, copy destination, or
// handing it to a library mutator).
func WritesParam(f *ssa.Function, k int) bool {
	if f == nil || k >= len(f.Params) || len(f.Blocks) == 0 {
		return false
	}
	p := f.Params[k]
	var derived func(v ssa.Value) bool
	derived = func(v ssa.Value) bool {
		switch x := v.(type) {
		case *ssa.Parameter:
			return x == p
		case *ssa.Slice:
			return derived(x.X)
		case *ssa.IndexAddr:
			return derived(x.X)
		case *ssa.FieldAddr:
			return derived(x.X)
		}
		return false
	}
	for _, b := range f.Blocks {
		for _, in := range b.Instrs {
			switch x := in.(type) {
			case *ssa.Store:
				if derived(x.Addr) {
					return true
				}
			case ssa.CallInstruction:
				name := CalleeName(x.Common())
				args := CallArgs(x.Common())
				if idx, ok := libMutators[name]; ok && idx < len(args) && derived(args[idx]) {
					return true
				}
				if isBigIntSetter(name) && len(args) > 0 && derived(args[0]) {
					return true
				}
			}
		}
	}
	return false
}

// mutators adds the data flowing into the fresh object v through calls/stores that write it.
func (d *Deps) mutators(v ssa.Value, fr *frame) {
	for _, r := range refs(v) {
		switch x := r.(type) {
		case *ssa.Slice:
			if x.X == v {
				k := seenKey{x, fr}
				if !d.seen[k] {
					d.seen[k] = true
					d.mutators(x, fr)
				}
			}
		case *ssa.IndexAddr:
			if x.X == v {
				for _, r2 := range refs(x) {
					if st, ok := r2.(*ssa.Store); ok && st.Addr == x {
						d.walk(st.Val, fr)
					}
				}
			}
		case *ssa.FieldAddr:
			if x.X == v {
				for _, r2 := range refs(x) {
					if st, ok := r2.(*ssa.Store); ok && st.Addr == x {
						d.walk(st.Val, fr)
					}
					// a pointer/slice loaded back from the field aliases the stored object: its mutators are ours
					if ld, ok := r2.(*ssa.UnOp); ok && ld.Op == token.MUL && ld.X == x && hasIdentity(ld) {
						k := seenKey{ld, fr}
						if !d.seen[k] {
							d.seen[k] = true
							d.mutators(ld, fr)
						}
					}
				}
			}
		case *ssa.Store:
			if x.Addr == v {
				d.walk(x.Val, fr)
			}
		case ssa.CallInstruction:
			c := x.Common()
			args := CallArgs(c)
			name := CalleeName(c)
			at := -1
			for i, a := range args {
				if a == v {
					at = i
				}
			}
			if at < 0 {
				continue
			}
			isMut := false
			if idx, ok := libMutators[name]; ok && idx == at {
				isMut = true
			} else if isBigIntSetter(name) && at == 0 {
				isMut = true
			} else if f := StaticCallee(c); f != nil && d.Descend != nil && d.Descend(f) && WritesParam(f, at) {
				isMut = true
			}
			if !isMut {
				continue
			}
			if in, ok := x.(ssa.Instruction); ok {
				d.Roots["mut:"+name] = true
				if _, have := d.Sites["mut:"+name]; !have {
					d.Sites["mut:"+name] = in
				}
			}
			for i, a := range args {
				if i != at {
					d.walk(a, fr)
				}
			}
		}
	}
}

// Visited reports whether the slice passed through the given value.
func (d *Deps) Visited(v ssa.Value) bool {
	for k := range d.seen {
		if k.v == v {
			return true
		}
	}
	return false
}

func anyDescend(d *Deps, fns []*ssa.Function) bool {
	for _, f := range fns {
		if f.Name() != "init" && d.Descend(f) {
			return true
		}
	}
	return false
}

// ParamWrite is one way a function may write the memory its k-th parameter (a slice) points at.
type ParamWrite struct {
	Instr ssa.Instruction
	What  string
}

// ParamWrites lists the writes through parameter k of f: element stores, copy / library mutators with the
// parameter (or a slice, phi or conversion of it) as destination, append with it as the first operand (append
// fills spare capacity of the caller's array in place), and calls that hand it to a function which writes it
// (isOutput says which parameters of which repository functions are meant to be written).  Interface calls are
// resolved by the mutators table only.
func ParamWrites(f *ssa.Function, k int, isOutput func(g *ssa.Function, idx int) bool, depth int) []ParamWrite {
	if f == nil || k >= len(f.Params) || len(f.Blocks) == 0 || depth > 4 {
		return nil
	}
	p := f.Params[k]
	memo := map[ssa.Value]bool{}
	var derived func(v ssa.Value) bool
	derived = func(v ssa.Value) bool {
		if d, ok := memo[v]; ok {
			return d
		}
		memo[v] = false
		res := false
		switch x := v.(type) {
		case *ssa.Parameter:
			res = x == p
		case *ssa.Slice:
			// a three-index slice with max == high caps the capacity: append reallocates, but stores still alias
			res = derived(x.X)
		case *ssa.IndexAddr:
			res = derived(x.X)
		case *ssa.ChangeType:
			res = derived(x.X)
		case *ssa.Phi:
			for _, e := range x.Edges {
				if derived(e) {
					res = true
				}
			}
		case *ssa.Call:
			// the result of append(p, …) still points into p's array when the capacity sufficed
			if CalleeName(x.Common()) == "builtin:append" && len(x.Call.Args) > 0 {
				res = derived(x.Call.Args[0])
			}
		}
		memo[v] = res
		return res
	}
	capped := func(v ssa.Value) bool {
		sl, ok := v.(*ssa.Slice)
		return ok && sl.Max != nil && sl.High != nil && sl.Max == sl.High
	}
	var out []ParamWrite
	for _, b := range f.Blocks {
		for _, in := range b.Instrs {
			switch x := in.(type) {
			case *ssa.Store:
				if derived(x.Addr) {
					out = append(out, ParamWrite{in, "element store"})
				}
				// the slice itself kept in package-level storage: the caller's later writes to his buffer change
				// what the package remembers (a cache keyed by an aliased key compares the key with itself)
				if derived(x.Val) {
					if g := rootGlobal(x.Addr, 0); g != nil {
						out = append(out, ParamWrite{in, "kept in the package variable " + g.Name() + " beyond the call (aliased, not copied)"})
					}
				}
			case ssa.CallInstruction:
				name := CalleeName(x.Common())
				args := CallArgs(x.Common())
				if name == "builtin:append" && len(args) > 0 && derived(args[0]) && !capped(args[0]) {
					out = append(out, ParamWrite{in, "append to it (fills the spare capacity of the caller's array in place)"})
					continue
				}
				// bytes.NewBuffer(p) adopts p's array: a write to the buffer appends into its spare capacity
				if name == "bytes.NewBuffer" && len(args) == 1 && derived(args[0]) {
					if bv, ok := in.(ssa.Value); ok && bufferWritten(bv) {
						out = append(out, ParamWrite{in, "adopted by bytes.NewBuffer as a buffer that is written (the spare capacity of the caller's array is filled in place)"})
						continue
					}
				}
				if idx, ok := libMutators[name]; ok && idx < len(args) && derived(args[idx]) {
					out = append(out, ParamWrite{in, "destination of " + name[strings.LastIndex(name, "/")+1:]})
					continue
				}
				if strings.HasPrefix(name, "invoke:(crypto/cipher.Block).") && len(args) > 1 && derived(args[1]) {
					out = append(out, ParamWrite{in, "destination of " + strings.TrimPrefix(name, "invoke:")})
					continue
				}
				if g := StaticCallee(x.Common()); g != nil && len(g.Blocks) > 0 {
					for i, a := range args {
						if !derived(a) || i >= len(g.Params) {
							continue
						}
						if isOutput != nil && isOutput(g, i) {
							out = append(out, ParamWrite{in, "handed to " + g.Name() + " as the buffer it fills"})
							continue
						}
						if len(ParamWrites(g, i, isOutput, depth+1)) > 0 {
							out = append(out, ParamWrite{in, "handed to " + g.Name() + ", which writes it"})
						}
					}
				}
			}
		}
	}
	return out
}

// bufferWritten: the *bytes.Buffer value b is written in its function - a writing method is called on it, or it is
// converted to an interface that has a Write method (io.Writer and its supersets) and so handed to a writer.
func bufferWritten(b ssa.Value) bool {
	refs := b.Referrers()
	if refs == nil {
		return false
	}
	for _, ref := range *refs {
		switch x := ref.(type) {
		case *ssa.MakeInterface:
			if it, ok := x.Type().Underlying().(*types.Interface); ok {
				for i := 0; i < it.NumMethods(); i++ {
					if it.Method(i).Name() == "Write" {
						return true
					}
				}
			}
		case ssa.CallInstruction:
			name := CalleeName(x.Common())
			if strings.HasPrefix(name, "(*bytes.Buffer).") {
				switch strings.TrimPrefix(name, "(*bytes.Buffer).") {
				case "Write", "WriteByte", "WriteRune", "WriteString", "ReadFrom", "Grow", "Truncate", "Reset", "AvailableBuffer":
					return true
				}
			}
		case *ssa.Store, *ssa.Phi:
			return true // kept somewhere: not followed, assume the worst
		}
	}
	return false
}
