package an

import (
	"strings"

	"golang.org/x/tools/go/ssa"
)

// Path is one acyclic entry→return path through a function's CFG.
type Path struct {
	Blocks []*ssa.BasicBlock
	Ret    *ssa.Return // nil when the path ends in panic / no return
}

// Paths enumerates the acyclic entry→exit paths of fn (each block at most once per path).  Functions with
// loops yield the paths that skip or traverse each loop body once.  The enumeration stops at max paths.
func Paths(fn *ssa.Function, max int) ([]Path, bool) {
	var out []Path
	complete := true
	var cur []*ssa.BasicBlock
	on := map[*ssa.BasicBlock]bool{}
	var dfs func(b *ssa.BasicBlock)
	dfs = func(b *ssa.BasicBlock) {
		if len(out) >= max {
			complete = false
			return
		}
		cur = append(cur, b)
		on[b] = true
		defer func() { cur = cur[:len(cur)-1]; on[b] = false }()
		if len(b.Succs) == 0 {
			p := Path{Blocks: append([]*ssa.BasicBlock(nil), cur...)}
			if len(b.Instrs) > 0 {
				if r, ok := AsReturn(b.Instrs[len(b.Instrs)-1]); ok {
					p.Ret = r
				}
			}
			out = append(out, p)
			return
		}
		for _, s := range b.Succs {
			if !on[s] {
				dfs(s)
			}
		}
	}
	if len(fn.Blocks) > 0 {
		dfs(fn.Blocks[0])
	}
	return out, complete
}

// CallsOn returns the calls on a path (in order) accepted by keep.
func (p Path) CallsOn(keep func(CallSite) bool) []CallSite {
	var out []CallSite
	for _, b := range p.Blocks {
		for i, in := range b.Instrs {
			if ci, ok := in.(ssa.CallInstruction); ok {
				cs := CallSite{Instr: ci, Common: ci.Common(), Name: CalleeName(ci.Common()), Block: b, Idx: i}
				if keep(cs) {
					out = append(out, cs)
				}
			}
		}
	}
	return out
}

// CodecMethod returns "Put…"/"Pop…" for methods of tl.Encoder / tl.Decoder, "" otherwise.
func CodecMethod(name, tlPkg string) string {
	for _, pre := range []string{"(*" + tlPkg + ".Encoder).", "(*" + tlPkg + ".Decoder)."} {
		if strings.HasPrefix(name, pre) {
			m := strings.TrimPrefix(name, pre)
			if strings.HasPrefix(m, "Put") || strings.HasPrefix(m, "Pop") || m == "GetRestOfMessage" {
				return m
			}
		}
	}
	return ""
}

// FixedWidth of a codec primitive in bytes; 0 when it depends on the argument.
func FixedWidth(method string) int {
	switch method {
	case "PutLong", "PopLong", "PutDouble", "PopDouble":
		return 8
	case "PutInt", "PopInt", "PutUint", "PopUint", "PutCRC", "PopCRC", "PutBool", "PopBool":
		return 4
	}
	return 0
}
