package an

import (
	"strings"

	"golang.org/x/tools/go/ssa"
)

// LockScope is one critical section of a mutex inside a function (engine E8).
type LockScope struct {
	Fn       *ssa.Function
	Lock     ssa.Instruction
	Deferred bool              // a deferred Unlock of the same mutex follows the Lock
	Unlocks  []ssa.Instruction // explicit Unlock calls of the same mutex
}

// LockScopes finds the Lock calls on the mutex whose receiver origin ends in fieldSuffix (e.g. "MTProto.seqNoMutex").
func LockScopes(fn *ssa.Function, fieldSuffix string) []LockScope {
	return lockScopes(fn, fieldSuffix, false)
}

// RLockScopes: the shared sections (RLock … RUnlock) of an RWMutex.
func RLockScopes(fn *ssa.Function, fieldSuffix string) []LockScope {
	return lockScopes(fn, fieldSuffix, true)
}

func lockScopes(fn *ssa.Function, fieldSuffix string, shared bool) []LockScope {
	tr := NewTracer()
	isMu := func(c *ssa.CallCommon) bool {
		args := CallArgs(c)
		return len(args) > 0 && strings.HasSuffix(tr.OriginString(args[0]), fieldSuffix)
	}
	var scopes []LockScope
	var unlocks, deferred []ssa.Instruction
	for _, b := range fn.Blocks {
		for _, in := range b.Instrs {
			ci, ok := in.(ssa.CallInstruction)
			if !ok {
				continue
			}
			name := CalleeName(ci.Common())
			switch {
			case shared && name == "(*sync.RWMutex).RLock" && isMu(ci.Common()):
				if _, isCall := in.(*ssa.Call); isCall {
					scopes = append(scopes, LockScope{Fn: fn, Lock: in})
				}
			case shared && name == "(*sync.RWMutex).RUnlock" && isMu(ci.Common()):
				if _, isDefer := in.(*ssa.Defer); isDefer {
					deferred = append(deferred, in)
				} else {
					unlocks = append(unlocks, in)
				}
			case shared:
				// only the shared operations count in this mode
			case (name == "(*sync.Mutex).Lock" || name == "(*sync.RWMutex).Lock") && isMu(ci.Common()):
				if _, isCall := in.(*ssa.Call); isCall {
					scopes = append(scopes, LockScope{Fn: fn, Lock: in})
				}
			case (name == "(*sync.Mutex).Unlock" || name == "(*sync.RWMutex).Unlock") && isMu(ci.Common()):
				if _, isDefer := in.(*ssa.Defer); isDefer {
					deferred = append(deferred, in)
				} else {
					unlocks = append(unlocks, in)
				}
			}
		}
	}
	for i := range scopes {
		for _, d := range deferred {
			if InstrDominates(scopes[i].Lock, d) {
				scopes[i].Deferred = true
			}
		}
		scopes[i].Unlocks = unlocks
	}
	return scopes
}

// Covers reports whether instr executes with the lock held on every path: the Lock dominates it and no explicit
// Unlock of the same mutex can execute between the Lock and instr.
func (s LockScope) Covers(in ssa.Instruction) bool {
	if !InstrDominates(s.Lock, in) {
		return false
	}
	for _, u := range s.Unlocks {
		if canFollow(s.Lock, u) && canFollow(u, in) {
			return false
		}
	}
	if !s.Deferred && len(s.Unlocks) == 0 {
		return true // held until the function returns (never released here): still "held"
	}
	return true
}

// InstrDominates: a executes before b on every path to b.
func InstrDominates(a, b ssa.Instruction) bool {
	ba, bb := a.Block(), b.Block()
	if ba == bb {
		for _, in := range ba.Instrs {
			if in == a {
				return true
			}
			if in == b {
				return false
			}
		}
		return false
	}
	return ba.Dominates(bb)
}

// LockSite is one Lock / RLock call and what a path-sensitive walk from it found.
type LockSite struct {
	Lock     ssa.Instruction
	Mutex    string // origin of the receiver
	Deferred bool   // released by a deferred Unlock the Lock dominates
	// Leaks: exits of the function (returns) reachable from the Lock without passing an Unlock of the same mutex;
	// Relocks: Lock calls of the same mutex reachable the same way (self-deadlock)
	Leaks, Relocks []ssa.Instruction
}

// LockSites examines every sync.Mutex / sync.RWMutex acquisition of fn: the lock must be given back on every path
// to a return - by a deferred Unlock, or by an explicit one before the exit.  A panic exit is not counted (the
// process or the recovering caller decides); a loop back to the same Lock without an Unlock is.
func LockSites(fn *ssa.Function) []LockSite {
	tr := NewTracer()
	type op struct {
		in     ssa.Instruction
		mu     string
		shared bool
		lock   bool
		deferd bool
	}
	ops := map[ssa.Instruction]op{}
	var order []ssa.Instruction
	for _, b := range fn.Blocks {
		for _, in := range b.Instrs {
			ci, ok := in.(ssa.CallInstruction)
			if !ok {
				continue
			}
			name := CalleeName(ci.Common())
			var o op
			switch name {
			case "(*sync.Mutex).Lock", "(*sync.RWMutex).Lock":
				o = op{lock: true}
			case "(*sync.RWMutex).RLock":
				o = op{lock: true, shared: true}
			case "(*sync.Mutex).Unlock", "(*sync.RWMutex).Unlock":
				o = op{}
			case "(*sync.RWMutex).RUnlock":
				o = op{shared: true}
			default:
				continue
			}
			args := CallArgs(ci.Common())
			if len(args) == 0 {
				continue
			}
			o.in = in
			o.mu = tr.OriginString(args[0])
			_, o.deferd = in.(*ssa.Defer)
			if _, isGo := in.(*ssa.Go); isGo {
				continue
			}
			ops[in] = o
			order = append(order, in)
		}
	}
	var out []LockSite
	for _, in := range order {
		o := ops[in]
		if !o.lock || o.deferd {
			continue
		}
		site := LockSite{Lock: in, Mutex: o.mu}
		for _, d := range order {
			od := ops[d]
			if od.deferd && !od.lock && od.mu == o.mu && od.shared == o.shared && InstrDominates(in, d) {
				site.Deferred = true
			}
		}
		if !site.Deferred {
			// walk forward from the instruction after the Lock
			seen := map[*ssa.BasicBlock]bool{}
			var walk func(b *ssa.BasicBlock, from int)
			walk = func(b *ssa.BasicBlock, from int) {
				for i := from; i < len(b.Instrs); i++ {
					x := b.Instrs[i]
					if ox, ok := ops[x]; ok && ox.mu == o.mu && ox.shared == o.shared {
						if !ox.lock {
							return // released (a deferred Unlock that the Lock does not dominate still runs at exit: counts when passed)
						}
						if !ox.deferd {
							site.Relocks = append(site.Relocks, x)
							return
						}
					}
					if ret, ok := AsReturn(x); ok {
						site.Leaks = append(site.Leaks, ret)
						return
					}
				}
				for _, s := range b.Succs {
					if !seen[s] {
						seen[s] = true
						walk(s, 0)
					}
				}
			}
			idx := 0
			for i, x := range in.Block().Instrs {
				if x == in {
					idx = i + 1
				}
			}
			walk(in.Block(), idx)
		}
		out = append(out, site)
	}
	return out
}
