package an

import (
	"strings"

	"golang.org/x/tools/go/ssa"
)

// LockScope is one critical section of a mutex inside a function (engine E8).
type LockScope struct {
	Fn       *ssa.Function
	Lock     ssa.Instruction
	Deferred bool              // a deferred Unlock of the same mutex follows the Lock
	Unlocks  []ssa.Instruction // explicit Unlock calls of the same mutex
}

// LockScopes finds the Lock calls on the mutex whose receiver origin ends in fieldSuffix (e.g. "MTProto.seqNoMutex").
func LockScopes(fn *ssa.Function, fieldSuffix string) []LockScope {
	return lockScopes(fn, fieldSuffix, false)
}

// RLockScopes: the shared sections (RLock … RUnlock) of an RWMutex.
func RLockScopes(fn *ssa.Function, fieldSuffix string) []LockScope {
	return lockScopes(fn, fieldSuffix, true)
}

func lockScopes(fn *ssa.Function, fieldSuffix string, shared bool) []LockScope {
	tr := NewTracer()
	isMu := func(c *ssa.CallCommon) bool {
		args := CallArgs(c)
		return len(args) > 0 && strings.HasSuffix(tr.OriginString(args[0]), fieldSuffix)
	}
	var scopes []LockScope
	var unlocks, deferred []ssa.Instruction
	for _, b := range fn.Blocks {
		for _, in := range b.Instrs {
			ci, ok := in.(ssa.CallInstruction)
			if !ok {
				continue
			}
			name := CalleeName(ci.Common())
			switch {
			case shared && name == "(*sync.RWMutex).RLock" && isMu(ci.Common()):
				if _, isCall := in.(*ssa.Call); isCall {
					scopes = append(scopes, LockScope{Fn: fn, Lock: in})
				}
			case shared && name == "(*sync.RWMutex).RUnlock" && isMu(ci.Common()):
				if _, isDefer := in.(*ssa.Defer); isDefer {
					deferred = append(deferred, in)
				} else {
					unlocks = append(unlocks, in)
				}
			case shared:
				// only the shared operations count in this mode
			case (name == "(*sync.Mutex).Lock" || name == "(*sync.RWMutex).Lock") && isMu(ci.Common()):
				if _, isCall := in.(*ssa.Call); isCall {
					scopes = append(scopes, LockScope{Fn: fn, Lock: in})
				}
			case (name == "(*sync.Mutex).Unlock" || name == "(*sync.RWMutex).Unlock") && isMu(ci.Common()):
				if _, isDefer := in.(*ssa.Defer); isDefer {
					deferred = append(deferred, in)
				} else {
					unlocks = append(unlocks, in)
				}
			}
		}
	}
	for i := range scopes {
		for _, d := range deferred {
			if InstrDominates(scopes[i].Lock, d) {
				scopes[i].Deferred = true
			}
		}
		scopes[i].Unlocks = unlocks
	}
	return scopes
}

// Covers reports whether instr executes with the lock held on every path: the Lock dominates it and no explicit
// Unlock of the same mutex can execute between the Lock and instr.
func (s LockScope) Covers(in ssa.Instruction) bool {
	if !InstrDominates(s.Lock, in) {
		return false
	}
	for _, u := range s.Unlocks {
		if canFollow(s.Lock, u) && canFollow(u, in) {
			return false
		}
	}
	if !s.Deferred && len(s.Unlocks) == 0 {
		return true // held until the function returns (never released here): still "held"
	}
	return true
}

// InstrDominates: a executes before b on every path to b.
func InstrDominates(a, b ssa.Instruction) bool {
	ba, bb := a.Block(), b.Block()
	if ba == bb {
		for _, in := range ba.Instrs {
			if in == a {
				return true
			}
			if in == b {
				return false
			}
		}
		return false
	}
	return ba.Dominates(bb)
}
