package an

import (
	"go/token"
	"go/types"
	"strings"

	"golang.org/x/tools/go/ssa"
)

// NonNil decides "this interface value is not nil here" for code that follows a sticky-error discipline: a
// decoder object carries an error field that, once set, is never cleared; functions return nil only after
// setting it; callers use a result only where the field is still clear.
type NonNil struct {
	// IsErrField says whether a field address is the sticky error field.
	IsErrField func(fa *ssa.FieldAddr) bool
	// Funcs is the population in which field stores and allocations are searched.
	Funcs []*ssa.Function

	fieldMemo map[string]int // 0 unknown, 1 yes, 2 no, 3 in progress
	fnMemo    map[*ssa.Function]int
	// Notes collects one line per fact used.
	Notes []string
	// Why explains the last failure.
	Why string
}

func (n *NonNil) fail(s string) bool { n.Why = s; return false }

// errLoad: v is a load of the sticky error field.
func (n *NonNil) errLoad(v ssa.Value) bool {
	u, ok := v.(*ssa.UnOp)
	if !ok || u.Op != token.MUL {
		return false
	}
	fa, ok := u.X.(*ssa.FieldAddr)
	return ok && n.IsErrField(fa)
}

// StickyStores lists the stores to the error field in f with the verdict "the stored error is non-nil".
func (n *NonNil) StickyStores(f *ssa.Function) (stores []*ssa.Store, nonNil []bool) {
	for _, b := range f.Blocks {
		for _, in := range b.Instrs {
			st, ok := in.(*ssa.Store)
			if !ok {
				continue
			}
			fa, ok := st.Addr.(*ssa.FieldAddr)
			if !ok || !n.IsErrField(fa) {
				continue
			}
			stores = append(stores, st)
			nonNil = append(nonNil, n.errValueNonNil(st.Val, b))
		}
	}
	return
}

// errValueNonNil: NonNilError, extended with "a wrapper of a load of the error field made where that field is set".
func (n *NonNil) errValueNonNil(v ssa.Value, at *ssa.BasicBlock) bool {
	if NonNilError(v, at) {
		return true
	}
	if call, ok := v.(*ssa.Call); ok && errWrappers[CalleeName(call.Common())] && len(call.Call.Args) > 0 {
		if n.errLoad(call.Call.Args[0]) && n.ErrSetAt(at) {
			return true
		}
	}
	return false
}

// ErrSetAt: control can be in block `at` only after the non-nil edge of a test of the error field, or after a
// store of a non-nil error to it.
func (n *NonNil) ErrSetAt(at *ssa.BasicBlock) bool {
	fn := at.Parent()
	cut := map[Edge]bool{}
	for _, i := range Ifs(fn) {
		cd, ok := Classify(i)
		if ok && cd.Kind == "nil" && n.errLoad(cd.X) {
			cut[cd.EdgeWhen(false)] = true
		}
	}
	for _, b := range fn.Blocks {
		for _, in := range b.Instrs {
			st, ok := in.(*ssa.Store)
			if !ok {
				continue
			}
			if fa, ok := st.Addr.(*ssa.FieldAddr); ok && n.IsErrField(fa) && NonNilError(st.Val, b) {
				if b == at {
					return true
				}
				for k := range b.Succs {
					cut[Edge{b, k}] = true
				}
			}
		}
	}
	if len(cut) == 0 {
		return false
	}
	return !Reach(fn, cut)[at]
}

// ErrClearAfter: block `at` is reached only through the is-nil edge of a test of the error field whose load
// follows `after` (so the field was clear when `after` returned, the field being monotone).
func (n *NonNil) ErrClearAfter(at *ssa.BasicBlock, after ssa.Instruction) bool {
	fn := at.Parent()
	for _, i := range Ifs(fn) {
		cd, ok := Classify(i)
		if !ok || cd.Kind != "nil" || !n.errLoad(cd.X) {
			continue
		}
		ld := cd.X.(*ssa.UnOp)
		if !(ld.Block() == after.Block() && instrBefore(after, ld) || ld.Block() != after.Block() && after.Block().Dominates(ld.Block())) {
			continue
		}
		if !Reach(fn, map[Edge]bool{cd.EdgeWhen(true): true})[at] {
			return true
		}
	}
	return false
}

// NilImpliesErr: every return of f (one result) is a non-nil value or happens with the error field set.
func (n *NonNil) NilImpliesErr(f *ssa.Function) bool {
	if n.fnMemo == nil {
		n.fnMemo = map[*ssa.Function]int{}
	}
	switch n.fnMemo[f] {
	case 1:
		return true
	case 2, 3:
		return false
	}
	n.fnMemo[f] = 3
	ok := len(f.Blocks) > 0 && f.Signature.Results().Len() == 1
	rets := 0
	for _, b := range f.Blocks {
		if !ok {
			break
		}
		ret, isRet := AsReturn(b.Instrs[len(b.Instrs)-1])
		if !isRet {
			continue
		}
		rets++
		if n.Value(RetVal(ret, 0), b, 0) || n.ErrSetAt(b) || deadOnNilError(b) {
			continue
		}
		ok = n.fail("a return of " + f.Name() + " may hand back nil while the error field is clear")
	}
	if ok && rets > 0 {
		n.fnMemo[f] = 1
		n.Notes = append(n.Notes, f.Name()+" returns nil only with the sticky error set")
		return true
	}
	n.fnMemo[f] = 2
	return false
}

// Value: the interface value v is not nil whenever control is in block at.
func (n *NonNil) Value(v ssa.Value, at *ssa.BasicBlock, depth int) bool {
	if depth > 6 {
		return n.fail("depth")
	}
	switch x := v.(type) {
	case *ssa.MakeInterface:
		return true
	case *ssa.Const:
		return n.fail("constant nil")
	case *ssa.Parameter:
		// every call in the population passes a non-nil value
		fn := x.Parent()
		idx := -1
		for i, p := range fn.Params {
			if p == x {
				idx = i
			}
		}
		calls := 0
		for _, f := range n.Funcs {
			for _, cs := range Calls(f) {
				var arg ssa.Value
				switch {
				case idx < 0:
				case StaticCallee(cs.Common) == fn && idx < len(cs.Common.Args):
					arg = cs.Common.Args[idx]
				case cs.Common.IsInvoke() && fn.Signature.Recv() != nil && cs.Common.Method.Name() == fn.Name() && idx >= 1 && idx-1 < len(cs.Common.Args):
					// a call through an interface the method's receiver type implements
					if it, ok := cs.Common.Value.Type().Underlying().(*types.Interface); ok && types.Implements(fn.Signature.Recv().Type(), it) {
						arg = cs.Common.Args[idx-1]
					}
				}
				if arg == nil {
					continue
				}
				calls++
				if !n.Value(arg, cs.Block, depth+1) {
					return n.fail("the caller " + f.Name() + " may pass nil: " + n.Why)
				}
			}
		}
		if calls > 0 {
			n.Notes = append(n.Notes, fn.Name()+"'s "+x.Name()+" is non-nil at each of its call sites")
			return true
		}
		return n.fail("parameter without a call site in the package")
	case *ssa.ChangeInterface:
		return n.Value(x.X, at, depth+1)
	case *ssa.ChangeType:
		return n.Value(x.X, at, depth+1)
	case *ssa.Phi:
		if n.phiOfPairs(x, at, depth) {
			return true
		}
		for i, e := range x.Edges {
			if !n.Value(e, x.Block().Preds[i], depth+1) {
				return guardedNonNil(v, at)
			}
		}
		return true
	case *ssa.UnOp:
		if x.Op == token.MUL {
			if fa, ok := x.X.(*ssa.FieldAddr); ok {
				if n.fieldNonNil(fa, depth) {
					return true
				}
			}
		}
	case *ssa.Extract:
		if errV, g := pairOf(x); errV != nil && g != nil {
			if guardedNil(errV, at) && n.PairContract(g, depth) {
				return true
			}
		}
	case *ssa.TypeAssert:
		// v.(T) without comma-ok yields a non-nil value or panics (a census site of its own) - unless T is an
		// interface and … no: asserting a nil interface to any type panics
		if !x.CommaOk {
			return true
		}
	case *ssa.Call:
		name := CalleeName(x.Common())
		if name == "(reflect.Value).Interface" && len(x.Call.Args) == 1 {
			// a reflect.Value made by MakeSlice has kind Slice: its Interface() is a non-nil interface
			if mk, ok := x.Call.Args[0].(*ssa.Call); ok && CalleeName(mk.Common()) == "reflect.MakeSlice" {
				return true
			}
		}
		if name == "(reflect.Value).Interface" && len(x.Call.Args) == 1 {
			// Interface() is a nil interface only for a Value of kind Interface (or the zero Value, where it panics
			// - a census site of its own): under a dominating Kind() test for another kind it is non-nil
			recv := x.Call.Args[0]
			if DominatingGuard(x.Parent(), x, func(cd *Cond) int { return kindEdge(cd, recv, nonInterfaceKinds) }) {
				return true
			}
		}
		if g := StaticCallee(x.Common()); g != nil && len(g.Blocks) > 0 && g.Signature.Results().Len() == 1 {
			if x.Parent() == at.Parent() && n.ErrClearAfter(at, x) && n.NilImpliesErr(g) {
				return true
			}
		}
	}
	if guardedNonNil(v, at) {
		return true
	}
	if n.Why == "" {
		n.Why = "no rule shows the value non-nil"
	}
	return false
}

func fieldKey(fa *ssa.FieldAddr) (string, *types.Struct) {
	pt, ok := fa.X.Type().Underlying().(*types.Pointer)
	if !ok {
		return "", nil
	}
	st, ok := pt.Elem().Underlying().(*types.Struct)
	if !ok {
		return "", nil
	}
	return pt.Elem().String() + "." + st.Field(fa.Field).Name(), st
}

// fieldNonNil: every allocation of the struct in the population stores the field, and every store is non-nil.
func (n *NonNil) fieldNonNil(fa *ssa.FieldAddr, depth int) bool {
	key, _ := fieldKey(fa)
	if key == "" {
		return false
	}
	if n.fieldMemo == nil {
		n.fieldMemo = map[string]int{}
	}
	switch n.fieldMemo[key] {
	case 1:
		return true
	case 2, 3:
		return false
	}
	n.fieldMemo[key] = 3
	elem := fa.X.Type().Underlying().(*types.Pointer).Elem()
	stores, allocs := 0, 0
	ok := true
	for _, f := range n.Funcs {
		for _, b := range f.Blocks {
			for _, in := range b.Instrs {
				switch x := in.(type) {
				case *ssa.Alloc:
					if !types.Identical(x.Type().Underlying().(*types.Pointer).Elem(), elem) {
						continue
					}
					allocs++
					init := false
					for _, rf := range *x.Referrers() {
						if a2, isFA := rf.(*ssa.FieldAddr); isFA && a2.Field == fa.Field {
							for _, r2 := range *a2.Referrers() {
								if st, isSt := r2.(*ssa.Store); isSt && st.Addr == ssa.Value(a2) {
									init = true
								}
							}
						}
					}
					if !init {
						ok = n.fail("an allocation of " + elem.String() + " in " + f.Name() + " leaves the field nil")
					}
				case *ssa.Store:
					a2, isFA := x.Addr.(*ssa.FieldAddr)
					if !isFA || a2.Field != fa.Field {
						continue
					}
					if k2, _ := fieldKey(a2); k2 != key {
						continue
					}
					stores++
					if !n.Value(x.Val, b, depth+1) {
						ok = n.fail("the store in " + f.Name() + " may store nil: " + n.Why)
					}
				}
			}
		}
	}
	if ok && stores > 0 {
		n.fieldMemo[key] = 1
		n.Notes = append(n.Notes, key+": every allocation stores it, every store is non-nil")
		return true
	}
	n.fieldMemo[key] = 2
	return false
}

var nonInterfaceKinds = []string{"Bool", "Int", "Int8", "Int16", "Int32", "Int64", "Uint", "Uint8", "Uint16", "Uint32", "Uint64", "Uintptr", "Float32", "Float64", "Complex64", "Complex128", "Array", "Chan", "Func", "Map", "Ptr", "Pointer", "Slice", "String", "Struct", "UnsafePointer"}

// GlobalWrite is a write to package-level state: a store to a package variable (or to a field / element of
// one), or an update / delete of a map held in one.
type GlobalWrite struct {
	Instr  ssa.Instruction
	Global *ssa.Global
	What   string
}

func rootGlobal(v ssa.Value, d int) *ssa.Global {
	if d > 6 {
		return nil
	}
	switch x := v.(type) {
	case *ssa.Global:
		return x
	case *ssa.FieldAddr:
		return rootGlobal(x.X, d+1)
	case *ssa.IndexAddr:
		return rootGlobal(x.X, d+1)
	case *ssa.UnOp:
		if x.Op == token.MUL {
			return rootGlobal(x.X, d+1)
		}
	case *ssa.Slice:
		return rootGlobal(x.X, d+1)
	}
	return nil
}

// GlobalWrites lists the writes to package-level state in fns.
func GlobalWrites(fns []*ssa.Function) []GlobalWrite {
	var out []GlobalWrite
	for _, f := range fns {
		for _, b := range f.Blocks {
			for _, in := range b.Instrs {
				switch x := in.(type) {
				case *ssa.Store:
					if g := rootGlobal(x.Addr, 0); g != nil {
						out = append(out, GlobalWrite{in, g, "store"})
					}
				case *ssa.MapUpdate:
					if g := rootGlobal(x.Map, 0); g != nil {
						out = append(out, GlobalWrite{in, g, "map update"})
					}
				case ssa.CallInstruction:
					name := CalleeName(x.Common())
					if name == "builtin:delete" && len(x.Common().Args) > 0 {
						if g := rootGlobal(x.Common().Args[0], 0); g != nil {
							out = append(out, GlobalWrite{in, g, "map delete"})
						}
					}
					// a Read into a slice of a package-level array or slice fills it (io.Reader, io.ReadFull, ...)
					if args := CallArgs(x.Common()); len(args) > 0 {
						idx := -1
						switch {
						case x.Common().IsInvoke() && x.Common().Method.Name() == "Read" && len(args) >= 2:
							idx = 1
						case name == "io.ReadFull" || name == "io.ReadAtLeast":
							idx = 1
						case strings.HasSuffix(name, ").Read") && len(args) >= 2:
							idx = 1
						}
						if idx >= 0 && idx < len(args) {
							if g := sliceRootGlobal(args[idx], 0); g != nil {
								out = append(out, GlobalWrite{in, g, "Read into its storage"})
							}
						}
						// a method that changes its receiver, called on an object a package variable points to: a
						// generator, buffer or big integer shared by every caller (math/rand.Rand is not safe for
						// concurrent use; a shared big.Int "constant" used as a receiver stops being one)
						if g := rootGlobal(args[0], 0); g != nil && g.Pkg != nil {
							mut := false
							switch {
							case strings.HasPrefix(name, "(*math/rand.Rand)."):
								mut = true
							case isBigIntSetter(name):
								mut = true
							case strings.HasPrefix(name, "(*bytes.Buffer).") && !strings.HasSuffix(name, ".Bytes") && !strings.HasSuffix(name, ".Len") && !strings.HasSuffix(name, ".String") && !strings.HasSuffix(name, ".Cap"):
								mut = true
							}
							if mut {
								out = append(out, GlobalWrite{in, g, "call of " + name[strings.LastIndex(name, ".")+1:] + " (changes its receiver) on the object"})
							}
						}
						// ... or handed such an object: a *math/rand.Rand is advanced by whoever draws from it
						for _, a := range args {
							if !strings.HasSuffix(a.Type().String(), "math/rand.Rand") {
								continue
							}
							if g := rootGlobal(a, 0); g != nil && g.Pkg != nil {
								out = append(out, GlobalWrite{in, g, "use of the generator (every draw changes it; math/rand.Rand is not safe for concurrent use)"})
								break
							}
						}
						// a sync.Map kept in a package variable: synchronised, but still state that outlives the call
						switch name {
						case "(*sync.Map).Store", "(*sync.Map).LoadOrStore", "(*sync.Map).Delete", "(*sync.Map).Swap", "(*sync.Map).LoadAndDelete", "(*sync.Map).CompareAndSwap":
							if g := rootGlobal(args[0], 0); g != nil {
								out = append(out, GlobalWrite{in, g, "sync.Map write"})
							}
						}
					}
					// append / copy into a slice of a package-level array or slice write its elements
					if (name == "builtin:append" || name == "builtin:copy") && len(x.Common().Args) > 0 {
						if g := sliceRootGlobal(x.Common().Args[0], 0); g != nil {
							out = append(out, GlobalWrite{in, g, strings.TrimPrefix(name, "builtin:") + " into its storage"})
						}
					}
				}
			}
		}
	}
	return out
}

// pairOf: x is result 0 of a call returning (T, error) to a function with a body; returns the error result's
// Extract and the callee.
func pairOf(x *ssa.Extract) (ssa.Value, *ssa.Function) {
	call, ok := x.Tuple.(*ssa.Call)
	if !ok || x.Index != 0 {
		return nil, nil
	}
	tup, ok := call.Type().(*types.Tuple)
	if !ok || tup.Len() != 2 || !isErrorType(tup.At(1).Type()) {
		return nil, nil
	}
	g := StaticCallee(call.Common())
	if g == nil || len(g.Blocks) == 0 {
		return nil, nil
	}
	for _, rf := range *call.Referrers() {
		if e, ok := rf.(*ssa.Extract); ok && e.Index == 1 {
			return e, g
		}
	}
	return nil, nil
}

// guardedNil: `at` is reached only through the is-nil edge of a test of v.
func guardedNil(v ssa.Value, at *ssa.BasicBlock) bool {
	fn := at.Parent()
	for _, i := range Ifs(fn) {
		cd, ok := Classify(i)
		if !ok || cd.Kind != "nil" || cd.X != v {
			continue
		}
		if !Reach(fn, map[Edge]bool{cd.EdgeWhen(true): true})[at] {
			return true
		}
	}
	return false
}

// PairContract: every return of g (results (T, error)) has a non-nil error or a non-nil value.
func (n *NonNil) PairContract(g *ssa.Function, depth int) bool {
	if n.fnMemo == nil {
		n.fnMemo = map[*ssa.Function]int{}
	}
	switch n.fnMemo[g] {
	case 1:
		return true
	case 2, 3:
		return false
	}
	n.fnMemo[g] = 3
	ok, rets := true, 0
	for _, b := range g.Blocks {
		ret, isRet := AsReturn(b.Instrs[len(b.Instrs)-1])
		if !isRet || len(ret.Results) != 2 {
			continue
		}
		rets++
		if n.errValueNonNil(RetVal(ret, 1), b) || n.Value(RetVal(ret, 0), b, depth+1) {
			continue
		}
		ok = n.fail("a return of " + g.Name() + " may hand back (nil, nil): " + n.Why)
		break
	}
	if ok && rets > 0 {
		n.fnMemo[g] = 1
		n.Notes = append(n.Notes, g.Name()+" returns a nil value only together with an error")
		return true
	}
	n.fnMemo[g] = 2
	return false
}

// phiOfPairs: x merges result 0 of several (T, error) calls, a sibling phi merges their error results in the same
// order, and `at` lies behind the is-nil edge of a test of that sibling.
func (n *NonNil) phiOfPairs(x *ssa.Phi, at *ssa.BasicBlock, depth int) bool {
	var errs []ssa.Value
	var fns []*ssa.Function
	for _, e := range x.Edges {
		ex, ok := e.(*ssa.Extract)
		if !ok {
			return false
		}
		ev, g := pairOf(ex)
		if ev == nil {
			return false
		}
		errs = append(errs, ev)
		fns = append(fns, g)
	}
	for _, in := range x.Block().Instrs {
		y, ok := in.(*ssa.Phi)
		if !ok {
			break
		}
		if y == x || len(y.Edges) != len(errs) {
			continue
		}
		same := true
		for i := range errs {
			if y.Edges[i] != errs[i] {
				same = false
			}
		}
		if !same || !guardedNil(y, at) {
			continue
		}
		for _, g := range fns {
			if !n.PairContract(g, depth) {
				return false
			}
		}
		return true
	}
	return false
}

// alwaysNilErr: the error value is nil on every execution - a nil constant, the error result of io.ReadAll over
// an in-memory reader (bytes.Reader, bytes.Buffer, strings.Reader never fail), or the error result of a
// repository function all of whose live returns are such.
func alwaysNilErr(v ssa.Value, depth int) bool {
	if depth > 4 {
		return false
	}
	switch x := v.(type) {
	case *ssa.Const:
		return x.Value == nil
	case *ssa.Phi:
		for _, e := range x.Edges {
			if !alwaysNilErr(e, depth+1) {
				return false
			}
		}
		return true
	case *ssa.Extract:
		call, ok := x.Tuple.(*ssa.Call)
		if !ok {
			return false
		}
		name := CalleeName(call.Common())
		if (name == "io.ReadAll" || name == "io/ioutil.ReadAll") && len(call.Call.Args) == 1 {
			t := call.Call.Args[0].Type()
			if mi, ok := call.Call.Args[0].(*ssa.MakeInterface); ok {
				t = mi.X.Type()
			}
			switch t.String() {
			case "*bytes.Reader", "*bytes.Buffer", "*strings.Reader":
				return true
			}
			return false
		}
		g := StaticCallee(call.Common())
		if g == nil || len(g.Blocks) == 0 {
			return false
		}
		n := 0
		for _, b := range g.Blocks {
			ret, isRet := AsReturn(b.Instrs[len(b.Instrs)-1])
			if !isRet || x.Index >= len(ret.Results) {
				continue
			}
			n++
			if deadOnNilError(b) || alwaysNilErr(RetVal(ret, x.Index), depth+1) {
				continue
			}
			return false
		}
		return n > 0
	}
	return false
}

// deadOnNilError: the block is reachable only through the not-nil edge of a test of an error that is always nil.
func deadOnNilError(at *ssa.BasicBlock) bool {
	fn := at.Parent()
	for _, i := range Ifs(fn) {
		cd, ok := Classify(i)
		if !ok || cd.Kind != "nil" || !alwaysNilErr(cd.X, 0) {
			continue
		}
		if !Reach(fn, map[Edge]bool{cd.EdgeWhen(false): true})[at] {
			return true
		}
	}
	return false
}

// sliceRootGlobal: the slice value aliases storage of a package-level variable (a slice of a global array, a
// re-slice or an append result of such, a slice loaded from a global).
func sliceRootGlobal(v ssa.Value, d int) *ssa.Global {
	if d > 8 {
		return nil
	}
	switch x := v.(type) {
	case *ssa.Slice:
		if g := rootGlobal(x.X, 0); g != nil {
			return g
		}
		return sliceRootGlobal(x.X, d+1)
	case *ssa.UnOp:
		if x.Op == token.MUL {
			return rootGlobal(x.X, 0)
		}
	case *ssa.Call:
		if CalleeName(x.Common()) == "builtin:append" && len(x.Call.Args) > 0 {
			return sliceRootGlobal(x.Call.Args[0], d+1)
		}
	case *ssa.Phi:
		for _, e := range x.Edges {
			if g := sliceRootGlobal(e, d+1); g != nil {
				return g
			}
		}
	}
	return nil
}
