package an

import (
	"go/token"
	"go/types"

	"golang.org/x/tools/go/ssa"
)

// NonNil decides "this interface value is not nil here" for code that follows a sticky-error discipline: a
// decoder object carries an error field that, once set, is never cleared; functions return nil only after
// setting it; callers use a result only where the field is still clear.
type NonNil struct {
	// IsErrField says whether a field address is the sticky error field.
	IsErrField func(fa *ssa.FieldAddr) bool
	// Funcs is the population in which field stores and allocations are searched.
	Funcs []*ssa.Function

	fieldMemo map[string]int // 0 unknown, 1 yes, 2 no, 3 in progress
	fnMemo    map[*ssa.Function]int
	// Notes collects one line per fact used.
	Notes []string
	// Why explains the last failure.
	Why string
}

func (n *NonNil) fail(s string) bool { n.Why = s; return false }

// errLoad: v is a load of the sticky error field.
func (n *NonNil) errLoad(v ssa.Value) bool {
	u, ok := v.(*ssa.UnOp)
	if !ok || u.Op != token.MUL {
		return false
	}
	fa, ok := u.X.(*ssa.FieldAddr)
	return ok && n.IsErrField(fa)
}

// StickyStores lists the stores to the error field in f with the verdict "the stored error is non-nil".
func (n *NonNil) StickyStores(f *ssa.Function) (stores []*ssa.Store, nonNil []bool) {
	for _, b := range f.Blocks {
		for _, in := range b.Instrs {
			st, ok := in.(*ssa.Store)
			if !ok {
				continue
			}
			fa, ok := st.Addr.(*ssa.FieldAddr)
			if !ok || !n.IsErrField(fa) {
				continue
			}
			stores = append(stores, st)
			nonNil = append(nonNil, n.errValueNonNil(st.Val, b))
		}
	}
	return
}

// errValueNonNil: NonNilError, extended with "a wrapper of a load of the error field made where that field is set".
func (n *NonNil) errValueNonNil(v ssa.Value, at *ssa.BasicBlock) bool {
	if NonNilError(v, at) {
		return true
	}
	if call, ok := v.(*ssa.Call); ok && errWrappers[CalleeName(call.Common())] && len(call.Call.Args) > 0 {
		if n.errLoad(call.Call.Args[0]) && n.ErrSetAt(at) {
			return true
		}
	}
	return false
}

// ErrSetAt: control can be in block `at` only after the non-nil edge of a test of the error field, or after a
// store of a non-nil error to it.
func (n *NonNil) ErrSetAt(at *ssa.BasicBlock) bool {
	fn := at.Parent()
	cut := map[Edge]bool{}
	for _, i := range Ifs(fn) {
		cd, ok := Classify(i)
		if ok && cd.Kind == "nil" && n.errLoad(cd.X) {
			cut[cd.EdgeWhen(false)] = true
		}
	}
	for _, b := range fn.Blocks {
		for _, in := range b.Instrs {
			st, ok := in.(*ssa.Store)
			if !ok {
				continue
			}
			if fa, ok := st.Addr.(*ssa.FieldAddr); ok && n.IsErrField(fa) && NonNilError(st.Val, b) {
				if b == at {
					return true
				}
				for k := range b.Succs {
					cut[Edge{b, k}] = true
				}
			}
		}
	}
	if len(cut) == 0 {
		return false
	}
	return !Reach(fn, cut)[at]
}

// ErrClearAfter: block `at` is reached only through the is-nil edge of a test of the error field whose load
// follows `after` (so the field was clear when `after` returned, the field being monotone).
func (n *NonNil) ErrClearAfter(at *ssa.BasicBlock, after ssa.Instruction) bool {
	fn := at.Parent()
	for _, i := range Ifs(fn) {
		cd, ok := Classify(i)
		if !ok || cd.Kind != "nil" || !n.errLoad(cd.X) {
			continue
		}
		ld := cd.X.(*ssa.UnOp)
		if !(ld.Block() == after.Block() && instrBefore(after, ld) || ld.Block() != after.Block() && after.Block().Dominates(ld.Block())) {
			continue
		}
		if !Reach(fn, map[Edge]bool{cd.EdgeWhen(true): true})[at] {
			return true
		}
	}
	return false
}

// NilImpliesErr: every return of f (one result) is a non-nil value or happens with the error field set.
func (n *NonNil) NilImpliesErr(f *ssa.Function) bool {
	if n.fnMemo == nil {
		n.fnMemo = map[*ssa.Function]int{}
	}
	switch n.fnMemo[f] {
	case 1:
		return true
	case 2, 3:
		return false
	}
	n.fnMemo[f] = 3
	ok := len(f.Blocks) > 0 && f.Signature.Results().Len() == 1
	rets := 0
	for _, b := range f.Blocks {
		if !ok {
			break
		}
		ret, isRet := b.Instrs[len(b.Instrs)-1].(*ssa.Return)
		if !isRet {
			continue
		}
		rets++
		if n.Value(ret.Results[0], b, 0) || n.ErrSetAt(b) {
			continue
		}
		ok = n.fail("a return of " + f.Name() + " may hand back nil while the error field is clear")
	}
	if ok && rets > 0 {
		n.fnMemo[f] = 1
		n.Notes = append(n.Notes, f.Name()+" returns nil only with the sticky error set")
		return true
	}
	n.fnMemo[f] = 2
	return false
}

// Value: the interface value v is not nil whenever control is in block at.
func (n *NonNil) Value(v ssa.Value, at *ssa.BasicBlock, depth int) bool {
	if depth > 6 {
		return n.fail("depth")
	}
	switch x := v.(type) {
	case *ssa.MakeInterface:
		return true
	case *ssa.Const:
		return n.fail("constant nil")
	case *ssa.Parameter:
		// every call in the population passes a non-nil value
		fn := x.Parent()
		idx := -1
		for i, p := range fn.Params {
			if p == x {
				idx = i
			}
		}
		calls := 0
		for _, f := range n.Funcs {
			for _, cs := range Calls(f) {
				if StaticCallee(cs.Common) != fn || idx < 0 || idx >= len(cs.Common.Args) {
					continue
				}
				calls++
				if !n.Value(cs.Common.Args[idx], cs.Block, depth+1) {
					return n.fail("the caller " + f.Name() + " may pass nil: " + n.Why)
				}
			}
		}
		if calls > 0 {
			n.Notes = append(n.Notes, fn.Name()+"'s "+x.Name()+" is non-nil at each of its call sites")
			return true
		}
		return n.fail("parameter without a call site in the package")
	case *ssa.ChangeInterface:
		return n.Value(x.X, at, depth+1)
	case *ssa.Phi:
		for i, e := range x.Edges {
			if !n.Value(e, x.Block().Preds[i], depth+1) {
				return guardedNonNil(v, at)
			}
		}
		return true
	case *ssa.UnOp:
		if x.Op == token.MUL {
			if fa, ok := x.X.(*ssa.FieldAddr); ok {
				if n.fieldNonNil(fa, depth) {
					return true
				}
			}
		}
	case *ssa.Call:
		name := CalleeName(x.Common())
		if name == "(reflect.Value).Interface" && len(x.Call.Args) == 1 {
			// a reflect.Value made by MakeSlice has kind Slice: its Interface() is a non-nil interface
			if mk, ok := x.Call.Args[0].(*ssa.Call); ok && CalleeName(mk.Common()) == "reflect.MakeSlice" {
				return true
			}
		}
		if name == "(reflect.Value).Interface" && len(x.Call.Args) == 1 {
			// Interface() is a nil interface only for a Value of kind Interface (or the zero Value, where it panics
			// - a census site of its own): under a dominating Kind() test for another kind it is non-nil
			recv := x.Call.Args[0]
			if DominatingGuard(x.Parent(), x, func(cd *Cond) int { return kindEdge(cd, recv, nonInterfaceKinds) }) {
				return true
			}
		}
		if g := StaticCallee(x.Common()); g != nil && len(g.Blocks) > 0 && g.Signature.Results().Len() == 1 {
			if x.Parent() == at.Parent() && n.ErrClearAfter(at, x) && n.NilImpliesErr(g) {
				return true
			}
		}
	}
	if guardedNonNil(v, at) {
		return true
	}
	if n.Why == "" {
		n.Why = "no rule shows the value non-nil"
	}
	return false
}

func fieldKey(fa *ssa.FieldAddr) (string, *types.Struct) {
	pt, ok := fa.X.Type().Underlying().(*types.Pointer)
	if !ok {
		return "", nil
	}
	st, ok := pt.Elem().Underlying().(*types.Struct)
	if !ok {
		return "", nil
	}
	return pt.Elem().String() + "." + st.Field(fa.Field).Name(), st
}

// fieldNonNil: every allocation of the struct in the population stores the field, and every store is non-nil.
func (n *NonNil) fieldNonNil(fa *ssa.FieldAddr, depth int) bool {
	key, _ := fieldKey(fa)
	if key == "" {
		return false
	}
	if n.fieldMemo == nil {
		n.fieldMemo = map[string]int{}
	}
	switch n.fieldMemo[key] {
	case 1:
		return true
	case 2, 3:
		return false
	}
	n.fieldMemo[key] = 3
	elem := fa.X.Type().Underlying().(*types.Pointer).Elem()
	stores, allocs := 0, 0
	ok := true
	for _, f := range n.Funcs {
		for _, b := range f.Blocks {
			for _, in := range b.Instrs {
				switch x := in.(type) {
				case *ssa.Alloc:
					if !types.Identical(x.Type().Underlying().(*types.Pointer).Elem(), elem) {
						continue
					}
					allocs++
					init := false
					for _, rf := range *x.Referrers() {
						if a2, isFA := rf.(*ssa.FieldAddr); isFA && a2.Field == fa.Field {
							for _, r2 := range *a2.Referrers() {
								if st, isSt := r2.(*ssa.Store); isSt && st.Addr == ssa.Value(a2) {
									init = true
								}
							}
						}
					}
					if !init {
						ok = n.fail("an allocation of " + elem.String() + " in " + f.Name() + " leaves the field nil")
					}
				case *ssa.Store:
					a2, isFA := x.Addr.(*ssa.FieldAddr)
					if !isFA || a2.Field != fa.Field {
						continue
					}
					if k2, _ := fieldKey(a2); k2 != key {
						continue
					}
					stores++
					if !n.Value(x.Val, b, depth+1) {
						ok = n.fail("the store in " + f.Name() + " may store nil: " + n.Why)
					}
				}
			}
		}
	}
	if ok && stores > 0 {
		n.fieldMemo[key] = 1
		n.Notes = append(n.Notes, key+": every allocation stores it, every store is non-nil")
		return true
	}
	n.fieldMemo[key] = 2
	return false
}

var nonInterfaceKinds = []string{"Bool", "Int", "Int8", "Int16", "Int32", "Int64", "Uint", "Uint8", "Uint16", "Uint32", "Uint64", "Uintptr", "Float32", "Float64", "Complex64", "Complex128", "Array", "Chan", "Func", "Map", "Ptr", "Pointer", "Slice", "String", "Struct", "UnsafePointer"}
