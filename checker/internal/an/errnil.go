package an

import (
	"go/token"
	"go/types"

	"golang.org/x/tools/go/ssa"
)

// errWrappers return nil when their first argument is nil, a non-nil error otherwise.
var errWrappers = map[string]bool{
	"github.com/pkg/errors.Wrap": true, "github.com/pkg/errors.Wrapf": true, "github.com/pkg/errors.WithStack": true,
	"github.com/pkg/errors.WithMessage": true, "github.com/pkg/errors.WithMessagef": true,
}

// errMakers always return a non-nil error.
var errMakers = map[string]bool{
	"errors.New": true, "fmt.Errorf": true, "github.com/pkg/errors.New": true, "github.com/pkg/errors.Errorf": true,
}

// NonNilError reports whether the error value v is certainly non-nil whenever control is in block `at` of v's
// function: a freshly made error, a wrapper of a non-nil error, the result of a repository function all of whose
// returns are non-nil, or a value whose "is nil" edge has to be avoided to reach `at` (cut-edge dominance of an
// `x != nil` test).
func NonNilError(v ssa.Value, at *ssa.BasicBlock) bool {
	return nonNilError(v, at, 0, map[ssa.Value]bool{})
}

func nonNilError(v ssa.Value, at *ssa.BasicBlock, depth int, seen map[ssa.Value]bool) bool {
	if v == nil || depth > 4 || seen[v] {
		return false
	}
	seen[v] = true
	defer delete(seen, v)
	switch x := v.(type) {
	case *ssa.MakeInterface:
		return true
	case *ssa.ChangeInterface:
		return nonNilError(x.X, at, depth, seen)
	case *ssa.Const:
		return false
	case *ssa.Phi:
		for i, e := range x.Edges {
			if !nonNilError(e, x.Block().Preds[i], depth, seen) {
				return guardedNonNil(v, at)
			}
		}
		return true
	case *ssa.Call:
		name := CalleeName(x.Common())
		if errMakers[name] {
			return true
		}
		if errWrappers[name] && len(x.Call.Args) > 0 {
			if nonNilError(x.Call.Args[0], x.Block(), depth, seen) {
				return true
			}
			return guardedNonNil(v, at)
		}
		if f := StaticCallee(x.Common()); f != nil && len(f.Blocks) > 0 && f.Signature.Results().Len() == 1 {
			all, n := true, 0
			for _, b := range f.Blocks {
				if ret, ok := AsReturn(b.Instrs[len(b.Instrs)-1]); ok && len(ret.Results) == 1 {
					n++
					if !nonNilError(RetVal(ret, 0), b, depth+1, seen) {
						all = false
					}
				}
			}
			if all && n > 0 {
				return true
			}
		}
	}
	return guardedNonNil(v, at)
}

// guardedNonNil: `at` can only be reached through the not-nil edge of some `v == nil` / `v != nil` test.
func guardedNonNil(v ssa.Value, at *ssa.BasicBlock) bool {
	if at == nil {
		return false
	}
	fn := at.Parent()
	// a value kept in a local slot (a named result, a variable a closure captures) is loaded afresh at every
	// use: two loads of the slot are the same value when no store to the slot lies between them
	var slot *ssa.Alloc
	if ld, ok := v.(*ssa.UnOp); ok && ld.Op == token.MUL {
		slot, _ = ld.X.(*ssa.Alloc)
	}
	for _, i := range Ifs(fn) {
		cd, ok := Classify(i)
		if !ok || cd.Kind != "nil" {
			continue
		}
		same := cd.X == v
		if !same && slot != nil {
			if l2, ok := cd.X.(*ssa.UnOp); ok && l2.Op == token.MUL && l2.X == ssa.Value(slot) {
				// no store to the slot in the blocks behind the not-nil edge from which `at` is still reachable
				same = true
				head := cd.EdgeWhen(false).To()
				for _, b := range fn.Blocks {
					if !head.Dominates(b) || !(b == at || reachesBlockAn(b, at, map[*ssa.BasicBlock]bool{})) {
						continue
					}
					for _, in := range b.Instrs {
						if in == ssa.Instruction(v.(*ssa.UnOp)) {
							break
						}
						if st, ok := in.(*ssa.Store); ok && st.Addr == ssa.Value(slot) {
							same = false
						}
					}
				}
			}
		}
		if !same {
			continue
		}
		r := Reach(fn, map[Edge]bool{cd.EdgeWhen(false): true})
		if !r[at] {
			return true
		}
	}
	return false
}

func reachesBlockAn(from, to *ssa.BasicBlock, seen map[*ssa.BasicBlock]bool) bool {
	if from == to {
		return true
	}
	if seen[from] {
		return false
	}
	seen[from] = true
	for _, s := range from.Succs {
		if reachesBlockAn(s, to, seen) {
			return true
		}
	}
	return false
}

// ErrDeref is a dereference of a call's pointer (or interface) result at a place that can only be reached when
// the error result of that same call is non-nil: by the convention every (T, error) function of the standard
// library and of this repository follows, T is nil there.
type ErrDeref struct {
	Fn    *ssa.Function
	Call  *ssa.Call
	Use   ssa.Instruction
	What  string
	Index int
}

// ErrPathDerefs examines every call in fns that returns (…, error) with a pointer- or interface-typed result
// and returns the number of such result pairs and the dereferences of the result on the error-only side.
func ErrPathDerefs(fns []*ssa.Function) (pairs int, sites []ErrDeref) {
	for _, fn := range fns {
		for _, b := range fn.Blocks {
			for _, in := range b.Instrs {
				call, ok := in.(*ssa.Call)
				if !ok {
					continue
				}
				tup, ok := call.Type().(*types.Tuple)
				if !ok || tup.Len() < 2 || !isErrorType(tup.At(tup.Len()-1).Type()) {
					continue
				}
				var errV ssa.Value
				res := map[int]*ssa.Extract{}
				for _, r := range *call.Referrers() {
					if e, ok := r.(*ssa.Extract); ok {
						if e.Index == tup.Len()-1 {
							errV = e
						} else {
							res[e.Index] = e
						}
					}
				}
				for i := 0; i < tup.Len()-1; i++ {
					_, isPtr := tup.At(i).Type().Underlying().(*types.Pointer)
					_, isIface := tup.At(i).Type().Underlying().(*types.Interface)
					if !isPtr && !isIface {
						continue
					}
					pairs++
					v := res[i]
					if v == nil || errV == nil {
						continue
					}
					for _, u := range *v.Referrers() {
						what := ""
						switch x := u.(type) {
						case *ssa.FieldAddr:
							if x.X == ssa.Value(v) {
								what = "field access"
							}
						case *ssa.UnOp:
							if x.Op == token.MUL && x.X == ssa.Value(v) {
								what = "load through the pointer"
							}
						case *ssa.IndexAddr:
							if x.X == ssa.Value(v) {
								what = "element access"
							}
						case ssa.CallInstruction:
							cc := x.Common()
							if cc.IsInvoke() && cc.Value == ssa.Value(v) {
								what = "method call " + cc.Method.Name() + " on the interface"
							} else if f := cc.StaticCallee(); f != nil && f.Signature.Recv() != nil && len(cc.Args) > 0 && cc.Args[0] == ssa.Value(v) {
								what = "method call " + f.Name() + " on the pointer"
							}
						}
						if what == "" {
							continue
						}
						if guardedNonNil(errV, u.Block()) {
							sites = append(sites, ErrDeref{Fn: fn, Call: call, Use: u, What: what, Index: i})
						}
					}
				}
			}
		}
	}
	return
}

func isErrorType(t types.Type) bool {
	n, ok := t.(*types.Named)
	return ok && n.Obj().Pkg() == nil && n.Obj().Name() == "error"
}

// NilReturnsAfterFailure explores fn from the block of a call on, with the call's error value (errv, or a reload of the
// cell it was stored in: same) assumed not nil, branches on nil-ness folded, and returns the return instructions that
// may still report a nil error (last result) - judged along the edges that can be taken in that exploration, so a
// join of `nil` and the error counts only by the ways into it that remain.  cut: edges never to be taken.
func NilReturnsAfterFailure(fn *ssa.Function, callBlock *ssa.BasicBlock, same func(ssa.Value) bool, cut map[Edge]bool) []*ssa.Return {
	seen := map[*ssa.BasicBlock]bool{}
	exec := map[Edge]bool{}
	only := -1
	if len(callBlock.Instrs) > 0 {
		if i, ok := callBlock.Instrs[len(callBlock.Instrs)-1].(*ssa.If); ok {
			if cd, ok := Classify(i); ok && cd.Kind == "nil" && same != nil && same(cd.X) {
				only = cd.EdgeWhen(false).Succ // the block ends in the test of this very error
			}
		}
	}
	for si := range callBlock.Succs {
		e := Edge{From: callBlock, Succ: si}
		if cut[e] || (only >= 0 && si != only) {
			continue
		}
		rb, ex := ReachFromAssume(fn, e, cut, same)
		for b := range rb {
			seen[b] = true
		}
		for ed := range ex {
			exec[ed] = true
		}
	}
	var mayNil func(v ssa.Value, depth int) bool
	mayNil = func(v ssa.Value, depth int) bool {
		if IsNilConst(v) {
			return true
		}
		if same != nil && same(v) {
			return false
		}
		if c, ok := v.(*ssa.Call); ok {
			switch CalleeName(c.Common()) {
			case "github.com/pkg/errors.Wrap", "github.com/pkg/errors.Wrapf", "github.com/pkg/errors.WithMessage", "github.com/pkg/errors.WithStack":
				if len(c.Call.Args) > 0 {
					return mayNil(c.Call.Args[0], depth+1)
				}
			}
			return false
		}
		if p, ok := v.(*ssa.Phi); ok && depth < 8 {
			if !seen[p.Block()] {
				return MayBeNilConst(p)
			}
			for _, e := range PhiValues(p, exec) {
				if mayNil(e, depth+1) {
					return true
				}
			}
		}
		return false
	}
	var out []*ssa.Return
	for _, b := range fn.Blocks {
		if !seen[b] && !(len(callBlock.Succs) == 0 && b == callBlock) {
			continue
		}
		for _, in := range b.Instrs {
			if ret, ok := AsReturn(in); ok && len(ret.Results) > 0 && mayNil(RetVal(ret, len(ret.Results)-1), 0) {
				out = append(out, ret)
			}
		}
	}
	return out
}

// ReturnsAfterFailureStrict: like NilReturnsAfterFailure, but a return is acceptable only when its last result is an
// error that is certainly not nil under the assumption (the error itself, a wrap of it, a freshly made error, a join of
// such values along the edges that remain); in a function without an error result every reachable return is reported.
func ReturnsAfterFailureStrict(fn *ssa.Function, callBlock *ssa.BasicBlock, same func(ssa.Value) bool) []*ssa.Return {
	seen := map[*ssa.BasicBlock]bool{}
	exec := map[Edge]bool{}
	only := -1
	if len(callBlock.Instrs) > 0 {
		if i, ok := callBlock.Instrs[len(callBlock.Instrs)-1].(*ssa.If); ok {
			if cd, ok := Classify(i); ok && cd.Kind == "nil" && same(cd.X) {
				only = cd.EdgeWhen(false).Succ
			}
		}
	}
	for si := range callBlock.Succs {
		if only >= 0 && si != only {
			continue
		}
		rb, ex := ReachFromAssume(fn, Edge{From: callBlock, Succ: si}, nil, same)
		for b := range rb {
			seen[b] = true
		}
		for ed := range ex {
			exec[ed] = true
		}
	}
	var sure func(v ssa.Value, depth int) bool
	sure = func(v ssa.Value, depth int) bool {
		if same(v) {
			return true
		}
		switch x := v.(type) {
		case *ssa.MakeInterface:
			return true
		case *ssa.Call:
			switch CalleeName(x.Common()) {
			case "errors.New", "fmt.Errorf", "github.com/pkg/errors.New", "github.com/pkg/errors.Errorf":
				return true
			case "github.com/pkg/errors.Wrap", "github.com/pkg/errors.Wrapf", "github.com/pkg/errors.WithMessage", "github.com/pkg/errors.WithStack":
				return len(x.Call.Args) > 0 && sure(x.Call.Args[0], depth+1)
			}
		case *ssa.Phi:
			if depth > 8 || !seen[x.Block()] {
				return false
			}
			vals := PhiValues(x, exec)
			if len(vals) == 0 {
				return false
			}
			for _, e := range vals {
				if !sure(e, depth+1) {
					return false
				}
			}
			return true
		}
		return false
	}
	isErr := func(t interface{ String() string }) bool { return t.String() == "error" }
	var out []*ssa.Return
	// straight-line code: the block of the call ends in the return itself
	ownRet := len(callBlock.Succs) == 0
	for _, b := range fn.Blocks {
		if !seen[b] && !(ownRet && b == callBlock) {
			continue
		}
		for _, in := range b.Instrs {
			ret, ok := AsReturn(in)
			if !ok {
				continue
			}
			if len(ret.Results) == 0 || !isErr(ret.Results[len(ret.Results)-1].Type()) {
				out = append(out, ret)
				continue
			}
			if !sure(RetVal(ret, len(ret.Results)-1), 0) {
				out = append(out, ret)
			}
		}
	}
	return out
}
