package an

import (
	"go/constant"
	"go/token"

	"golang.org/x/tools/go/ssa"
)

// Edge is a CFG edge: the Succ-th successor of From.
type Edge struct {
	From *ssa.BasicBlock
	Succ int
}

func (e Edge) To() *ssa.BasicBlock { return e.From.Succs[e.Succ] }

type lat int

const (
	undef lat = iota
	cTrue
	cFalse
	over
)

func meet(a, b lat) lat {
	if a == undef {
		return b
	}
	if b == undef {
		return a
	}
	if a == b {
		return a
	}
	return over
}

// Reach computes the blocks reachable from the entry of fn when the edges in cut are removed, folding
// branches whose condition becomes a boolean constant (sparse conditional constant propagation over
// bool constants, phis and negation only).  This is edge dominance with polarity: an effect that is
// not in the result can only execute after control passed one of the cut edges.
func Reach(fn *ssa.Function, cut map[Edge]bool) map[*ssa.BasicBlock]bool {
	return ReachWith(fn, cut, nil)
}

// ReachWith is Reach with an oracle for branch conditions: decide may fix the outcome of an If (the successor
// index taken) — used to evaluate a function's control skeleton for chosen values of a few numeric atoms while
// every other branch stays two-way.
func ReachWith(fn *ssa.Function, cut map[Edge]bool, decide func(*ssa.If) (int, bool)) map[*ssa.BasicBlock]bool {
	r, _ := ReachExec(fn, cut, decide)
	return r
}

// ReachExec also returns the executable edges.
func ReachExec(fn *ssa.Function, cut map[Edge]bool, decide func(*ssa.If) (int, bool)) (map[*ssa.BasicBlock]bool, map[Edge]bool) {
	return reachExec(fn, cut, decide, nil)
}

// ReachFrom is Reach for the part of a run that follows one edge: the blocks reachable after control has taken
// `start`, with phis resolved along the edges executed since then (a phi of a block not re-entered since keeps an
// unknown value).  It answers "once this branch was taken, can that exit still happen?".
func ReachFrom(fn *ssa.Function, start Edge, cut map[Edge]bool) map[*ssa.BasicBlock]bool {
	r, _ := reachExec(fn, cut, nil, &start)
	return r
}

// ReachFromExec also returns the edges executed after start.
func ReachFromExec(fn *ssa.Function, start Edge, cut map[Edge]bool) (map[*ssa.BasicBlock]bool, map[Edge]bool) {
	return reachExec(fn, cut, nil, &start)
}

func reachExec(fn *ssa.Function, cut map[Edge]bool, decide func(*ssa.If) (int, bool), start *Edge) (map[*ssa.BasicBlock]bool, map[Edge]bool) {
	return reachExecAssume(fn, cut, decide, start, nil)
}

// ReachFromAssume is ReachFromExec with values the caller knows not to be nil on the part of the run that is explored
// (the error of the call whose failure is being followed).
func ReachFromAssume(fn *ssa.Function, start Edge, cut map[Edge]bool, nonNil func(ssa.Value) bool) (map[*ssa.BasicBlock]bool, map[Edge]bool) {
	return reachExecAssume(fn, cut, nil, &start, nonNil)
}

func reachExecAssume(fn *ssa.Function, cut map[Edge]bool, decide func(*ssa.If) (int, bool), start *Edge, nonNil func(ssa.Value) bool) (map[*ssa.BasicBlock]bool, map[Edge]bool) {
	if len(fn.Blocks) == 0 {
		return nil, nil
	}
	exec := map[Edge]bool{}
	reach := map[*ssa.BasicBlock]bool{fn.Blocks[0]: true}
	if start != nil {
		reach = map[*ssa.BasicBlock]bool{start.To(): true}
		exec[*start] = true
	}
	visiting := map[*ssa.Phi]bool{}
	edgeExec := func(b *ssa.BasicBlock, i int) bool {
		p := b.Preds[i]
		k := 0
		for j := 0; j < i; j++ {
			if b.Preds[j] == p {
				k++
			}
		}
		for si, s := range p.Succs {
			if s == b {
				if k == 0 {
					return exec[Edge{p, si}]
				}
				k--
			}
		}
		return false
	}
	visitingNil := map[*ssa.Phi]bool{}
	// evalNil: cTrue = the value is nil, cFalse = certainly not nil
	var evalNil func(v ssa.Value, depth int, at *ssa.BasicBlock) lat
	evalNil = func(v ssa.Value, depth int, at *ssa.BasicBlock) lat {
		if depth > 8 {
			return over
		}
		if nonNil != nil && nonNil(v) {
			return cFalse
		}
		if at != nil && testedNonNilAt(v, at) {
			return cFalse // `at` lies behind the not-nil edge of a test of this value
		}
		switch x := v.(type) {
		case *ssa.Const:
			if x.IsNil() {
				return cTrue
			}
			return over
		case *ssa.MakeInterface:
			return cFalse
		case *ssa.Call:
			switch CalleeName(x.Common()) {
			case "errors.New", "fmt.Errorf", "github.com/pkg/errors.New", "github.com/pkg/errors.Errorf":
				return cFalse
			case "github.com/pkg/errors.Wrap", "github.com/pkg/errors.Wrapf", "github.com/pkg/errors.WithMessage", "github.com/pkg/errors.WithMessagef", "github.com/pkg/errors.WithStack":
				// nil for a nil error, an error otherwise
				if len(x.Call.Args) > 0 {
					return evalNil(x.Call.Args[0], depth+1, at)
				}
			}
			return over
		case *ssa.Phi:
			b := x.Block()
			if start != nil && !reach[b] {
				return over
			}
			if visitingNil[x] {
				return undef
			}
			visitingNil[x] = true
			defer delete(visitingNil, x)
			res := undef
			for i := range b.Preds {
				if !edgeExec(b, i) {
					continue
				}
				res = meet(res, evalNil(x.Edges[i], depth+1, b.Preds[i]))
				if res == over {
					return over
				}
			}
			return res
		}
		return over
	}
	var eval func(v ssa.Value, depth int) lat
	eval = func(v ssa.Value, depth int) lat {
		if depth > 8 {
			return over
		}
		switch x := v.(type) {
		case *ssa.Const:
			if x.Value != nil && x.Value.Kind() == constant.Bool {
				if constant.BoolVal(x.Value) {
					return cTrue
				}
				return cFalse
			}
			return over
		case *ssa.UnOp:
			if x.Op == token.NOT {
				switch eval(x.X, depth+1) {
				case cTrue:
					return cFalse
				case cFalse:
					return cTrue
				case undef:
					return undef
				}
				return over
			}
		case *ssa.BinOp:
			// x == nil / x != nil where x is nil or certainly not nil on every executable way in (the error a helper
			// hands back through a result variable: nil on its good path, errors.New(…) on the others)
			if x.Op == token.EQL || x.Op == token.NEQ {
				var other ssa.Value
				if IsNilConst(x.Y) {
					other = x.X
				} else if IsNilConst(x.X) {
					other = x.Y
				}
				if other != nil {
					switch evalNil(other, depth+1, x.Block()) {
					case cTrue: // is nil
						if x.Op == token.EQL {
							return cTrue
						}
						return cFalse
					case cFalse:
						if x.Op == token.EQL {
							return cFalse
						}
						return cTrue
					case undef:
						return undef
					}
					return over
				}
			}
		case *ssa.Phi:
			res := undef
			b := x.Block()
			if start != nil && !reach[b] {
				return over // computed before the start edge was taken
			}
			// a loop-carried flag refers to itself through the back edge: the value under evaluation
			// contributes nothing new (optimistic, as in SCCP)
			if visiting[x] {
				return undef
			}
			visiting[x] = true
			defer delete(visiting, x)
			for i, p := range b.Preds {
				// is the edge p -> b executable?  The k-th occurrence of p in b.Preds is the k-th
				// occurrence of b in p.Succs.
				k := 0
				for j := 0; j < i; j++ {
					if b.Preds[j] == p {
						k++
					}
				}
				ok := false
				for si, s := range p.Succs {
					if s == b {
						if k == 0 {
							ok = exec[Edge{p, si}]
							break
						}
						k--
					}
				}
				if !ok {
					continue
				}
				res = meet(res, eval(x.Edges[i], depth+1))
				if res == over {
					return over
				}
			}
			return res
		}
		// any other boolean value: a rule that forces branch outcomes (decide) is asked as if the value were
		// branched on — `case a && !b:` of a tagless switch is evaluated as a value (a phi of `false` and `!b`)
		// and branched on afterwards, while `if a && !b` branches on a and on b
		if decide != nil {
			if k, ok := askDecide(decide, v); ok {
				if k == 0 {
					return cTrue
				}
				return cFalse
			}
		}
		return over
	}
	for changed := true; changed; {
		changed = false
		mark := func(e Edge) {
			if cut[e] || exec[e] {
				return
			}
			exec[e] = true
			changed = true
			if !reach[e.To()] {
				reach[e.To()] = true
			}
		}
		for _, b := range fn.Blocks {
			if !reach[b] || len(b.Instrs) == 0 {
				continue
			}
			switch last := b.Instrs[len(b.Instrs)-1].(type) {
			case *ssa.If:
				if decide != nil {
					if s, ok := decide(last); ok {
						mark(Edge{b, s})
						continue
					}
				}
				switch eval(last.Cond, 0) {
				case cTrue:
					mark(Edge{b, 0})
				case cFalse:
					mark(Edge{b, 1})
				case over:
					mark(Edge{b, 0})
					mark(Edge{b, 1})
				}
			case *ssa.Jump:
				mark(Edge{b, 0})
			default:
				for i := range b.Succs {
					mark(Edge{b, i})
				}
			}
		}
	}
	return reach, exec
}

// askDecide asks a rule's branch oracle about a boolean value that is not (yet) branched on.
func askDecide(decide func(*ssa.If) (int, bool), v ssa.Value) (k int, ok bool) {
	defer func() {
		if recover() != nil {
			k, ok = 0, false // the oracle looked at the block of the branch: it has none
		}
	}()
	return decide(&ssa.If{Cond: v})
}

// PhiValues returns the incoming values of phi along executable edges.
func PhiValues(phi *ssa.Phi, exec map[Edge]bool) []ssa.Value {
	b := phi.Block()
	var out []ssa.Value
	for i, p := range b.Preds {
		k := 0
		for j := 0; j < i; j++ {
			if b.Preds[j] == p {
				k++
			}
		}
		for si, s := range p.Succs {
			if s == b {
				if k == 0 {
					if exec[Edge{p, si}] {
						out = append(out, phi.Edges[i])
					}
					break
				}
				k--
			}
		}
	}
	return out
}

// Guarded reports whether every instruction in effects is unreachable once the pass edges are cut.
// It returns the effects that stay reachable.
func Guarded(fn *ssa.Function, pass []Edge, effects []ssa.Instruction) (unguarded []ssa.Instruction) {
	cut := map[Edge]bool{}
	for _, e := range pass {
		cut[e] = true
	}
	r := Reach(fn, cut)
	for _, e := range effects {
		if r[e.Block()] {
			unguarded = append(unguarded, e)
		}
	}
	return
}

// Cond describes the test of an If in normalised form.
type Cond struct {
	If   *ssa.If
	Kind string // "cmp" (big.Int.Cmp relation), "bytes.Equal", "eq" (==/!= on values), "nil" (x ==/!= nil), "assert" (comma-ok), "lt","le","gt","ge" (ordered), "bool" (other boolean value), "call:<name>" boolean call
	// Operands of the relation (for cmp: receiver, argument)
	X, Y ssa.Value
	// Rel for Kind=="cmp": one of "==","!=","<","<=",">",">=" relating X to Y when the condition is TRUE
	Rel string
	// TrueMeans: for eq/nil/bytes.Equal/assert: whether the true branch means "equal"/"is nil"/"ok"
	TrueIsEqual bool
	Assert      *ssa.TypeAssert
}

// PassEdge returns the edge taken when the operands agree (equal / assertion ok / is-nil per wantEqual).
func (c *Cond) EdgeWhen(equal bool) Edge {
	if c.TrueIsEqual == equal {
		return Edge{c.If.Block(), 0}
	}
	return Edge{c.If.Block(), 1}
}

// Classify normalises the condition of an If instruction.  ok=false when the idiom is not recognised.
func Classify(i *ssa.If) (*Cond, bool) {
	c, ok := ClassifyValue(i.Cond)
	if ok {
		c.If = i
	}
	return c, ok
}

// ClassifyValue normalises a boolean value the same way (If is nil): used for comparisons that are returned
// by a helper instead of being branched on.
func ClassifyValue(v ssa.Value) (*Cond, bool) {
	c := &Cond{}
	neg := false
	for {
		if u, ok := v.(*ssa.UnOp); ok && u.Op == token.NOT {
			neg = !neg
			v = u.X
			continue
		}
		// b == true / b != false / b == false / b != true
		if bo, ok := v.(*ssa.BinOp); ok && (bo.Op == token.EQL || bo.Op == token.NEQ) {
			other, k, isK := bo.X, bo.Y, false
			if kc, ok := k.(*ssa.Const); ok && kc.Value != nil && kc.Value.Kind() == constant.Bool {
				isK = true
			} else if kc, ok := bo.X.(*ssa.Const); ok && kc.Value != nil && kc.Value.Kind() == constant.Bool {
				other, k, isK = bo.Y, bo.X, true
			}
			if isK {
				kv := constant.BoolVal(k.(*ssa.Const).Value)
				if (bo.Op == token.EQL) != kv {
					neg = !neg
				}
				v = other
				continue
			}
		}
		break
	}
	switch x := v.(type) {
	case *ssa.BinOp:
		op := x.Op
		// const op X.Cmp(Y)  ==  X.Cmp(Y) op' const
		if _, isCall := x.Y.(*ssa.Call); isCall {
			if _, isK := ConstInt(x.X); isK {
				flip := map[token.Token]token.Token{token.EQL: token.EQL, token.NEQ: token.NEQ, token.LSS: token.GTR, token.GTR: token.LSS, token.LEQ: token.GEQ, token.GEQ: token.LEQ}
				if f, ok := flip[op]; ok {
					x = &ssa.BinOp{Op: f, X: x.Y, Y: x.X}
					op = f
				}
			}
		}
		// bytes.Compare(a, b) ==/!= 0 (any spelling that singles out 0) is bytes.Equal(a, b)
		if call, ok := x.X.(*ssa.Call); ok && CalleeName(call.Common()) == "bytes.Compare" {
			if k, ok := ConstInt(x.Y); ok {
				rel := cmpRel(op, k)
				if rel == "==" || rel == "!=" {
					eq := rel == "=="
					if neg {
						eq = !eq
					}
					c.Kind, c.X, c.Y, c.TrueIsEqual = "bytes.Equal", call.Call.Args[0], call.Call.Args[1], eq
					return c, true
				}
			}
		}
		// X.Cmp(Y) op const
		if call, ok := x.X.(*ssa.Call); ok && CalleeName(call.Common()) == "(*math/big.Int).Cmp" {
			if k, ok := ConstInt(x.Y); ok {
				rel := cmpRel(op, k)
				if rel == "" {
					return nil, false
				}
				if neg {
					rel = negRel(rel)
				}
				c.Kind, c.X, c.Y, c.Rel = "cmp", call.Call.Args[0], call.Call.Args[1], rel
				c.TrueIsEqual = rel == "=="
				return c, true
			}
		}
		switch op {
		case token.EQL, token.NEQ:
			eq := op == token.EQL
			if neg {
				eq = !eq
			}
			if IsNilConst(x.Y) || IsNilConst(x.X) {
				c.Kind = "nil"
				c.X = x.X
				if IsNilConst(x.X) {
					c.X = x.Y
				}
				c.TrueIsEqual = eq
				return c, true
			}
			c.Kind, c.X, c.Y, c.TrueIsEqual = "eq", x.X, x.Y, eq
			return c, true
		case token.LSS, token.LEQ, token.GTR, token.GEQ:
			rel := op.String()
			if neg {
				rel = negRel(rel)
			}
			c.Kind, c.X, c.Y, c.Rel = "ord", x.X, x.Y, rel
			return c, true
		}
	case *ssa.Call:
		name := CalleeName(x.Common())
		if name == "bytes.Equal" {
			c.Kind, c.X, c.Y, c.TrueIsEqual = "bytes.Equal", x.Call.Args[0], x.Call.Args[1], !neg
			return c, true
		}
		c.Kind = "call:" + name
		args := CallArgs(x.Common())
		if len(args) > 0 {
			c.X = args[0]
		}
		if len(args) > 1 {
			c.Y = args[1]
		}
		c.TrueIsEqual = !neg
		return c, true
	case *ssa.Extract:
		if ta, ok := x.Tuple.(*ssa.TypeAssert); ok && ta.CommaOk && x.Index == 1 {
			c.Kind, c.X, c.Assert, c.TrueIsEqual = "assert", ta.X, ta, !neg
			return c, true
		}
		c.Kind, c.X, c.TrueIsEqual = "bool", x, !neg
		return c, true
	default:
		c.Kind, c.X, c.TrueIsEqual = "bool", v, !neg
		return c, true
	}
	return nil, false
}

// cmpRel maps `X.Cmp(Y) op k` to a relation on (X, Y); "" when there is none.
func cmpRel(op token.Token, k int64) string {
	// Cmp ∈ {-1,0,1}
	holds := func(r int64) bool {
		switch op {
		case token.EQL:
			return r == k
		case token.NEQ:
			return r != k
		case token.LSS:
			return r < k
		case token.LEQ:
			return r <= k
		case token.GTR:
			return r > k
		case token.GEQ:
			return r >= k
		}
		return false
	}
	key := ""
	for _, r := range []int64{-1, 0, 1} {
		if holds(r) {
			key += "1"
		} else {
			key += "0"
		}
	}
	switch key { // [<, ==, >]
	case "100":
		return "<"
	case "010":
		return "=="
	case "001":
		return ">"
	case "110":
		return "<="
	case "011":
		return ">="
	case "101":
		return "!="
	}
	return ""
}

func negRel(r string) string {
	switch r {
	case "==":
		return "!="
	case "!=":
		return "=="
	case "<":
		return ">="
	case "<=":
		return ">"
	case ">":
		return "<="
	case ">=":
		return "<"
	}
	return r
}

// Ifs lists the If instructions of fn.
func Ifs(fn *ssa.Function) []*ssa.If {
	var out []*ssa.If
	for _, b := range fn.Blocks {
		if len(b.Instrs) == 0 {
			continue
		}
		if i, ok := b.Instrs[len(b.Instrs)-1].(*ssa.If); ok {
			out = append(out, i)
		}
	}
	return out
}

// StripBoolWrappers removes !x, x == true, x != false, … and returns the underlying boolean value.
func StripBoolWrappers(v ssa.Value) ssa.Value {
	for {
		if u, ok := v.(*ssa.UnOp); ok && u.Op == token.NOT {
			v = u.X
			continue
		}
		if bo, ok := v.(*ssa.BinOp); ok && (bo.Op == token.EQL || bo.Op == token.NEQ) {
			if kc, ok := bo.Y.(*ssa.Const); ok && kc.Value != nil && kc.Value.Kind() == constant.Bool {
				v = bo.X
				continue
			}
			if kc, ok := bo.X.(*ssa.Const); ok && kc.Value != nil && kc.Value.Kind() == constant.Bool {
				v = bo.Y
				continue
			}
		}
		return v
	}
}

// testedNonNilAt: block `at` is reached only through the not-nil edge of a branch on v == nil / v != nil.
func testedNonNilAt(v ssa.Value, at *ssa.BasicBlock) bool {
	for d := at; d != nil; d = d.Idom() {
		id := d.Idom()
		if id == nil || len(id.Instrs) == 0 {
			continue
		}
		i, ok := id.Instrs[len(id.Instrs)-1].(*ssa.If)
		if !ok {
			continue
		}
		cd, ok := Classify(i)
		if !ok || cd.Kind != "nil" || cd.X != v {
			continue
		}
		t := cd.EdgeWhen(false).To()
		if t == d && len(t.Preds) == 1 {
			return true
		}
	}
	return false
}
