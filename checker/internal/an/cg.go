package an

import (
	"strings"

	"golang.org/x/tools/go/callgraph"
	"golang.org/x/tools/go/ssa"
)

// Graph is the call graph used by the reachability rules: VTA (seeded with CHA) plus CHA edges for invoke
// sites on the interfaces of package tl, whose receivers are manufactured by reflection and therefore
// invisible to VTA.
type Graph struct {
	vta, cha *callgraph.Graph
	tlPkg    string
	out      map[*ssa.Function][]*ssa.Function
}

func NewGraph(vta, cha *callgraph.Graph, tlPkg string) *Graph {
	return &Graph{vta: vta, cha: cha, tlPkg: tlPkg, out: map[*ssa.Function][]*ssa.Function{}}
}

func (g *Graph) isTLIfaceSite(site ssa.CallInstruction) bool {
	if site == nil {
		return false
	}
	c := site.Common()
	if !c.IsInvoke() {
		return false
	}
	p := c.Method.Pkg()
	return p != nil && p.Path() == g.tlPkg
}

// Callees of fn (deduplicated).
func (g *Graph) Callees(fn *ssa.Function) []*ssa.Function {
	if o, ok := g.out[fn]; ok {
		return o
	}
	seen := map[*ssa.Function]bool{}
	var out []*ssa.Function
	add := func(f *ssa.Function) {
		if f != nil && !seen[f] {
			seen[f] = true
			out = append(out, f)
		}
	}
	if n := g.vta.Nodes[fn]; n != nil {
		for _, e := range n.Out {
			add(e.Callee.Func)
		}
	}
	if n := g.cha.Nodes[fn]; n != nil {
		for _, e := range n.Out {
			if g.isTLIfaceSite(e.Site) {
				add(e.Callee.Func)
			}
		}
	}
	// function literals defined in fn and handed to `go`/`defer` or stored: treat as reachable code
	for _, a := range fn.AnonFuncs {
		add(a)
	}
	g.out[fn] = out
	return out
}

// CalleesAt returns the possible callees of one call site.
func (g *Graph) CalleesAt(fn *ssa.Function, site ssa.CallInstruction) []*ssa.Function {
	seen := map[*ssa.Function]bool{}
	var out []*ssa.Function
	if n := g.vta.Nodes[fn]; n != nil {
		for _, e := range n.Out {
			if e.Site == site && !seen[e.Callee.Func] {
				seen[e.Callee.Func] = true
				out = append(out, e.Callee.Func)
			}
		}
	}
	if g.isTLIfaceSite(site) {
		if n := g.cha.Nodes[fn]; n != nil {
			for _, e := range n.Out {
				if e.Site == site && !seen[e.Callee.Func] {
					seen[e.Callee.Func] = true
					out = append(out, e.Callee.Func)
				}
			}
		}
	}
	return out
}

// Reachable returns the functions reachable from the roots, descending only into functions accepted by
// into (callees rejected by into are still included in the result, but not expanded).
func (g *Graph) Reachable(roots []*ssa.Function, into func(*ssa.Function) bool) map[*ssa.Function]bool {
	seen := map[*ssa.Function]bool{}
	var stack []*ssa.Function
	for _, r := range roots {
		if r != nil && !seen[r] {
			seen[r] = true
			stack = append(stack, r)
		}
	}
	for len(stack) > 0 {
		f := stack[len(stack)-1]
		stack = stack[:len(stack)-1]
		if into != nil && !into(f) {
			continue
		}
		for _, c := range g.Callees(f) {
			if !seen[c] {
				seen[c] = true
				stack = append(stack, c)
			}
		}
	}
	return seen
}

// Reaches reports whether target-named functions are reachable from fn (descending through into).
func (g *Graph) Reaches(fn *ssa.Function, into func(*ssa.Function) bool, match func(*ssa.Function) bool) bool {
	for f := range g.Reachable([]*ssa.Function{fn}, into) {
		if match(f) {
			return true
		}
	}
	return false
}

// PathTo returns one call path from root to a function accepted by match (for diagnostics).
func (g *Graph) PathTo(root *ssa.Function, into func(*ssa.Function) bool, match func(*ssa.Function) bool) []string {
	type item struct {
		f    *ssa.Function
		prev *item
	}
	seen := map[*ssa.Function]bool{root: true}
	q := []*item{{f: root}}
	for len(q) > 0 {
		it := q[0]
		q = q[1:]
		if match(it.f) {
			var path []string
			for x := it; x != nil; x = x.prev {
				path = append([]string{shortName(x.f)}, path...)
			}
			return path
		}
		if into != nil && !into(it.f) {
			continue
		}
		for _, c := range g.Callees(it.f) {
			if !seen[c] {
				seen[c] = true
				q = append(q, &item{f: c, prev: it})
			}
		}
	}
	return nil
}

func shortName(f *ssa.Function) string {
	s := funcFullName(f)
	s = strings.ReplaceAll(s, "github.com/xelaj/mtproto/", "")
	s = strings.ReplaceAll(s, "github.com/xelaj/", "")
	return s
}

// ShortName is exported for reports.
func ShortName(f *ssa.Function) string { return shortName(f) }
