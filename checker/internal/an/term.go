package an

import (
	"go/constant"
	"go/token"
	"go/types"
	"sort"
	"strconv"
	"strings"

	"golang.org/x/tools/go/ssa"
)

// Engine E10 — expression extraction.  A forward, flow-sensitive value numbering over one function (callees of
// the repository and go-dry are inlined when their control flow is acyclic, a few looping helpers are replaced by
// summaries that a rule verifies separately): every SSA value and every mutable object (a *big.Int, a byte
// buffer, an array) gets a symbolic term built from the function's parameters, and the terms of the returned
// values / of chosen call arguments are compared with a formula table.  Branches on chosen parameters are forced
// (the direction flag of the key schedule); every other join merges terms into φ(a|b).  Nothing is executed:
// hashes, modular arithmetic and conversions stay uninterpreted function symbols.

// T is a term.
type T struct {
	Op   string // "sym","num","cat","slice","zeros","put","byte","phi", or a function symbol
	Name string // sym
	N    int64  // num
	Args []*T
}

func Sym(n string) *T          { return &T{Op: "sym", Name: n} }
func Num(n int64) *T           { return &T{Op: "num", N: n} }
func Fn(op string, a ...*T) *T { return simplify(&T{Op: op, Args: a}) }

func (t *T) IsNum() bool { return t != nil && t.Op == "num" }

func (t *T) String() string {
	if t == nil {
		return "?"
	}
	switch t.Op {
	case "sym":
		return t.Name
	case "num":
		return strconv.FormatInt(t.N, 10)
	case "cat":
		var p []string
		for _, a := range t.Args {
			p = append(p, a.String())
		}
		return "(" + strings.Join(p, " ++ ") + ")"
	case "slice":
		return t.Args[0].String() + "[" + boundStr(t.Args[1]) + ":" + boundStr(t.Args[2]) + "]"
	case "phi":
		var p []string
		for _, a := range t.Args {
			p = append(p, a.String())
		}
		return "φ(" + strings.Join(p, " | ") + ")"
	}
	var p []string
	for _, a := range t.Args {
		p = append(p, a.String())
	}
	return t.Op + "(" + strings.Join(p, ", ") + ")"
}

func boundStr(t *T) string {
	if t == nil || (t.Op == "sym" && t.Name == "end") {
		return ""
	}
	return t.String()
}

var endT = Sym("end")

// TermLen: byte length of a byte-string term when it is known.
func TermLen(t *T) (int64, bool) {
	switch t.Op {
	case "sha1":
		return 20, true
	case "sha256":
		return 32, true
	case "sha512":
		return 64, true
	case "zeros":
		if t.Args[0].IsNum() {
			return t.Args[0].N, true
		}
	case "byte":
		return 1, true
	case "fixed":
		if len(t.Args) == 2 && t.Args[1].IsNum() {
			return t.Args[1].N, true
		}
	case "pad256":
		return 256, true
	case "pbkdf2":
		if len(t.Args) >= 4 && t.Args[3].IsNum() {
			return t.Args[3].N, true
		}
	case "xor":
		return TermLen(t.Args[0])
	case "cat":
		var n int64
		for _, a := range t.Args {
			k, ok := TermLen(a)
			if !ok {
				return 0, false
			}
			n += k
		}
		return n, true
	case "slice":
		if t.Args[1].IsNum() && t.Args[2].IsNum() {
			return t.Args[2].N - t.Args[1].N, true
		}
		if t.Args[1].IsNum() && t.Args[2] == endT {
			if k, ok := TermLen(t.Args[0]); ok {
				return k - t.Args[1].N, true
			}
		}
	}
	return 0, false
}

var commutative = map[string]bool{"add": true, "mul": true, "xor": true, "and": true, "or": true, "+": true, "*": true}

func simplify(t *T) *T {
	switch t.Op {
	case "cat":
		var out []*T
		for _, a := range t.Args {
			if a.Op == "cat" {
				out = append(out, a.Args...)
				continue
			}
			if n, ok := TermLen(a); ok && n == 0 {
				continue
			}
			out = append(out, a)
		}
		// merge adjacent zero runs
		var m []*T
		for _, a := range out {
			if len(m) > 0 && a.Op == "zeros" && m[len(m)-1].Op == "zeros" && a.Args[0].IsNum() && m[len(m)-1].Args[0].IsNum() {
				m[len(m)-1] = &T{Op: "zeros", Args: []*T{Num(a.Args[0].N + m[len(m)-1].Args[0].N)}}
				continue
			}
			m = append(m, a)
		}
		if len(m) == 1 {
			return m[0]
		}
		if len(m) == 0 {
			return &T{Op: "zeros", Args: []*T{Num(0)}}
		}
		return &T{Op: "cat", Args: m}
	case "slice":
		x, lo, hi := t.Args[0], t.Args[1], t.Args[2]
		if lo.IsNum() && hi == endT {
			if n, ok := TermLen(x); ok {
				hi = Num(n)
			}
		}
		if lo.IsNum() && lo.N == 0 {
			if hi == endT {
				return x
			}
			if n, ok := TermLen(x); ok && hi.IsNum() && hi.N == n {
				return x
			}
		}
		if x.Op == "slice" && x.Args[1].IsNum() && lo.IsNum() {
			nlo := Num(x.Args[1].N + lo.N)
			var nhi *T
			if hi.IsNum() {
				nhi = Num(x.Args[1].N + hi.N)
			} else {
				nhi = x.Args[2]
			}
			return simplify(&T{Op: "slice", Args: []*T{x.Args[0], nlo, nhi}})
		}
		if x.Op == "zeros" && lo.IsNum() && hi.IsNum() {
			return &T{Op: "zeros", Args: []*T{Num(hi.N - lo.N)}}
		}
		if x.Op == "cat" && lo.IsNum() && hi.IsNum() {
			// distribute over pieces of known length
			var out []*T
			off := int64(0)
			ok := true
			for _, p := range x.Args {
				n, known := TermLen(p)
				if !known {
					ok = false
					break
				}
				a, b := max64(lo.N, off), min64(hi.N, off+n)
				if a < b {
					out = append(out, simplify(&T{Op: "slice", Args: []*T{p, Num(a - off), Num(b - off)}}))
				}
				off += n
			}
			if ok && hi.N <= off {
				return simplify(&T{Op: "cat", Args: out})
			}
		}
		return &T{Op: "slice", Args: []*T{x, lo, hi}}
	case "put":
		buf, off, x := t.Args[0], t.Args[1], t.Args[2]
		bn, ok1 := TermLen(buf)
		xn, ok2 := TermLen(x)
		if ok1 && ok2 && off.IsNum() && off.N >= 0 {
			if off.N+xn > bn { // copy truncates to the destination
				x = simplify(&T{Op: "slice", Args: []*T{x, Num(0), Num(bn - off.N)}})
				xn = bn - off.N
			}
			if xn <= 0 {
				return buf
			}
			head := simplify(&T{Op: "slice", Args: []*T{buf, Num(0), off}})
			tail := simplify(&T{Op: "slice", Args: []*T{buf, Num(off.N + xn), Num(bn)}})
			return simplify(&T{Op: "cat", Args: []*T{head, x, tail}})
		}
		return t
	case "len":
		if n, ok := TermLen(t.Args[0]); ok {
			return Num(n)
		}
		return t
	case "phi":
		seen := map[string]*T{}
		for _, a := range t.Args {
			if a.Op == "phi" {
				for _, b := range a.Args {
					seen[b.String()] = b
				}
				continue
			}
			seen[a.String()] = a
		}
		keys := make([]string, 0, len(seen))
		for k := range seen {
			keys = append(keys, k)
		}
		sort.Strings(keys)
		if len(keys) == 1 {
			return seen[keys[0]]
		}
		var out []*T
		for _, k := range keys {
			out = append(out, seen[k])
		}
		return &T{Op: "phi", Args: out}
	}
	if commutative[t.Op] && len(t.Args) == 2 {
		if t.Args[0].IsNum() && t.Args[1].IsNum() {
			switch t.Op {
			case "+":
				return Num(t.Args[0].N + t.Args[1].N)
			case "*":
				return Num(t.Args[0].N * t.Args[1].N)
			}
		}
		if t.Args[0].String() > t.Args[1].String() {
			return &T{Op: t.Op, Args: []*T{t.Args[1], t.Args[0]}}
		}
	}
	if t.Op == "-" && len(t.Args) == 2 && t.Args[0].IsNum() && t.Args[1].IsNum() {
		return Num(t.Args[0].N - t.Args[1].N)
	}
	return t
}

func max64(a, b int64) int64 {
	if a > b {
		return a
	}
	return b
}
func min64(a, b int64) int64 {
	if a < b {
		return a
	}
	return b
}

// ---- evaluation ----------------------------------------------------------------------------------------

type tobj struct {
	name   string
	kids   map[string]*tobj
	isByte bool
}

// tval is the abstract value of an SSA value: a term, or a reference (pointer / slice view) to an object.
type tval struct {
	t      *T
	obj    *tobj
	lo, hi *T // slice view into obj (nil lo: whole object / pointer)
	tuple  []tval
}

type tstore map[*tobj]*T

func (s tstore) clone() tstore {
	n := tstore{}
	for k, v := range s {
		n[k] = v
	}
	return n
}

// TermSummary computes the result of a call from its argument values without looking at the callee.
type TermSummary func(e *TermEval, st tstore, args []tval) (tval, bool)

type TermEval struct {
	Inline    func(*ssa.Function) bool
	Summaries map[string]TermSummary
	// ForceParam: root-function parameters with a constant value ("true"/"false"/number), by index.
	ForceParam map[int]*T
	ParamNames []string
	// CallArgs records the argument terms of calls whose callee name is a key.
	WatchCalls map[string]bool
	WatchAll   bool // record every call of the root function
	Seen       []WatchedCall
	Notes      []string // opacity notes (loops, unknown calls that may mutate)
	// AllowRootLoops: evaluate a root function that has loops; everything computed inside a loop is opaque.
	AllowRootLoops bool
	// OpaqueName names the i-th result of a call that is not evaluated (default: call:<callee>(args)).
	OpaqueName func(call *ssa.Call, i int) string
	depth      int
	root       *ssa.Function
	rootRets   []ReturnTerms
}

type WatchedCall struct {
	Name string
	Pos  token.Pos
	Args []*T
	Fn   *ssa.Function
}

type TermResult struct {
	Results []*T // merged over the function's returns
	// Each: the unmerged returns of the root function, result terms and (for results that are objects with
	// fields: a returned struct pointer) the field contents.
	Each []ReturnTerms
}

type ReturnTerms struct {
	Pos     token.Pos
	Results []*T
	Fields  []map[string]*T
}

func (e *TermEval) note(s string) {
	if len(e.Notes) < 64 {
		e.Notes = append(e.Notes, s)
	}
}

func (e *TermEval) read(st tstore, v tval) *T {
	if v.obj == nil {
		if v.t == nil {
			return Sym("?")
		}
		return v.t
	}
	c, ok := st[v.obj]
	if !ok {
		c = e.structTerm(st, v.obj, 0)
	}
	if v.lo != nil {
		hi := v.hi
		if hi == nil {
			hi = endT
		}
		return simplify(&T{Op: "slice", Args: []*T{c, v.lo, hi}})
	}
	return c
}

// structTerm renders an object that has no content of its own but fields with content (a struct built field by
// field) as {f: term, …}; otherwise its name.
func (e *TermEval) structTerm(st tstore, o *tobj, depth int) *T {
	if depth > 3 || len(o.kids) == 0 || !strings.HasPrefix(o.name, "alloc:") {
		return Sym(o.name)
	}
	var keys []string
	for k := range o.kids {
		keys = append(keys, k)
	}
	sort.Strings(keys)
	var args []*T
	for _, k := range keys {
		kid := o.kids[k]
		c, ok := st[kid]
		if !ok {
			c = e.structTerm(st, kid, depth+1)
			if c.Op == "sym" && c.Name == kid.name {
				continue
			}
		}
		args = append(args, &T{Op: "field:" + k, Args: []*T{c}})
	}
	if len(args) == 0 {
		return Sym(o.name)
	}
	return &T{Op: "struct", Args: args}
}

func (o *tobj) kid(k string) *tobj {
	if o.kids == nil {
		o.kids = map[string]*tobj{}
	}
	if c, ok := o.kids[k]; ok {
		return c
	}
	c := &tobj{name: o.name + "." + k}
	if strings.HasPrefix(k, "[") {
		c.name = o.name + k
	}
	o.kids[k] = c
	return c
}

// Eval evaluates fn symbolically; parameters are named by ParamNames (or $i).
func (e *TermEval) Eval(fn *ssa.Function) (*TermResult, bool) {
	args := make([]tval, len(fn.Params))
	for i, p := range fn.Params {
		name := "$" + strconv.Itoa(i)
		if i < len(e.ParamNames) && e.ParamNames[i] != "" {
			name = "$" + e.ParamNames[i]
		}
		if k, ok := e.ForceParam[i]; ok {
			args[i] = tval{t: k}
			continue
		}
		if isRefType(p.Type()) {
			args[i] = tval{obj: &tobj{name: name}}
		} else {
			args[i] = tval{t: Sym(name)}
		}
	}
	st := tstore{}
	e.rootRets = nil
	e.root = fn
	res, ok := e.evalFn(fn, args, st)
	if !ok {
		return nil, false
	}
	out := &TermResult{Each: e.rootRets}
	for _, r := range res {
		out.Results = append(out.Results, e.read(st, r))
	}
	return out, true
}

func isRefType(t types.Type) bool {
	switch t.Underlying().(type) {
	case *types.Pointer, *types.Slice, *types.Map:
		return true
	}
	return false
}

func acyclic(fn *ssa.Function) bool {
	color := map[*ssa.BasicBlock]int{}
	var dfs func(b *ssa.BasicBlock) bool
	dfs = func(b *ssa.BasicBlock) bool {
		color[b] = 1
		for _, s := range b.Succs {
			if color[s] == 1 {
				return false
			}
			if color[s] == 0 && !dfs(s) {
				return false
			}
		}
		color[b] = 2
		return true
	}
	return len(fn.Blocks) == 0 || dfs(fn.Blocks[0])
}

func rpo(fn *ssa.Function) []*ssa.BasicBlock {
	seen := map[*ssa.BasicBlock]bool{}
	var post []*ssa.BasicBlock
	var dfs func(b *ssa.BasicBlock)
	dfs = func(b *ssa.BasicBlock) {
		seen[b] = true
		for _, s := range b.Succs {
			if !seen[s] {
				dfs(s)
			}
		}
		post = append(post, b)
	}
	dfs(fn.Blocks[0])
	for i, j := 0, len(post)-1; i < j; i, j = i+1, j-1 {
		post[i], post[j] = post[j], post[i]
	}
	return post
}

// evalFn evaluates one (acyclic) function body.  st is updated in place with the state at the merged returns.
func (e *TermEval) evalFn(fn *ssa.Function, args []tval, st tstore) ([]tval, bool) {
	if len(fn.Blocks) == 0 || e.depth > 6 {
		return nil, false
	}
	cyc := map[*ssa.BasicBlock]bool{}
	if !acyclic(fn) {
		if e.depth > 0 || !e.AllowRootLoops {
			e.note("loop in " + funcFullName(fn))
			return nil, false
		}
		// the root may loop: values defined and objects written inside a cycle become opaque
		for _, b := range fn.Blocks {
			for _, s := range b.Succs {
				if reaches(s, b, map[*ssa.BasicBlock]bool{}) {
					cyc[b] = true
				}
			}
		}
		e.note("loops in the root function: values and writes inside them are opaque")
	}
	e.depth++
	defer func() { e.depth-- }()
	vals := map[ssa.Value]tval{}
	for i, p := range fn.Params {
		if i < len(args) {
			vals[p] = args[i]
		}
	}
	out := map[*ssa.BasicBlock]tstore{}
	execEdge := map[Edge]bool{}
	reached := map[*ssa.BasicBlock]bool{fn.Blocks[0]: true}
	type retRec struct {
		vals []tval
		st   tstore
	}
	var rets []retRec
	get := func(v ssa.Value, cur tstore) tval { return e.value(v, vals, cur) }
	for _, b := range rpo(fn) {
		if !reached[b] {
			continue
		}
		// in-state: merge of executed predecessors
		var cur tstore
		if b == fn.Blocks[0] {
			cur = st.clone()
		} else {
			var ins []tstore
			for pi, p := range b.Preds {
				if execEdge[Edge{p, succIndex(p, b, pi, b.Preds)}] && out[p] != nil {
					ins = append(ins, out[p])
				}
			}
			cur = mergeStores(ins)
		}
		var before tstore
		if cyc[b] {
			before = cur.clone()
		}
		for _, in := range b.Instrs {
			switch x := in.(type) {
			case *ssa.Phi:
				var alts []*T
				var first *tval
				same := true
				for i, ed := range x.Edges {
					p := b.Preds[i]
					if !execEdge[Edge{p, succIndex(p, b, i, b.Preds)}] {
						continue
					}
					v := e.value(ed, vals, out[p])
					if first == nil {
						vv := v
						first = &vv
					} else if v.obj != first.obj {
						same = false
					}
					alts = append(alts, e.read(out[p], v))
				}
				back := false
				for _, p := range b.Preds {
					if out[p] == nil && cyc[b] {
						back = true
					}
				}
				if back {
					alts = append(alts, Sym("?loop"))
					same = false
				}
				if first != nil && first.obj != nil && same {
					vals[x] = *first
				} else if len(alts) > 0 {
					vals[x] = tval{t: simplify(&T{Op: "phi", Args: alts})}
				} else {
					vals[x] = tval{t: Sym("?phi")}
				}
			case *ssa.If:
				c := e.read(cur, get(x.Cond, cur))
				switch {
				case c.Op == "sym" && c.Name == "true":
					execEdge[Edge{b, 0}] = true
					reached[b.Succs[0]] = true
				case c.Op == "sym" && c.Name == "false":
					execEdge[Edge{b, 1}] = true
					reached[b.Succs[1]] = true
				default:
					execEdge[Edge{b, 0}], execEdge[Edge{b, 1}] = true, true
					reached[b.Succs[0]], reached[b.Succs[1]] = true, true
				}
			case *ssa.Jump:
				execEdge[Edge{b, 0}] = true
				reached[b.Succs[0]] = true
			case *ssa.Return:
				var rv []tval
				for _, r := range x.Results {
					rv = append(rv, get(r, cur))
				}
				rets = append(rets, retRec{rv, cur.clone()})
				if fn == e.root && e.depth == 1 {
					rt := ReturnTerms{Pos: x.Pos()}
					for _, v := range rv {
						rt.Results = append(rt.Results, e.read(cur, v))
						fm := map[string]*T{}
						if v.obj != nil {
							for k, o := range v.obj.kids {
								if c, ok := cur[o]; ok {
									fm[k] = c
								}
							}
						}
						rt.Fields = append(rt.Fields, fm)
					}
					e.rootRets = append(e.rootRets, rt)
				}
			case *ssa.Panic:
				// no state leaves through a panic
			case *ssa.Store:
				e.store(x, vals, cur)
			case ssa.Value:
				vals[x] = e.instr(x, vals, cur)
				if cyc[b] {
					if tv := vals[x]; tv.obj == nil {
						vals[x] = tval{t: Sym("?loop")}
					}
				}
			case *ssa.Defer, *ssa.Go, *ssa.RunDefers, *ssa.Send, *ssa.MapUpdate, *ssa.DebugRef:
				// no effect on the tracked values
			}
		}
		if cyc[b] {
			for o, c := range cur {
				if pc, ok := before[o]; !ok || pc.String() != c.String() {
					cur[o] = Sym("?loop:" + o.name)
				}
			}
		}
		out[b] = cur
	}
	if len(rets) == 0 {
		return nil, false
	}
	// merge the returns
	var sts []tstore
	for _, r := range rets {
		sts = append(sts, r.st)
	}
	merged := mergeStores(sts)
	for k := range st {
		delete(st, k)
	}
	for k, v := range merged {
		st[k] = v
	}
	n := len(rets[0].vals)
	res := make([]tval, n)
	for i := 0; i < n; i++ {
		sameObj := true
		for _, r := range rets {
			if r.vals[i].obj != rets[0].vals[i].obj || r.vals[i].obj == nil {
				sameObj = false
			}
		}
		if sameObj && len(rets) > 0 {
			res[i] = rets[0].vals[i]
			continue
		}
		var alts []*T
		for _, r := range rets {
			t := e.read(r.st, r.vals[i])
			if t.Op == "sym" && t.Name == "nil" && len(rets) > 1 {
				continue // error-path returns of a value
			}
			alts = append(alts, t)
		}
		if len(alts) == 0 {
			alts = append(alts, Sym("nil"))
		}
		res[i] = tval{t: simplify(&T{Op: "phi", Args: alts})}
	}
	return res, true
}

func succIndex(p, b *ssa.BasicBlock, predIdx int, preds []*ssa.BasicBlock) int {
	k := 0
	for j := 0; j < predIdx; j++ {
		if preds[j] == p {
			k++
		}
	}
	for si, s := range p.Succs {
		if s == b {
			if k == 0 {
				return si
			}
			k--
		}
	}
	return 0
}

func mergeStores(ins []tstore) tstore {
	if len(ins) == 0 {
		return tstore{}
	}
	if len(ins) == 1 {
		return ins[0].clone()
	}
	out := tstore{}
	keys := map[*tobj]bool{}
	for _, s := range ins {
		for k := range s {
			keys[k] = true
		}
	}
	for k := range keys {
		var alts []*T
		for _, s := range ins {
			if v, ok := s[k]; ok {
				alts = append(alts, v)
			} else {
				alts = append(alts, Sym(k.name))
			}
		}
		out[k] = simplify(&T{Op: "phi", Args: alts})
	}
	return out
}

func constTerm(c *ssa.Const) *T {
	if c.Value == nil {
		return Sym("nil")
	}
	switch c.Value.Kind() {
	case constant.Bool:
		if constant.BoolVal(c.Value) {
			return Sym("true")
		}
		return Sym("false")
	case constant.Int:
		if n, ok := constant.Int64Val(c.Value); ok {
			return Num(n)
		}
	case constant.String:
		return Sym(strconv.Quote(constant.StringVal(c.Value)))
	}
	return Sym(c.Value.ExactString())
}

func (e *TermEval) value(v ssa.Value, vals map[ssa.Value]tval, cur tstore) tval {
	if tv, ok := vals[v]; ok {
		return tv
	}
	switch x := v.(type) {
	case *ssa.Const:
		return tval{t: constTerm(x)}
	case *ssa.Global:
		return tval{obj: &tobj{name: "global:" + x.Name()}}
	case *ssa.Function:
		return tval{t: Sym("func:" + funcFullName(x))}
	case *ssa.Builtin:
		return tval{t: Sym("builtin:" + x.Name())}
	}
	return tval{t: Sym("?" + v.Name())}
}

func (e *TermEval) store(x *ssa.Store, vals map[ssa.Value]tval, cur tstore) {
	a := e.value(x.Addr, vals, cur)
	v := e.value(x.Val, vals, cur)
	if a.obj == nil {
		return
	}
	if a.lo != nil {
		// element store through a slice view / index: a[lo] = v
		c, ok := cur[a.obj]
		if !ok {
			c = Sym(a.obj.name)
		}
		cur[a.obj] = simplify(&T{Op: "put", Args: []*T{c, a.lo, &T{Op: "byte", Args: []*T{e.read(cur, v)}}}})
		return
	}
	if v.obj != nil && v.lo == nil && !isByteObj(v.obj) {
		// storing a reference: alias the kid to the referenced object is not modelled; keep its content
		cur[a.obj] = e.read(cur, v)
		a.obj.kids = v.obj.kids
		return
	}
	cur[a.obj] = e.read(cur, v)
}

func isByteObj(o *tobj) bool { return o != nil && o.isByte }

func (e *TermEval) instr(v ssa.Value, vals map[ssa.Value]tval, cur tstore) tval {
	get := func(x ssa.Value) tval { return e.value(x, vals, cur) }
	rd := func(x ssa.Value) *T { return e.read(cur, get(x)) }
	switch x := v.(type) {
	case *ssa.Alloc:
		o := &tobj{name: "alloc:" + x.Name()}
		el := x.Type().Underlying().(*types.Pointer).Elem()
		switch u := el.Underlying().(type) {
		case *types.Array:
			if b, ok := u.Elem().Underlying().(*types.Basic); ok && b.Kind() == types.Byte {
				o.isByte = true
				cur[o] = &T{Op: "zeros", Args: []*T{Num(u.Len())}}
			}
		case *types.Struct:
			if el.String() == "math/big.Int" {
				cur[o] = Num(0)
			}
		}
		return tval{obj: o}
	case *ssa.MakeSlice:
		o := &tobj{name: "make:" + x.Name(), isByte: true}
		ln := rd(x.Len)
		cur[o] = simplify(&T{Op: "zeros", Args: []*T{ln}})
		return tval{obj: o, lo: Num(0)}
	case *ssa.FieldAddr:
		b := get(x.X)
		if b.obj == nil {
			return tval{obj: &tobj{name: e.read(cur, b).String() + "." + fieldShort(x.X.Type(), x.Field)}}
		}
		return tval{obj: b.obj.kid(fieldShort(x.X.Type(), x.Field))}
	case *ssa.Field:
		b := get(x.X)
		if b.obj != nil {
			return tval{obj: b.obj.kid(fieldShort(x.X.Type(), x.Field))}
		}
		return tval{t: Fn("field:"+fieldShort(x.X.Type(), x.Field), e.read(cur, b))}
	case *ssa.IndexAddr:
		b := get(x.X)
		idx := rd(x.Index)
		if b.obj != nil && b.obj.isByte {
			lo := idx
			if b.lo != nil {
				lo = simplify(&T{Op: "+", Args: []*T{b.lo, idx}})
			}
			return tval{obj: b.obj, lo: lo, hi: simplify(&T{Op: "+", Args: []*T{lo, Num(1)}})}
		}
		if b.obj != nil {
			return tval{obj: b.obj.kid("[" + idx.String() + "]")}
		}
		return tval{obj: &tobj{name: e.read(cur, b).String() + "[" + idx.String() + "]"}}
	case *ssa.Index:
		return tval{t: Fn("index", rd(x.X), rd(x.Index))}
	case *ssa.UnOp:
		switch x.Op {
		case token.MUL:
			a := get(x.X)
			if a.obj == nil {
				return tval{t: Fn("load", e.read(cur, a))}
			}
			if a.lo != nil { // element load
				return tval{t: e.read(cur, a)}
			}
			// loading a reference-typed slot: the value refers to the same object tree
			if isRefType(x.Type()) || isStructType(x.Type()) {
				return tval{obj: a.obj, lo: sliceLo(x.Type())}
			}
			return tval{t: e.read(cur, a)}
		case token.NOT:
			t := rd(x.X)
			if t.Op == "sym" && t.Name == "true" {
				return tval{t: Sym("false")}
			}
			if t.Op == "sym" && t.Name == "false" {
				return tval{t: Sym("true")}
			}
			return tval{t: Fn("not", t)}
		case token.SUB:
			t := rd(x.X)
			if t.IsNum() {
				return tval{t: Num(-t.N)}
			}
			return tval{t: Fn("neg", t)}
		}
		return tval{t: Fn(x.Op.String(), rd(x.X))}
	case *ssa.BinOp:
		a, b := rd(x.X), rd(x.Y)
		if a.IsNum() && b.IsNum() {
			switch x.Op {
			case token.ADD:
				return tval{t: Num(a.N + b.N)}
			case token.SUB:
				return tval{t: Num(a.N - b.N)}
			case token.MUL:
				return tval{t: Num(a.N * b.N)}
			case token.LSS, token.LEQ, token.GTR, token.GEQ, token.EQL, token.NEQ:
				r := map[token.Token]bool{token.LSS: a.N < b.N, token.LEQ: a.N <= b.N, token.GTR: a.N > b.N, token.GEQ: a.N >= b.N, token.EQL: a.N == b.N, token.NEQ: a.N != b.N}[x.Op]
				if r {
					return tval{t: Sym("true")}
				}
				return tval{t: Sym("false")}
			}
		}
		return tval{t: Fn(x.Op.String(), a, b)}
	case *ssa.Convert:
		return get(x.X)
	case *ssa.ChangeType:
		return get(x.X)
	case *ssa.MakeInterface:
		return get(x.X)
	case *ssa.ChangeInterface:
		return get(x.X)
	case *ssa.SliceToArrayPointer:
		return get(x.X)
	case *ssa.Slice:
		b := get(x.X)
		lo, hi := Num(0), (*T)(nil)
		if x.Low != nil {
			lo = rd(x.Low)
		}
		if x.High != nil {
			hi = rd(x.High)
		}
		if b.obj != nil {
			base := Num(0)
			if b.lo != nil {
				base = b.lo
			}
			nlo := simplify(&T{Op: "+", Args: []*T{base, lo}})
			var nhi *T
			if hi != nil {
				nhi = simplify(&T{Op: "+", Args: []*T{base, hi}})
			} else {
				nhi = b.hi
			}
			b.obj.isByte = b.obj.isByte || isByteSlice(x.Type())
			return tval{obj: b.obj, lo: nlo, hi: nhi}
		}
		h := hi
		if h == nil {
			h = endT
		}
		return tval{t: simplify(&T{Op: "slice", Args: []*T{e.read(cur, b), lo, h}})}
	case *ssa.Extract:
		tv := get(x.Tuple)
		if x.Index < len(tv.tuple) {
			return tv.tuple[x.Index]
		}
		return tval{t: Fn("extract"+strconv.Itoa(x.Index), e.read(cur, tv))}
	case *ssa.TypeAssert:
		if x.CommaOk {
			return tval{tuple: []tval{get(x.X), {t: Sym("ok")}}, t: Sym("tuple")}
		}
		return get(x.X)
	case *ssa.Call:
		return e.call(x, vals, cur)
	case *ssa.MakeClosure:
		return tval{t: Sym("closure")}
	case *ssa.Lookup:
		return tval{t: Fn("lookup", rd(x.X), rd(x.Index))}
	}
	return tval{t: Sym("?" + v.Name())}
}

func sliceLo(t types.Type) *T {
	if _, ok := t.Underlying().(*types.Slice); ok {
		return Num(0)
	}
	return nil
}

func isStructType(t types.Type) bool {
	_, ok := t.Underlying().(*types.Struct)
	return ok
}

func isByteSlice(t types.Type) bool {
	s, ok := t.Underlying().(*types.Slice)
	if !ok {
		return false
	}
	b, ok := s.Elem().Underlying().(*types.Basic)
	return ok && b.Kind() == types.Byte
}

func fieldShort(structT types.Type, idx int) string {
	n := FieldName(structT, idx)
	return n[strings.LastIndex(n, ".")+1:]
}

var bigSetters = map[string]string{
	"Exp": "exp", "Mul": "mul", "Add": "add", "Sub": "sub", "Mod": "mod", "Div": "div", "Rem": "rem", "Quo": "quo",
	"Xor": "bigxor", "And": "bigand", "Or": "bigor", "Lsh": "lsh", "Rsh": "rsh", "GCD": "gcd", "ModInverse": "modinv",
	"Neg": "neg", "Abs": "abs", "SetBit": "setbit", "Sqrt": "sqrt", "Rand": "rand",
}

var pureLib = map[string]string{
	"crypto/sha1.Sum": "sha1", "crypto/sha256.Sum256": "sha256", "crypto/sha512.Sum512": "sha512",
	"golang.org/x/crypto/pbkdf2.Key": "pbkdf2", "bytes.Equal": "bytesEqual",
	"(encoding/binary.littleEndian).Uint64": "le64", "(encoding/binary.littleEndian).Uint32": "le32",
	"(encoding/binary.bigEndian).Uint64": "be64", "(encoding/binary.bigEndian).Uint32": "be32",
}

func (e *TermEval) call(x *ssa.Call, vals map[ssa.Value]tval, cur tstore) tval {
	name := CalleeName(x.Common())
	raw := CallArgs(x.Common())
	args := make([]tval, len(raw))
	for i, a := range raw {
		args[i] = e.value(a, vals, cur)
	}
	rd := func(i int) *T { return e.read(cur, args[i]) }
	if e.WatchCalls[name] || (e.WatchAll && e.depth == 1) {
		var ts []*T
		for i := range args {
			ts = append(ts, rd(i))
		}
		e.Seen = append(e.Seen, WatchedCall{Name: name, Pos: x.Pos(), Args: ts, Fn: x.Parent()})
	}
	if s, ok := e.Summaries[name]; ok {
		if tv, ok := s(e, cur, args); ok {
			return tv
		}
	}
	switch name {
	case "builtin:append":
		o := &tobj{name: "append:" + x.Name(), isByte: true}
		a := rd(0)
		if a.Op == "sym" && a.Name == "nil" {
			a = &T{Op: "zeros", Args: []*T{Num(0)}}
		}
		if len(args) == 1 {
			cur[o] = a
		} else {
			cur[o] = simplify(&T{Op: "cat", Args: []*T{a, rd(1)}})
		}
		return tval{obj: o, lo: Num(0)}
	case "builtin:copy":
		if args[0].obj != nil {
			c, ok := cur[args[0].obj]
			if !ok {
				c = Sym(args[0].obj.name)
			}
			lo := args[0].lo
			if lo == nil {
				lo = Num(0)
			}
			src := rd(1)
			// the destination view may be shorter than the source
			if args[0].hi != nil && args[0].hi.IsNum() && lo.IsNum() {
				if n, ok := TermLen(src); ok && n > args[0].hi.N-lo.N {
					src = simplify(&T{Op: "slice", Args: []*T{src, Num(0), Num(args[0].hi.N - lo.N)}})
				}
			}
			cur[args[0].obj] = simplify(&T{Op: "put", Args: []*T{c, lo, src}})
		}
		return tval{t: Sym("n")}
	case "builtin:len":
		return tval{t: simplify(&T{Op: "len", Args: []*T{rd(0)}})}
	case "builtin:cap":
		return tval{t: Fn("cap", rd(0))}
	case "(encoding/binary.littleEndian).PutUint16", "(encoding/binary.littleEndian).PutUint32", "(encoding/binary.littleEndian).PutUint64",
		"(encoding/binary.bigEndian).PutUint16", "(encoding/binary.bigEndian).PutUint32", "(encoding/binary.bigEndian).PutUint64":
		// args: byte order value, buffer, number
		if len(args) == 3 && args[1].obj != nil {
			w := map[string]int64{"16": 2, "32": 4, "64": 8}[name[len(name)-2:]]
			op := "le" + name[len(name)-2:]
			if strings.Contains(name, "bigEndian") {
				op = "be" + name[len(name)-2:]
			}
			c, ok := cur[args[1].obj]
			if !ok {
				c = Sym(args[1].obj.name)
			}
			lo := args[1].lo
			if lo == nil {
				lo = Num(0)
			}
			cur[args[1].obj] = simplify(&T{Op: "put", Args: []*T{c, lo, {Op: "fixed", Args: []*T{{Op: op, Args: []*T{rd(2)}}, Num(w)}}}})
		}
		return tval{t: Sym("void")}
	case "math/big.NewInt":
		o := &tobj{name: "bigint:" + x.Name()}
		cur[o] = rd(0)
		return tval{obj: o}
	}
	if strings.HasPrefix(name, "(*math/big.Int).") && len(args) > 0 {
		m := strings.TrimPrefix(name, "(*math/big.Int).")
		z := args[0]
		switch m {
		case "SetBytes":
			if z.obj != nil {
				cur[z.obj] = Fn("int", rd(1))
			}
			return z
		case "Set":
			if z.obj != nil {
				cur[z.obj] = rd(1)
			}
			return z
		case "SetInt64", "SetUint64":
			if z.obj != nil {
				cur[z.obj] = rd(1)
			}
			return z
		case "Bytes":
			return tval{t: Fn("bytes", rd(0))}
		case "Cmp":
			return tval{t: Fn("cmp", rd(0), rd(1))}
		case "Sign", "BitLen", "Int64", "Uint64", "String", "IsInt64", "ProbablyPrime":
			return tval{t: Fn(strings.ToLower(m), rd(0))}
		case "FillBytes":
			if args[1].obj != nil {
				n, _ := TermLen(rd(1))
				cur[args[1].obj] = Fn("fixed", rd(0), Num(n))
			}
			return args[1]
		}
		if op, ok := bigSetters[m]; ok {
			var ts []*T
			for i := 1; i < len(args); i++ {
				ts = append(ts, rd(i))
			}
			// Exp with a nil modulus
			if z.obj != nil {
				cur[z.obj] = Fn(op, ts...)
			}
			return z
		}
	}
	if op, ok := pureLib[name]; ok {
		var ts []*T
		for i := range args {
			ts = append(ts, rd(i))
		}
		if op == "pbkdf2" && len(ts) == 5 {
			ts = ts[:4]
		}
		return tval{t: Fn(op, ts...)}
	}
	if f := StaticCallee(x.Common()); f != nil && e.Inline != nil && e.Inline(f) && len(f.Blocks) > 0 {
		if res, ok := e.evalFn(f, args, cur); ok {
			if len(res) == 1 {
				return res[0]
			}
			return tval{tuple: res, t: Sym("tuple")}
		}
	}
	// opaque
	var ts []*T
	for i := range args {
		ts = append(ts, rd(i))
	}
	short := name
	if i := strings.LastIndex(short, "/"); i >= 0 {
		short = short[i+1:]
	}
	// what the callee may write through its arguments is no longer known
	if k, ok := libMutators[name]; ok && k < len(args) && args[k].obj != nil {
		cur[args[k].obj] = Fn("written:"+short, ts...)
	} else if f := StaticCallee(x.Common()); f != nil && len(f.Blocks) > 0 && !strings.Contains(funcFullName(f), "math/big") {
		for i := range args {
			if args[i].obj != nil && i < len(f.Params) && WritesParam(f, i) {
				cur[args[i].obj] = Fn("written:"+short, ts...)
				e.note("argument " + strconv.Itoa(i) + " of " + short + " is written by a callee that is not evaluated")
			}
		}
	}
	mk := func(i int, t *T, typ types.Type) tval {
		nm := ""
		if e.OpaqueName != nil {
			nm = e.OpaqueName(x, i)
		}
		if nm != "" {
			t = Sym(nm)
		}
		if isRefType(typ) {
			o := &tobj{name: t.String(), isByte: isByteSlice(typ)}
			return tval{obj: o, lo: sliceLo(typ)}
		}
		return tval{t: t}
	}
	t := Fn("call:"+short, ts...)
	if sig := x.Common().Signature(); sig != nil && sig.Results().Len() > 1 {
		var tup []tval
		for i := 0; i < sig.Results().Len(); i++ {
			tup = append(tup, mk(i, Fn("res"+strconv.Itoa(i), t), sig.Results().At(i).Type()))
		}
		return tval{tuple: tup, t: t}
	}
	return mk(0, t, x.Type())
}

// ReadArg is for summaries: the term of an argument.
func (e *TermEval) ReadArg(st tstore, v tval) *T { return e.read(st, v) }

// VariadicParts lists the element terms of a variadic []T argument built by the caller (array literal + slice).
func (e *TermEval) VariadicParts(st tstore, v tval) ([]*T, bool) {
	if v.obj == nil {
		return nil, false
	}
	var idx []int
	for k := range v.obj.kids {
		if strings.HasPrefix(k, "[") {
			n, err := strconv.Atoi(strings.Trim(k, "[]"))
			if err != nil {
				return nil, false
			}
			idx = append(idx, n)
		}
	}
	sort.Ints(idx)
	var out []*T
	for i, n := range idx {
		if n != i {
			return nil, false
		}
		k := v.obj.kids["["+strconv.Itoa(n)+"]"]
		c, ok := st[k]
		if !ok {
			c = Sym(k.name)
		}
		out = append(out, c)
	}
	return out, len(out) > 0
}

// NewByteValue makes a fresh byte-string value for a summary.
func NewByteValue(st tstore, name string, t *T) tval {
	o := &tobj{name: name, isByte: true}
	st[o] = t
	return tval{obj: o, lo: Num(0)}
}

// SetContent overwrites the content of the object a value refers to (in-place helpers such as Xor(dst, src)).
func SetContent(st tstore, v tval, t *T) {
	if v.obj != nil {
		st[v.obj] = t
	}
}

// TermValue is the exported alias used by rules when writing summaries.
type TermValue = tval
type TermStore = tstore

func TermOf(t *T) tval { return tval{t: t} }
