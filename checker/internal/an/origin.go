package an

import (
	"go/token"
	"go/types"
	"sort"
	"strconv"
	"strings"

	"golang.org/x/tools/go/ssa"
)

// Tracer computes origin paths of SSA values (engine E4): a backward slice to call results, field loads,
// parameters, constants and allocations, through phis, slices, conversions, local-variable spills,
// struct-literal stores and trivial getters.
//
// Path grammar:  root step*
//
//	root := call:<callee>[#i] | invoke:<iface method> | param#<i> | const:<v> | nil | alloc:<T> | global:<name> | free:<name> | ?<kind>
//	step := .<Type>.<field> | [lo:hi] | [i] | .(T) | (x op y)
type Tracer struct {
	MaxDepth int
	KeepConv bool // keep numeric conversions as conv(T) steps
	// Getters: resolve calls to trivial getters (single return of a receiver field) to the field path.
	Getters       bool
	memo          map[ssa.Value][]string
	noAllocFields bool
}

func NewTracer() *Tracer { return &Tracer{MaxDepth: 14, Getters: true, memo: map[ssa.Value][]string{}} }

func (t *Tracer) Origins(v ssa.Value) []string {
	set := map[string]bool{}
	t.walk(v, "", 0, map[ssa.Value]bool{}, set)
	out := make([]string, 0, len(set))
	for k := range set {
		out = append(out, k)
	}
	sort.Strings(out)
	return out
}

// OriginString joins the origins for display.
func (t *Tracer) OriginString(v ssa.Value) string { return strings.Join(t.Origins(v), " | ") }

func typeName(T types.Type) string {
	return types.TypeString(T, func(p *types.Package) string { return p.Name() })
}

func (t *Tracer) walk(v ssa.Value, suffix string, depth int, seen map[ssa.Value]bool, out map[string]bool) {
	if depth > t.MaxDepth || len(out) > 64 {
		out["?deep"+suffix] = true
		return
	}
	emit := func(root string) { out[root+suffix] = true }
	switch x := v.(type) {
	case *ssa.Const:
		if x.Value == nil {
			emit("nil")
		} else {
			emit("const:" + x.Value.ExactString())
		}
	case *ssa.Parameter:
		for i, p := range x.Parent().Params {
			if p == x {
				emit("param#" + strconv.Itoa(i))
				return
			}
		}
		emit("param#?")
	case *ssa.FreeVar:
		emit("free:" + x.Name())
	case *ssa.Global:
		emit("global:" + x.Name())
	case *ssa.Function:
		emit("func:" + funcFullName(x))
	case *ssa.Call:
		name := CalleeName(x.Common())
		if idx, ok := transparentCalls[name]; ok && idx < len(x.Call.Args) {
			short := name[strings.LastIndex(name, ".")+1:]
			t.walk(x.Call.Args[idx], "."+short+"()"+suffix, depth+1, seen, out)
			return
		}
		if t.Getters {
			if f := StaticCallee(x.Common()); f != nil {
				if fld, ok := getterField(f); ok && len(x.Call.Args) > 0 {
					t.walk(x.Call.Args[0], "."+fld+suffix, depth+1, seen, out)
					return
				}
			}
		}
		emit("call:" + name)
	case *ssa.Extract:
		if c, ok := x.Tuple.(*ssa.Call); ok {
			emit("call:" + CalleeName(c.Common()) + "#" + strconv.Itoa(x.Index))
			return
		}
		if ta, ok := x.Tuple.(*ssa.TypeAssert); ok && x.Index == 0 {
			t.walk(ta.X, ".("+typeName(ta.AssertedType)+")"+suffix, depth+1, seen, out)
			return
		}
		if lk, ok := x.Tuple.(*ssa.Lookup); ok {
			if x.Index == 0 {
				t.walk(lk.X, "[key]"+suffix, depth+1, seen, out)
			} else {
				emit("?ok")
			}
			return
		}
		if _, ok := x.Tuple.(*ssa.Next); ok {
			emit("?range" + "#" + strconv.Itoa(x.Index))
			return
		}
		emit("?extract")
	case *ssa.TypeAssert:
		t.walk(x.X, ".("+typeName(x.AssertedType)+")"+suffix, depth+1, seen, out)
	case *ssa.Phi:
		if seen[x] {
			return
		}
		seen[x] = true
		for _, e := range x.Edges {
			t.walk(e, suffix, depth+1, seen, out)
		}
	case *ssa.ChangeType:
		t.walk(x.X, suffix, depth, seen, out)
	case *ssa.ChangeInterface:
		t.walk(x.X, suffix, depth, seen, out)
	case *ssa.MakeInterface:
		t.walk(x.X, suffix, depth, seen, out)
	case *ssa.Convert:
		if t.KeepConv {
			t.walk(x.X, "conv("+typeName(x.Type())+")"+suffix, depth+1, seen, out)
		} else {
			t.walk(x.X, suffix, depth+1, seen, out)
		}
	case *ssa.SliceToArrayPointer:
		t.walk(x.X, suffix, depth+1, seen, out)
	case *ssa.Slice:
		lo, hi := "", ""
		if x.Low != nil {
			lo = boundString(x.Low)
		}
		if x.High != nil {
			hi = boundString(x.High)
		}
		step := "[" + lo + ":" + hi + "]"
		if lo == "" && hi == "" {
			step = ""
		}
		t.walk(x.X, step+suffix, depth+1, seen, out)
	case *ssa.FieldAddr:
		t.walk(x.X, "."+FieldName(x.X.Type(), x.Field)+suffix, depth+1, seen, out)
	case *ssa.Field:
		t.walk(x.X, "."+FieldName(x.X.Type(), x.Field)+suffix, depth+1, seen, out)
	case *ssa.IndexAddr:
		t.walk(x.X, "["+boundString(x.Index)+"]"+suffix, depth+1, seen, out)
	case *ssa.Index:
		t.walk(x.X, "["+boundString(x.Index)+"]"+suffix, depth+1, seen, out)
	case *ssa.Lookup:
		t.walk(x.X, "[key]"+suffix, depth+1, seen, out)
	case *ssa.UnOp:
		switch x.Op {
		case token.MUL: // load
			t.load(x.X, suffix, depth+1, seen, out)
		case token.ARROW:
			t.walk(x.X, "<-"+suffix, depth+1, seen, out)
		default:
			t.walk(x.X, suffix, depth+1, seen, out)
		}
	case *ssa.BinOp:
		xs := NewTracerLike(t).Origins(x.X)
		ys := NewTracerLike(t).Origins(x.Y)
		if len(xs) > 3 {
			xs = append(xs[:3], "…")
		}
		if len(ys) > 3 {
			ys = append(ys[:3], "…")
		}
		emit("(" + strings.Join(xs, "|") + " " + x.Op.String() + " " + strings.Join(ys, "|") + ")")
	case *ssa.Alloc:
		emit("alloc:" + typeName(x.Type().Underlying().(*types.Pointer).Elem()))
	case *ssa.MakeSlice:
		emit("make:" + typeName(x.Type()))
	case *ssa.MakeMap:
		emit("make:" + typeName(x.Type()))
	case *ssa.MakeChan:
		emit("makechan:" + typeName(x.Type()))
	case *ssa.MakeClosure:
		if fn, ok := x.Fn.(*ssa.Function); ok {
			emit("closure:" + fn.Name())
		} else {
			emit("closure:?")
		}
	case *ssa.Builtin:
		emit("builtin:" + x.Name())
	default:
		emit("?" + strings.TrimPrefix(strings.TrimPrefix(typeOf(v), "*ssa."), "ssa."))
	}
}

// transparentCalls: library calls whose result is a representation of one argument; the origin continues
// through that argument with a ".Name()" step.
var transparentCalls = map[string]int{
	"(*math/big.Int).Bytes":    0,
	"(*math/big.Int).SetBytes": 1,
	"(*math/big.Int).Set":      1,
	"(*math/big.Int).SetInt64": 1,
	"math/big.NewInt":          0,
	// width-normalising helpers: the value is still "that integer, as bytes"
	"github.com/xelaj/mtproto/internal/math.BigIntFixedBytes": 0,
	"github.com/xelaj/go-dry.BigIntBytes":                     0,
	"github.com/xelaj/mtproto/telegram/internal/srp.pad256":   0,
	// textual renderings of a byte string: still "that value"
	"encoding/hex.EncodeToString": 0,
}

func typeOf(v any) string {
	switch v.(type) {
	case *ssa.Range:
		return "Range"
	case *ssa.Next:
		return "Next"
	case *ssa.Select:
		return "Select"
	}
	return "value"
}

// NewTracerLike copies options (fresh memo).
func NewTracerLike(t *Tracer) *Tracer {
	return &Tracer{MaxDepth: t.MaxDepth / 2, KeepConv: t.KeepConv, Getters: t.Getters, memo: map[ssa.Value][]string{}}
}

func boundString(v ssa.Value) string {
	if k, ok := ConstInt(v); ok {
		return strconv.FormatInt(k, 10)
	}
	return "_"
}

// load resolves *addr.
func (t *Tracer) load(addr ssa.Value, suffix string, depth int, seen map[ssa.Value]bool, out map[string]bool) {
	switch a := addr.(type) {
	case *ssa.Alloc:
		// local variable: union of the values stored into it
		if seen[a] {
			return
		}
		seen[a] = true
		n := 0
		for _, r := range refs(a) {
			if st, ok := r.(*ssa.Store); ok && st.Addr == a {
				t.walk(st.Val, suffix, depth+1, seen, out)
				n++
			}
		}
		if n == 0 {
			out["alloc:"+typeName(a.Type().Underlying().(*types.Pointer).Elem())+suffix] = true
		}
	case *ssa.FieldAddr:
		// field of a locally built struct: the stored value, when the struct is a local allocation
		if base, ok := a.X.(*ssa.Alloc); ok && !t.noAllocFields {
			n := 0
			for _, r := range refs(base) {
				fa, ok := r.(*ssa.FieldAddr)
				if !ok || fa.Field != a.Field {
					continue
				}
				for _, r2 := range refs(fa) {
					if st, ok := r2.(*ssa.Store); ok && st.Addr == fa {
						t.walk(st.Val, suffix, depth+1, seen, out)
						n++
					}
				}
			}
			if n > 0 {
				return
			}
		}
		t.walk(a.X, "."+FieldName(a.X.Type(), a.Field)+suffix, depth+1, seen, out)
	case *ssa.IndexAddr:
		t.walk(a.X, "["+boundString(a.Index)+"]"+suffix, depth+1, seen, out)
	case *ssa.Global:
		out["global:"+a.Name()+suffix] = true
	case *ssa.FreeVar:
		out["free:"+a.Name()+suffix] = true
	default:
		t.walk(addr, "*"+suffix, depth+1, seen, out)
	}
}

// getterField recognises `func (r *T) Get() X { return r.f }`.
func getterField(f *ssa.Function) (string, bool) {
	if len(f.Blocks) != 1 || len(f.Params) != 1 {
		return "", false
	}
	b := f.Blocks[0]
	if len(b.Instrs) != 3 {
		return "", false
	}
	fa, ok := b.Instrs[0].(*ssa.FieldAddr)
	if !ok || fa.X != f.Params[0] {
		return "", false
	}
	ld, ok := b.Instrs[1].(*ssa.UnOp)
	if !ok || ld.Op != token.MUL || ld.X != fa {
		return "", false
	}
	ret, ok := b.Instrs[2].(*ssa.Return)
	if !ok || len(ret.Results) != 1 || RetVal(ret, 0) != ld {
		return "", false
	}
	return FieldName(fa.X.Type(), fa.Field), true
}

// HasOrigin reports whether any origin path of v contains all the given substrings.
func (t *Tracer) HasOrigin(v ssa.Value, subs ...string) bool {
	for _, o := range t.Origins(v) {
		ok := true
		for _, s := range subs {
			if !strings.Contains(o, s) {
				ok = false
				break
			}
		}
		if ok {
			return true
		}
	}
	return false
}

// AllOrigins reports whether every origin path of v contains the substring.
func (t *Tracer) AllOrigins(v ssa.Value, sub string) bool {
	os := t.Origins(v)
	if len(os) == 0 {
		return false
	}
	for _, o := range os {
		if !strings.Contains(o, sub) {
			return false
		}
	}
	return true
}

// NewTracerNoAlloc is a tracer that does not resolve field loads of local allocations to the stored value
// (the path then names the field instead).
func NewTracerNoAlloc() *Tracer {
	t := NewTracer()
	t.noAllocFields = true
	return t
}
