package an

import (
	"go/token"
	"go/types"

	"golang.org/x/tools/go/ssa"
)

// EvalInt evaluates a closed integer expression tree (constants, + - * / % & | ^ << >>, integer conversions)
// whose leaves are resolved by atom.  It is used to tabulate small arithmetic expressions (padding amounts,
// loop bounds) over a finite set of residues — an abstract evaluation of the expression, not of the program.
func EvalInt(v ssa.Value, atom func(ssa.Value) (int64, bool)) (int64, bool) {
	return evalInt(v, atom, 0)
}

func evalInt(v ssa.Value, atom func(ssa.Value) (int64, bool), depth int) (int64, bool) {
	if depth > 32 {
		return 0, false
	}
	if k, ok := ConstInt(v); ok {
		return k, true
	}
	if a, ok := atom(v); ok {
		return a, true
	}
	switch x := v.(type) {
	case *ssa.Convert:
		a, ok := evalInt(x.X, atom, depth+1)
		return wrapTo(a, x.Type()), ok
	case *ssa.ChangeType:
		return evalInt(x.X, atom, depth+1)
	case *ssa.UnOp:
		if x.Op == token.SUB {
			a, ok := evalInt(x.X, atom, depth+1)
			return -a, ok
		}
	case *ssa.BinOp:
		a, ok1 := evalInt(x.X, atom, depth+1)
		b, ok2 := evalInt(x.Y, atom, depth+1)
		if !ok1 || !ok2 {
			return 0, false
		}
		switch x.Op {
		case token.ADD:
			return wrapTo(a+b, x.Type()), true
		case token.SUB:
			return wrapTo(a-b, x.Type()), true
		case token.MUL:
			return wrapTo(a*b, x.Type()), true
		case token.QUO:
			if b == 0 {
				return 0, false
			}
			if isUnsigned(x.Type()) {
				return wrapTo(int64(uint64(a)/uint64(b)), x.Type()), true
			}
			return a / b, true
		case token.REM:
			if b == 0 {
				return 0, false
			}
			if isUnsigned(x.Type()) {
				return wrapTo(int64(uint64(a)%uint64(b)), x.Type()), true
			}
			return a % b, true
		case token.AND:
			return a & b, true
		case token.OR:
			return a | b, true
		case token.XOR:
			return a ^ b, true
		case token.SHL:
			return a << uint(b), true
		case token.SHR:
			if isUnsigned(x.Type()) {
				return int64(uint64(a) >> uint(b)), true
			}
			return a >> uint(b), true
		case token.AND_NOT:
			return a &^ b, true
		}
	}
	return 0, false
}

// wrapTo truncates to the width of a fixed-size integer type (two's complement), so that int32 arithmetic on
// wire values overflows as it does in the program.  int / int64 are left alone (64-bit int assumed).
func wrapTo(v int64, t types.Type) int64 {
	b, ok := t.Underlying().(*types.Basic)
	if !ok {
		return v
	}
	switch b.Kind() {
	case types.Int8:
		return int64(int8(v))
	case types.Int16:
		return int64(int16(v))
	case types.Int32:
		return int64(int32(v))
	case types.Uint8:
		return int64(uint8(v))
	case types.Uint16:
		return int64(uint16(v))
	case types.Uint32:
		return int64(uint32(v))
	}
	return v
}

// EvalCond evaluates a comparison over EvalInt operands.
func EvalCond(v ssa.Value, atom func(ssa.Value) (int64, bool)) (bool, bool) {
	neg := false
	for {
		u, ok := v.(*ssa.UnOp)
		if !ok || u.Op != token.NOT {
			break
		}
		neg = !neg
		v = u.X
	}
	b, ok := v.(*ssa.BinOp)
	if !ok {
		return false, false
	}
	x, ok1 := EvalInt(b.X, atom)
	y, ok2 := EvalInt(b.Y, atom)
	if !ok1 || !ok2 {
		return false, false
	}
	var r bool
	if isUnsigned(b.X.Type()) && (x < 0 || y < 0) {
		// 64-bit unsigned operands with the top bit set are held as negative int64: order them as unsigned
		ux, uy := uint64(x), uint64(y)
		switch b.Op {
		case token.LSS:
			r = ux < uy
		case token.LEQ:
			r = ux <= uy
		case token.GTR:
			r = ux > uy
		case token.GEQ:
			r = ux >= uy
		case token.EQL:
			r = ux == uy
		case token.NEQ:
			r = ux != uy
		default:
			return false, false
		}
		return r != neg, true
	}
	switch b.Op {
	case token.LSS:
		r = x < y
	case token.LEQ:
		r = x <= y
	case token.GTR:
		r = x > y
	case token.GEQ:
		r = x >= y
	case token.EQL:
		r = x == y
	case token.NEQ:
		r = x != y
	default:
		return false, false
	}
	return r != neg, true
}

// IsLenOf reports whether v is len(x) for an x accepted by pred.
func IsLenOf(v ssa.Value, pred func(ssa.Value) bool) bool {
	c, ok := v.(*ssa.Call)
	if !ok || CalleeName(c.Common()) != "builtin:len" || len(c.Call.Args) != 1 {
		return false
	}
	return pred(c.Call.Args[0])
}

// CountedLoop describes `for i := init; cond(i); i = step(i)` recovered from the phi of the induction variable.
type CountedLoop struct {
	Phi  *ssa.Phi
	Init ssa.Value
	Step ssa.Value // expression over Phi
	Cond *ssa.If   // the loop test
	// BodySucc is the successor index of Cond taken into the loop body.
	BodySucc int
}

// LoopOf recovers the counted loop controlled by phi: one incoming value that does not depend on phi (init),
// one that does (step), and an If in the phi's block (or the block it jumps to) whose condition mentions phi.
func LoopOf(phi *ssa.Phi) (*CountedLoop, bool) {
	if len(phi.Edges) != 2 {
		return nil, false
	}
	dep := func(v ssa.Value) bool { return mentions(v, phi, 0) }
	l := &CountedLoop{Phi: phi}
	switch {
	case dep(phi.Edges[1]) && !dep(phi.Edges[0]):
		l.Init, l.Step = phi.Edges[0], phi.Edges[1]
	case dep(phi.Edges[0]) && !dep(phi.Edges[1]):
		l.Init, l.Step = phi.Edges[1], phi.Edges[0]
	default:
		return nil, false
	}
	b := phi.Block()
	if len(b.Instrs) == 0 {
		return nil, false
	}
	i, ok := b.Instrs[len(b.Instrs)-1].(*ssa.If)
	if !ok || !mentions(i.Cond, phi, 0) {
		return nil, false
	}
	l.Cond = i
	// the body is the successor from which the phi's block is reachable again (back edge)
	for s := 0; s < 2; s++ {
		if reaches(b.Succs[s], b, map[*ssa.BasicBlock]bool{}) {
			l.BodySucc = s
			return l, true
		}
	}
	return nil, false
}

// Mentions reports whether the expression tree of v contains target.
func Mentions(v, target ssa.Value) bool { return mentions(v, target, 0) }

func mentions(v, target ssa.Value, depth int) bool {
	if v == target {
		return true
	}
	if depth > 12 {
		return false
	}
	switch x := v.(type) {
	case *ssa.BinOp:
		return mentions(x.X, target, depth+1) || mentions(x.Y, target, depth+1)
	case *ssa.UnOp:
		return mentions(x.X, target, depth+1)
	case *ssa.Convert:
		return mentions(x.X, target, depth+1)
	case *ssa.Phi:
		if depth > 2 {
			return false
		}
		for _, e := range x.Edges {
			if mentions(e, target, depth+3) {
				return true
			}
		}
	}
	return false
}

func reaches(from, to *ssa.BasicBlock, seen map[*ssa.BasicBlock]bool) bool {
	if from == to {
		return true
	}
	if seen[from] {
		return false
	}
	seen[from] = true
	for _, s := range from.Succs {
		if reaches(s, to, seen) {
			return true
		}
	}
	return false
}

// Iterate runs the induction variable through the loop for given atoms (other than the phi), calling visit
// with each value of the induction variable for which the body executes.  Stops after max iterations.
func (l *CountedLoop) Iterate(atom func(ssa.Value) (int64, bool), max int, visit func(i int64)) bool {
	cur, ok := EvalInt(l.Init, atom)
	if !ok {
		return false
	}
	at := func(v ssa.Value) (int64, bool) {
		if v == ssa.Value(l.Phi) {
			return cur, true
		}
		return atom(v)
	}
	for n := 0; n < max; n++ {
		c, ok := EvalCond(l.Cond.Cond, at)
		if !ok {
			return false
		}
		if c != (l.BodySucc == 0) {
			return true
		}
		visit(cur)
		nx, ok := EvalInt(l.Step, at)
		if !ok {
			return false
		}
		cur = nx
	}
	return true
}

// IterateTo is Iterate for loops whose test is a chain of conditions (`i < n && i <= m`): from the header the
// evaluable branch conditions are followed block by block until the block of site is reached (the body executes
// for this value) or control leaves the chain (the loop ends).
func (l *CountedLoop) IterateTo(site *ssa.BasicBlock, atom func(ssa.Value) (int64, bool), max int, visit func(i int64)) bool {
	cur, ok := EvalInt(l.Init, atom)
	if !ok {
		return false
	}
	at := func(v ssa.Value) (int64, bool) {
		if v == ssa.Value(l.Phi) {
			return cur, true
		}
		return atom(v)
	}
	header := l.Phi.Block()
	for n := 0; n < max; n++ {
		b := header
		reached := false
		for steps := 0; steps < 16; steps++ {
			if b == site {
				reached = true
				break
			}
			if len(b.Instrs) == 0 {
				return false
			}
			switch last := b.Instrs[len(b.Instrs)-1].(type) {
			case *ssa.If:
				c, ok := EvalCond(last.Cond, at)
				if !ok {
					return false
				}
				if c {
					b = b.Succs[0]
				} else {
					b = b.Succs[1]
				}
			case *ssa.Jump:
				b = b.Succs[0]
			default:
				steps = 99
			}
			if b == header || !reaches(b, header, map[*ssa.BasicBlock]bool{}) {
				break // back at the header without passing the site, or out of the loop
			}
		}
		if !reached {
			return true
		}
		visit(cur)
		nx, ok := EvalInt(l.Step, at)
		if !ok {
			return false
		}
		cur = nx
	}
	return true
}

func isUnsigned(t types.Type) bool {
	b, ok := t.Underlying().(*types.Basic)
	return ok && b.Info()&types.IsUnsigned != 0
}
