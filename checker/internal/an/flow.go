package an

import (
	"go/token"
	"strconv"

	"golang.org/x/tools/go/ssa"
)

// Use is one terminal use of a traced value.
type Use struct {
	Instr  ssa.Instruction
	Kind   string // arg | slice | index | store | copy-src | copy-dst | return | len | cmp | range | other
	Callee string // for arg
	ArgIdx int
	Field  string // for store: Type.field
	Lo, Hi string // for slice: constant bounds or "_" / ""
	Via    []string
	// For copy-src: the destination value
	Dst ssa.Value
}

// Forward enumerates the uses of v, following value-preserving instructions (phi, conversions, interface
// boxing, local spills) and — for static callees accepted by descend — the corresponding parameter
// (depth-bounded).  Slices and index expressions are terminal (the caller decides whether they matter).
type Forward struct {
	Descend  func(*ssa.Function) bool
	MaxDepth int
	uses     []Use
	seen     map[ssa.Value]bool
}

func NewForward(descend func(*ssa.Function) bool) *Forward {
	return &Forward{Descend: descend, MaxDepth: 3, seen: map[ssa.Value]bool{}}
}

func (f *Forward) Uses(v ssa.Value) []Use {
	f.walk(v, 0, nil)
	return f.uses
}

func (f *Forward) emit(u Use, via []string) {
	u.Via = append([]string(nil), via...)
	f.uses = append(f.uses, u)
}

func (f *Forward) walk(v ssa.Value, depth int, via []string) {
	if f.seen[v] {
		return
	}
	f.seen[v] = true
	for _, r := range refs(v) {
		switch x := r.(type) {
		case *ssa.Phi:
			f.walk(x, depth, via)
		case *ssa.Extract:
			if x.Index == 0 {
				f.walk(x, depth, via)
			}
		case *ssa.ChangeType:
			f.walk(x, depth, via)
		case *ssa.MakeInterface:
			f.walk(x, depth, via)
		case *ssa.ChangeInterface:
			f.walk(x, depth, via)
		case *ssa.Convert:
			f.walk(x, depth, via)
		case *ssa.Slice:
			if x.X == v {
				lo, hi := "", ""
				if x.Low != nil {
					lo = boundString(x.Low)
				}
				if x.High != nil {
					hi = boundString(x.High)
				}
				if lo == "" && hi == "" {
					f.walk(x, depth, via)
				} else {
					f.emit(Use{Instr: x, Kind: "slice", Lo: lo, Hi: hi}, via)
				}
			}
		case *ssa.IndexAddr:
			if x.X == v {
				f.emit(Use{Instr: x, Kind: "index", Lo: boundString(x.Index)}, via)
			}
		case *ssa.Index:
			if x.X == v {
				f.emit(Use{Instr: x, Kind: "index", Lo: boundString(x.Index)}, via)
			}
		case *ssa.Store:
			if x.Val != v {
				continue
			}
			switch a := x.Addr.(type) {
			case *ssa.FieldAddr:
				f.emit(Use{Instr: x, Kind: "store", Field: FieldName(a.X.Type(), a.Field)}, via)
			case *ssa.Alloc:
				// local spill: follow the loads
				for _, r2 := range refs(a) {
					if ld, ok := r2.(*ssa.UnOp); ok && ld.Op == token.MUL && ld.X == a {
						f.walk(ld, depth, via)
					}
				}
			case *ssa.IndexAddr:
				f.emit(Use{Instr: x, Kind: "store", Field: "element"}, via)
			default:
				f.emit(Use{Instr: x, Kind: "store", Field: "?"}, via)
			}
		case *ssa.Return:
			f.emit(Use{Instr: x, Kind: "return"}, via)
		case *ssa.Range:
			f.emit(Use{Instr: x, Kind: "range"}, via)
		case *ssa.BinOp:
			f.emit(Use{Instr: x, Kind: "cmp"}, via)
		case ssa.CallInstruction:
			c := x.Common()
			args := CallArgs(c)
			name := CalleeName(c)
			for i, a := range args {
				if a != v {
					continue
				}
				if name == "builtin:len" || name == "builtin:cap" {
					f.emit(Use{Instr: x, Kind: "len"}, via)
					continue
				}
				if name == "builtin:copy" {
					if i == 1 {
						f.emit(Use{Instr: x, Kind: "copy-src", Dst: args[0]}, via)
					} else {
						f.emit(Use{Instr: x, Kind: "copy-dst"}, via)
					}
					continue
				}
				if name == "builtin:append" {
					// append(dst, src...) : the result contains the bytes
					if val, ok := x.(ssa.Value); ok {
						f.walk(val, depth, via)
					}
					continue
				}
				if callee := StaticCallee(c); callee != nil && f.Descend != nil && f.Descend(callee) && depth < f.MaxDepth && i < len(callee.Params) && len(callee.Blocks) > 0 {
					f.walk(callee.Params[i], depth+1, append(via, shortName(callee)+"#"+strconv.Itoa(i)))
					continue
				}
				f.emit(Use{Instr: x, Kind: "arg", Callee: name, ArgIdx: i}, via)
			}
		default:
			f.emit(Use{Instr: r, Kind: "other"}, via)
		}
	}
}

// RightAligned reports whether dst is buf[len(buf)-len(src):] (a width-preserving, left-padding copy).
func RightAligned(dst, src ssa.Value) bool {
	s, ok := dst.(*ssa.Slice)
	if !ok || s.Low == nil {
		return false
	}
	b, ok := s.Low.(*ssa.BinOp)
	if !ok || b.Op != token.SUB {
		return false
	}
	isLenOf := func(v ssa.Value, of ssa.Value) bool {
		c, ok := v.(*ssa.Call)
		if !ok || CalleeName(c.Common()) != "builtin:len" || len(c.Call.Args) != 1 {
			return false
		}
		return of == nil || c.Call.Args[0] == of
	}
	// high side: len(buf) or a constant; low side: len(src)
	if !isLenOf(b.Y, src) {
		return false
	}
	// width - len(src): the width is a constant, len(buf) or the helper's size parameter
	if _, isConst := ConstInt(b.X); isConst {
		return true
	}
	if _, isParam := b.X.(*ssa.Parameter); isParam {
		return true
	}
	return isLenOf(b.X, nil)
}
