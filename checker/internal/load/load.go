// Package load loads the three Go modules of /repo (type-checked syntax + go/ssa + call graph)
// from the current working tree.  Nothing of /repo is executed.
package load

import (
	"fmt"
	"go/ast"
	"go/token"
	"go/types"
	"os"
	"path/filepath"
	"sort"
	"strings"
	"time"

	"golang.org/x/tools/go/callgraph"
	"golang.org/x/tools/go/callgraph/cha"
	"golang.org/x/tools/go/callgraph/vta"
	"golang.org/x/tools/go/packages"
	"golang.org/x/tools/go/ssa"
	"golang.org/x/tools/go/ssa/ssautil"
)

const (
	RootMod  = "github.com/xelaj/mtproto"
	TLPkg    = RootMod + "/internal/encoding/tl"
	ObjPkg   = RootMod + "/internal/mtproto/objects"
	MsgPkg   = RootMod + "/internal/mtproto/messages"
	TgPkg    = RootMod + "/telegram"
	IgePkg   = RootMod + "/internal/aes_ige"
	MathPkg  = RootMod + "/internal/math"
	KeysPkg  = RootMod + "/internal/keys"
	UtilsPkg = RootMod + "/internal/utils"
	SessPkg  = RootMod + "/internal/session"
	TransPkg = RootMod + "/internal/transport"
	ModePkg  = RootMod + "/internal/mode"
	SrpPkg   = RootMod + "/telegram/internal/srp"
	DeepPkg  = RootMod + "/telegram/deeplinks"
	GenPkg   = RootMod + "/internal/cmd/tlgen/gen"
	ParsePkg = RootMod + "/internal/cmd/tlgen/tlparser"
	TlgenPkg = RootMod + "/internal/cmd/tlgen"
	DryPkg   = "github.com/xelaj/go-dry"
)

// Config is one build configuration.
type Config struct {
	GOOS, GOARCH string
}

func (c Config) String() string {
	if c.GOOS == "" {
		return "host"
	}
	return c.GOOS + "/" + c.GOARCH
}

// Program is everything the rules look at.
type Program struct {
	Repo    string
	Config  Config
	Fset    *token.FileSet
	Pkgs    map[string]*packages.Package // by import path (all modules, deps included)
	Initial []*packages.Package          // packages of the three modules
	SSA     *ssa.Program
	SSAPkgs map[string]*ssa.Package

	cgVTA, cgCHA *callgraph.Graph
	allFuncs     map[*ssa.Function]bool

	Stats  Stats
	Timing map[string]float64

	Overlay      map[string][]byte // files analysed in a rewritten form (normalise.go); nil when the tree is analysed as it is
	NormaliseLog []string
}

type Stats struct {
	ModulePkgs  map[string]int
	Packages    int
	RepoFuncs   int
	AllFuncs    int
	CGNodes     int
	CGEdges     int
	SourceFiles int
}

func env(cfg Config) []string {
	e := []string{}
	for _, kv := range os.Environ() {
		if strings.HasPrefix(kv, "GOWORK=") || strings.HasPrefix(kv, "GOFLAGS=") ||
			strings.HasPrefix(kv, "GOPROXY=") || strings.HasPrefix(kv, "GOSUMDB=") ||
			strings.HasPrefix(kv, "GOTOOLCHAIN=") || strings.HasPrefix(kv, "GOOS=") || strings.HasPrefix(kv, "GOARCH=") {
			continue
		}
		e = append(e, kv)
	}
	e = append(e, "GOFLAGS=-mod=mod", "GOPROXY=off", "GOSUMDB=off", "GOTOOLCHAIN=local", "GOWORK=off", "CGO_ENABLED=0")
	if cfg.GOOS != "" {
		e = append(e, "GOOS="+cfg.GOOS, "GOARCH="+cfg.GOARCH)
	}
	return e
}

// Modules of /repo, relative directories.
var Modules = []string{".", "internal/cmd/tlgen", "telegram/deeplinks"}

// Load loads and type-checks all three modules and builds SSA for everything including deps.
func Load(repo string, cfg Config) (*Program, error) { return LoadOverlay(repo, cfg, nil, true) }

// LoadOverlay is Load with some files replaced by in-memory contents (see normalise.go); withSSA=false stops
// after type-checking (BuildSSA finishes the job).
func LoadOverlay(repo string, cfg Config, overlay map[string][]byte, withSSA bool) (*Program, error) {
	t0 := time.Now()
	p := &Program{Repo: repo, Config: cfg, Fset: token.NewFileSet(), Pkgs: map[string]*packages.Package{},
		SSAPkgs: map[string]*ssa.Package{}, Timing: map[string]float64{}}
	p.Stats.ModulePkgs = map[string]int{}
	for _, m := range Modules {
		pc := &packages.Config{
			Mode:  packages.LoadAllSyntax,
			Dir:   filepath.Join(repo, m),
			Env:   env(cfg),
			Fset:  p.Fset,
			Tests: false,
		}
		if len(overlay) > 0 {
			pc.Overlay = overlay
		}
		pkgs, err := packages.Load(pc, "./...")
		if err != nil {
			return nil, fmt.Errorf("loading module %s: %w", m, err)
		}
		if len(pkgs) == 0 {
			return nil, fmt.Errorf("module %s: zero packages loaded", m)
		}
		var errs []string
		packages.Visit(pkgs, nil, func(pk *packages.Package) {
			for _, e := range pk.Errors {
				errs = append(errs, pk.PkgPath+": "+e.Error())
			}
		})
		if len(errs) > 0 {
			sort.Strings(errs)
			if len(errs) > 10 {
				errs = errs[:10]
			}
			return nil, fmt.Errorf("module %s does not type-check: %s", m, strings.Join(errs, "; "))
		}
		p.Stats.ModulePkgs[m] = len(pkgs)
		for _, pk := range pkgs {
			if _, dup := p.Pkgs[pk.PkgPath]; !dup {
				p.Initial = append(p.Initial, pk)
			}
		}
		packages.Visit(pkgs, nil, func(pk *packages.Package) {
			if _, ok := p.Pkgs[pk.PkgPath]; !ok {
				p.Pkgs[pk.PkgPath] = pk
			}
		})
	}
	p.Timing["load_s"] = time.Since(t0).Seconds()
	p.Overlay = overlay
	if withSSA {
		p.BuildSSA()
	}
	return p, nil
}

// BuildSSA builds go/ssa for the loaded packages (idempotent).
func (p *Program) BuildSSA() {
	if p.SSA != nil {
		return
	}
	t1 := time.Now()

	// One SSA program for all three modules.  Packages shared between modules were loaded once per
	// module; we keep the first instance (p.Pkgs) and build SSA from that closed set.
	var all []*packages.Package
	for _, pk := range p.Pkgs {
		all = append(all, pk)
	}
	sort.Slice(all, func(i, j int) bool { return all[i].PkgPath < all[j].PkgPath })
	// Re-link imports to the canonical instances so that types are shared where the instance differs.
	// (Different module loads produce distinct *types.Package for shared deps; rules never compare types
	// across modules, and the tlgen/deeplinks modules do not import the root module's packages under analysis
	// except tlgen -> none.)  We therefore build three SSA programs worth of packages in one ssa.Program
	// only for packages reachable from canonical instances.
	prog := ssa.NewProgram(p.Fset, ssa.InstantiateGenerics)
	created := map[*types.Package]bool{}
	var create func(pk *packages.Package)
	create = func(pk *packages.Package) {
		if pk.Types == nil || created[pk.Types] {
			return
		}
		created[pk.Types] = true
		for _, imp := range pk.Imports {
			create(imp)
		}
		sp := prog.CreatePackage(pk.Types, pk.Syntax, pk.TypesInfo, true)
		if _, ok := p.SSAPkgs[pk.PkgPath]; !ok {
			p.SSAPkgs[pk.PkgPath] = sp
		}
	}
	for _, pk := range all {
		create(pk)
	}
	// also packages that are imported via non-canonical instances
	for _, ip := range p.Initial {
		packages.Visit([]*packages.Package{ip}, nil, func(pk *packages.Package) { create(pk) })
	}
	prog.Build()
	p.SSA = prog
	p.Stats.Packages = len(p.Pkgs)
	p.Timing["ssa_s"] = time.Since(t1).Seconds()

	p.allFuncs = ssautil.AllFunctions(prog)
	p.Stats.AllFuncs = len(p.allFuncs)
	for f := range p.allFuncs {
		if p.InRepo(f) {
			p.Stats.RepoFuncs++
		}
	}
	for _, pk := range p.Initial {
		p.Stats.SourceFiles += len(pk.Syntax)
	}
}

// InRepo reports whether f is defined in one of the repository's modules.
func (p *Program) InRepo(f *ssa.Function) bool {
	pk := FuncPkgPath(f)
	return strings.HasPrefix(pk, RootMod)
}

// InRepoOrDry additionally accepts go-dry (read from the module cache).
func (p *Program) InRepoOrDry(f *ssa.Function) bool {
	pk := FuncPkgPath(f)
	return strings.HasPrefix(pk, RootMod) || strings.HasPrefix(pk, DryPkg)
}

func FuncPkgPath(f *ssa.Function) string {
	for f != nil && f.Parent() != nil {
		f = f.Parent()
	}
	if f == nil {
		return ""
	}
	if f.Pkg != nil {
		return f.Pkg.Pkg.Path()
	}
	if o := f.Object(); o != nil && o.Pkg() != nil {
		return o.Pkg().Path()
	}
	if f.Origin() != nil {
		return FuncPkgPath(f.Origin())
	}
	return ""
}

// AllFunctions returns every function of the program (deps included).
func (p *Program) AllFunctions() map[*ssa.Function]bool { return p.allFuncs }

// CHA call graph (lazy).
func (p *Program) CHA() *callgraph.Graph {
	if p.cgCHA == nil {
		t := time.Now()
		p.cgCHA = cha.CallGraph(p.SSA)
		p.Timing["cha_s"] = time.Since(t).Seconds()
	}
	return p.cgCHA
}

// VTA call graph seeded with CHA (lazy).
func (p *Program) VTA() *callgraph.Graph {
	if p.cgVTA == nil {
		c := p.CHA()
		t := time.Now()
		p.cgVTA = vta.CallGraph(p.allFuncs, c)
		p.Timing["vta_s"] = time.Since(t).Seconds()
		p.Stats.CGNodes = len(p.cgVTA.Nodes)
		n := 0
		for _, nd := range p.cgVTA.Nodes {
			n += len(nd.Out)
		}
		p.Stats.CGEdges = n
	}
	return p.cgVTA
}

// Pkg returns the canonical loaded package.
func (p *Program) Pkg(path string) *packages.Package { return p.Pkgs[path] }

// Func finds a package-level function or a method.  recv is "" for functions, "T" or "*T" for methods.
func (p *Program) Func(pkg, recv, name string) *ssa.Function {
	sp := p.SSAPkgs[pkg]
	if sp == nil {
		return nil
	}
	if recv == "" {
		return sp.Func(name)
	}
	ptr := strings.HasPrefix(recv, "*")
	tn := strings.TrimPrefix(recv, "*")
	t := sp.Type(tn)
	if t == nil {
		return nil
	}
	var T types.Type = t.Type()
	if ptr {
		T = types.NewPointer(T)
	}
	sel := p.SSA.MethodSets.MethodSet(T).Lookup(sp.Pkg, name)
	if sel == nil {
		return nil
	}
	return p.SSA.MethodValue(sel)
}

// Pos formats a position relative to the repo root.
func (p *Program) Pos(pos token.Pos) string {
	if !pos.IsValid() {
		return "-"
	}
	ps := p.Fset.Position(pos)
	rel, err := filepath.Rel(p.Repo, ps.Filename)
	if err != nil || strings.HasPrefix(rel, "..") {
		rel = ps.Filename
	}
	return fmt.Sprintf("%s:%d", rel, ps.Line)
}

// FuncDecl finds the AST declaration of an SSA function.
func (p *Program) FuncDecl(f *ssa.Function) *ast.FuncDecl {
	if f == nil {
		return nil
	}
	if d, ok := f.Syntax().(*ast.FuncDecl); ok {
		return d
	}
	return nil
}

// FuncName is a stable readable name: pkg-short.(Recv).Name
func FuncName(f *ssa.Function) string {
	if f == nil {
		return "<nil>"
	}
	s := f.String()
	s = strings.ReplaceAll(s, RootMod+"/", "")
	s = strings.ReplaceAll(s, RootMod, "mtproto")
	return s
}

// TypeOf returns the named type pkg.name.
func (p *Program) TypeOf(pkg, name string) (*types.Named, bool) {
	sp := p.SSAPkgs[pkg]
	if sp == nil {
		return nil, false
	}
	t := sp.Type(name)
	if t == nil {
		return nil, false
	}
	n, ok := t.Type().(*types.Named)
	return n, ok
}

// MethodsOf lists the methods (pointer receiver method set) of pkg.name, sorted by name.
func (p *Program) MethodsOf(pkg, name string) []*ssa.Function {
	n, ok := p.TypeOf(pkg, name)
	if !ok {
		return nil
	}
	ms := p.SSA.MethodSets.MethodSet(types.NewPointer(n))
	var out []*ssa.Function
	for i := 0; i < ms.Len(); i++ {
		if f := p.SSA.MethodValue(ms.At(i)); f != nil {
			out = append(out, f)
		}
	}
	sort.Slice(out, func(i, j int) bool { return out[i].Name() < out[j].Name() })
	return out
}
