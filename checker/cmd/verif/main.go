// Command verif decides the properties of /verif/properties.jsonl on /repo's current working tree by
// static analysis.  See /verif/DESIGN.md.
package main

import (
	"flag"
	"fmt"
	"os"
	"path/filepath"
	"runtime/debug"
	"sort"
	"strconv"
	"strings"
	"time"

	"verif/checker/internal/load"
	"verif/checker/internal/props"
	"verif/checker/internal/rep"
)

func main() {
	if len(os.Args) < 2 {
		usage()
	}
	switch os.Args[1] {
	case "check":
		os.Exit(check(os.Args[2:]))
	case "dbg":
		os.Exit(dbgCallees(os.Args[2:]))
	case "dump":
		os.Exit(dump(os.Args[2:]))
	case "terms":
		os.Exit(terms(os.Args[2:]))
	case "fieldreads":
		repo := "/repo"
		if len(os.Args) > 2 {
			repo = os.Args[2]
		}
		p, err := load.Load(repo, load.Config{})
		if err != nil {
			fmt.Fprintln(os.Stderr, err)
			os.Exit(2)
		}
		for _, l := range props.FieldReadsDebug(p) {
			fmt.Println(l)
		}
	case "funcs":
		repo := "/repo"
		if len(os.Args) > 2 {
			repo = os.Args[2]
		}
		p, err := load.LoadOverlay(repo, load.Config{}, nil, false)
		if err != nil {
			fmt.Fprintln(os.Stderr, err)
			os.Exit(2)
		}
		if len(os.Args) <= 3 {
			fmt.Println("# functions and methods declared in the tree the rule instances were confirmed on (verif funcs); see checker/internal/load/normalise.go")
		}
		if len(os.Args) > 3 && os.Args[3] == "calls" {
			for _, l := range load.DeclaredCalls(p.Initial) {
				fmt.Println(l)
			}
			break
		}
		for _, l := range load.DeclaredFuncs(p.Initial) {
			fmt.Println(l)
		}
	case "list":
		for _, id := range props.IDs() {
			fmt.Println(id)
		}
	default:
		usage()
	}
}

func usage() {
	fmt.Fprintln(os.Stderr, "usage: verif check -property C07[,C08…] -tier quick|thorough -repo /repo -verif /verif")
	os.Exit(2)
}

func check(args []string) int {
	fs := flag.NewFlagSet("check", flag.ExitOnError)
	propList := fs.String("property", "", "property ids, comma separated, or 'all'")
	tier := fs.String("tier", "quick", "quick | thorough")
	repo := fs.String("repo", "/repo", "repository root")
	verif := fs.String("verif", "/verif", "verif root (evidence/, known_findings.json)")
	noEvidence := fs.Bool("no-evidence", false, "do not write evidence files (self-test on scratch copies)")
	verbose := fs.Bool("v", false, "print every obligation")
	fs.Parse(args)
	if *tier != "quick" && *tier != "thorough" {
		usage()
	}
	seed, _ := strconv.Atoi(os.Getenv("VERIF_SEED"))
	ids := strings.Split(*propList, ",")
	if *propList == "all" || *propList == "" {
		ids = props.IDs()
	}
	known, err := rep.LoadKnown(filepath.Join(*verif, "known_findings.json"))
	if err != nil {
		fmt.Fprintln(os.Stderr, "known_findings.json:", err)
		return 2
	}

	configs := []load.Config{{}}
	if *tier == "thorough" {
		configs = append(configs, load.Config{GOOS: "windows", GOARCH: "amd64"}, load.Config{GOOS: "darwin", GOARCH: "arm64"})
	}
	exit := 0
	type perProp struct {
		report  *rep.Report
		out     rep.Outcome
		wall    float64
		configs []string
		stats   map[string]any
	}
	results := map[string]*perProp{}
	for ci, cfg := range configs {
		t0 := time.Now()
		prog, lerr := load.LoadOverlay(*repo, cfg, nil, false)
		if lerr == nil {
			// helpers the reference tree does not have are inlined into their callers before the rules run
			// (load/normalise.go); on the reference tree itself nothing is rewritten
			ref, rerr := load.ReadReference(filepath.Join(*verif, "reference_funcs.txt"))
			if rerr != nil {
				lerr = fmt.Errorf("reference function list: %w", rerr)
			} else {
				var nlog []string
				load.RefEdges = nil
				if edges, eerr := load.ReadReference(filepath.Join(*verif, "reference_calls.txt")); eerr == nil && len(edges) > 0 {
					load.RefEdges = edges
				}
				prog, nlog, lerr = load.Normalise(*repo, cfg, ref, prog)
				for _, l := range nlog {
					fmt.Println("NORMALISED " + cfg.String() + ": " + l)
				}
			}
		}
		loadS := time.Since(t0).Seconds()
		for _, id := range ids {
			tp := time.Now()
			r := rep.NewReport(id)
			if lerr != nil {
				r.Undecide("LOAD", "program", "", "the tree could not be loaded/type-checked ("+cfg.String()+"): "+lerr.Error())
			} else {
				runProp(prog, id, *tier, *verif, r)
			}
			out := r.Finish(known)
			pp := results[id]
			if pp == nil {
				pp = &perProp{report: r, out: out, stats: map[string]any{}}
				results[id] = pp
			} else {
				// additional configuration: merge new violations (keys prefixed by the configuration)
				for _, v := range out.Violations {
					v.Key = v.Key + "@" + cfg.String()
					pp.out.Violations = append(pp.out.Violations, v)
				}
			}
			pp.wall += time.Since(tp).Seconds() + loadS/float64(len(ids))
			pp.configs = append(pp.configs, cfg.String())
			if ci == 0 && lerr == nil {
				pp.stats["packages_loaded"] = prog.Stats.Packages
				pp.stats["module_packages"] = prog.Stats.ModulePkgs
				pp.stats["repo_functions"] = prog.Stats.RepoFuncs
				pp.stats["all_functions"] = prog.Stats.AllFuncs
				pp.stats["callgraph_nodes"] = prog.Stats.CGNodes
				pp.stats["callgraph_edges"] = prog.Stats.CGEdges
				pp.stats["timing"] = prog.Timing
				pp.stats["normalised"] = prog.NormaliseLog
			}
		}
		prog = nil
		debug.FreeOSMemory()
	}
	sort.Strings(ids)
	for _, id := range ids {
		pp := results[id]
		r, out := pp.report, pp.out
		if *verbose {
			for _, o := range r.Obls {
				fmt.Printf("%-9s %-10s %s  %s  %s\n", o.Verdict, o.Rule, o.Key, o.Site, rep.Short(o.Detail, 160))
			}
		}
		for _, ri := range r.Rules {
			fmt.Printf("rule %-8s instances=%-5d floor=%-4d %s\n", ri.ID, ri.Count, ri.Floor, rep.Short(ri.Text, 110))
		}
		for _, o := range out.Known {
			fmt.Printf("KNOWN-FINDING: property=%s %s — %s [%s %s]\n", id, out.KnownWhat[o.Key], rep.Short(o.Detail, 200), o.Key, o.Site)
		}
		pp.stats["configurations"] = pp.configs
		ev := r.Evidence(*tier, seed, pp.wall, out, pp.stats)
		if !*noEvidence {
			if err := rep.WriteJSON(filepath.Join(*verif, "evidence", id+".json"), ev); err != nil {
				fmt.Fprintln(os.Stderr, "writing evidence:", err)
				return 2
			}
		}
		if len(out.Violations) > 0 {
			for _, v := range out.Violations {
				fmt.Printf("%s %s %s %s: %s\n", v.Verdict, v.Rule, v.Key, v.Site, rep.Short(v.Detail, 300))
			}
			replay := filepath.Join(*verif, "replay", id+".json")
			if *noEvidence {
				replay = filepath.Join(os.TempDir(), "verif-replay-"+id+".json")
			}
			_ = rep.WriteReplay(replay, id, *tier, out.Violations, r.Rules)
			fmt.Printf("VIOLATION property=%s replay=%s\n", id, replay)
			exit = 1
		} else {
			fmt.Printf("OK property=%s obligations=%d known_findings=%d\n", id, len(r.Obls), len(out.Known))
		}
	}
	return exit
}

func runProp(prog *load.Program, id, tier, verif string, r *rep.Report) {
	defer func() {
		if e := recover(); e != nil {
			r.Undecide("PANIC", "checker", "", fmt.Sprintf("checker panicked: %v\n%s", e, rep.Short(string(debug.Stack()), 1500)))
		}
	}()
	f := props.Get(id)
	if f == nil {
		r.Undecide("NOPROP", "checker", "", "no rules implemented for "+id)
		return
	}
	f(&props.Ctx{P: prog, R: r, Tier: tier, Verif: verif})
}
