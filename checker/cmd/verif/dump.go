package main

import (
	"fmt"
	"os"
	"strings"

	"verif/checker/internal/an"
	"verif/checker/internal/load"
	"verif/checker/internal/props"

	"golang.org/x/tools/go/ssa"
)

// dump prints, for one function, the classified branch conditions with operand origins and the call sites.
// Debugging aid for writing rules; not used by any check.
func dump(args []string) int {
	if len(args) < 3 {
		fmt.Fprintln(os.Stderr, "usage: verif dump <pkg> <recv|-> <name> [repo]")
		return 2
	}
	repo := "/repo"
	if len(args) > 3 {
		repo = args[3]
	}
	p, err := load.Load(repo, load.Config{})
	if err != nil {
		fmt.Fprintln(os.Stderr, err)
		return 2
	}
	pkg := args[0]
	if pkg == "." {
		pkg = load.RootMod
	} else if !strings.Contains(pkg, ".") {
		pkg = load.RootMod + "/" + pkg
	}
	recv := args[1]
	if recv == "-" {
		recv = ""
	}
	fn := p.Func(pkg, recv, args[2])
	if fn == nil {
		fmt.Fprintln(os.Stderr, "function not found")
		return 2
	}
	for _, f := range an.WithAnon(fn) {
		dumpFn(p, f)
	}
	return 0
}

func dumpFn(p *load.Program, fn *ssa.Function) {
	tr := an.NewTracer()
	fmt.Println("== ", fn.String(), " blocks:", len(fn.Blocks))
	for _, i := range an.Ifs(fn) {
		c, ok := an.Classify(i)
		if !ok {
			fmt.Printf("  IF b%d UNCLASSIFIED %s\n", i.Block().Index, i.Cond)
			continue
		}
		fmt.Printf("  IF b%d %s kind=%s rel=%s trueIsEq=%v -> t:b%d f:b%d\n", i.Block().Index, p.Pos(i.Cond.Pos()), c.Kind, c.Rel, c.TrueIsEqual, i.Block().Succs[0].Index, i.Block().Succs[1].Index)
		if c.X != nil {
			fmt.Printf("       X: %s\n", tr.OriginString(c.X))
		}
		if c.Y != nil {
			fmt.Printf("       Y: %s\n", tr.OriginString(c.Y))
		}
		if os.Getenv("DUMP_DEPS") != "" && c.X != nil {
			d := an.NewDeps(p.InRepoOrDry).Of(c.X)
			fmt.Printf("       Xdeps: %v\n", an.SortedKeys(d.Roots))
			if c.Y != nil {
				fmt.Printf("       Ydeps: %v\n", an.SortedKeys(an.NewDeps(p.InRepoOrDry).Of(c.Y).Roots))
			}
		}
	}
	for _, c := range an.Calls(fn) {
		var as []string
		for _, a := range an.CallArgs(c.Common) {
			as = append(as, tr.OriginString(a))
		}
		fmt.Printf("  CALL b%d %s %s(%s)\n", c.Block.Index, p.Pos(c.Pos()), c.Name, strings.Join(as, " ; "))
	}
	for _, b := range fn.Blocks {
		for _, in := range b.Instrs {
			switch x := in.(type) {
			case *ssa.Store:
				fmt.Printf("  STORE b%d %s  %s <- %s\n", b.Index, p.Pos(x.Pos()), tr.OriginString(x.Addr), tr.OriginString(x.Val))
			case *ssa.Return:
				var rs []string
				for _, r := range x.Results {
					rs = append(rs, tr.OriginString(r))
				}
				fmt.Printf("  RET b%d %s  %s\n", b.Index, p.Pos(x.Pos()), strings.Join(rs, " ; "))
			case *ssa.Panic:
				fmt.Printf("  PANIC b%d %s %s\n", b.Index, p.Pos(x.Pos()), tr.OriginString(x.X))
			}
		}
	}
}

// terms prints the symbolic terms extracted for one function (engine E10).  Debugging aid.
//   verif terms <pkg> <recv|-> <name> [repo] [paramIndex=true|false|N ...]
func terms(args []string) int {
	if len(args) < 3 {
		fmt.Fprintln(os.Stderr, "usage: verif terms <pkg> <recv|-> <name> [repo] [i=value…]")
		return 2
	}
	repo := "/repo"
	force := map[int]*an.T{}
	for _, a := range args[3:] {
		if i := strings.Index(a, "="); i > 0 {
			var idx int
			fmt.Sscanf(a[:i], "%d", &idx)
			v := a[i+1:]
			if v == "true" || v == "false" {
				force[idx] = an.Sym(v)
			} else {
				var n int64
				fmt.Sscanf(v, "%d", &n)
				force[idx] = an.Num(n)
			}
			continue
		}
		repo = a
	}
	p, err := load.Load(repo, load.Config{})
	if err != nil {
		fmt.Fprintln(os.Stderr, err)
		return 2
	}
	pkg := args[0]
	if pkg == "." {
		pkg = load.RootMod
	} else if !strings.Contains(pkg, ".") {
		pkg = load.RootMod + "/" + pkg
	}
	recv := args[1]
	if recv == "-" {
		recv = ""
	}
	fn := p.Func(pkg, recv, args[2])
	if fn == nil {
		fmt.Fprintln(os.Stderr, "function not found")
		return 2
	}
	for _, l := range props.TermsDebug(p, fn, force) {
		fmt.Println(l)
	}
	return 0
}
