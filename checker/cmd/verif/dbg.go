package main

import (
	"fmt"

	"verif/checker/internal/an"
	"verif/checker/internal/load"
)

func dbgCallees(args []string) int {
	p, err := load.Load("/repo", load.Config{})
	if err != nil {
		fmt.Println(err)
		return 2
	}
	g := an.NewGraph(p.VTA(), p.CHA(), load.TLPkg)
	fn := p.Func(load.MsgPkg, "", "serializePacket")
	for _, cs := range an.Calls(fn) {
		if cs.Common.IsInvoke() {
			fmt.Println(cs.Name)
			for _, c := range g.CalleesAt(fn, cs.Instr) {
				fmt.Println("   ->", c.String(), c.Synthetic)
			}
		}
	}
	return 0
}
